package main

// C18, round 4b: LEAF COVERAGE of the static catalogue.  A table-driven search for a schema + input that reaches each
// finalising call of Gen/IssueSites.lean: constructor family x modifier variant x input pool (plus hand-written cells for the
// typed entry points: StrictParse, Implement, …).  Every cell is parsed once with a recording global error map that captures,
// for EVERY issue whose message is resolved, the caller of FinalizeIssue and the first frame outside internal/issues
// (runtime.Callers) — the same dynamic link as reach.txt, but for all issues of the parse, not only the leaf's.
//
//	reach2.txt   <cell> \t <fin file:line> \t <outer file:line> \t <code>
//
// For the first cell that reaches an (outer, fin) pair the message sources are then configured one at a time
// (s = the constructor's message when the family takes one, p, g, l) and the winner is observed AT THAT ISSUE (same code,
// same path as the captured one):
//
//	op  c18 reach <outer> <fin> <cell> <applicable> <source>        impl: winner (s p g l d)
//
// vlib/c18.py maps the frames to static rows (file + line range); the Lean driver predicts the winner from the rows'
// `drops`, the property demands the configured source.

import (
	"fmt"
	"math/big"
	"os"
	"reflect"
	"runtime"
	"sort"
	"strings"
	"time"

	"github.com/kaptinlin/gozod"
	"github.com/kaptinlin/gozod/coerce"
	"github.com/kaptinlin/gozod/core"
	"github.com/kaptinlin/gozod/types"

	"verifharness/hx"
)

type rfamily struct {
	id    string
	sch   bool // the constructor takes a message
	build func(s []any) any
}

type rstruct struct {
	A string `json:"a"`
	B int    `json:"b"`
}

func rfamilies() []rfamily {
	str := func() core.ZodSchema { return gozod.String() }
	fams := []rfamily{
		{"String", true, func(s []any) any { return gozod.String(s...) }},
		{"StringPtr", true, func(s []any) any { return gozod.StringPtr(s...) }},
		{"Int", true, func(s []any) any { return gozod.Int(s...) }},
		{"IntPtr", true, func(s []any) any { return gozod.IntPtr(s...) }},
		{"Int8", true, func(s []any) any { return gozod.Int8(s...) }},
		{"Uint", true, func(s []any) any { return gozod.Uint(s...) }},
		{"Float64", true, func(s []any) any { return gozod.Float64(s...) }},
		{"Bool", true, func(s []any) any { return gozod.Bool(s...) }},
		{"BoolPtr", true, func(s []any) any { return gozod.BoolPtr(s...) }},
		{"BigInt", true, func(s []any) any { return gozod.BigInt(s...) }},
		{"BigIntPtr", true, func(s []any) any { return gozod.BigIntPtr(s...) }},
		{"Complex128", true, func(s []any) any { return types.Complex128(s...) }},
		{"Time", true, func(s []any) any { return gozod.Time(s...) }},
		{"Any", true, func(s []any) any { return gozod.Any(s...) }},
		{"Unknown", true, func(s []any) any { return gozod.Unknown(s...) }},
		{"Never", true, func(s []any) any { return gozod.Never(s...) }},
		{"Nil", true, func(s []any) any { return gozod.Nil(s...) }},
		{"StringBool", true, func(s []any) any { return types.StringBool(s...) }},
		{"File", true, func(s []any) any { return types.File(s...) }},
		{"Function", true, func(s []any) any { return types.Function(s...) }},
		{"Email", true, func(s []any) any { return gozod.Email(s...) }},
		{"IPv4", true, func(s []any) any { return gozod.IPv4(s...) }},
		{"URL", true, func(s []any) any { return gozod.URL(s...) }},
		{"UUID", true, func(s []any) any { return gozod.UUID(s...) }},
		{"IsoDate", true, func(s []any) any { return gozod.IsoDate(s...) }},
		{"Enum", false, func(s []any) any { return gozod.Enum("a", "b") }},
		{"EnumInt", false, func(s []any) any { return gozod.Enum(1, 2) }},
		{"Literal", true, func(s []any) any { return gozod.Literal("a", s...) }},
		{"LiteralOf", true, func(s []any) any { return gozod.LiteralOf([]any{"a", 1}, s...) }},
		{"Object", true, func(s []any) any { return gozod.Object(core.ObjectSchema{"a": str()}, s...) }},
		{"ObjectPtr", true, func(s []any) any { return gozod.ObjectPtr(core.ObjectSchema{"a": str()}, s...) }},
		{"StrictObject", true, func(s []any) any { return gozod.StrictObject(core.ObjectSchema{"a": str()}, s...) }},
		{"ObjectWithCatchall", true, func(s []any) any { return gozod.Object(core.ObjectSchema{"a": str()}, s...).WithCatchall(gozod.Int()) }},
		{"ObjectProperty", true, func(s []any) any {
			return gozod.Object(core.ObjectSchema{"a": gozod.Any()}, s...).Property("a", gozod.String().Min(5))
		}},
		{"Struct", true, func(s []any) any { return gozod.Struct[rstruct](s...) }},
		{"StructPtr", true, func(s []any) any { return gozod.StructPtr[rstruct](s...) }},
		{"StructShape", true, func(s []any) any {
			return types.Struct[rstruct](join([]any{core.StructSchema{"a": gozod.String().Min(2), "b": gozod.Int()}}, s)...)
		}},
		{"Slice", true, func(s []any) any { return gozod.Slice[any](str(), s...) }},
		{"SliceString", true, func(s []any) any { return gozod.Slice[string](str(), s...) }},
		{"SlicePtr", true, func(s []any) any { return gozod.SlicePtr[string](str(), s...) }},
		{"Array", true, func(s []any) any { return gozod.Array(join([]any{str()}, s)...) }},
		{"ArrayRest", true, func(s []any) any { return gozod.Array(join([]any{[]any{str()}, gozod.Int()}, s)...) }},
		{"ArrayPtr", true, func(s []any) any { return types.ArrayPtr(join([]any{str()}, s)...) }},
		{"Tuple", false, func(s []any) any { return gozod.Tuple(str(), str()) }},
		{"TupleRest", true, func(s []any) any { return types.TupleWithRest([]core.ZodSchema{str()}, gozod.Int(), s...) }},
		{"Record", true, func(s []any) any { return types.Record(str(), str(), s...) }},
		{"RecordTyped", true, func(s []any) any { return gozod.Record[string, string](str(), gozod.String(), s...) }},
		{"RecordEnumKey", true, func(s []any) any { return types.Record(gozod.Enum("a", "b"), str(), s...) }},
		{"RecordIntKey", true, func(s []any) any { return types.Record(gozod.Int(), str(), s...) }},
		{"Map", true, func(s []any) any { return gozod.Map(str(), str(), s...) }},
		{"MapPtr", true, func(s []any) any { return types.MapPtr(str(), str(), s...) }},
		{"Set", true, func(s []any) any { return gozod.Set[string](str(), s...) }},
		{"SetPtr", true, func(s []any) any { return gozod.SetPtr[string](str(), s...) }},
		{"Union", true, func(s []any) any { return gozod.Union([]any{str(), gozod.Int()}, s...) }},
		{"UnionEmpty", true, func(s []any) any { return gozod.Union([]any{}, s...) }},
		{"Xor", true, func(s []any) any { return types.Xor([]any{str(), gozod.Int()}, s...) }},
		{"XorBoth", true, func(s []any) any { return types.Xor([]any{str(), gozod.String().Min(1)}, s...) }},
		{"XorEmpty", true, func(s []any) any { return types.Xor([]any{}, s...) }},
		{"DiscriminatedUnion", true, func(s []any) any {
			return gozod.DiscriminatedUnion("t", []any{
				gozod.Object(core.ObjectSchema{"t": gozod.Literal("a")}),
				gozod.Object(core.ObjectSchema{"t": gozod.Literal("b")})}, s...)
		}},
		{"DiscriminatedUnionBad", true, func(s []any) any {
			return gozod.DiscriminatedUnion("t", []any{gozod.Object(core.ObjectSchema{"x": gozod.Literal("a")})}, s...)
		}},
		{"Intersection", true, func(s []any) any {
			return types.Intersection(gozod.Object(core.ObjectSchema{"a": str()}), gozod.Object(core.ObjectSchema{"b": gozod.Int()}), s...)
		}},
		{"IntersectionClash", true, func(s []any) any {
			return types.Intersection(
				gozod.Any().Transform(func(v any, _ *core.RefinementContext) (any, error) { return 1, nil }),
				gozod.Any().Transform(func(v any, _ *core.RefinementContext) (any, error) { return "x", nil }), s...)
		}},
		{"IntersectionMaps", true, func(s []any) any {
			return types.Intersection(
				gozod.Any().Transform(func(v any, _ *core.RefinementContext) (any, error) { return map[string]any{"k": 1}, nil }),
				gozod.Any().Transform(func(v any, _ *core.RefinementContext) (any, error) { return map[string]any{"k": 2}, nil }), s...)
		}},
		{"IntersectionSlices", true, func(s []any) any {
			return types.Intersection(
				gozod.Any().Transform(func(v any, _ *core.RefinementContext) (any, error) { return []any{1}, nil }),
				gozod.Any().Transform(func(v any, _ *core.RefinementContext) (any, error) { return []any{2}, nil }), s...)
		}},
		{"LazyAny", true, func(s []any) any { return types.LazyAny(func() any { return str() }, s...) }},
		{"LazyNil", true, func(s []any) any { return types.LazyAny(func() any { return nil }, s...) }},
		{"LazyTyped", true, func(s []any) any {
			return gozod.Lazy(func() *types.ZodString[string] { return gozod.String() }, s...)
		}},
		{"CoerceInt", true, func(s []any) any { return coerce.Int(s...) }},
		{"CoerceBool", true, func(s []any) any { return coerce.Bool(s...) }},
		{"CoerceFloat64", true, func(s []any) any { return coerce.Float64(s...) }},
		{"CoerceBigInt", true, func(s []any) any { return coerce.BigInt(s...) }},
		{"CoerceTime", true, func(s []any) any { return coerce.Time(s...) }},
		{"CoerceString", true, func(s []any) any { return coerce.String(s...) }},
		{"DiscriminatedUnionPrefaultBad", true, func(s []any) any {
			return gozod.DiscriminatedUnion("t", []any{gozod.Object(core.ObjectSchema{"t": gozod.Literal("a")})}, s...).Prefault(map[string]any{"t": "zz"})
		}},
		{"DiscriminatedUnionPrefaultNotObject", true, func(s []any) any {
			return gozod.DiscriminatedUnion("t", []any{gozod.Object(core.ObjectSchema{"t": gozod.Literal("a")})}, s...).PrefaultFunc(func() any { return "not an object" })
		}},
		{"IntersectionDiff", true, func(s []any) any {
			return types.Intersection(
				gozod.Any().Transform(func(v any, _ *core.RefinementContext) (any, error) { return 1, nil }),
				gozod.Any().Transform(func(v any, _ *core.RefinementContext) (any, error) { return 2, nil }), s...)
		}},
		{"RecordFloatKey", true, func(s []any) any { return types.Record(gozod.Float64(), str(), s...) }},
		{"StringPrefault", true, func(s []any) any { return gozod.String(s...).Prefault("abc") }},
		{"StringPtrPrefault", true, func(s []any) any { return gozod.StringPtr(s...).Prefault("abc") }},
		{"IntPrefault", true, func(s []any) any { return gozod.Int(s...).Prefault(1) }},
		{"ObjectPrefault", true, func(s []any) any {
			return gozod.Object(core.ObjectSchema{"a": str()}, s...).Prefault(map[string]any{"a": "x"})
		}},
		{"SlicePrefault", true, func(s []any) any { return gozod.Slice[any](str(), s...).Prefault([]any{"a"}) }},
		{"StringPrefaultBad", true, func(s []any) any { return gozod.String(s...).Min(5).Prefault("a") }},
		{"StringMin", true, func(s []any) any { return gozod.String(s...).Min(5) }},
		{"IntMin", true, func(s []any) any { return gozod.Int(s...).Min(500) }},
		{"SliceMin", true, func(s []any) any { return gozod.Slice[any](gozod.Any(), s...).Min(5) }},
		{"MapMin", true, func(s []any) any { return gozod.Map(gozod.Any(), gozod.Any(), s...).Min(5) }},
		{"MapBadKey", true, func(s []any) any { return gozod.Map(gozod.String().Min(5), gozod.Any(), s...) }},
		{"MapOptionalNonOptional", true, func(s []any) any { return gozod.Map(str(), str(), s...).Optional().NonOptional() }},
		{"SetMin", true, func(s []any) any { return gozod.Set[string](gozod.String(), s...).Min(5) }},
		{"SetAnyMin", true, func(s []any) any { return gozod.Set[any](gozod.Any(), s...).Min(5) }},
		{"RecordMin", true, func(s []any) any { return types.Record(gozod.String(), gozod.Any(), s...).Min(5) }},
		{"TupleAny", false, func(s []any) any { return gozod.Tuple(gozod.Any()).Refine(func([]any) bool { return false }) }},
		{"TupleMin", false, func(s []any) any { return gozod.Tuple(gozod.String().Min(5), gozod.Int()) }},
		{"EnumRefine", false, func(s []any) any { return gozod.Enum("a", "b").Refine(func(string) bool { return false }) }},
		{"StructRefine", true, func(s []any) any { return gozod.Struct[rstruct](s...).Refine(func(rstruct) bool { return false }) }},
		{"StructShapeMin", true, func(s []any) any {
			return types.Struct[rstruct](join([]any{core.StructSchema{"a": gozod.String().Min(5), "b": gozod.Int().Min(5)}}, s)...)
		}},
		{"ArrayMin", true, func(s []any) any { return gozod.Array(join([]any{gozod.String().Min(5)}, s)...) }},
		{"BigIntMin", true, func(s []any) any { return gozod.BigInt(s...).Min(big.NewInt(500)) }},
		{"NeverOptional", true, func(s []any) any { return gozod.Never(s...).Optional() }},
		{"IntTransform", true, func(s []any) any {
			return gozod.Int(s...).Transform(func(v int64, _ *core.RefinementContext) (any, error) { return "x", nil })
		}},
		{"StringDefault", true, func(s []any) any { return gozod.String(s...).Default("abc") }},
		{"StringTransform", true, func(s []any) any {
			return gozod.String(s...).Transform(func(v string, _ *core.RefinementContext) (any, error) { return nil, fmt.Errorf("boom") })
		}},
		{"StringPipe", true, func(s []any) any { return gozod.String(s...).Pipe(types.LazyAny(func() any { return gozod.Int() })) }},
		{"StringOverwriteMin", true, func(s []any) any {
			return gozod.String(s...).Overwrite(func(v string) string { return v }).Min(9)
		}},
	}
	return fams
}

// modifier variants, applied by reflection where the schema type has the method
var rvariants = []struct {
	id    string
	apply func(reflect.Value) (reflect.Value, bool)
}{
	{"", func(v reflect.Value) (reflect.Value, bool) { return v, true }},
	{".Optional().NonOptional()", func(v reflect.Value) (reflect.Value, bool) {
		o, ok := callNoArg(v, "Optional")
		if !ok {
			return v, false
		}
		return callNoArg(o, "NonOptional")
	}},
	{".Nilable()", func(v reflect.Value) (reflect.Value, bool) { return callNoArg(v, "Nilable") }},
	{".NonOptional()", func(v reflect.Value) (reflect.Value, bool) { return callNoArg(v, "NonOptional") }},
}

func callNoArg(v reflect.Value, name string) (reflect.Value, bool) {
	m := v.MethodByName(name)
	if !m.IsValid() || m.Type().NumIn() != 0 || m.Type().NumOut() != 1 {
		return v, false
	}
	return m.Call(nil)[0], true
}

type rinput struct {
	id string
	v  any
}

func rinputs() []rinput {
	var ns *string
	var ni *int
	var nm *map[string]any
	var nsl *[]any
	var nst *rstruct
	var nb *big.Int
	var nmm *map[any]any
	one, sx := 1, "x"
	m := map[string]any{"a": "x"}
	return []rinput{
		{"nil", nil}, {"(*string)(nil)", ns}, {"(*int)(nil)", ni}, {"(*map[string]any)(nil)", nm}, {"(*[]any)(nil)", nsl},
		{"(*rstruct)(nil)", nst}, {"(*big.Int)(nil)", nb}, {"(*map[any]any)(nil)", nmm},
		{"1", 1}, {"-1", -1}, {"300", 300}, {"1.5", 1.5}, {`"x"`, "x"}, {`""`, ""}, {`"1"`, "1"}, {"true", true}, {"&1", &one}, {`&"x"`, &sx},
		{"[]any{}", []any{}}, {"[]any{1}", []any{1}}, {`[]any{"a"}`, []any{"a"}}, {`[]any{"a","b","c"}`, []any{"a", "b", "c"}},
		{`[]any{"a",true}`, []any{"a", true}}, {`[]string{"a"}`, []string{"a"}}, {"[2]int{}", [2]int{}}, {"[]int{1}", []int{1}},
		{"map[string]any{}", map[string]any{}}, {`{"a":"x"}`, m}, {`&{"a":"x"}`, &m}, {`{"a":1}`, map[string]any{"a": 1}},
		{`{"a":"x","zz":"q"}`, map[string]any{"a": "x", "zz": "q"}}, {`{"t":"zz"}`, map[string]any{"t": "zz"}}, {`{"t":"a"}`, map[string]any{"t": "a"}},
		{`{"x":"a"}`, map[string]any{"x": "a"}}, {`{"b":"q"}`, map[string]any{"b": "q"}}, {`{"c":"q"}`, map[string]any{"c": "q"}},
		{"map[any]any{1:1}", map[any]any{1: 1}}, {`map[any]any{"k":1}`, map[any]any{"k": 1}}, {"map[int]string{1:x}", map[int]string{1: "x"}},
		{`map[string]string{"k":"v"}`, map[string]string{"k": "v"}}, {"map[string]int{k:1}", map[string]int{"k": 1}},
		{`map[string]struct{}{"a"}`, map[string]struct{}{"a": {}}}, {"map[int]struct{}{1}", map[int]struct{}{1: {}}},
		{"rstruct{}", rstruct{}}, {`rstruct{A:"x"}`, rstruct{A: "x"}}, {"&rstruct{}", &rstruct{}}, {"struct{C chan int}{}", struct{ C chan int }{}},
		{"func(){}", func() {}}, {"make(chan int)", make(chan int)}, {"big.NewInt(1)", big.NewInt(1)}, {"time.Time{}", time.Time{}},
		{"complex(1,2)", complex(1, 2)}, {"uint8(7)", uint8(7)}, {"int64(1<<40)", int64(1) << 40}, {"float32(1.5)", float32(1.5)},
		{"[]byte(x)", []byte("x")}, {"error", fmt.Errorf("e")},
	}
}

// one cell of the search: run parses with the given schema message and context
type rcell struct {
	id  string
	sch bool
	run func(s []any, ctx ...*core.ParseContext) error
	nop bool // the entry point takes no ParseContext (Function.Implement and the function it returns): p is not applicable
}

func parseAnyOf(schema any, in any, ctx ...*core.ParseContext) (err error, ok bool) {
	m := reflect.ValueOf(schema).MethodByName("ParseAny")
	if !m.IsValid() {
		return nil, false
	}
	args := []reflect.Value{reflect.ValueOf(&in).Elem()}
	for _, c := range ctx {
		args = append(args, reflect.ValueOf(c))
	}
	out := m.Call(args)
	if e, isErr := out[1].Interface().(error); isErr {
		return e, true
	}
	return nil, true
}

func rcells() []rcell {
	var cells []rcell
	for _, f := range rfamilies() {
		for _, va := range rvariants {
			// does the variant apply at all?
			if _, ok := va.apply(reflect.ValueOf(f.build(nil))); !ok {
				continue
			}
			for _, in := range rinputs() {
				f, va, in := f, va, in
				cells = append(cells, rcell{id: fmt.Sprintf("%s(sch)%s.Parse(%s)", f.id, va.id, in.id), sch: f.sch,
					run: func(s []any, ctx ...*core.ParseContext) error {
						v, _ := va.apply(reflect.ValueOf(f.build(s)))
						e, _ := parseAnyOf(v.Interface(), in.v, ctx...)
						return e
					}})
			}
		}
	}
	// typed entry points and other call forms the product does not produce
	var ns *string
	var nm *map[string]any
	hand := []rcell{
		{"String(sch).StrictParse-via-Ptr: StringPtr(sch).NonOptional().StrictParse(nil)", true, func(s []any, ctx ...*core.ParseContext) error {
			_, e := gozod.StringPtr(s...).StrictParse(ns, ctx...)
			_ = e
			_, e = gozod.StringPtr(s...).Optional().NonOptional().StrictParse("", ctx...)
			return e
		}, false},
		{"StringPtr(sch).Min(5).StrictParse(&\"x\")", true, func(s []any, ctx ...*core.ParseContext) error {
			x := "x"
			_, e := gozod.StringPtr(s...).Min(5).StrictParse(&x, ctx...)
			return e
		}, false},
		{"String(sch).Min(5).StrictParse(\"x\")", true, func(s []any, ctx ...*core.ParseContext) error {
			_, e := gozod.String(s...).Min(5).StrictParse("x", ctx...)
			return e
		}, false},
		{"ObjectPtr(sch).NonOptional().StrictParse(nil)", true, func(s []any, ctx ...*core.ParseContext) error {
			_ = nm
			_, e := gozod.ObjectPtr(core.ObjectSchema{"a": gozod.String()}, s...).StrictParse(nil, ctx...)
			return e
		}, false},
		{"Object(sch).StrictParse(nil map)", true, func(s []any, ctx ...*core.ParseContext) error {
			_, e := gozod.Object(core.ObjectSchema{"a": gozod.String()}, s...).StrictParse(nil, ctx...)
			return e
		}, false},
		{"Slice[string](sch).StrictParse(nil)", true, func(s []any, ctx ...*core.ParseContext) error {
			_, e := gozod.Slice[string](gozod.String(), s...).StrictParse(nil, ctx...)
			return e
		}, false},
		{"Function(sch).Input(Tuple(String())).Implement(func(int))(1)", true, func(s []any, ctx ...*core.ParseContext) (err error) {
			fn, e := types.Function(s...).Input(types.LazyAny(func() any { return gozod.Array(gozod.String()) })).Implement(func(int) {})
			if e != nil {
				return e
			}
			defer func() {
				if r := recover(); r != nil {
					if re, ok := r.(error); ok {
						err = re
					}
				}
			}()
			fn.(func(int))(1)
			return nil
		}, true},
		{"Function(sch).Output(String()).Implement(func() int)()", true, func(s []any, ctx ...*core.ParseContext) (err error) {
			fn, e := types.Function(s...).Output(types.LazyAny(func() any { return gozod.String() })).Implement(func() int { return 1 })
			if e != nil {
				return e
			}
			defer func() {
				if r := recover(); r != nil {
					if re, ok := r.(error); ok {
						err = re
					}
				}
			}()
			fn.(func() int)()
			return nil
		}, true},
		{"Function(sch).Implement(1)", true, func(s []any, ctx ...*core.ParseContext) error {
			_, e := types.Function(s...).Implement(1)
			return e
		}, true},
	}
	return append(cells, hand...)
}

type rframe struct {
	fin, outer, code, path string
	mids                    []string // frames of internal/issues between the caller of FinalizeIssue and the first outside frame
}

// captureAll parses the cell with a recording global map and returns every (fin, outer) the parse resolved a message at.
func captureAll(c rcell) (out []rframe, panicked bool) {
	core.SetConfig(nil)
	defer core.SetConfig(nil)
	core.SetConfig(&core.ZodConfig{CustomError: func(raw core.ZodRawIssue) string {
		pcs := make([]uintptr, 64)
		n := runtime.Callers(1, pcs)
		frames := runtime.CallersFrames(pcs[:n])
		state := 0
		var fr rframe
		fr.code, fr.path = string(raw.Code), fmt.Sprint(raw.Path)
		for {
			f, more := frames.Next()
			switch state {
			case 0:
				if strings.HasSuffix(f.Function, "internal/issues.FinalizeIssue") {
					state = 1
				}
			case 1:
				fr.fin = fmt.Sprintf("%s:%d", relFile(f), f.Line)
				state = 2
				fallthrough
			case 2:
				if !strings.Contains(f.Function, "/internal/issues.") {
					fr.outer = fmt.Sprintf("%s:%d", relFile(f), f.Line)
					state = 3
				} else if loc := fmt.Sprintf("%s:%d", relFile(f), f.Line); loc != fr.fin {
					// a helper of internal/issues that delegates to the finalising one (CreateNonOptionalError -> …WithInst)
					fr.mids = append(fr.mids, loc)
				}
			}
			if !more || state == 3 {
				break
			}
		}
		if fr.fin != "" {
			out = append(out, fr)
		}
		return ""
	}})
	if p := hx.Safely(func() { _ = c.run(nil) }); p != "" {
		panicked = true
	}
	return
}

// winnerAt runs the cell with ONE source configured and reports the winner at the issue with the given code and path.
func winnerAt(c rcell, src byte, code, path string) string {
	core.SetConfig(nil)
	defer core.SetConfig(nil)
	var s []any
	var ctx []*core.ParseContext
	switch src {
	case 's':
		s = []any{"SCH"}
	case 'p':
		ctx = []*core.ParseContext{{Error: constant("CTX")}}
	case 'g':
		core.SetConfig(&core.ZodConfig{CustomError: constant("CUS")})
	case 'l':
		core.SetConfig(&core.ZodConfig{LocaleError: constant("LOC")})
	}
	var err error
	if p := hx.Safely(func() { err = c.run(s, ctx...) }); p != "" {
		return "panic"
	}
	var ze *gozod.ZodError
	if err == nil || !gozod.IsZodError(err, &ze) {
		return "n"
	}
	var walk func(list []core.ZodIssue) string
	walk = func(list []core.ZodIssue) string {
		for _, is := range list {
			if string(is.Code) == code && fmt.Sprint(is.Path) == path {
				switch is.Message {
				case "SCH":
					return "s"
				case "CTX":
					return "p"
				case "CUS":
					return "g"
				case "LOC":
					return "l"
				}
				return "d"
			}
			if w := walk(is.Issues); w != "" {
				return w
			}
		}
		return ""
	}
	if w := walk(ze.Issues); w != "" {
		return w
	}
	return "n"
}

// reachCells runs the search and emits reach2.txt and the `c18 reach` ops.
func reachCells(o *hx.Out, outDir string) error {
	type pair struct{ fin, outer string }
	first := map[pair]bool{}
	opsDone := map[pair]bool{}
	var lines []string
	npanic := 0
	for _, c := range rcells() {
		frs, panicked := captureAll(c)
		if panicked {
			npanic++
			continue
		}
		// an issue (code, path) that several calls finalised during this parse cannot be attributed to one of them
		// (Struct.Parse(nil) builds a struct type error and the engine's nil error): such a cell only counts for coverage
		sameIssue := map[string]map[pair]bool{}
		for _, fr := range frs {
			k := fr.code + "@" + fr.path
			if sameIssue[k] == nil {
				sameIssue[k] = map[pair]bool{}
			}
			sameIssue[k][pair{fr.fin, fr.outer}] = true
		}
		for _, fr := range frs {
			p := pair{fr.fin, fr.outer}
			if !first[p] {
				first[p] = true
				lines = append(lines, fmt.Sprintf("%s\t%s\t%s\t%s", c.id, fr.fin, fr.outer, fr.code))
				for _, m := range fr.mids {
					lines = append(lines, fmt.Sprintf("%s\t%s\t%s\t%s", c.id, m, fr.outer, fr.code))
				}
			}
			if opsDone[p] {
				continue
			}
			if len(sameIssue[fr.code+"@"+fr.path]) > 1 {
				o.Count("reach:ambiguous-issue")
				continue
			}
			opsDone[p] = true
			// top-level issue of the error only (path as captured): configure each source alone
			appl := "pgl"
			if c.nop {
				appl = "gl"
			}
			if c.sch {
				appl = "s" + appl
			}
			for i := 0; i < len(appl); i++ {
				w := winnerAt(c, appl[i], fr.code, fr.path)
				if w == "n" || w == "panic" {
					// the issue is not in the final error (a union branch, an element error folded into its parent): nothing to attribute
					o.Count("reach:issue-not-in-the-error")
					continue
				}
				o.Emit(fmt.Sprintf("c18 reach %s %s %s %s %c # %s: the %s issue at path %s finalised at %s (called from %s); only source %c configured",
					fr.outer, fr.fin, strings.ReplaceAll(c.id, " ", "_"), appl, appl[i], c.id, fr.code, fr.path, fr.fin, fr.outer, appl[i]), w)
				o.Count("reach:" + fr.code)
			}
		}
	}
	sort.Strings(lines)
	lines = append(lines, fmt.Sprintf("#cells\t%d\tpanicked\t%d", len(rcells()), npanic))
	return os.WriteFile(outDir+"/reach2.txt", []byte(strings.Join(lines, "\n")+"\n"), 0o644)
}
