"""C11 — FromJSONSchema yields a schema equivalent to the JSON Schema it was given."""
import os, re, shutil
from . import common as C

MANIFEST = dict(
   technique="Lean 4 proof (fromJS, a transcription of jsonschema/from.go over the JSON-Schema keyword AST, returns on every good document of a structured fragment J1 a schema that accepts exactly the valid instances; round trip as a corollary of C07; const/enum over members of every JSON kind through a model of types/literal.go's literalEqual / reflect.DeepEqual on decoded Go values, proved equal to JSON equality; strict-mode theorems over a keyword table regenerated behaviourally from the code; frame theorems of the Lean converters over a go/ast-regenerated table of the keywords every from.go function reads) + differential correspondence against FromJSONSchema/ParseAny, an independent validator on the original document and on the round-trip document, for generated documents over the whole documented keyword table incl. sibling keywords and compositions of object schemas sharing property names + structure fingerprint of the transcribed functions",
   text="c11_equiv_partial: for every good document d of J1 (string/number with all bounds, multipleOf, pattern, listed formats, boolean, null, {}, true/false, arrays, closed tuples, objects with required properties and additionalProperties false/absent/schema, record objects, const, enum incl. mixed kinds, anyOf/oneOf/allOf, $ref), any strict flag and any strict-mode table: fromJS returns a schema s with jsValid d.doc x = acceptsDecoded s x for in-scope x. c11_roundtrip: on the closed, format-free part, jsValid (toDoc s) x = jsValid d.doc x (via C07). const and enum with members and instances of EVERY JSON kind (scalars, null, arrays, objects, mixtures, repeats, strings spelling other members' JSON text), validity by JSON equality jsonEq (Draft 2020-12; proved reflexive and symmetric): literalEqual_eq (types/literal.go's comparison never panics and IS jsonEq), c11_const (full strength), c11_enum_partial (ParseAny = some (enumValidJ vs x) outside the nullable-union class), c11_enum_null_rejected (that class, exactly), c11_enum_members_accepted, c11_members_no_panic, legacy_composite_member_panics (the code before e48d4b1); c11_roundtrip_enum / c11_roundtrip_const (ToJSONSchema of the result validates the same instances when no member is an array) with witness_roundtrip_array_const. c11_strict_rejects / c11_strict_silent / c11_strict_full_false over the regenerated keyword table; strict_rejects_iff_read, documented_are_read, converter_reads_documented and the *_frame / reads_* pairs over the go/ast-regenerated reads table. Each excluded class has a witness theorem and a replayed instance.",
   note="PARTIAL: outside good/J1 the pinned code violates the property (integer type, nullable unions, sibling keywords next to $ref/allOf/anyOf/oneOf/const/enum/format, keywords without type, open tuples, optional properties accepting null, required on the record path, open objects closed by the round trip, strict-sided intersections, array const/enum members flattened by the round trip, strict mode unreached keywords and contentEncoding/contentMediaType): open findings. Not modelled: recursive $ref (non-object cycles would overflow the stack in from.go), user regexes beyond the five emitted shapes, array/object const/enum members below the root (root documents only), format semantics (relative to a sample universe agreed on by gozod and the validator), round trip of format schemas. Trusted as for C07.",
   design="DESIGN.md §5 C11")

MODULES = ["Gozod.Proofs.C11", "Gozod.Proofs.C11Reads"]
THEOREMS = ["Gozod.C11.c11_equiv_partial", "Gozod.C11.conv", "Gozod.C11.equivJ", "Gozod.C11.c11_roundtrip",
            "Gozod.C11.c11_strict_rejects", "Gozod.C11.c11_strict_silent", "Gozod.C11.c11_strict_full_false",
            "Gozod.C11.witness_integer_rejects_numbers", "Gozod.C11.witness_nullable_union", "Gozod.C11.witness_nullable_intersection",
            "Gozod.C11.witness_sibling_keywords_dropped", "Gozod.C11.witness_keywords_without_type",
            "Gozod.C11.witness_format_siblings_dropped", "Gozod.C11.witness_tuple_items_all_required",
            "Gozod.C11.witness_optional_property_accepts_null", "Gozod.C11.witness_required_on_record_path",
            "Gozod.C11.witness_roundtrip_open_object", "Gozod.C11.witness_strict_unreached", "Gozod.C11.c11_full_false",
            "Gozod.C11.c11_enum_partial", "Gozod.C11.c11_enum_scalar_instance", "Gozod.C11.c11_enum_members_accepted", "Gozod.C11.c11_const",
            "Gozod.C11.c11_enum_null_rejected", "Gozod.C11.c11_members_no_panic", "Gozod.C11.parse_fromEnumJ", "Gozod.C11.parse_literalSchemaJ",
            "Gozod.C11.parse_toS_enum", "Gozod.C11.parse_toS_const",
            "Gozod.C11.fromEnumJ_prims", "Gozod.C11.fromConstJ_prim", "Gozod.C11.enumValidJ_prims", "Gozod.C11.constValidJ_prim",
            "Gozod.C11.jsonEq_ofPrim", "Gozod.C11.jsonEq_str_left", "Gozod.C11.jsonEq_str_right",
            "Gozod.C11.deepEqual_eq", "Gozod.C11.literalEqual_eq", "Gozod.C11.ifaceEq_panics", "Gozod.C11.jsonEq_symm", "Gozod.C11.jsonEq_refl",
            "Gozod.C11.legacy_composite_member_panics", "Gozod.C11.witness_null_member", "Gozod.C11.c11_members_full_false",
            "Gozod.C11.c11_roundtrip_enum", "Gozod.C11.c11_roundtrip_const", "Gozod.C11.rtLitValid_nonarray",
            "Gozod.C11.witness_roundtrip_array_const", "Gozod.C11.c11_roundtrip_members_full_false",
            "Gozod.C11.convString_frame", "Gozod.C11.reads_convertString", "Gozod.C11.convNumber_frame", "Gozod.C11.reads_convertNumber",
            "Gozod.C11.convInteger_frame", "Gozod.C11.reads_convertInteger", "Gozod.C11.convArray_frame", "Gozod.C11.reads_convertArray",
            "Gozod.C11.reads_convertTuple", "Gozod.C11.convObject_frame", "Gozod.C11.reads_convertObject", "Gozod.C11.convByType_frame",
            "Gozod.C11.reads_convertByType", "Gozod.C11.assemble_frame", "Gozod.C11.reads_convert", "Gozod.C11.reads_dispatch_members",
            "Gozod.C11.reads_attachMeta", "Gozod.C11.converter_reads_documented", "Gozod.C11.documented_are_read",
            "Gozod.C11.strict_rejects_iff_read", "Gozod.C11.strict_reads_in_table", "Gozod.C11.converted_not_rejected",
            # round 4b: every theorem above holds for an arbitrary set Fx of applied pending patches; per patch a witness on the
            # tree without it and a `fixed_` theorem on the tree with it
            "Gozod.C11.fixed_nullable_union", "Gozod.C11.fixed_nullable_intersection", "Gozod.C11.fixed_format_siblings",
            "Gozod.C11.witness_tuple_tail_rejected", "Gozod.C11.fixed_tuple_open", "Gozod.C11.fixed_required_additional",
            "Gozod.C11.fixed_open_object", "Gozod.C11.witness_integer_bound_truncated", "Gozod.C11.fixed_integer_bounds",
            "Gozod.C11.c11_enum_fixed", "Gozod.C11.parseEnumFx_legacy", "Gozod.C11.sList_noNil", "Gozod.C11.sList_countNil",
            "Gozod.C11.lits_noNil", "Gozod.C11.tupRest_closed"]
GEN = os.path.join(C.LEAN, "Gozod", "Gen", "KeywordTable.lean")

def extract_table(res):
    """behavioural translator: run the harness, read the `c11 kw` rows, regenerate Gen/KeywordTable.lean"""
    ok, out = C.build_harness("C11")
    if not ok: return None, "harness does not build:\n" + out[-3000:]
    d = os.path.join(C.BUILD, "run", "C11-table-%d" % os.getpid())
    shutil.rmtree(d, ignore_errors=True); os.makedirs(d)
    rc, out = C.run([C.harness_bin("C11"), "-seed", "1", "-tier", "quick", "-out", d], env=C.goenv(), timeout=600)
    if rc != 0: return None, "harness failed:\n" + out[-2000:]
    ops = open(os.path.join(d, "ops.txt")).read().split("\n"); impl = open(os.path.join(d, "impl.txt")).read().split("\n")
    shutil.rmtree(d, ignore_errors=True)
    rows = []
    for o, i in zip(ops, impl):
        if o.startswith("c11 kw "):
            t = i.split(" ")
            if len(t) != 2: return None, "keyword %s: %s" % (o, i)
            rows.append((o.split(" ")[2], t[0] == "1", t[1] == "1"))
    if len(rows) < 30: return None, "keyword table too small (%d rows)" % len(rows)
    # cross-check the documented column against docs/json-schema.md "Supported Conversions"
    doc = open(os.path.join(C.REPO, "docs", "json-schema.md")).read()
    if "### Supported Conversions" not in doc: return None, "docs/json-schema.md: 'Supported Conversions' table not found"
    tab = doc.split("### Supported Conversions")[1]
    for kw in ("prefixItems", "anyOf", "oneOf", "allOf", "const", "enum", "type", "format"):
        if ("`%s" % kw) not in tab: return None, "docs table no longer lists %s" % kw
    b = lambda x: "true" if x else "false"
    txt = ("-- REGENERATED by vlib/c11.py from harness-c11 (behavioural: {kw: sample} through FromJSONSchema with StrictMode)\n"
           "import Gozod.Model.FromJson\nnamespace Gozod.Gen\nopen Gozod.Jsc\n"
           "def keywordTable : List KwRow := [\n" +
           ",\n".join('  ⟨"%s", %s, %s⟩' % (k, b(d_), b(s)) for k, d_, s in rows) + "]\nend Gozod.Gen\n")
    if not os.path.exists(GEN) or open(GEN).read() != txt:
        open(GEN, "w").write(txt)
    return rows, ""

GEN_READS = os.path.join(C.LEAN, "Gozod", "Gen", "FromReads.lean")

def extract_reads(res):
    """go/ast translator (harness/cmd/c11/reads.go): which JSON Schema keywords every function of jsonschema/from.go reads;
    regenerates Gen/FromReads.lean (only when the content changes)."""
    import json
    rc, out = C.run(["go", "list", "-m", "-f", "{{.Dir}}", "github.com/kaptinlin/jsonschema"], cwd=C.REPO, env=C.goenv(), timeout=300)
    libdir = out.strip().split("\n")[-1] if rc == 0 else ""
    if rc != 0 or not os.path.isdir(libdir): return None, "cannot locate github.com/kaptinlin/jsonschema: " + out[-500:]
    rc, out = C.run([C.harness_bin("C11"), "-reads", C.REPO, libdir], env=C.goenv(), timeout=120)
    if rc != 0: return None, "harness -reads failed:\n" + out[-2000:]
    try: rows = json.loads(out.strip().split("\n")[-1])
    except Exception as e: return None, "harness -reads: %s\n%s" % (e, out[-500:])
    q = lambda x: '"%s"' % x
    txt = ("-- REGENERATED by vlib/c11.py from harness-c11 -reads (go/ast over jsonschema/from.go: the lib.Schema fields each function reads, by JSON keyword name)\n"
           "namespace Gozod.Gen\n"
           "def fromReads : List (String × List String) := [\n" +
           ",\n".join('  (%s, [%s])' % (q(r["func"]), ", ".join(q(k) for k in (r["reads"] or []))) for r in rows) + "]\nend Gozod.Gen\n")
    if not os.path.exists(GEN_READS) or open(GEN_READS).read() != txt:
        open(GEN_READS, "w").write(txt)
    return rows, ""

def expected_silent():
    src = open(os.path.join(C.LEAN, "Gozod", "Proofs", "C11.lean")).read()
    m = re.search(r"def silentKeywords : List String :=\s*\[([^\]]*)\]", src)
    return re.findall(r'"([^"]+)"', m.group(1)) if m else None

def dec(tok):
    body = tok[2:]
    return "".join(chr(int(c)) for c in body.split(".")) if body else ""

ANNOTATIONS = ("title", "description", "examples", "default", "$comment", "deprecated", "readOnly", "writeOnly")

def other_names(op):
    """the keywords of the document that are outside the documented table (annotation keywords assert nothing and are not 'unsupported')"""
    t = C.op_body(op).split(" ")
    return [n for n in (dec(t[i + 2]) for i in range(len(t) - 2) if t[i] == "(" and t[i + 1] == "other") if n not in ANNOTATIONS]

def make_key(known_keys, rejected):
    known = lambda x: any(C.key_matches(k, x) for k in known_keys)
    def key(op, impl, M, S):
        t = C.op_body(op).split(" ")
        why = [w for w in C.op_comment(op).replace("why=", "").split(",") if w]
        if t[1] == "kw": return "strict:" + t[2]
        if t[1] == "conv":
            o = impl.split(" ")
            if "panic" in o:
                return "conv:literal-null-panics" if "( const n )" in op or " n " in op else "conv:panic"
            if impl != M: return "conv:unpredicted-by-model"
            silent = sorted(set(n for n in other_names(op) if n not in rejected))
            for n in silent:
                if known("strict:" + n): return "strict:" + n
            return "strict:" + ("+".join(silent) if silent else "unreached-keyword")
        p, v, r, pi = (impl.split(" ") + ["", "", "", ""])[:4]
        # the integer-directed column is judged first: there the integer-type class does not apply
        d = "parse-int" if pi not in ("~", v) else ("parse" if p != v else "roundtrip")
        if "INCOHERENT" in why: return d + ":incoherent-classification"
        if (d == "parse" and "IN-EQ" in why) or (d == "roundtrip" and "IN-RT" in why):
            return d + ":inside-theorem-fragment"       # never a listed finding
        why = [w for w in why if w not in ("IN-EQ", "IN-RT")]
        # A listed finding class is a region where the Lean model MIRRORS the defective behaviour (impl = model != spec).
        # A disagreement with the specification that the model does not predict is never a listed finding, whatever
        # classes the document belongs to.  (One exception: `intersection` — allOf of object schemas with a strict side;
        # Intersection's merging of unrecognized keys is C02/C07's open finding intersection-strict-objects and
        # `accepts (.and l r)` of Model/JsonSchema does not mirror it.)
        if impl != M and "intersection" not in why:
            return d + ":unpredicted-by-model:" + ("+".join(why) or "none")
        for w in why:
            if known(d + ":" + w): return d + ":" + w
        return d + ":" + ("+".join(why) if why else "none")
    return key

def run(res):
    rows, err = extract_table(res)
    if rows is None:
        C.tie_broken(res, "translator C11/KeywordTable", err)
        return res.finish()
    reads, err = extract_reads(res)
    if reads is None:
        C.tie_broken(res, "translator C11/FromReads", err)
        return res.finish()
    res.coverage["from_go_keyword_reads"] = {r["func"]: r["reads"] for r in reads if r["reads"]}
    ok, detail = C.prove(res, MODULES, THEOREMS)
    if not ok:
        # a proof over the regenerated table stopped checking: look for the falsifying cells
        exp = expected_silent() or []
        now = [k for k, d, s in rows if not d and not s]
        new = [k for k in now if k not in exp]
        for k in new:
            res.violation("strict-silent-" + k, "property C11: strict mode silently accepts the undocumented keyword %r\n"
                          "  repro: FromJSONSchema(compile({%r: <sample>}), StrictMode: true) returns no error\n" % (k, k))
        if not new:
            C.tie_broken(res, "proof Gozod.Proofs.C11", detail + "\nno longer silent: %r" % [k for k in exp if k not in now])
    # structure fingerprints of the hand-transcribed functions (vlib/fingerprints/C11.json): a changed structure with a green
    # correspondence is a broken tie (the transcription may no longer mirror the function); a text-only change is noted
    changed = C.fingerprint(res, "C11")
    data, err = C.correspond(res, "C11")
    if data is None:
        C.tie_broken(res, "correspondence C11/fromJ0", err)
        return res.finish()
    ops, impl, model, stats = data
    rejected = set(k for k, d, st in rows if st)
    ops2, model2 = [], []
    for o, im, m in zip(ops, impl, model):
        mm, _, why = m.partition("\t")
        t = im.split(" ")
        if o.startswith("c11 inst") and len(t) == 4:
            # the property on the implementation alone: Parse verdict = validator verdict = round-trip verdict
            # (4th column: Parse verdict with integral numbers handed over as Go int, where applicable)
            spec = "%s %s %s %s" % (t[1], t[1], t[1] if t[2] != "~" else "~", t[1] if t[3] != "~" else "~")
        elif o.startswith("c11 kw") and len(t) == 2:
            spec = im if (t[0] == "1" or t[1] == "1") else "0 1"
        elif o.startswith("c11 conv"):
            # conversion must not panic; strict mode must fail iff an undocumented keyword occurs anywhere
            spec = "ok " + ("error" if other_names(o) else "ok")
        else:
            spec = im
        ops2.append(o + " #why=" + why)
        model2.append(mm + "\t" + spec)
    known_open, _ = C.load_known("C11")
    C.decide(res, "C11", (ops2, impl, model2, stats), make_key([k["key"] for k in known_open], rejected),
             "C11/fromJS+acceptsDecoded+keywordTable")
    structural = [c for c in changed if c[2] in ("structure", "missing")]
    if structural and not any(sfx == "" for _, sfx in res.violations):
        C.tie_broken(res, "structure fingerprint C11", "these functions no longer have the structure the Lean transcription was written against "
                     "(switch cases / calls / literals / control-flow skeleton), and the correspondence run found no disagreement:\n"
                     + "\n".join("  %s [%s: %s] transcribed by %s" % (c[0], c[2], c[3], c[1]) for c in structural)
                     + "\nre-validate the transcription, then `./check --fingerprint C11 --update`")
    for c in changed:
        if c[2] == "text": res.notes.append("source text of %s changed (structure unchanged); transcribed by %s" % (c[0], c[1]))
    res.coverage["cases_in_equivalence_fragment"] = sum(1 for o in ops2 if "IN-EQ" in C.op_comment(o))
    res.coverage["cases_in_roundtrip_fragment"] = sum(1 for o in ops2 if "IN-RT" in C.op_comment(o))
    hist = stats.get("histogram", {}) if isinstance(stats, dict) else {}
    res.coverage["const_enum_member_classes"] = {k[8:]: v for k, v in sorted(hist.items()) if k.startswith("members:")}
    res.coverage["object_composition_classes"] = {k[12:]: v for k, v in sorted(hist.items()) if k.startswith("composition:")}
    res.coverage["rule"] = ("40 keywords x strict mode (behavioural table, regenerated into Gen/KeywordTable.lean); generated documents of depth <= 2 over the "
        "fragment (see notes/C11.md) x instances at / around every constant, wrong kinds, null, non-ASCII; const/enum: heterogeneous members of every JSON kind "
        "(null, booleans, 1 / 1.0 / 1e0, negatives, fractions, strings incl. empty and strings spelling other members' JSON text, repeats; arrays/objects in root "
        "documents, their round-trip document included) x every member, every member's JSON text as a string, every string member read as JSON, near misses of each member; instance decoded with encoding/json; "
        "allOf/anyOf/oneOf over object members sharing property names x jointly built instances (a base valid for all members, one property varied at a time); "
        "observation = (ParseAny verdict or '!' for a panic, validator on original document, validator on round-trip document, integer-directed ParseAny verdict).")
    res.assumptions += ["instances are decoded with plain encoding/json (numbers are float64)",
                        "jsValid as in C07 (cross-checked against kaptinlin/jsonschema on every case)"]
    return res.finish()
