package main

// Holder histories at the level of CONTENT (round 4b): schemas that hold other schemas or value lists — unions, xors,
// intersections (Or / And results hold the receiver), enums (Extract / Exclude), slices, tuples, records (member holders,
// size checks), core.ZodTransform / ZodPipe (Transform / Pipe results hold the receiver), Default / Prefault values.
// Random sequences with fan-out of the derivations of these types, over a pool of three plain member schemas AND the
// schemas of the history itself as members (z.Or(x) holds z).  After every call the harness reads, for EVERY live schema:
// its kind, the members it holds (by identity: pool index or live index, read by reflection from the unexported fields),
// the content of its option / item / entry lists, its verdict on 6 scalar probes, 7 slice probes and 5 map probes, and
// the member structure of its JSON Schema.  "Every earlier schema shows exactly what it showed when it was created, and
// the result is new" is the property oracle (implementation alone); the Lean model (Model/StoreC08H.lean: applyHOp / hAccept
// / hDoc) must reproduce every content, verdict vector and document structure from its own store — a composite's verdict
// from the OBSERVATIONS of its members, recursively.
//
//	op line:  c08 HOLD P:<leaf>=<6 bits>,… B:<kind>:<spec> | <recv> <op> <arg> | …
//	impl:     V:<1 new|0 receiver|a accessor|e error>:<changed,…>;…  S:<look of the base>;<look of each result>;…

import (
	"encoding/json"
	"fmt"
	"reflect"
	"sort"
	"strings"

	"github.com/kaptinlin/gozod/core"
	"github.com/kaptinlin/gozod/jsonschema"
	"github.com/kaptinlin/gozod/types"

	"verifharness/hx"
	"verifharness/storex"
)

var holdTokens = []any{"v", "long", 7, "a", "b", "c"} // token ids 1..6

var holdSeqProbes = [][]int{{}, {1}, {1, 2}, {2, 4, 5}, {1, 3}, {4, 5, 6, 1}, {3}}
var holdKVProbes = [][]int{{}, {1}, {1, 2}, {2, 4, 5}, {4, 5, 6, 1}}

type holdLive struct {
	s    any
	seen string
	ptr  bool // its result is (or may contain) a pointer-typed value: Optional / Nilable / Nullish results and what holds them
}

type holdCtx struct {
	pool []any
	live []*holdLive
}

func ptrOf(x any) uintptr {
	v := reflect.ValueOf(x)
	for v.IsValid() && v.Kind() == reflect.Interface {
		if v.IsNil() {
			return 0
		}
		v = v.Elem()
	}
	if !v.IsValid() || v.Kind() != reflect.Ptr || v.IsNil() {
		return 0
	}
	return v.Pointer()
}

func ptrOfValue(v reflect.Value) uintptr {
	for v.IsValid() && v.Kind() == reflect.Interface {
		if v.IsNil() {
			return 0
		}
		v = v.Elem()
	}
	if !v.IsValid() || v.Kind() != reflect.Ptr || v.IsNil() {
		return 0
	}
	return v.Pointer()
}

// memberName: identity -> "L<pool index>" | "S<live index>" | "-" (nil) | "?"
func (c *holdCtx) memberName(p uintptr) string {
	if p == 0 {
		return "-"
	}
	for i, m := range c.pool {
		if ptrOf(m) == p {
			return fmt.Sprintf("L%d", i)
		}
	}
	for i, l := range c.live {
		if ptrOf(l.s) == p {
			return fmt.Sprintf("S%d", i)
		}
	}
	return "?"
}

func holdKind(s any) string {
	t := fmt.Sprintf("%T", s)
	switch {
	case strings.Contains(t, "ZodUnion["):
		return "union"
	case strings.Contains(t, "ZodXor["):
		return "xor"
	case strings.Contains(t, "ZodIntersection["):
		return "inter"
	case strings.Contains(t, "ZodEnum["):
		return "enum"
	case strings.Contains(t, "ZodSlice["):
		return "list"
	case strings.Contains(t, "ZodTuple["):
		return "tuple"
	case strings.Contains(t, "ZodRecord["):
		return "keyed"
	case strings.Contains(t, "ZodTransform["):
		return "transform"
	case strings.Contains(t, "ZodPipe["):
		return "pipe"
	}
	return "other"
}

func structOf(s any) (top, in reflect.Value) {
	v := reflect.ValueOf(s)
	for v.IsValid() && (v.Kind() == reflect.Ptr || v.Kind() == reflect.Interface) {
		if v.IsNil() {
			return
		}
		v = v.Elem()
	}
	top = v
	in = v.FieldByName("internals")
	for in.IsValid() && (in.Kind() == reflect.Ptr || in.Kind() == reflect.Interface) {
		if in.IsNil() {
			return
		}
		in = in.Elem()
	}
	return
}

func tokenID(x any) int {
	for i, t := range holdTokens {
		if reflect.DeepEqual(t, x) {
			return i + 1
		}
	}
	return 0
}

// holdContent: <singles,…>|<list content,…>  (member identities / token ids)
func (c *holdCtx) holdContent(s any) string {
	top, in := structOf(s)
	single := func(v reflect.Value) string {
		if !v.IsValid() {
			return "-"
		}
		return c.memberName(ptrOfValue(v))
	}
	list := func(v reflect.Value) string {
		if !v.IsValid() || v.IsNil() {
			return "nil"
		}
		var xs []string
		for i := 0; i < v.Len(); i++ {
			xs = append(xs, c.memberName(ptrOfValue(v.Index(i))))
		}
		return strings.Join(xs, ",")
	}
	switch holdKind(s) {
	case "union", "xor":
		return "|" + list(in.FieldByName("Options"))
	case "inter":
		return single(in.FieldByName("Left")) + "," + single(in.FieldByName("Right")) + "|"
	case "enum":
		var ks []int
		e := in.FieldByName("Entries")
		for _, k := range e.MapKeys() {
			ks = append(ks, tokenID(e.MapIndex(k).String()))
		}
		sort.Ints(ks)
		return "|" + joinInts2(ks, ",")
	case "list":
		return single(in.FieldByName("Element")) + "|"
	case "tuple":
		return single(in.FieldByName("Rest")) + "|" + list(in.FieldByName("Items"))
	case "keyed":
		return single(in.FieldByName("KeyType")) + "," + single(in.FieldByName("ValueType")) + "|"
	case "transform":
		return single(top.FieldByName("source")) + "|"
	case "pipe":
		return single(top.FieldByName("source")) + "," + single(top.FieldByName("target")) + "|"
	}
	return "?|?"
}

func joinInts2(xs []int, sep string) string {
	ss := make([]string, len(xs))
	for i, x := range xs {
		ss[i] = fmt.Sprint(x)
	}
	return strings.Join(ss, sep)
}

func holdVerdicts(s any) string {
	var b strings.Builder
	try := func(in any) {
		_, err, p := storex.ParseAny(s, in)
		switch {
		case p != "":
			b.WriteString("P")
		case err != nil:
			b.WriteString("0")
		default:
			b.WriteString("1")
		}
	}
	for _, t := range holdTokens {
		try(t)
	}
	b.WriteString(".")
	for _, sp := range holdSeqProbes {
		in := []any{}
		for _, t := range sp {
			in = append(in, holdTokens[t-1])
		}
		try(in)
	}
	b.WriteString(".")
	for _, kp := range holdKVProbes {
		in := map[string]any{}
		for _, t := range kp {
			in[holdTokens[t-1].(string)] = holdTokens[t-1]
		}
		try(in)
	}
	return b.String()
}

// holdDoc: the member structure of the JSON Schema: <keyword>:<count or tokens>:<min>:<max>
func holdDoc(s any) string {
	var doc any
	var err error
	cs, ok := s.(core.ZodSchema)
	if k := holdKind(s); !ok || k == "transform" || k == "pipe" {
		return "-"
	}
	if p := hx.Safely(func() { doc, err = jsonschema.ToJSONSchema(cs) }); p != "" || err != nil {
		return "ERR"
	}
	raw, _ := json.Marshal(doc)
	var m map[string]any
	if json.Unmarshal(raw, &m) != nil {
		return "ERR"
	}
	if holdKind(s) != "union" {
		if alts, ok := m["anyOf"].([]any); ok { // a nilable schema is wrapped: anyOf [<schema>, null]
			for _, a := range alts {
				if am, ok := a.(map[string]any); ok && am["type"] != "null" {
					m = am
					break
				}
			}
		}
	}
	num := func(k string) string {
		if v, ok := m[k]; ok {
			return fmt.Sprint(v)
		}
		return "-"
	}
	cnt := func(k string) string {
		if v, ok := m[k].([]any); ok {
			return fmt.Sprint(len(v))
		}
		return "-"
	}
	switch holdKind(s) {
	case "transform", "pipe":
		return "-"
	case "union":
		return "anyOf:" + cnt("anyOf")
	case "xor":
		return "oneOf:" + cnt("oneOf")
	case "inter":
		return "allOf:" + cnt("allOf")
	case "enum":
		var ks []int
		if v, ok := m["enum"].([]any); ok {
			for _, x := range v {
				ks = append(ks, tokenID(x))
			}
		}
		sort.Ints(ks)
		return "enum:" + joinInts2(ks, ",")
	case "list":
		_, has := m["items"]
		return fmt.Sprintf("items:%v:%s:%s", has, num("minItems"), num("maxItems"))
	case "tuple":
		_, has := m["items"]
		return fmt.Sprintf("prefix:%s:%v", cnt("prefixItems"), has)
	case "keyed":
		return fmt.Sprintf("props:%s:%s", num("minProperties"), num("maxProperties"))
	}
	return "-"
}

func (c *holdCtx) look(s any) string {
	return holdKind(s) + "/" + c.holdContent(s) + "/" + holdVerdicts(s) + "/" + holdDoc(s)
}

// lookImpl adds what only the implementation side compares: the rendering of ALL type-local map / slice fields (Def lists
// included through LocalState), flags and the full document.
func (c *holdCtx) lookImpl(s any) string {
	opt, nil_ := "?", "?"
	if x, ok := s.(interface{ IsOptional() bool }); ok {
		opt = fmt.Sprint(x.IsOptional())
	}
	if x, ok := s.(interface{ IsNilable() bool }); ok {
		nil_ = fmt.Sprint(x.IsNilable())
	}
	_, err, p := storex.ParseAny(s, nil)
	return c.look(s) + "#" + storex.LocalState(s) + "#" + opt + nil_ + fmt.Sprint(err != nil, p != "") + "#" + storex.JS(s)
}

// hcall invokes the named method with synthesised arguments; `over` values replace the first parameter they fit.
func hcall(recv any, name string, over ...any) (res any, ok bool) {
	rv := reflect.ValueOf(recv)
	m := rv.MethodByName(name)
	if !m.IsValid() {
		return nil, false
	}
	var args []reflect.Value
	if p := hx.Safely(func() { args = storex.SynthArgs(rv, name, m.Type(), 0) }); p != "" {
		return nil, false
	}
	mt := m.Type()
	used := map[int]bool{}
	for _, o := range over {
		ov := reflect.ValueOf(o)
		placed := false
		for i := 0; i < len(args) && !placed; i++ {
			pt := mt.In(i)
			if used[i] || pt.Kind() == reflect.Func {
				continue
			}
			if ov.Type().AssignableTo(pt) {
				nv := reflect.New(pt).Elem()
				nv.Set(ov)
				args[i] = nv
				used[i] = true
				placed = true
			}
		}
		if !placed {
			return nil, false
		}
	}
	var outs []reflect.Value
	if p := hx.Safely(func() { outs = m.Call(args) }); p != "" {
		return nil, false
	}
	for _, o := range outs {
		if o.Type().Implements(reflect.TypeOf((*error)(nil)).Elem()) && !o.IsNil() {
			return nil, false
		}
	}
	for _, o := range outs {
		if s, isS := storex.AsSchema(o); isS {
			return s, true
		}
	}
	return nil, false
}

func (c *holdCtx) pickMember(rng *hx.Rng) (any, string, bool) {
	n := len(c.pool) + len(c.live)
	i := rng.Intn(n)
	if i < len(c.pool) {
		return c.pool[i], fmt.Sprintf("L%d", i), false
	}
	return c.live[i-len(c.pool)].s, fmt.Sprintf("S%d", i-len(c.pool)), c.live[i-len(c.pool)].ptr
}

func runHoldHistories(rng *hx.Rng, o *hx.Out, n int) {
	for h := 0; h < n; h++ {
		c := &holdCtx{pool: []any{types.String(), types.Int(), types.String().Min(3)}}
		var pt []string
		for i, m := range c.pool {
			bits := ""
			for _, t := range holdTokens {
				_, err, p := storex.ParseAny(m, t)
				if err == nil && p == "" {
					bits += "1"
				} else {
					bits += "0"
				}
			}
			pt = append(pt, fmt.Sprintf("%d=%s", i, bits))
		}
		var base any
		var bspec string
		switch rng.Intn(9) {
		case 0:
			base, bspec = types.Union([]any{c.pool[1], c.pool[2]}), "union:L1,L2"
		case 1:
			base, bspec = types.Xor([]any{c.pool[0], c.pool[2]}), "xor:L0,L2"
		case 2:
			base, bspec = types.Intersection(c.pool[0], c.pool[2]), "inter:L0,L2"
		case 3:
			base, bspec = types.Enum("a", "b", "c"), "enum:4,5,6"
		case 4:
			base, bspec = types.Slice[any](c.pool[0]), "list:L0"
		case 5:
			base, bspec = types.Tuple(c.pool[0].(core.ZodSchema), c.pool[1].(core.ZodSchema)), "tuple:L0,L1"
		case 6:
			base, bspec = types.Record(c.pool[0], c.pool[2]), "keyed:L0,L2"
		case 7:
			r, ok := hcall(c.pool[0], "Transform")
			if !ok {
				continue
			}
			base, bspec = r, "transform:L0"
		case 8:
			base, bspec = types.Union([]any{c.pool[0], c.pool[1]}), "union:L0,L1"
		}
		c.live = []*holdLive{{s: base}}
		c.live[0].seen = c.lookImpl(base)
		strct0 := c.look(base)
		var steps, verd, strct, names []string
		nsteps := 3 + rng.Intn(5)
		for st := 0; st < nsteps; st++ {
			ri := rng.Intn(len(c.live))
			if st == 1 && rng.Intn(2) == 0 {
				ri = 0
			}
			recv := c.live[ri].s
			kind := holdKind(recv)
			var res any
			ok := false
			opName, arg := "", "-"
			access := false
			ptr := c.live[ri].ptr
			switch op := rng.Intn(16); op {
			case 0:
				opName = "describe"
				res, ok = hcall(recv, "Describe", "d")
			case 1:
				opName = []string{"optional", "nilable", "nullish"}[rng.Intn(3)]
				res, ok = hcall(recv, map[string]string{"optional": "Optional", "nilable": "Nilable", "nullish": "Nullish"}[opName])
				ptr = true
			case 2:
				opName = "refine"
				res, ok = hcall(recv, "Refine")
			case 3, 4:
				m, mn, mp := c.pickMember(rng)
				opName, arg = "or", mn
				res, ok = hcall(recv, "Or", m)
				ptr = ptr || mp
			case 5:
				m, mn, mp := c.pickMember(rng)
				if ptr || mp {
					// an intersection merges the RESULTS of its members: a pointer-typed result (Optional / Nilable) never merges
					// with a value — a matter of results, not of verdicts; the verdict model does not follow result types
					o.Count("holdop-skipped:and-over-pointer-typed-member")
					continue
				}
				opName, arg = "and", mn
				res, ok = hcall(recv, "And", m)
			case 6:
				opName = "transform"
				res, ok = hcall(recv, "Transform")
			case 7:
				m, mn, mp := c.pickMember(rng)
				opName, arg = "pipe", mn
				res, ok = hcall(recv, "Pipe", m)
				ptr = ptr || mp
			case 8, 9:
				if kind != "enum" {
					continue
				}
				var ks []string
				var ids []int
				for i, k := range []string{"0", "1", "2"} { // the entry KEYS of Enum("a","b","c") are the positions
					if rng.Intn(2) == 0 {
						ks = append(ks, k)
						ids = append(ids, 4+i)
					}
				}
				if rng.Intn(5) == 0 {
					ks = append(ks, "zz") // not an entry: silently ignored
					ids = append(ids, 9)
				}
				opName, arg = []string{"extract", "exclude"}[op-8], joinInts2(ids, ",")
				if arg == "" {
					arg = "-"
				}
				if ks == nil {
					ks = []string{}
				}
				res, ok = hcall(recv, map[string]string{"extract": "Extract", "exclude": "Exclude"}[opName], ks)
			case 10, 11:
				if kind != "list" && kind != "tuple" && kind != "keyed" {
					continue
				}
				nn := rng.Intn(4)
				opName = []string{"min", "max", "length"}[rng.Intn(3)]
				arg = fmt.Sprint(nn)
				res, ok = hcall(recv, map[string]string{"min": "Min", "max": "Max", "length": "Length"}[opName], nn)
			case 12:
				if kind != "tuple" {
					continue
				}
				m, mn, _ := c.pickMember(rng)
				opName, arg = "withrest", mn
				res, ok = hcall(recv, "WithRest", m)
			case 13:
				opName = []string{"default", "prefault"}[rng.Intn(2)]
				res, ok = hcall(recv, map[string]string{"default": "Default", "prefault": "Prefault"}[opName])
			case 14, 15:
				// accessors: hand out what the schema holds; no new schema
				acc := map[string][]string{"union": {"Options"}, "xor": {"Options"}, "enum": {"Options", "Enum"}, "list": {"Element"},
					"tuple": {"Items", "Rest"}, "keyed": {"KeyType", "ValueType"}, "transform": {"Inner"}, "pipe": {"Inner", "Output"}}[kind]
				if len(acc) == 0 {
					continue
				}
				a := acc[rng.Intn(len(acc))]
				opName, access = "access", true
				arg = a
				m := reflect.ValueOf(recv).MethodByName(a)
				if !m.IsValid() || m.Type().NumIn() != 0 {
					continue
				}
				var outs []reflect.Value
				if p := hx.Safely(func() { outs = m.Call(nil) }); p != "" {
					continue
				}
				// does the accessor hand out the schema's OWN slice / map (a caller writing into it would change the schema and
				// every schema sharing the list)?  Not a chaining call, so not C08's verdict: counted for the report (C12 / C15).
				_, in := structOf(recv)
				for _, ov := range outs {
					if (ov.Kind() == reflect.Slice || ov.Kind() == reflect.Map) && !ov.IsNil() && in.IsValid() {
						if f := in.FieldByName(a); f.IsValid() && f.Kind() == ov.Kind() && !f.IsNil() && f.Pointer() == ov.Pointer() {
							o.Count("accessor-hands-out-internal-list:" + storex.ShortType(recv) + "." + a)
						}
					}
				}
				ok = true
			}
			if opName == "" {
				continue
			}
			if !ok {
				o.Count("holdop-not-applicable:" + opName)
				continue
			}
			steps = append(steps, fmt.Sprintf("%d %s %s", ri, opName, arg))
			names = append(names, fmt.Sprintf("%d.%s(%s)", ri, opName, arg))
			o.Count("holdop:" + opName + ":" + kind)
			var changed []string
			for i, l := range c.live {
				if now := c.lookImpl(l.s); now != l.seen {
					changed = append(changed, fmt.Sprint(i))
				}
			}
			if access {
				verd = append(verd, "a:"+strings.Join(changed, ","))
				strct = append(strct, "a")
				continue
			}
			fresh := "1"
			for _, l := range c.live {
				if ptrOf(l.s) == ptrOf(res) {
					fresh = "0"
				}
			}
			verd = append(verd, fresh+":"+strings.Join(changed, ","))
			nl := &holdLive{s: res, ptr: ptr}
			c.live = append(c.live, nl)
			nl.seen = c.lookImpl(res)
			strct = append(strct, c.look(res))
		}
		if len(steps) == 0 {
			continue
		}
		op := fmt.Sprintf("c08 HOLD P:%s B:%s | %s #H %s", strings.Join(pt, ","), bspec, strings.Join(steps, " | "), strings.Join(names, " "))
		o.Emit(op, "V:"+strings.Join(verd, ";")+" S:"+strct0+";"+strings.Join(strct, ";"))
		o.Count("class:holder-content-history")
	}
}
