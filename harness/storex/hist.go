package storex

// Histories of real chaining calls with per-step snapshots (shared by the C08/C12/C15/C14 harnesses).

import (
	"encoding/json"
	"fmt"
	"os"
	"sort"
	"strings"

	"github.com/kaptinlin/gozod/core"
	"github.com/kaptinlin/gozod/jsonschema"

	"verifharness/hx"
)

// Live is a schema of the history with the state recorded when it was last looked at.
type Live struct {
	S    Schema
	Snap Snap
	FP   string
	Docs map[string]string // C12: first document seen per option set
	Acc  string            // C12 (Hist.Def): AccessorState — what the accessors hand out + the definition's content
}

// Hist is a history under construction.
type Hist struct {
	Base     Base
	Live     []*Live
	Steps    []string // op-line step tokens
	Verd     []string
	Strct    []string
	Names    []string
	Calls    []CallRec
	DeepOnly int
	BaseHdr  string
	WithJS   bool
	// C12, definition-held data (defdata.go): Def switches on the accessor/definition snapshot, the member-derived
	// probes (Extra) and the member-list tie with the Lean model (Intern numbers the member values of this history).
	Def    bool
	Extra  []any
	Intern *Interner
	// C12, in-place rewriting of documents (convopts.go): the W token of the conv step under construction ("" = none).
	WTok string
	// C12: distribution of the derived probes (harvest)
	ProbeStats map[string]int
	// C12, document-level tie (docbag.go): the K token (annotated Bag) and the k structure part (keywords of the real
	// document) of the conv step under construction, set by convCore.
	KTok, KPart string
}

// wtok is slot 7 of a conv step: "0", or the held-examples measurement of ConvW.
func (h *Hist) wtok() string {
	if h.WTok == "" {
		return "0"
	}
	return h.WTok
}

// CallRec records one call so that a history can be replayed on a fresh family of schemas.
type CallRec struct {
	Recv    int
	Method  string
	Variant int
}

// NewHist starts a history over a fresh base. withJS: fingerprints include the JSON Schema document and every
// new schema is converted once when it is created (C08); without it no conversion ever happens implicitly (C12).
func NewHist(b Base, withJS bool) *Hist { return newHist(b, withJS, false) }

// NewHistDef is NewHist(b, false) with the definition-held data observed as well (C12).
func NewHistDef(b Base) *Hist { return newHist(b, false, true) }

func newHist(b Base, withJS, def bool) *Hist {
	s := b.Mk().(Schema)
	h := &Hist{Base: b, WithJS: withJS, Def: def}
	if def {
		h.Intern = NewInterner()
		h.harvest(s)
	}
	fp := h.fp(s)
	sn := TakeSnap(s)
	h.Live = append(h.Live, &Live{S: s, Snap: sn, FP: fp, Acc: h.acc(s)})
	h.BaseHdr = fmt.Sprintf("%s %s %d %d", sn.BagState, sn.ValState, sn.Len, sn.Cap)
	return h
}

// fp is the behavioural fingerprint used by this history: the fixed probe set, and with Def the member-derived probes.
func (h *Hist) fp(s any) string {
	f := Fingerprint(s, h.WithJS)
	if h.Def {
		f += "|" + VerdictsOn(s, h.Extra)
	}
	return f
}

func (h *Hist) acc(s any) string {
	if !h.Def {
		return ""
	}
	return AccessorState(s)
}

// harvest adds the member-derived probes of s (deep copies) and the probes derived from s's own boundary values (read
// off an isolated twin: boundary.go) to the history's probe set, and records their distribution.
func (h *Hist) harvest(s any) {
	have := map[string]bool{}
	for _, p := range h.Extra {
		have[fmt.Sprintf("%T|%s", p, Canon(p))] = true
	}
	if h.ProbeStats == nil {
		h.ProbeStats = map[string]int{}
	}
	for _, p := range MemberProbes(s) {
		if k := fmt.Sprintf("%T|%s", p, Canon(p)); !have[k] && len(h.Extra) < 48 {
			have[k] = true
			h.Extra = append(h.Extra, p)
			h.ProbeStats["probe:member-derived"]++
		}
	}
	twin := Replay(h.Base, h.Calls)
	if twin == nil {
		return
	}
	bps := BoundaryProbes(twin[len(twin)-1])
	kind := typeCode(s)
	if len(bps) == 0 {
		h.ProbeStats["probes-from-bounds:none:"+kind]++
		return
	}
	for b, sp := range splitOf(s, bps) {
		h.ProbeStats["bound:"+b[:strings.Index(b+":", ":")]+":"+sp]++
	}
	h.ProbeStats["probes-from-bounds:some:"+kind]++
	for _, bp := range bps {
		if k := fmt.Sprintf("%T|%s", bp.In, Canon(bp.In)); !have[k] && len(h.Extra) < 88 {
			have[k] = true
			h.Extra = append(h.Extra, bp.In)
			h.ProbeStats["probe:"+bp.Class+"-bound"]++
		}
	}
}

// FlushProbeStats moves the probe distribution of this history into the output's histogram.
func (h *Hist) FlushProbeStats(o *hx.Out) {
	for k, n := range h.ProbeStats {
		for ; n > 0; n-- {
			o.Count(k)
		}
	}
	h.ProbeStats = nil
}

// Replay re-executes recorded calls on a fresh base and returns the live list (nil if a call no longer chains).
func Replay(b Base, calls []CallRec) []Schema {
	live := []Schema{b.Mk().(Schema)}
	for _, c := range calls {
		res, ok, _ := Call(live[c.Recv], c.Method, c.Variant)
		if !ok {
			return nil
		}
		live = append(live, res)
	}
	return live
}

var rebuildSet = map[string]bool{}
var accessSet = map[string]bool{}

func init() {
	for _, n := range strings.Fields(`WithRest Extend SafeExtend Merge Pick Omit MustPick MustOmit MustExtend Keyof And Or
		Array Slice Exclude Extract MustExclude MustExtract Input Output Implement ImplementAsync`) {
		rebuildSet[n] = true
	}
	for _, n := range strings.Fields(`Unwrap Inner Element Elem KeyType ValueType KeySchema ValueSchema Left Right Rest GetInner
		GetRest GetCatchall Catchall InnerType Options Shape GetUnknownKeys`) {
		accessSet[n] = true
	}
}

func (h *Hist) classify(b Base, recv *Live, method string, variant int, res Schema, rs Snap) (string, int) {
	if accessSet[method] {
		for j, l := range h.Live {
			if any(l.S) == any(res) {
				return "alias", j // the accessor handed out a schema that is already live
			}
		}
		return "access", 0
	}
	if any(res) == any(recv.S) {
		if method == "Meta" {
			return "metaself", variant
		}
		return "self", 0
	}
	switch {
	case method == "And" || method == "Or":
		return "wrap", 0 // constructor-built composite that holds the receiver as a member
	case rebuildSet[method]:
		return "rebuild", 0
	case (method == "Meta" || method == "Describe") && strings.Contains(fmt.Sprintf("%T", res), "ZodString["):
		return "copymeta", variant // ZodString.withMeta (also reached through the types embedding *ZodString)
	case method == "Partial" && strings.Contains(fmt.Sprintf("%T", recv.S), "ZodRecord"):
		return "bagwrite", 0
	}
	k := rs.Len - recv.Snap.Len
	if k < 0 || !strings.HasPrefix(rs.CheckIDs, recv.Snap.CheckIDs) {
		return "refilter", 0
	}
	return "derive", k
}

// shortType is the receiver's schema type without package and type arguments (ZodIntegerTyped, ZodString, …).
func shortType(x any) string {
	s := fmt.Sprintf("%T", x)
	if i := strings.Index(s, "["); i >= 0 {
		s = s[:i]
	}
	if i := strings.LastIndex(s, "."); i >= 0 {
		s = s[i+1:]
	}
	return s
}

func sameType(a, b any) bool { return fmt.Sprintf("%T", a) == fmt.Sprintf("%T", b) }

// sameFamily: same generic schema type up to its type arguments (Optional() turns ZodString[string] into ZodString[*string]).
func sameFamily(a, b any) bool {
	f := func(x any) string {
		s := fmt.Sprintf("%T", x)
		if i := strings.Index(s, "["); i >= 0 {
			s = s[:i]
		}
		return s
	}
	return f(a) == f(b)
}

func idx(xs []int) string {
	ss := make([]string, len(xs))
	for i, x := range xs {
		ss[i] = fmt.Sprint(x)
	}
	return strings.Join(ss, ",")
}

// step applies method to live[ri]; returns false when the call is not a chaining call for these arguments.
func (h *Hist) Step(ri int, method string, variant int, o *hx.Out) bool {
	recv := h.Live[ri]
	res, ok, why := Call(recv.S, method, variant)
	if !ok {
		o.Count("skipped:" + why)
		return false
	}
	// phase (a): what did the call itself do to the live schemas? (result not yet converted)
	var changed []int
	for i, l := range h.Live {
		ns := TakeSnap(l.S)
		nf := h.fp(l.S)
		if ns.Content() == l.Snap.Content() && nf != l.FP {
			// the converter itself is not deterministic for some schemas (Go map order, C12): a document that
			// merely flips between the values already seen for this very schema is not a change made by the call
			for try := 0; try < 12 && nf != l.FP; try++ {
				nf = h.fp(l.S)
			}
			if nf == l.FP {
				o.Count("nondeterministic-conversion-seen")
			}
		}
		if ns.Content() != l.Snap.Content() || nf != l.FP {
			changed = append(changed, i)
			if os.Getenv("C08_DEBUG") != "" {
				fmt.Fprintf(os.Stderr, "CHANGED %s live=%d by %d.%s\n  snap: %q\n     -> %q\n  fp: %s\n   -> %s\n", h.Base.Name, i, ri, method,
					l.Snap.Content(), ns.Content(), l.FP, nf)
			}
		} else if ns.Deep != l.Snap.Deep {
			h.DeepOnly++
		}
		l.Snap, l.FP = ns, nf
	}
	rs := TakeSnap(res)
	class, k := h.classify(h.Base, recv, method, variant, res, rs)
	fresh := 1
	if any(res) == any(recv.S) {
		fresh = 0
	}
	var b, a, v []int
	for i, l := range h.Live {
		if rs.BagPtr != 0 && rs.BagPtr == l.Snap.BagPtr {
			b = append(b, i)
		}
		if rs.Cap > 0 && l.Snap.Cap > 0 && rs.ChecksPtr == l.Snap.ChecksPtr {
			a = append(a, i)
		}
		if rs.ValPtr != 0 && rs.ValPtr == l.Snap.ValPtr {
			v = append(v, i)
		}
	}
	if class == "metaself" {
		// Meta() on the receiver also shows in composites that embed the receiver's document (And/Or members);
		// whether it does depends on the member being representable. Only the receiver itself (and its aliases in
		// the live list) is compared with the model; the propagation is counted.
		var own []int
		for _, i := range changed {
			if any(h.Live[i].S) == any(recv.S) {
				own = append(own, i)
			} else {
				o.Count("meta-change-propagated-to-composite")
			}
		}
		changed = own
	}
	st := fmt.Sprintf("b%sa%sv%sh%d/%d", idx(b), idx(a), idx(v), rs.Len, rs.Cap)
	if class == "access" || class == "alias" {
		st, fresh = "-", 1 // accessors hand out an existing inner schema (possibly the receiver): only "nothing changed" applies
	}
	rm := 0 // does the result start with a registry entry? (only some types' withInternals copy the receiver's)
	if rs.Meta != "" {
		rm = 1
	}
	h.Steps = append(h.Steps, fmt.Sprintf("%d %s %d %d %d %s %s %d %s", ri, class, k, rs.Len, rs.Cap, rs.BagState, rs.ValState, rm, method+"@"+shortType(recv.S)))
	h.Verd = append(h.Verd, fmt.Sprintf("%d:%s", fresh, idx(changed)))
	h.Strct = append(h.Strct, st)
	h.Names = append(h.Names, fmt.Sprintf("%d.%s/%d", ri, method, variant))
	h.Calls = append(h.Calls, CallRec{ri, method, variant})
	o.Count("class:" + class)
	// phase (b): warm the result up (first conversion) and re-baseline everybody; pollution of relatives by this
	// conversion is C12's business and only counted here.
	grew := false
	if h.Def {
		n := len(h.Extra)
		h.harvest(res)
		grew = len(h.Extra) != n
	}
	fp := h.fp(res)
	for _, l := range h.Live {
		ns := TakeSnap(l.S)
		nf := h.fp(l.S)
		if !grew && (ns.Content() != l.Snap.Content() || nf != l.FP) {
			o.Count("convert-of-result-changed-a-relative")
		}
		l.Snap, l.FP = ns, nf
		l.Acc = h.acc(l.S)
	}
	h.Live = append(h.Live, &Live{S: res, Snap: TakeSnap(res), FP: fp, Acc: h.acc(res)})
	return true
}

// ---------------------------------------------------------------------------------------------
// conversion and parse steps (C12)

// OptionSets are the fixed ToJSONSchema option settings exercised by the histories.
func OptionSets() []jsonschema.Options {
	return []jsonschema.Options{
		{},
		{IO: "input"},
		{Unrepresentable: "any"},
		{Reused: "ref"},
		{Target: "draft-07"},
		{Cycles: "throw"},
	}
}

// NOptions counts the option settings: the fixed ones, then the ones that carry a private metadata registry built
// for the family at hand (one that gives only the converted schema an ID, one that gives every live schema an ID,
// one that is empty).
func NOptions() int { return len(OptionSets()) + 3 }

// OptionsFor builds option setting opt for converting live[i] of the family `live`. The private registries are
// built afresh for each call (and for the isolated twin from the twin's own schemas), so whatever a conversion
// keeps beyond its own run is kept under another registry than the next conversion uses.
func OptionsFor(opt int, live []Schema, i int) jsonschema.Options {
	fixed := OptionSets()
	if opt < len(fixed) {
		return fixed[opt]
	}
	if opt >= OptCallbacksRead {
		return callbackOptions(opt, live, i)
	}
	reg := core.NewRegistry[core.GlobalMeta]()
	add := func(j int) {
		if zs, ok := live[j].(core.ZodSchema); ok {
			reg.Add(zs, core.GlobalMeta{ID: fmt.Sprintf("L%d", j)})
		}
	}
	switch opt - len(fixed) {
	case 0:
		add(i)
	case 1:
		for j := range live {
			add(j)
		}
	}
	return jsonschema.Options{Metadata: reg}
}

// relook re-snapshots every live schema and lists those whose exported-internals content or parse behaviour
// (and, with WithJS, document) differs from what was recorded.
func (h *Hist) relook(o *hx.Out, why string) (changed, bagChanged []int) {
	for i, l := range h.Live {
		ns := TakeSnap(l.S)
		nf := h.fp(l.S)
		na := h.acc(l.S)
		if ns.BagState+ns.Bag != l.Snap.BagState+l.Snap.Bag {
			bagChanged = append(bagChanged, i)
		}
		if na != l.Acc {
			o.Count("definition-data-changed")
			if os.Getenv("C08_DEBUG") != "" {
				fmt.Fprintf(os.Stderr, "ACC %s live=%d by %s\n  %s\n->%s\n", h.Base.Name, i, why, l.Acc, na)
			}
		}
		if ns.ContentNoBag() != l.Snap.ContentNoBag() || nf != l.FP || na != l.Acc {
			changed = append(changed, i)
			if os.Getenv("C08_DEBUG") != "" {
				fmt.Fprintf(os.Stderr, "CHANGED %s live=%d by %s\n  snap: %q\n     -> %q\n  fp: %s\n   -> %s\n", h.Base.Name, i, why,
					l.Snap.Content(), ns.Content(), l.FP, nf)
			}
		}
		l.Snap, l.FP, l.Acc = ns, nf, na
	}
	return changed, bagChanged
}

// convCore converts live[i] with option set opt and judges the step on the implementation alone. The oracle
// document is the one an isolated twin gives: the derivation steps of this history replayed on a fresh base, with
// nothing converted before.  same: "1" the document equals the twin's, "0" it does not, "n" it does not and fresh
// isolated twins do not even agree among themselves (the conversion is not a function of the schema at all).
// dtok: the definition's member list for the Lean model (Def histories; "0" otherwise), mtok: the member list the
// document shows ("" when there is no dtok).
func (h *Hist) convCore(i, opt int, o *hx.Out) (doc, same string, changed, bagChanged []int, dtok, mtok string) {
	l := h.Live[i]
	lives := make([]Schema, len(h.Live))
	for j, x := range h.Live {
		lives[j] = x.S
	}
	iso := "replay-failed"
	twin := Replay(h.Base, h.Calls)
	if twin != nil && i < len(twin) {
		iso = JSOpt(opt, twin, i)
	}
	dtok = "0"
	if h.Def && twin != nil && i < len(twin) {
		dtok = h.Intern.DefCode(l.S, twin[i]) // read before the conversion; the spent twin is the scratch for classifying the accessor
	}
	doc = JSOpt(opt, lives, i)
	changed, bagChanged = h.relook(o, fmt.Sprintf("conv %d", i))
	same = "1"
	if doc != iso {
		same = "0"
		if h.Def {
			if keys, nd := h.isoNondeterministic(i, opt, iso); nd {
				same = "n" + keys
				o.Count("conv:nondeterministic-in-isolation")
			}
		}
		if os.Getenv("C08_DEBUG") != "" {
			fmt.Fprintf(os.Stderr, "DOC %s live=%d opt=%d %s\n  got: %s\n  iso: %s\n", h.Base.Name, i, opt, same, doc, iso)
		}
	}
	if dtok != "0" && opt == OptInplace {
		mtok = "m-" // the Override has overwritten the member list the document shows
	} else if dtok != "0" {
		mtok = "m" + h.Intern.DocMembers(doc, strings.HasPrefix(dtok, "E"))
		o.Count("class:conv-with-definition-members")
	}
	h.KTok, h.KPart = h.docTie(i, opt, doc)
	if h.KTok != "K-" {
		o.Count("class:conv-with-document-keywords")
	}
	o.Count("class:conv")
	if strings.HasPrefix(doc, "ERR:") {
		o.Count("conv:unrepresentable")
	}
	return
}

// isoNondeterministic: do fresh isolated twins (nothing converted before, nothing shared with this history) convert
// to more than one document? If so, also the top-level keywords in which two such documents differ (joined by "+").
func (h *Hist) isoNondeterministic(i, opt int, first string) (string, bool) {
	for try := 0; try < 24; try++ {
		twin := Replay(h.Base, h.Calls)
		if twin == nil || i >= len(twin) {
			return "", false
		}
		if d := JSOpt(opt, twin, i); d != first {
			return docDiffKeys(first, d), true
		}
	}
	return "", false
}

// docDiffKeys lists the top-level keywords whose values differ between two documents ("document" when one of them is
// an error or a panic).
func docDiffKeys(a, b string) string {
	var ma, mb map[string]json.RawMessage
	if json.Unmarshal([]byte(a), &ma) != nil || json.Unmarshal([]byte(b), &mb) != nil {
		return "document"
	}
	set := map[string]bool{}
	for k, v := range ma {
		if w, ok := mb[k]; !ok || string(w) != string(v) {
			set[k] = true
		}
	}
	for k := range mb {
		if _, ok := ma[k]; !ok {
			set[k] = true
		}
	}
	var ks []string
	for k := range set {
		ks = append(ks, k)
	}
	sort.Strings(ks)
	return strings.Join(ks, "+")
}

// Conv converts live[i] with option set opt (see convCore).
func (h *Hist) Conv(i, opt int, o *hx.Out) {
	l := h.Live[i]
	_, same, changed, bagChanged, dtok, mtok := h.convCore(i, opt, o)
	h.Steps = append(h.Steps, fmt.Sprintf("%d conv %d %s 0 %s %s %s %s ToJSONSchema@%s", i, opt, dtok, l.Snap.BagState, l.Snap.ValState, h.wtok(), h.KTok, shortType(l.S)))
	h.Verd = append(h.Verd, fmt.Sprintf("%s:%s", same, idx(changed)))
	h.Strct = append(h.Strct, "g"+idx(bagChanged)+mtok+"!"+h.KPart) // which live Bags were rewritten by this conversion; the members shown; the keywords of the document
	h.Names = append(h.Names, fmt.Sprintf("conv(%d,opt%d)", i, opt))
}

// ParseStep parses the whole probe set with live[i].
func (h *Hist) ParseStep(i int, o *hx.Out) {
	l := h.Live[i]
	_ = Verdicts(l.S)
	changed, _ := h.relook(o, fmt.Sprintf("parse %d", i))
	h.Steps = append(h.Steps, fmt.Sprintf("%d parse 0 0 0 %s %s 0 Parse@%s", i, l.Snap.BagState, l.Snap.ValState, shortType(l.S)))
	h.Verd = append(h.Verd, fmt.Sprintf("1:%s", idx(changed)))
	h.Strct = append(h.Strct, "-")
	h.Names = append(h.Names, fmt.Sprintf("parse(%d)", i))
	o.Count("class:parse")
}

// OpLine renders the history for the Lean driver.
func (h *Hist) OpLine(prop, tag string) (op, impl string) {
	op = fmt.Sprintf("%s %s %s | %s #%s %s", prop, h.Base.Name, h.BaseHdr, strings.Join(h.Steps, " | "), tag, strings.Join(h.Names, " "))
	impl = "V:" + strings.Join(h.Verd, ";") + " S:" + strings.Join(h.Strct, ";")
	return
}
