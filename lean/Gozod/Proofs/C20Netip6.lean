/-
  C20 — validator side of IPv6 / CIDRv6: the transcription of `netip.parseIPv6` (Model/GoNetip.lean, from the Go source: the outer
  loop over 16-bit fields with its look-ahead, the ellipsis bookkeeping, the embedded IPv4 re-parsed by `parseIPv4Fields` from the start
  of the field) accepts exactly the strings of the RFC 4291 definition `Fmt.ipv6` (a byte-by-byte automaton), for all strings:

      c20_ipv6_netip : ∀ s, Netip.ipv6 s = Fmt.ipv6.run s

  The Go loop works field by field and finds some errors late (too many fields: at the end); the automaton refuses eagerly.  The
  proof is a simulation at the loop heads (`head_sim`, induction over the remaining iterations), with
    * `in_group`   the inner hex loop against the automaton's phase 3,
    * `oct_step`   the automaton's "group read as a decimal octet" accumulator against `parseIPv4Fields` started at the field,
    * `sim5`       the automaton's dotted-quad phase against the IPv4 automaton (hence, `ipv4Fields_run`, against `parseIPv4Fields`),
    * `doomed14`   once seven fields and an ellipsis are there, the Go loop refuses whatever follows.
-/
import Gozod.Proofs.C20Netip
import Gozod.Model.FormatSpecV6
namespace Gozod.C20
open Gozod Gozod.Fmt

/-! ## the IPv6 automaton without the `Spec` wrapper -/

def gV : Option V6St → Nat → Option V6St
  | none, _ => none
  | some q, c => if c = 58 ∨ c = 46 ∨ isHex c = true then ipv6Step q c else none
def accV : Option V6St → Bool
  | none => false
  | some q => ipv6Acc q
def runV (o : Option V6St) (s : List Nat) : Bool := accV (s.foldl gV o)

theorem runV_none : ∀ s, runV none s = false
  | [] => rfl
  | _ :: s => runV_none s
theorem runV_cons (o : Option V6St) (c : Nat) (s : List Nat) : runV o (c :: s) = runV (gV o c) s := rfl
theorem gV_some (q : V6St) (c : Nat) : gV (some q) c = if c = 58 ∨ c = 46 ∨ isHex c = true then ipv6Step q c else none := rfl

theorem isHex_iff (c : Nat) : isHex c = true ↔ (48 ≤ c ∧ c ≤ 57) ∨ (65 ≤ c ∧ c ≤ 70) ∨ (97 ≤ c ∧ c ≤ 102) := by
  simp [isHex, isDigit, isUpperHex, isLowerHex, or_assoc]

theorem elem_app6 (c : Nat) : ∀ (l1 l2 : List Nat), (l1 ++ l2).elem c = (l1.elem c || l2.elem c)
  | [], _ => by simp [List.elem]
  | x :: l1, l2 => by
    have ih := elem_app6 c l1 l2
    simp only [List.cons_append, List.elem]
    cases (c == x) with
    | true => rfl
    | false => exact ih

theorem hexDigits_elem (c : Nat) : hexDigits.elem c = isHex c := by
  unfold hexDigits
  rw [elem_app6, digits_elem]
  have hl : [65, 66, 67, 68, 69, 70, 97, 98, 99, 100, 101, 102].elem c = (isUpperHex c || isLowerHex c) := by
    by_cases h : (65 ≤ c ∧ c ≤ 70) ∨ (97 ≤ c ∧ c ≤ 102)
    · have : c = 65 ∨ c = 66 ∨ c = 67 ∨ c = 68 ∨ c = 69 ∨ c = 70 ∨ c = 97 ∨ c = 98 ∨ c = 99 ∨ c = 100 ∨ c = 101 ∨ c = 102 := by omega
      rcases this with h | h | h | h | h | h | h | h | h | h | h | h <;> subst h <;> decide
    · have hu : isUpperHex c = false := by
        cases hu : isUpperHex c with
        | false => rfl
        | true => simp [isUpperHex] at hu; omega
      have hlw : isLowerHex c = false := by
        cases hlw : isLowerHex c with
        | false => rfl
        | true => simp [isLowerHex] at hlw; omega
      rw [hu, hlw]
      have e : ∀ x : Nat, c ≠ x → (c == x) = false := fun x hx => by simp [hx]
      simp only [List.elem, e 65 (by omega), e 66 (by omega), e 67 (by omega), e 68 (by omega), e 69 (by omega), e 70 (by omega),
        e 97 (by omega), e 98 (by omega), e 99 (by omega), e 100 (by omega), e 101 (by omega), e 102 (by omega)]
      rfl
  rw [hl]
  simp [isHex, Bool.or_assoc]

theorem gV_spec (o : Option V6St) (c : Nat) : Fmt.ipv6.gstep o c = gV o c := by
  cases o with
  | none => rfl
  | some q =>
    show (if (58 :: 46 :: hexDigits).elem c then ipv6Step q c else none) = (if c = 58 ∨ c = 46 ∨ isHex c = true then ipv6Step q c else none)
    rw [elem_cons', elem_cons', hexDigits_elem]
    by_cases h : c = 58 <;> by_cases h' : c = 46 <;> by_cases hd : isHex c = true <;> simp [h, h', hd]

theorem runV_spec (s : List Nat) : Fmt.ipv6.run s = runV (some ⟨0, 0, 0, 0, 0, 0⟩) s := by
  have key : ∀ (s : List Nat) (o : Option V6St), Fmt.ipv6.accO (s.foldl Fmt.ipv6.gstep o) = accV (s.foldl gV o) := by
    intro s
    induction s with
    | nil => intro o; cases o <;> rfl
    | cons c s ih =>
      intro o
      exact (congrArg (fun x => Fmt.ipv6.accO (s.foldl Fmt.ipv6.gstep x)) (gV_spec o c)).trans (ih _)
  exact key s (some ⟨0, 0, 0, 0, 0, 0⟩)

/-! ## the dotted-quad phase is the IPv4 automaton -/

theorem sim5 : ∀ (r : List Nat) (n v k : Nat), runV (some ⟨5, 0, 0, n, v, k⟩) r = run4 (some ⟨k, n, v⟩) r
  | [], n, v, k => by
    simp [runV, accV, ipv6Acc, run4, acc4]
  | c :: r, n, v, k => by
    rw [runV_cons, run4_cons, gV_some, gstep4]
    by_cases h46 : c = 46
    · subst h46
      simp only [true_or, or_true, if_true, ipv6Step, ipv6StepG, ipv4Step]
      by_cases hk : n ≥ 1 ∧ k < 3
      · rw [if_pos hk, if_pos hk]; exact sim5 r 0 0 (k + 1)
      · rw [if_neg hk, if_neg hk, runV_none, run4_none]
    · by_cases hd : isDigit c = true
      · have hr := (isDigit_iff c).1 hd
        have hx : isHex c = true := (isHex_iff c).2 (Or.inl hr)
        simp only [hx, or_true, if_true, hd, ipv6Step, ipv6StepG, ipv4Step, h46, if_false, V6St.digit, DotSt.digit, Bool.not_true,
          Bool.false_eq_true]
        by_cases hn : n = 0
        · rw [if_pos hn, if_pos hn]; exact sim5 r 1 (c - 48) k
        · rw [if_neg hn, if_neg hn]
          by_cases hv : v = 0
          · rw [if_pos hv, if_pos hv, runV_none, run4_none]
          · rw [if_neg hv, if_neg hv]
            by_cases hle : v * 10 + (c - 48) ≤ 255
            · rw [if_pos hle, if_pos hle]; exact sim5 r (n + 1) (v * 10 + (c - 48)) k
            · rw [if_neg hle, if_neg hle, runV_none, run4_none]
      · have h4 : ¬ (c = 46 ∨ isDigit c = true) := by intro h; rcases h with h | h; exact h46 h; exact hd h
        rw [if_neg h4, run4_none]
        simp only [Bool.not_eq_true] at hd
        by_cases hin : c = 58 ∨ c = 46 ∨ isHex c = true
        · rw [if_pos hin]
          simp only [ipv6Step, ipv6StepG, if_true, h46, if_false, V6St.digit, hd, Bool.not_false]
          exact runV_none r
        · rw [if_neg hin]; exact runV_none r

/-! ## a group read as a decimal octet -/

/-- `h` (the hex digits of the current group) read by the IPv4 automaton from its start state, against the automaton's accumulator `v` -/
def OInv (h : List Nat) (n v : Nat) : Prop :=
  n = h.length ∧ n ≥ 1 ∧ (v ≤ 255 ∨ v = 256) ∧ h.foldl g4 (some ⟨0, 0, 0⟩) = (if v ≤ 255 then some ⟨0, n, v⟩ else none)

theorem foldl_g4_none : ∀ s : List Nat, s.foldl g4 none = none
  | [] => rfl
  | _ :: s => foldl_g4_none s

theorem oct_start (c : Nat) (hx : isHex c = true) : OInv [c] 1 (octAcc 0 0 c) := by
  refine ⟨rfl, by omega, ?_, ?_⟩
  · unfold octAcc
    by_cases hd : isDigit c = true
    · have := (isDigit_iff c).1 hd; simp [hd]; omega
    · simp only [Bool.not_eq_true] at hd; simp [hd]
  · simp only [List.foldl_cons, List.foldl_nil, gstep4]
    unfold octAcc
    by_cases hd : isDigit c = true
    · have hr := (isDigit_iff c).1 hd
      have h46 : c ≠ 46 := by omega
      have : c - 48 ≤ 255 := by omega
      simp [hd, ipv4Step, h46, DotSt.digit, this]
    · have h46 : c ≠ 46 := by
        intro e; subst e; revert hx; decide
      simp only [Bool.not_eq_true] at hd
      simp [hd, h46]

theorem oct_step (h : List Nat) (n v c : Nat) (hx : isHex c = true) (hi : OInv h n v) : OInv (h ++ [c]) (n + 1) (octAcc n v c) := by
  obtain ⟨h1, h2, h3, h4⟩ := hi
  have h46 : c ≠ 46 := by intro e; subst e; revert hx; decide
  have hn0 : ¬ n = 0 := by omega
  refine ⟨by simp [h1], by omega, ?_, ?_⟩
  · unfold octAcc
    by_cases hd : isDigit c = true
    · simp only [hd, Bool.not_true, Bool.false_eq_true, if_false, hn0]
      repeat' split
      all_goals omega
    · simp only [Bool.not_eq_true] at hd; simp [hd]
  · rw [List.foldl_append, h4]
    simp only [List.foldl_cons, List.foldl_nil]
    unfold octAcc
    by_cases hd : isDigit c = true
    · have hr := (isDigit_iff c).1 hd
      simp only [hd, Bool.not_true, Bool.false_eq_true, if_false, hn0]
      by_cases hv : v ≤ 255
      · rw [if_pos hv, gstep4]
        simp only [hd, or_true, if_true, ipv4Step, h46, if_false, DotSt.digit, hn0]
        by_cases hv0 : v = 0
        · have : v = 0 ∨ v = 256 := Or.inl hv0
          simp [hv0]
        · have hne : ¬ (v = 0 ∨ v = 256) := by omega
          rw [if_neg hv0, if_neg hne]
          by_cases hle : v * 10 + (c - 48) ≤ 255
          · simp [hle]
          · simp [hle]
      · have hv6 : v = 256 := by omega
        have : v = 0 ∨ v = 256 := Or.inr hv6
        rw [if_neg hv, if_pos this]
        simp [g4]
    · simp only [Bool.not_eq_true] at hd
      simp only [hd, Bool.not_false, if_true]
      by_cases hv : v ≤ 255
      · rw [if_pos hv, gstep4]; simp [hd, h46]
      · rw [if_neg hv]; simp [g4]

/-! ## once seven fields and an ellipsis are there, the Go loop refuses whatever follows -/

theorem doomed14 (e : Nat) (s : List Nat) : Netip.final6 (Netip.loop6 1 14 (some e) s) = false := by
  simp only [Netip.loop6]
  cases hsc : Netip.scanHex 0 s with
  | none => rfl
  | some p =>
    obtain ⟨off, rest⟩ := p
    simp only [Netip.afterField]
    by_cases h0 : off = 0
    · simp [h0, Netip.final6]
    · rw [if_neg h0]
      rcases rest with _ | ⟨c, _ | ⟨c', r⟩⟩
      · simp [Netip.final6]
      · by_cases h46 : c = 46
        · simp [h46, Netip.final6]
        · by_cases h58 : c = 58 <;> simp [h46, h58, Netip.final6]
      · by_cases h46 : c = 46
        · simp [h46, Netip.final6]
        · by_cases h58 : c = 58
          · by_cases h58' : c' = 58
            · simp [h46, h58, h58', Netip.final6]
            · simp [h46, h58, h58', Netip.final6, Netip.loop6]
          · simp [h46, h58, Netip.final6]

/-! ## the simulation at the loop heads -/

/-- Go's `ellipsis` variable against the automaton's flag -/
def EllRel (ellG : Option Nat) (ell : Nat) : Prop := (ellG.isSome = true ↔ ell = 1) ∧ ell ≤ 1

/-- the automaton's accumulator for the group `h` read so far -/
def VOk (g ell : Nat) (h : List Nat) (n v : Nat) : Prop :=
  if quadMayStart g ell = true then OInv h n v else (v = 256 ∧ n = h.length ∧ n ≥ 1)

/-- at a loop head: `i` bytes are filled, `fuel` iterations may follow; the automaton is in `q` -/
def HeadRel (fuel i : Nat) (ellG : Option Nat) (s : List Nat) (q : V6St) : Prop :=
  i = 2 * q.g ∧ i + 2 * fuel = 16 ∧ EllRel ellG q.ell ∧ q.n = 0 ∧ q.v = 0 ∧ q.k = 0 ∧
  ((q.ph = 0 ∧ q.g = 0 ∧ q.ell = 0 ∧ (∀ r, s ≠ 58 :: 58 :: r)) ∨
   (q.ph = 4 ∧ 1 ≤ q.g ∧ (q.ell = 0 → q.g ≤ 7) ∧ (q.ell = 1 → q.g ≤ 6) ∧ (∃ c r, s = c :: r ∧ c ≠ 58)) ∨
   (q.ph = 2 ∧ q.ell = 1 ∧ q.g ≤ 7 ∧ s ≠ []))

def HeadOK (fuel : Nat) : Prop :=
  ∀ (i : Nat) (ellG : Option Nat) (s : List Nat) (q : V6St), HeadRel fuel i ellG s q →
    Netip.final6 (Netip.loop6 fuel i ellG s) = runV (some q) s

theorem FInv0 (s : List Nat) : FInv 0 0 0 none s :=
  ⟨by omega, fun _ => by omega, fun _ => rfl, ⟨fun _ => Or.inl rfl, fun _ => rfl⟩, fun _ h => by omega⟩

/-- after the hex digits of a field: end of string, '.', ':' or an error -/
theorem dispatch (fuel i : Nat) (ellG : Option Nat) (g ell : Nat) (IH : HeadOK fuel)
    (hi : i = 2 * g) (hf : i + 2 * (fuel + 1) = 16) (he : EllRel ellG ell) (hr0 : ell = 0 → g ≤ 7) (hr1 : ell = 1 → g ≤ 6)
    (h : List Nat) (n v : Nat) (hv : VOk g ell h n v) (rest : List Nat) (hrest : ∀ c r, rest = c :: r → isHex c = false) :
    Netip.final6 (Netip.afterField (Netip.loop6 fuel) i ellG (h ++ rest) n rest) = runV (some ⟨3, g, ell, n, v, 0⟩) rest := by
  obtain ⟨he1, he2⟩ := he
  have hn1 : n ≥ 1 := by
    unfold VOk at hv; split at hv
    · exact hv.2.1
    · exact hv.2.2
  have hn0 : ¬ n = 0 := by omega
  unfold Netip.afterField
  rw [if_neg hn0]
  cases rest with
  | nil =>
    -- end of the string
    simp only [Netip.final6, List.isEmpty_nil, Bool.true_and, runV, List.foldl_nil, accV, ipv6Acc]
    cases ellG with
    | none =>
      have hell : ell = 0 := by
        have : ¬ ell = 1 := fun h => by have := he1.2 h; simp at this
        omega
      have hg := hr0 hell
      by_cases h7 : g = 7
      · have : ¬ i + 2 < 16 := by omega
        simp [this, hell, h7]
      · have : i + 2 < 16 := by omega
        simp [this, hell, h7]
    | some e =>
      have hell : ell = 1 := he1.1 rfl
      have hg := hr1 hell
      have : i + 2 < 16 := by omega
      simp [this, hell]
  | cons c r =>
    have hcx : isHex c = false := hrest c r rfl
    rw [runV_cons, gV_some]
    simp only []
    by_cases h46 : c = 46
    · -- embedded IPv4
      subst h46
      simp only [if_true, true_or, or_true, ipv6Step, ipv6StepG]
      have e58 : ¬ (46 : Nat) = 58 := by decide
      have e35 : ¬ (3 : Nat) = 5 := by decide
      simp only [e58, e35, if_false, if_true, true_and]
      by_cases hq : quadMayStart g ell = true
      · -- the right place for a dotted quad
        have hoi : OInv h n v := by unfold VOk at hv; rw [if_pos hq] at hv; exact hv
        obtain ⟨_, _, hv256, hfold⟩ := hoi
        have hplace : ¬ (ellG = none ∧ i ≠ 12) ∧ ¬ (i + 4 > 16) ∧ (if i + 4 < 16 then ellG.isSome else !ellG.isSome) = true := by
          unfold quadMayStart at hq
          cases ellG with
          | none =>
            have hell : ell = 0 := by
              have : ¬ ell = 1 := fun h => by have := he1.2 h; simp at this
              omega
            simp only [hell, if_true, decide_eq_true_eq] at hq
            refine ⟨by omega, by omega, ?_⟩
            have : ¬ i + 4 < 16 := by omega
            simp [this]
          | some e =>
            have hell : ell = 1 := he1.1 rfl
            have e10 : ¬ (1 : Nat) = 0 := by decide
            simp only [hell, e10, if_false, decide_eq_true_eq] at hq
            refine ⟨by simp, by omega, ?_⟩
            have : i + 4 < 16 := by omega
            simp [this]
        obtain ⟨hp1, hp2, hp3⟩ := hplace
        rw [if_neg hp1, if_neg hp2, ipv4Fields_run (h ++ 46 :: r) 0 0 0 none (FInv0 _)]
        have hrun : run4 (some ⟨0, 0, 0⟩) (h ++ 46 :: r) = run4 (h.foldl g4 (some ⟨0, 0, 0⟩)) (46 :: r) := by
          simp only [run4, List.foldl_append]
        rw [hrun, hfold]
        by_cases hv255 : v ≤ 255
        · rw [if_pos hv255, if_pos hv255, run4_cons, gstep4]
          simp only [true_or, if_true, ipv4Step]
          have hk : n ≥ 1 ∧ (0 : Nat) < 3 := ⟨hn1, by decide⟩
          rw [if_pos hk, sim5]
          have hfin : Netip.final6 (some (i + 4, ellG, [])) = true := by
            simp only [Netip.final6, List.isEmpty_nil, Bool.true_and]; exact hp3
          cases hr4 : run4 (some ⟨0 + 1, 0, 0⟩) r with
          | false => simp [Netip.final6]
          | true => simp only [if_true]; exact hfin
        · rw [if_neg hv255, if_neg hv255, run4_none, runV_none]
          simp [Netip.final6]
      · -- not the right place: the automaton's accumulator is 256, Go refuses by its position tests
        have hv6 : v = 256 := by unfold VOk at hv; rw [if_neg hq] at hv; exact hv.1
        have hnv : ¬ v ≤ 255 := by omega
        rw [if_neg hnv, runV_none]
        unfold quadMayStart at hq
        cases ellG with
        | none =>
          have hell : ell = 0 := by
            have : ¬ ell = 1 := fun h => by have := he1.2 h; simp at this
            omega
          simp only [hell, if_true, decide_eq_true_eq] at hq
          have : (none : Option Nat) = none ∧ i ≠ 12 := ⟨rfl, by omega⟩
          rw [if_pos this]; rfl
        | some e =>
          have hell : ell = 1 := he1.1 rfl
          have e10 : ¬ (1 : Nat) = 0 := by decide
          simp only [hell, e10, if_false, decide_eq_true_eq] at hq
          have h1 : ¬ ((some e : Option Nat) = none ∧ i ≠ 12) := by simp
          rw [if_neg h1]
          by_cases hbig : i + 4 > 16
          · rw [if_pos hbig]; rfl
          · rw [if_neg hbig]
            have : ¬ i + 4 < 16 := by omega
            split <;> simp [Netip.final6, this]
    · rw [if_neg h46]
      by_cases h58 : c = 58
      · -- a colon: more must follow
        subst h58
        have e1 : ¬ (58 : Nat) ≠ 58 := by simp
        rw [if_neg e1]
        simp only [true_or, if_true, ipv6Step, ipv6StepG]
        have e35 : ¬ (3 : Nat) = 5 := by decide
        have e30 : ¬ (3 : Nat) = 0 := by decide
        have e31 : ¬ (3 : Nat) = 1 := by decide
        simp only [e35, e30, e31, if_false, if_true]
        by_cases hroom : (ell = 0 ∧ g + 1 ≤ 7) ∨ (ell = 1 ∧ g + 1 ≤ 6)
        · rw [if_pos hroom]
          cases r with
          | nil => simp [Netip.final6, runV, accV, ipv6Acc]
          | cons c' r'' =>
            simp only []
            rw [runV_cons, gV_some]
            by_cases h58' : c' = 58
            · -- "::"
              subst h58'
              simp only [if_true, true_or, ipv6Step, ipv6StepG]
              have e45 : ¬ (4 : Nat) = 5 := by decide
              have e40 : ¬ (4 : Nat) = 0 := by decide
              have e41 : ¬ (4 : Nat) = 1 := by decide
              have e43 : ¬ (4 : Nat) = 3 := by decide
              simp only [e45, e40, e41, e43, if_false, if_true]
              cases ellG with
              | some e =>
                have hell : ell = 1 := he1.1 rfl
                have : ¬ ell = 0 := by omega
                rw [if_neg this, runV_none]
                simp [Netip.final6]
              | none =>
                have hell : ell = 0 := by
                  have : ¬ ell = 1 := fun h => by have := he1.2 h; simp at this
                  omega
                have hg7 : g + 1 ≤ 7 := by rcases hroom with h | h <;> omega
                rw [if_pos hell]
                simp only [Option.isSome_none, Bool.false_eq_true, if_false]
                cases r'' with
                | nil =>
                  have : i + 2 < 16 := by omega
                  simp [Netip.final6, this, runV, accV, ipv6Acc]
                | cons c'' r3 =>
                  simp only [List.isEmpty_cons, Bool.false_eq_true, if_false]
                  have hhead : HeadRel fuel (i + 2) (some (i + 2)) (c'' :: r3) ⟨2, g + 1, 1, 0, 0, 0⟩ := by
                    refine ⟨?_, ?_, ⟨⟨fun _ => rfl, fun _ => rfl⟩, Nat.le_refl 1⟩, rfl, rfl, rfl, Or.inr (Or.inr ⟨rfl, rfl, hg7, by simp⟩)⟩
                    · show i + 2 = 2 * (g + 1); omega
                    · omega
                  exact IH (i + 2) (some (i + 2)) (c'' :: r3) ⟨2, g + 1, 1, 0, 0, 0⟩ hhead
            · -- the next field
              rw [if_neg h58']
              have hhead : HeadRel fuel (i + 2) ellG (c' :: r'') ⟨4, g + 1, ell, 0, 0, 0⟩ := by
                refine ⟨?_, ?_, ⟨he1, he2⟩, rfl, rfl, rfl, Or.inr (Or.inl ⟨rfl, ?_, ?_, ?_, c', r'', rfl, h58'⟩)⟩
                · show i + 2 = 2 * (g + 1); omega
                · omega
                · show 1 ≤ g + 1; omega
                · intro h0; have h0 : ell = 0 := h0; show g + 1 ≤ 7; rcases hroom with h' | h' <;> omega
                · intro h1; have h1 : ell = 1 := h1; show g + 1 ≤ 6; rcases hroom with h' | h' <;> omega
              rw [IH (i + 2) ellG (c' :: r'') _ hhead, runV_cons, gV_some]
        · -- no room for another field: the automaton refuses now, Go later
          rw [if_neg hroom, runV_none]
          cases r with
          | nil => simp [Netip.final6]
          | cons c' r'' =>
            simp only []
            cases ellG with
            | none =>
              have hell : ell = 0 := by
                have : ¬ ell = 1 := fun h => by have := he1.2 h; simp at this
                omega
              have hg : g = 7 := by
                have := hr0 hell
                have : ¬ g + 1 ≤ 7 := fun h => hroom (Or.inl ⟨hell, h⟩)
                omega
              have hfuel : fuel = 0 := by omega
              subst hfuel
              by_cases h58' : c' = 58
              · simp only [h58', if_true, Option.isSome_none, Bool.false_eq_true, if_false]
                cases r'' with
                | nil =>
                  have : ¬ i + 2 < 16 := by omega
                  simp [Netip.final6, this]
                | cons c'' r3 => simp [Netip.loop6, Netip.final6]
              · simp [h58', Netip.loop6, Netip.final6]
            | some e =>
              have hell : ell = 1 := he1.1 rfl
              have hg : g = 6 := by
                have := hr1 hell
                have : ¬ g + 1 ≤ 6 := fun h => hroom (Or.inr ⟨hell, h⟩)
                omega
              have hfuel : fuel = 1 := by omega
              subst hfuel
              have hi14 : i + 2 = 14 := by omega
              by_cases h58' : c' = 58
              · simp [h58', Netip.final6]
              · simp only [h58', if_false]
                rw [hi14]; exact doomed14 e _
      · -- anything else
        have hno : ¬ (c = 58 ∨ c = 46 ∨ isHex c = true) := by
          intro h; rcases h with h | h | h
          · exact h58 h
          · exact h46 h
          · rw [hcx] at h; cases h
        have : c ≠ 58 := h58
        rw [if_pos this, if_neg hno, runV_none]; rfl

/-- the inner loop over the hex digits of a field against the automaton's phase 3 -/
theorem in_group (fuel i : Nat) (ellG : Option Nat) (g ell : Nat) (IH : HeadOK fuel)
    (hi : i = 2 * g) (hf : i + 2 * (fuel + 1) = 16) (he : EllRel ellG ell) (hr0 : ell = 0 → g ≤ 7) (hr1 : ell = 1 → g ≤ 6) :
    ∀ (s h : List Nat) (n v : Nat), VOk g ell h n v → n ≤ 4 →
      Netip.final6 (match Netip.scanHex n s with
        | none => none
        | some (off, rest) => Netip.afterField (Netip.loop6 fuel) i ellG (h ++ s) off rest) = runV (some ⟨3, g, ell, n, v, 0⟩) s
  | [], h, n, v, hv, _ => by
    simp only [Netip.scanHex]
    exact dispatch fuel i ellG g ell IH hi hf he hr0 hr1 h n v hv [] (fun c r hcr => by cases hcr)
  | c :: r, h, n, v, hv, hn4 => by
    by_cases hx : isHex c = true
    · have hrng := (isHex_iff c).1 hx
      have h58 : c ≠ 58 := by omega
      have h46 : c ≠ 46 := by omega
      rw [runV_cons, gV_some]
      simp only [Netip.scanHex, hx, if_true, or_true, ipv6Step, ipv6StepG]
      have e35 : ¬ (3 : Nat) = 5 := by decide
      have e30 : ¬ (3 : Nat) = 0 := by decide
      have e34 : ¬ (3 : Nat) = 4 := by decide
      have e32 : ¬ (3 : Nat) = 2 := by decide
      simp only [e35, e30, e34, e32, h58, h46, if_false, or_self, if_true]
      by_cases hn3 : n > 3
      · have : ¬ n < 4 := by omega
        rw [if_pos hn3, if_neg this, runV_none]; rfl
      · have hlt : n < 4 := by omega
        rw [if_neg hn3, if_pos hlt]
        have hv' : VOk g ell (h ++ [c]) (n + 1) (if (true && quadMayStart g ell) = true then octAcc n v c else 256) := by
          unfold VOk at hv ⊢
          by_cases hq : quadMayStart g ell = true
          · rw [if_pos hq] at hv ⊢
            simp only [hq, Bool.and_self, if_true]
            exact oct_step h n v c hx hv
          · rw [if_neg hq] at hv ⊢
            simp only [Bool.not_eq_true] at hq
            simp only [hq, Bool.and_false, Bool.false_eq_true, if_false]
            exact ⟨by simp, by simp [hv.2.1], by omega⟩
        have := in_group fuel i ellG g ell IH hi hf he hr0 hr1 r (h ++ [c]) (n + 1) _ hv' (by omega)
        rw [List.append_assoc] at this
        exact this
    · simp only [Bool.not_eq_true] at hx
      simp only [Netip.scanHex, hx, Bool.false_eq_true, if_false]
      exact dispatch fuel i ellG g ell IH hi hf he hr0 hr1 h n v hv (c :: r) (fun c' r' hcr => by cases hcr; exact hx)

/-- a byte that cannot begin a field is refused by the automaton at a loop head -/
theorem head_nonhex (q : V6St) (c : Nat) (r : List Nat) (hx : isHex c = false)
    (hq : (q.ph = 0 ∧ (∀ r', c :: r ≠ 58 :: 58 :: r')) ∨ (q.ph = 4 ∧ c ≠ 58) ∨ q.ph = 2) : runV (some q) (c :: r) = false := by
  obtain ⟨ph, g, ell, n, v, k⟩ := q
  rw [runV_cons, gV_some]
  by_cases hin : c = 58 ∨ c = 46 ∨ isHex c = true
  · rw [if_pos hin]
    rcases hin with h58 | h46 | hh
    · subst h58
      rcases hq with ⟨hp, hns⟩ | ⟨hp, hne⟩ | hp
      · simp only at hp; subst hp
        simp only [ipv6Step, ipv6StepG]
        have e05 : ¬ (0 : Nat) = 5 := by decide
        simp only [e05, if_false, if_true]
        cases r with
        | nil => simp [runV, accV, ipv6Acc]
        | cons c2 r2 =>
          have hc2 : c2 ≠ 58 := by intro e; subst e; exact hns r2 rfl
          rw [runV_cons, gV_some]
          by_cases hin2 : c2 = 58 ∨ c2 = 46 ∨ isHex c2 = true
          · rw [if_pos hin2]
            have e15 : ¬ (1 : Nat) = 5 := by decide
            have e10 : ¬ (1 : Nat) = 0 := by decide
            have e13 : ¬ (1 : Nat) = 3 := by decide
            have e14 : ¬ (1 : Nat) = 4 := by decide
            have e12 : ¬ (1 : Nat) = 2 := by decide
            simp only [ipv6Step, ipv6StepG, e15, e10, e13, e14, e12, hc2, if_false, false_and, or_self]
            split
            · exact runV_none r2
            · split <;> exact runV_none r2
          · rw [if_neg hin2]; exact runV_none r2
      · exact absurd rfl hne
      · simp only at hp; subst hp
        have e25 : ¬ (2 : Nat) = 5 := by decide
        have e20 : ¬ (2 : Nat) = 0 := by decide
        have e21 : ¬ (2 : Nat) = 1 := by decide
        have e23 : ¬ (2 : Nat) = 3 := by decide
        have e24 : ¬ (2 : Nat) = 4 := by decide
        simp only [ipv6Step, ipv6StepG, e25, e20, e21, e23, e24, if_false, if_true]
        exact runV_none r
    · subst h46
      have hp3 : ¬ ph = 3 := by rcases hq with ⟨hp, _⟩ | ⟨hp, _⟩ | hp <;> simp only at hp <;> omega
      have hp5 : ¬ ph = 5 := by rcases hq with ⟨hp, _⟩ | ⟨hp, _⟩ | hp <;> simp only at hp <;> omega
      have e : ¬ (46 : Nat) = 58 := by decide
      simp only [ipv6Step, ipv6StepG, hp5, e, if_false, if_true, hp3, false_and]
      exact runV_none r
    · rw [hx] at hh; cases hh
  · rw [if_neg hin]; exact runV_none r

/-- **the loop heads**: Go's outer loop and the automaton agree on the rest of the string -/
theorem head_sim : ∀ fuel, HeadOK fuel
  | 0 => by
    intro i ellG s q ⟨h1, h2, ⟨_, he2⟩, _, _, _, hk⟩
    rcases hk with ⟨_, hg, _, _⟩ | ⟨_, _, h0, h1', _⟩ | ⟨_, _, hg, _⟩
    · omega
    · have : q.ell = 0 ∨ q.ell = 1 := by omega
      rcases this with h | h
      · have := h0 h; omega
      · have := h1' h; omega
    · omega
  | fuel + 1 => by
    have IH := head_sim fuel
    intro i ellG s q hrel
    obtain ⟨h1, h2, ⟨he1, he2⟩, hn, hv, hk0, hk⟩ := hrel
    obtain ⟨ph, g, ell, n, v, k⟩ := q
    simp only at h1 h2 he1 he2 hn hv hk0 hk
    subst hn hv hk0
    -- seven fields and an ellipsis: both refuse whatever follows
    by_cases hdoom : ph = 2 ∧ g = 7
    · obtain ⟨hp, hg⟩ := hdoom
      subst hp hg
      rcases hk with ⟨hp, _⟩ | ⟨hp, _⟩ | ⟨_, hell, _, hs⟩
      · cases hp
      · cases hp
      · have hfuel : fuel = 0 := by omega
        subst hfuel
        have hi : i = 14 := by omega
        subst hi
        cases ellG with
        | none => have := he1.2 hell; simp at this
        | some e =>
          rw [doomed14]
          cases s with
          | nil => exact absurd rfl hs
          | cons c r =>
            rw [runV_cons, gV_some]
            by_cases hin : c = 58 ∨ c = 46 ∨ isHex c = true
            · rw [if_pos hin]
              have e25 : ¬ (2 : Nat) = 5 := by decide
              have e20 : ¬ (2 : Nat) = 0 := by decide
              have e21 : ¬ (2 : Nat) = 1 := by decide
              have e23 : ¬ (2 : Nat) = 3 := by decide
              have e24 : ¬ (2 : Nat) = 4 := by decide
              have e76 : ¬ (7 : Nat) ≤ 6 := by decide
              simp only [ipv6Step, ipv6StepG, e25, e20, e21, e23, e24, e76, if_false, if_true, false_and, or_self]
              repeat' split
              all_goals exact (runV_none r).symm
            · rw [if_neg hin]; exact (runV_none r).symm
    · -- a live head
      have hr0 : ell = 0 → g ≤ 7 := by
        intro h0
        rcases hk with ⟨_, hg, _⟩ | ⟨_, _, h, _⟩ | ⟨_, hell, _⟩
        · omega
        · exact h h0
        · omega
      have hr1 : ell = 1 → g ≤ 6 := by
        intro h1e
        rcases hk with ⟨_, _, hell, _⟩ | ⟨_, _, _, h, _⟩ | ⟨hp, _, hg, _⟩
        · omega
        · exact h h1e
        · have : ¬ g = 7 := fun h => hdoom ⟨hp, h⟩
          omega
      cases s with
      | nil =>
        rcases hk with ⟨hp, _⟩ | ⟨_, _, _, _, c, r, hs, _⟩ | ⟨_, _, _, hs⟩
        · subst hp
          simp [Netip.loop6, Netip.scanHex, Netip.afterField, Netip.final6, runV, accV, ipv6Acc]
        · cases hs
        · exact absurd rfl hs
      | cons c r =>
        by_cases hx : isHex c = true
        · -- a field begins
          have hrng := (isHex_iff c).1 hx
          have h58 : c ≠ 58 := by omega
          have h46 : c ≠ 46 := by omega
          have hstart : gV (some ⟨ph, g, ell, 0, 0, 0⟩) c
              = some ⟨3, g, ell, 1, if (true && quadMayStart g ell) = true then octAcc 0 0 c else 256, 0⟩ := by
            rw [gV_some]
            simp only [hx, or_true, if_true, ipv6Step, ipv6StepG, h58, h46, if_false, V6St.start]
            rcases hk with ⟨hp, _⟩ | ⟨hp, _⟩ | ⟨hp, _, hg, _⟩
            · subst hp; simp
            · subst hp; simp
            · subst hp
              have : g ≤ 6 := by have : ¬ g = 7 := fun h => hdoom ⟨rfl, h⟩; omega
              simp [this]
          rw [runV_cons, hstart]
          have hv1 : VOk g ell [c] 1 (if (true && quadMayStart g ell) = true then octAcc 0 0 c else 256) := by
            unfold VOk
            by_cases hq : quadMayStart g ell = true
            · simp only [hq, Bool.and_self, if_true]; exact oct_start c hx
            · simp only [Bool.not_eq_true] at hq
              simp only [hq, Bool.and_false, Bool.false_eq_true, if_false]
              exact ⟨by simp, rfl, by omega⟩
          have := in_group fuel i ellG g ell IH h1 h2 ⟨he1, he2⟩ hr0 hr1 r [c] 1 _ hv1 (by omega)
          simp only [Netip.loop6, Netip.scanHex, hx, if_true]
          have e03 : ¬ (0 : Nat) > 3 := by decide
          rw [if_neg e03]
          exact this
        · -- no field here
          simp only [Bool.not_eq_true] at hx
          have hgo : Netip.final6 (Netip.loop6 (fuel + 1) i ellG (c :: r)) = false := by
            simp [Netip.loop6, Netip.scanHex, hx, Netip.afterField, Netip.final6]
          rw [hgo]
          refine (head_nonhex _ c r hx ?_).symm
          rcases hk with ⟨hp, _, _, hns⟩ | ⟨hp, _, _, _, c0, r0, hs, hne⟩ | ⟨hp, _⟩
          · exact Or.inl ⟨hp, hns⟩
          · cases hs; exact Or.inr (Or.inl ⟨hp, hne⟩)
          · exact Or.inr (Or.inr hp)

/-! ## the theorems -/

/-- `parseIPv6` (on any string) accepts exactly what the RFC 4291 automaton accepts -/
theorem parseIPv6_run (s : List Nat) : Netip.parseIPv6 s = runV (some ⟨0, 0, 0, 0, 0, 0⟩) s := by
  have plain : (∀ r, s ≠ 58 :: 58 :: r) → Netip.final6 (Netip.loop6 8 0 none s) = runV (some ⟨0, 0, 0, 0, 0, 0⟩) s := fun hns =>
    head_sim 8 0 none s ⟨0, 0, 0, 0, 0, 0⟩
      ⟨rfl, rfl, ⟨⟨fun h => absurd h (by decide), fun h => absurd h (by decide)⟩, by decide⟩, rfl, rfl, rfl, Or.inl ⟨rfl, rfl, rfl, hns⟩⟩
  unfold Netip.parseIPv6
  rcases s with _ | ⟨c0, _ | ⟨c1, s'⟩⟩
  · exact plain (fun r h => by cases h)
  · exact plain (fun r h => by cases h)
  · simp only []
    by_cases hcc : c0 = 58 ∧ c1 = 58
    · rw [if_pos hcc]
      obtain ⟨h0, h1⟩ := hcc
      subst h0 h1
      have e2 : runV (some ⟨0, 0, 0, 0, 0, 0⟩) (58 :: 58 :: s') = runV (some ⟨2, 0, 1, 0, 0, 0⟩) s' := by
        rw [runV_cons, runV_cons]; rfl
      rw [e2]
      cases s' with
      | nil => rfl
      | cons c r =>
        simp only [List.isEmpty_cons, Bool.false_eq_true, if_false]
        exact head_sim 8 0 (some 0) (c :: r) ⟨2, 0, 1, 0, 0, 0⟩
          ⟨rfl, rfl, ⟨⟨fun _ => rfl, fun _ => rfl⟩, by decide⟩, rfl, rfl, rfl, Or.inr (Or.inr ⟨rfl, rfl, by decide, by simp⟩)⟩
    · rw [if_neg hcc]
      exact plain (fun r h => by cases h; exact hcc ⟨rfl, rfl⟩)

/-- what the automaton accepts contains no '%' -/
theorem runV_no_pct : ∀ (s : List Nat) (o : Option V6St), runV o s = true → s.elem 37 = false
  | [], _, _ => rfl
  | c :: s, o, h => by
    rw [runV_cons] at h
    by_cases hc : c = 37
    · subst hc
      have : gV o 37 = none := by cases o <;> rfl
      rw [this, runV_none] at h; cases h
    · have hb : ((37 : Nat) == c) = false := by simp; omega
      simp only [List.elem, hb]
      exact runV_no_pct s _ h

/-- what the automaton accepts has a ':' before any '.': `ParseAddr` hands it to `parseIPv6` -/
theorem addrKind6_of_run : ∀ (s : List Nat) (q : V6St), ((q.ph = 0 ∧ q.g = 0 ∧ q.ell = 0) ∨ (q.ph = 3 ∧ q.g = 0 ∧ q.ell = 0 ∧ q.v = 256)) →
    runV (some q) s = true → Netip.addrKind s = 6
  | [], q, hq, h => by
    obtain ⟨ph, g, ell, n, v, k⟩ := q
    rcases hq with ⟨hp, _, _⟩ | ⟨hp, hg, hell, _⟩
    · simp only at hp; subst hp; simp [runV, accV, ipv6Acc] at h
    · simp only at hp hg hell; subst hp hg hell; simp [runV, accV, ipv6Acc] at h
  | c :: s, q, hq, h => by
    obtain ⟨ph, g, ell, n, v, k⟩ := q
    rw [runV_cons, gV_some] at h
    by_cases h58 : c = 58
    · simp [Netip.addrKind, h58]
    · by_cases h46 : c = 46
      · -- a '.' before any ':' is refused
        subst h46
        exfalso
        simp only [true_or, or_true, if_true, ipv6Step, ipv6StepG] at h
        rcases hq with ⟨hp, _, _⟩ | ⟨hp, _, _, hv⟩
        · simp only at hp; subst hp
          have e05 : ¬ (0 : Nat) = 5 := by decide
          have e03 : ¬ (0 : Nat) = 3 := by decide
          have e : ¬ (46 : Nat) = 58 := by decide
          simp only [e05, e, e03, if_false, if_true, false_and] at h
          rw [runV_none] at h; cases h
        · simp only at hp hv; subst hp hv
          have e35 : ¬ (3 : Nat) = 5 := by decide
          have e : ¬ (46 : Nat) = 58 := by decide
          have e256 : ¬ (256 : Nat) ≤ 255 := by decide
          simp only [e35, e, e256, if_false, if_true, and_false] at h
          rw [runV_none] at h; cases h
      · by_cases hx : isHex c = true
        · have hrng := (isHex_iff c).1 hx
          have h37 : c ≠ 37 := by omega
          simp only [Netip.addrKind, h46, h58, h37, if_false]
          simp only [hx, or_true, if_true, ipv6Step, ipv6StepG, h58, h46, if_false, V6St.start] at h
          rcases hq with ⟨hp, hg, hell⟩ | ⟨hp, hg, hell, hv⟩
          · simp only at hp hg hell; subst hp hg hell
            have e05 : ¬ (0 : Nat) = 5 := by decide
            simp only [e05, if_false, true_or, if_true] at h
            -- the first group: g = 0, ell = 0 is no place for a dotted quad
            exact addrKind6_of_run s _ (Or.inr ⟨rfl, rfl, rfl, by simp [quadMayStart]⟩) h
          · simp only at hp hg hell hv; subst hp hg hell hv
            have e35 : ¬ (3 : Nat) = 5 := by decide
            have e30 : ¬ (3 : Nat) = 0 := by decide
            have e34 : ¬ (3 : Nat) = 4 := by decide
            have e32 : ¬ (3 : Nat) = 2 := by decide
            simp only [e35, e30, e34, e32, if_false, or_self, if_true] at h
            by_cases hn : n < 4
            · rw [if_pos hn] at h
              exact addrKind6_of_run s _ (Or.inr ⟨rfl, rfl, rfl, by simp [quadMayStart]⟩) h
            · rw [if_neg hn, runV_none] at h; cases h
        · have hno : ¬ (c = 58 ∨ c = 46 ∨ isHex c = true) := by
            intro hh; rcases hh with hh | hh | hh
            · exact h58 hh
            · exact h46 hh
            · exact hx hh
          rw [if_neg hno, runV_none] at h; cases h

/-- **validate.IPv6 (`netip.ParseAddr` ∧ `Is6` ∧ no zone, transcribed from the Go source) accepts exactly the RFC 4291 addresses —
    for all strings** -/
theorem c20_ipv6_netip : ∀ s, Netip.ipv6 s = Fmt.ipv6.run s := by
  intro s
  rw [runV_spec]
  unfold Netip.ipv6
  rw [parseIPv6_run]
  cases hr : runV (some ⟨0, 0, 0, 0, 0, 0⟩) s with
  | false => simp
  | true => rw [addrKind6_of_run s _ (Or.inl ⟨rfl, rfl, rfl⟩) hr, runV_no_pct s _ hr]; rfl

/-! ## CIDRv6: the address before the last '/', the prefix length after it -/

def gW : Option V6St → Nat → Option V6St
  | none, _ => none
  | some q, c => if c = 47 ∨ c = 58 ∨ c = 46 ∨ isHex c = true then cidrv6Step q c else none
def accW : Option V6St → Bool
  | none => false
  | some q => decide (q.ph = 6) && decide (q.n ≥ 1)
def runW (o : Option V6St) (s : List Nat) : Bool := accW (s.foldl gW o)

theorem runW_none : ∀ s, runW none s = false
  | [] => rfl
  | _ :: s => runW_none s
theorem runW_cons (o : Option V6St) (c : Nat) (s : List Nat) : runW o (c :: s) = runW (gW o c) s := rfl
theorem gW_some (q : V6St) (c : Nat) : gW (some q) c = if c = 47 ∨ c = 58 ∨ c = 46 ∨ isHex c = true then cidrv6Step q c else none := rfl

theorem gW_spec (o : Option V6St) (c : Nat) : Fmt.cidrv6.gstep o c = gW o c := by
  cases o with
  | none => rfl
  | some q =>
    show (if (47 :: 58 :: 46 :: hexDigits).elem c then cidrv6Step q c else none)
      = (if c = 47 ∨ c = 58 ∨ c = 46 ∨ isHex c = true then cidrv6Step q c else none)
    rw [elem_cons', elem_cons', elem_cons', hexDigits_elem]
    by_cases h0 : c = 47 <;> by_cases h : c = 58 <;> by_cases h' : c = 46 <;> by_cases hd : isHex c = true <;> simp [h0, h, h', hd]

theorem runW_spec (s : List Nat) : Fmt.cidrv6.run s = runW (some ⟨0, 0, 0, 0, 0, 0⟩) s := by
  have key : ∀ (s : List Nat) (o : Option V6St), Fmt.cidrv6.accO (s.foldl Fmt.cidrv6.gstep o) = accW (s.foldl gW o) := by
    intro s
    induction s with
    | nil => intro o; cases o <;> rfl
    | cons c s ih =>
      intro o
      exact (congrArg (fun x => Fmt.cidrv6.accO (s.foldl Fmt.cidrv6.gstep x)) (gW_spec o c)).trans (ih _)
  exact key s (some ⟨0, 0, 0, 0, 0, 0⟩)

/-- inside the prefix length only digits are taken -/
theorem gW_ph6 (n v c : Nat) : gW (some ⟨6, 0, 0, n, v, 0⟩) c =
    if isDigit c = true then
      (if n = 0 then some ⟨6, 0, 0, 1, c - 48, 0⟩ else if v = 0 then none
       else if v * 10 + (c - 48) ≤ 128 then some ⟨6, 0, 0, n + 1, v * 10 + (c - 48), 0⟩ else none)
    else none := by
  rw [gW_some]
  by_cases hd : isDigit c = true
  · have hx : isHex c = true := (isHex_iff c).2 (Or.inl ((isDigit_iff c).1 hd))
    simp only [hx, or_true, if_true, cidrv6Step, cidrv6StepG, V6St.digit, hd, Bool.not_true, Bool.false_eq_true, if_false]
  · simp only [Bool.not_eq_true] at hd
    simp only [hd, Bool.false_eq_true, if_false]
    by_cases hin : c = 47 ∨ c = 58 ∨ c = 46 ∨ isHex c = true
    · rw [if_pos hin]; simp [cidrv6Step, cidrv6StepG, V6St.digit, hd]
    · rw [if_neg hin]

theorem runW_digits : ∀ (r : List Nat) (n v : Nat), n ≥ 1 → v ≥ 1 → v ≤ 128 →
    runW (some ⟨6, 0, 0, n, v, 0⟩) r = (r.all isDigit && decide (decVal v r ≤ 128))
  | [], n, v, hn, _, hv => by
    simp [runW, accW, decVal, hv]; omega
  | c :: r, n, v, hn, hv1, hv => by
    rw [runW_cons, gW_ph6]
    have hn0 : ¬ n = 0 := by omega
    have hv0 : ¬ v = 0 := by omega
    by_cases hd : isDigit c = true
    · simp only [hd, if_true, hn0, hv0, if_false, List.all_cons, Bool.true_and]
      by_cases hle : v * 10 + (c - 48) ≤ 128
      · rw [if_pos hle, runW_digits r (n + 1) _ (by omega) (by omega) hle]
        rfl
      · rw [if_neg hle, runW_none]
        have := decVal_ge r (v * 10 + (c - 48))
        have : ¬ decVal v (c :: r) ≤ 128 := by simp only [decVal, List.foldl_cons] at this ⊢; omega
        simp [this]
    · rw [if_neg hd, runW_none]
      simp only [Bool.not_eq_true] at hd
      simp [hd]

/-- the checks of `ParsePrefix` on `bitsStr` = the prefix-length part of the CIDRv6 definition (0–128, canonical decimal) -/
theorem prefixBits128_run (b : List Nat) : Netip.prefixBits 128 b = runW (some ⟨6, 0, 0, 0, 0, 0⟩) b := by
  rcases b with _ | ⟨c, _ | ⟨d, r⟩⟩
  · simp [Netip.prefixBits, Netip.atoi, Netip.atoiDigits, runW, accW]
  · rw [runW_cons, gW_ph6]
    by_cases hd : isDigit c = true
    · have hr := (isDigit_iff c).1 hd
      have hle : c - 48 ≤ 128 := by omega
      simp [Netip.prefixBits, atoi_digits c [] hr, Netip.atoiDigits, hd, runW, accW, hle]
    · have hr : ¬ (48 ≤ c ∧ c ≤ 57) := fun h => hd ((isDigit_iff c).2 h)
      simp only [Netip.prefixBits, atoi_nondigit_single c hr]
      rw [if_neg hd, runW_none]
  · rw [runW_cons, gW_ph6]
    simp only [Netip.prefixBits]
    by_cases h19 : c < 49 ∨ c > 57
    · rw [if_pos h19]
      by_cases hd : isDigit c = true
      · have hr := (isDigit_iff c).1 hd
        have hc : c = 48 := by omega
        subst hc
        simp only [hd, if_true]
        rw [runW_cons, gW_ph6]
        by_cases hdd : isDigit d = true
        · simp [hdd, runW_none]
        · rw [if_neg hdd, runW_none]
      · rw [if_neg hd, runW_none]
    · rw [if_neg h19]
      have hr : 48 ≤ c ∧ c ≤ 57 := by omega
      have hd : isDigit c = true := (isDigit_iff c).2 hr
      have hv1 : c - 48 ≥ 1 := by omega
      have hv : c - 48 ≤ 128 := by omega
      simp only [hd, if_true]
      rw [runW_digits (d :: r) 1 (c - 48) (by omega) hv1 hv, atoi_digits c (d :: r) hr]
      simp only [Netip.atoiDigits, List.all_cons, hd, Bool.true_and]
      cases hall : (isDigit d && r.all isDigit) with
      | false => simp
      | true =>
        simp only [if_true, Option.map, Bool.false_and, Bool.not_false, Bool.true_and]
        have : List.foldl (fun v d => v * 10 + (d - 48)) 0 (c :: d :: r) = decVal (c - 48) (d :: r) := by
          simp [decVal, List.foldl_cons]
        rw [this]

/-- a step of the address automaton never enters the prefix-length phase -/
theorem ipv6Step_ph {q q' : V6St} {c : Nat} (hq : q.ph ≠ 6) (h : ipv6Step q c = some q') : q'.ph ≠ 6 := by
  obtain ⟨ph, g, ell, n, v, k⟩ := q
  simp only at hq
  simp only [ipv6Step, ipv6StepG, V6St.start, V6St.digit] at h
  repeat' split at h
  all_goals first | (cases h; done) | (cases h; simp only; omega) | (cases h; simp_all)

theorem gW_eqV (q : V6St) (c : Nat) (hq : q.ph ≠ 6) (h47 : c ≠ 47) : gW (some q) c = gV (some q) c := by
  rw [gW_some, gV_some]
  simp only [h47, false_or, cidrv6Step, cidrv6StepG, if_neg hq, if_false]
  rfl

theorem gV_slash (o : Option V6St) : gV o 47 = none := by
  cases o with
  | none => rfl
  | some q => rw [gV_some]; simp [isHex, isDigit, isUpperHex, isLowerHex]

theorem runW_noslash : ∀ (s : List Nat) (q : V6St), q.ph ≠ 6 → Netip.cutLastSlash s = none → runW (some q) s = false
  | [], q, hq, _ => by simp [runW, accW, hq]
  | c :: s, q, hq, h => by
    rw [cutLast_cons] at h
    cases hs : Netip.cutLastSlash s with
    | some p => rw [hs] at h; cases h
    | none =>
      rw [hs] at h
      have h47 : c ≠ 47 := by intro e; simp [e] at h
      rw [runW_cons, gW_eqV q c hq h47]
      cases hg : gV (some q) c with
      | none => exact runW_none s
      | some q' =>
        have hq' : q'.ph ≠ 6 := by
          rw [gV_some] at hg
          split at hg
          · exact ipv6Step_ph hq hg
          · cases hg
        exact runW_noslash s q' hq' hs

theorem runW_slash_after : ∀ (s : List Nat) (n v : Nat) (p : List Nat × List Nat), Netip.cutLastSlash s = some p →
    runW (some ⟨6, 0, 0, n, v, 0⟩) s = false
  | [], _, _, _, h => by simp [Netip.cutLastSlash] at h
  | c :: s, n, v, p, h => by
    rw [runW_cons, gW_ph6]
    by_cases hd : isDigit c = true
    · have h47 : c ≠ 47 := by have := (isDigit_iff c).1 hd; omega
      rw [cutLast_cons] at h
      cases hs : Netip.cutLastSlash s with
      | none => rw [hs] at h; simp [h47] at h
      | some p' =>
        rw [if_pos hd]
        repeat' split
        all_goals first | exact runW_none s | exact runW_slash_after s _ _ p' hs
    · rw [if_neg hd]; exact runW_none s

/-- **the one-pass CIDRv6 definition = the address before the last '/' and the prefix length after it** -/
theorem cidr6_split : ∀ (s : List Nat) (q : V6St), q.ph ≠ 6 →
    runW (some q) s = match Netip.cutLastSlash s with
      | some (a, b) => runV (some q) a && runW (some ⟨6, 0, 0, 0, 0, 0⟩) b
      | none => false
  | [], q, hq => by simp [Netip.cutLastSlash, runW, accW, hq]
  | c :: s, q, hq => by
    rw [cutLast_cons]
    cases hs : Netip.cutLastSlash s with
    | none =>
      simp only []
      by_cases h47 : c = 47
      · subst h47
        rw [if_pos rfl]
        simp only []
        rw [runW_cons, gW_some]
        simp only [true_or, if_true, cidrv6Step, cidrv6StepG, if_neg hq]
        have : runV (some q) [] = ipv6Acc q := rfl
        rw [this]
        cases ipv6Acc q with
        | true => simp
        | false => simp [runW_none]
      · rw [if_neg h47]
        exact runW_noslash (c :: s) q hq (by rw [cutLast_cons, hs]; simp [h47])
    | some p =>
      obtain ⟨a, b⟩ := p
      simp only []
      rw [runW_cons, runV_cons]
      by_cases h47 : c = 47
      · subst h47
        rw [gV_slash, runV_none, Bool.false_and, gW_some]
        simp only [true_or, if_true, cidrv6Step, cidrv6StepG, if_neg hq]
        split
        · exact runW_slash_after s 0 0 (a, b) hs
        · exact runW_none s
      · rw [gW_eqV q c hq h47]
        cases hg : gV (some q) c with
        | none => rw [runW_none, runV_none, Bool.false_and]
        | some q' =>
          have hq' : q'.ph ≠ 6 := by
            rw [gV_some] at hg
            split at hg
            · exact ipv6Step_ph hq hg
            · cases hg
          have := cidr6_split s q' hq'
          rw [hs] at this
          exact this

/-- **validate.CIDRv6 (`netip.ParsePrefix` ∧ `Is6`, transcribed from the Go source) accepts exactly the strings of the definition:
    an RFC 4291 address, '/', a canonical decimal 0–128 — for all strings** -/
theorem c20_cidrv6_netip : ∀ s, Netip.cidrv6 s = Fmt.cidrv6.run s := by
  intro s
  rw [runW_spec, cidr6_split s ⟨0, 0, 0, 0, 0, 0⟩ (by decide)]
  unfold Netip.cidrv6
  cases Netip.cutLastSlash s with
  | none => rfl
  | some p =>
    obtain ⟨a, b⟩ := p
    simp only []
    rw [c20_ipv6_netip, prefixBits128_run, runV_spec]

end Gozod.C20
