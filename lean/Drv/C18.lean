import Gozod.Drv.Loop
def main : IO Unit := Gozod.Drv.runTokens (fun _ => "bad-op")
