"""C08 — schemas are immutable values: deriving a schema never changes an existing one."""
from . import common as C

MANIFEST = dict(
   technique="Lean 4 proof over a store model of the reference-typed schema state (Checks array with Go append semantics, Bag/Values/Shape maps, registry entry) + history correspondence: every exported chaining method of every schema type is called by reflection and the model must predict the same verdicts and the same sharing structure",
   text="c08_step / c08_hist / c08_hist_all prove, for the code after pending/C08-clone-bag.diff (Internals.Clone always clones the Bag), that along every history of chaining calls (any receivers, sibling fan-outs, any append growth rule) no operation writes a location that existed before the call, so every live schema keeps its observation and every result is a new schema. today_partial_mutates_receiver / c08_today_false are the witnesses that the statement is false for the pinned Clone (Record.Partial mutates its receiver); obsL_frame / applyLOp_spec / c08_local_step extend the frame theorems to the type-local reference state of object/struct/union types (PartialExceptions / option lists beside Shape: reference copied, dropped, or a fresh key set), with exceptions_in_place_mutates_receiver as the witness for in-place edits. metaSelf_violates shows Meta() on the non-string types (returns the receiver, rewrites its registry entry) falsifies the full statement — known finding per type.",
   note="Partial: Meta() on 28 non-string schema types is excluded (open known findings). The store model is a hand-written abstraction (observation = contents reachable from the schema; Parse/ToJSONSchema are taken to be functions of it), tied to /repo by reflective snapshots (slice headers, map identities, contents) and behavioural fingerprints (31 probes, IsOptional/IsNilable, ToJSONSchema) after every call of ~1400 type×method pairs; op classes come from a name table in the harness; append capacities and 'result starts with a registry entry' are taken from the run as parameters. Trusted: Lean kernel, axioms propext/Classical.choice/Quot.sound, the Go harness and comparer.",
   design="DESIGN.md §3.4, §5 C08")

MODULES = ["Gozod.Proofs.C08"]
THEOREMS = [
    "Gozod.C08.c08_step", "Gozod.C08.c08_hist", "Gozod.C08.c08_hist_all", "Gozod.C08.c08_fresh",
    "Gozod.C08.applyOp_spec", "Gozod.C08.clone_spec", "Gozod.C08.appendAll_spec",
    "Gozod.Store.obs_frame", "Gozod.Store.wfs_frame",
    "Gozod.C08.today_partial_mutates_receiver", "Gozod.C08.c08_today_false",
    "Gozod.C08.metaSelf_violates", "Gozod.C08.metaSelf_changes_receiver",
    "Gozod.C08.spare_capacity_siblings_clobber", "Gozod.C08.inv_base",
    "Gozod.C08.obsL_frame", "Gozod.C08.wfl_frame", "Gozod.C08.applyLOp_spec", "Gozod.C08.c08_local_step",
    "Gozod.C08.exceptions_in_place_mutates_receiver",
]


def parts(line):
    """'V:a;b S:x;y' -> ('a;b', 'x;y')"""
    v, _, s = line.partition(" S:")
    return v[2:] if v.startswith("V:") else v, s


def steps_of(op):
    toks = C.op_body(op).split(" | ")
    return toks[0].split(" "), [t.split(" ") for t in toks[1:]]


def key(op, impl, M, S):
    head, steps = steps_of(op)
    iv = impl.split(" ")[0].split(";")
    first_meta, first_other = None, None
    for k, st in enumerate(steps):
        if k >= len(iv) or iv[k] == "1:":
            continue
        cls, meth = st[1], st[-1]
        name, _, typ = meth.partition("@")
        if cls == "metaself":
            first_meta = first_meta or "meta-returns-receiver:" + typ
        elif first_other is None:
            what = "returns-receiver" if iv[k].startswith("0") else "changes-live-schema"
            first_other = "%s:%s.%s" % (what, typ, name)
    return first_other or first_meta or "tie:" + head[1]


def describe(op):
    return ("history over base %s (constructor in harness/storex Bases()); steps after '#': <receiver index>.<Method>/<argument variant>; "
            "live index 0 = base, every call's result joins the live list" % steps_of(op)[0][1])


def rewrite(data):
    """Separate the property verdict (fresh / changed) from the sharing structure (the model tie)."""
    ops, impl, model, stats = data
    impl2, model2 = [], []
    for i in range(len(ops)):
        iv, is_ = parts(impl[i])
        if "\t" not in model[i]:
            impl2.append(iv + " S:" + is_); model2.append(model[i] + "\t-"); continue
        m, s = model[i].split("\t", 1)
        mv, ms = parts(m)
        sv, _ = parts(s)
        if is_ == ms:
            impl2.append(iv); model2.append(mv + "\t" + sv)
        else:
            impl2.append(iv + " S:" + is_); model2.append(mv + " S:" + ms + "\t" + sv + " S:" + is_)
    return ops, impl2, model2, stats


def run(res):
    ok, detail = C.prove(res, MODULES, THEOREMS)
    if not ok:
        C.tie_broken(res, "proof Gozod.Proofs.C08", detail)
    data, err = C.correspond(res, "C08")
    if data is None:
        C.tie_broken(res, "correspondence C08/store-histories", err)
        return res.finish()
    C.decide(res, "C08", rewrite(data), key, "C08/store-histories", describe=describe)
    st = data[3]
    res.coverage["type_methods_enumerated"] = st.get("type_methods")
    res.coverage["base_schemas"] = st.get("bases")
    res.coverage["rule"] = ("for each of the base schemas (every schema type) and each exported method whose result can be a schema (reflection), "
        "two argument variants: history A = method on the fresh base, sibling from the same base, random method, method on the result; "
        "history B = 2-4 random chaining calls, the method on a random live schema, 2 more (thorough: 8 more); history C = 17-long check chains "
        "crossing capacities 1,2,4,8,16 with a sibling at each boundary; history D = ordered pairs of methods (m1 on the base, a sibling, m2 on the result). After every call all live schemas are re-snapshotted and re-fingerprinted, "
        "and the content of their type-local reference fields (Shape, PartialExceptions, option/item lists; member schemas by identity) is compared with what it was before the call. "
        "distinct = distinct abstract histories (op lines).")
    res.assumptions += [
        "a schema's Parse verdicts/results and its JSON Schema are functions of the contents the store model observes (validated by the fingerprints staying equal whenever the snapshot content does)",
        "op classes (derive/copymeta/metaself/bagwrite/rebuild/wrap/refilter/access) are assigned by method name in harness/cmd/c08; a wrong assignment shows as a structure mismatch",
        "Go append growth is supplied by the run (the theorems hold for every growth function)",
    ]
    return res.finish()
