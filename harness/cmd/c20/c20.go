package main

// C20 — format validators accept exactly the well-formed strings of their format, and the pattern
// exported to JSON Schema matches the same strings.
//
// Modes
//   -gen PATH      translator: write lean/Gozod/Gen/Regexes.lean from the live regex objects, the
//                  patterns exported by ToJSONSchema, and a go/ast scan of what each validator calls.
//   -cases FILE    evaluate the given "fmt hex" lines (replay of distinguishing strings).
//   (default)      correspondence: for every format, valid samples, hand-picked near misses and all
//                  their single-edit neighbours; op line `c20 <fmt> <hex>`; observation = two bits:
//                  real schema Parse accepts, exported JSON-Schema pattern(s) match.

import (
	"bufio"
	"encoding/base64"
	"encoding/hex"
	"flag"
	"fmt"
	"net/netip"
	"os"
	"regexp"
	"strings"
	"time"

	"github.com/kaptinlin/gozod/core"

	"verifharness/hx"
)

var (
	genPath   = flag.String("gen", "", "write Gen/Re_<fmt>.lean and Gen/Regexes.lean into this directory and exit")
	casesPath = flag.String("cases", "", "evaluate the `fmt hex` lines of this file instead of generating")
	repoPath  = flag.String("repo", "", "library working tree (default $VERIF_REPO or /repo)")
	optOrder  = flag.String("optorder", "fwd", "order in which the variants of an option family are used: fwd|rev")
	onlyOpt   = flag.Bool("onlyopt", false, "run only the option families (second process, other order)")
)

func main() {
	c := hx.ParseFlags()
	repo := *repoPath
	if repo == "" {
		repo = os.Getenv("VERIF_REPO")
	}
	if repo == "" {
		repo = "/repo"
	}
	var err error
	if *genPath != "" {
		err = genLean(repo, *genPath, c.OutDir)
	} else {
		err = runC20(c)
	}
	if err != nil {
		fmt.Fprintln(os.Stderr, "harness error:", err)
		os.Exit(3)
	}
}

type live struct {
	f      format
	schema core.ZodSchema
	pats   []*regexp.Regexp
}

func mkLive(f format) (*live, error) {
	ps, _, err := exportedPatterns(f)
	if err != nil {
		return nil, err
	}
	l := &live{f: f, schema: f.mk()}
	for _, p := range ps {
		re, err := regexp.Compile(p)
		if err != nil {
			return nil, fmt.Errorf("format %s: exported pattern does not compile: %v", f.name, err)
		}
		l.pats = append(l.pats, re)
	}
	return l, nil
}

// observe runs the real schema and the exported pattern on s.
func (l *live) observe(s string) string {
	var accept bool
	if msg := hx.Safely(func() {
		out, err := l.schema.ParseAny(s)
		accept = err == nil
		if accept {
			if o, ok := out.(string); !ok || o != s {
				panic(fmt.Sprintf("accepted but returned %#v", out))
			}
		}
	}); msg != "" {
		return "panic:" + strings.ReplaceAll(msg, "\n", " ")
	}
	// the check's verdict must be the validator's (pkg/validate) verdict
	if l.f.validate(s) != accept {
		return "parse-differs-from-validate"
	}
	pat := true
	for _, p := range l.pats {
		if !p.MatchString(s) {
			pat = false
		}
	}
	return hx.B01(accept) + hx.B01(pat)
}

func hexOf(s string) string {
	if s == "" {
		return "-"
	}
	return hex.EncodeToString([]byte(s))
}

func runC20(c hx.Config) error {
	o, err := hx.NewOut(c.OutDir)
	if err != nil {
		return err
	}
	lives := map[string]*live{}
	for _, f := range formats {
		l, err := mkLive(f)
		if err != nil {
			return err
		}
		lives[f.name] = l
	}
	indep := map[string]int{}
	emit := func(l *live, s, how string) {
		obs := l.observe(s)
		o.Emit(fmt.Sprintf("c20 %s %s #%s", l.f.name, hexOf(s), how), obs)
		o.Count(l.f.name + ":" + obs)
		if v, ok := stdlibSays(l.f.name, s); ok && len(obs) == 2 {
			k := l.f.name + ":stdlib-agrees"
			if v != (obs[0] == '1') {
				k = l.f.name + ":stdlib-differs"
			}
			indep[k]++
		}
	}
	if *casesPath != "" {
		fh, err := os.Open(*casesPath)
		if err != nil {
			return err
		}
		sc := bufio.NewScanner(fh)
		for sc.Scan() {
			t := strings.Fields(sc.Text())
			if len(t) < 2 || lives[t[0]] == nil {
				return fmt.Errorf("bad case line %q", sc.Text())
			}
			s := ""
			if t[1] != "-" {
				b, err := hex.DecodeString(t[1])
				if err != nil {
					return err
				}
				s = string(b)
			}
			emit(lives[t[0]], s, "replay")
		}
		fh.Close()
		return o.Close(nil)
	}
	rng := hx.NewRng(c.Seed)
	nRandom := 10
	if c.Thorough() {
		nRandom = 150
	}
	// strings built for each format (valid samples and near misses): also fed to every OTHER format below
	pool := map[string][]string{}
	seenBy := map[string]map[string]bool{}
	for _, f := range formats {
		if f.family != "" || *onlyOpt {
			continue
		}
		l := lives[f.name]
		g := gens[f.name]
		if g == nil {
			return fmt.Errorf("no generator for format %s", f.name)
		}
		seen := map[string]bool{}
		seenBy[f.name] = seen
		put := func(s, how string) {
			if seen[s] {
				return
			}
			seen[s] = true
			emit(l, s, how)
		}
		var seeds []string
		seeds = append(seeds, g.fixed...)
		for i := 0; i < nRandom; i++ {
			seeds = append(seeds, g.random(rng))
		}
		for _, s := range seeds {
			put(s, "seed")
		}
		for _, s := range g.near {
			put(s, "near")
		}
		pool[f.name] = append(append([]string{}, seeds...), g.near...)
		alpha := g.alphabet + "\n gGzZ%x:./-+=_@\x00\x7f"
		for _, s := range append(append([]string{}, seeds...), g.near...) {
			for _, m := range neighbours(s, alpha, g.seps) {
				put(m.s, m.how)
			}
		}
		// a few double edits
		for i := 0; i < nRandom*20; i++ {
			s := hx.Pick(rng, seeds)
			ns := neighbours(s, alpha, g.seps)
			if len(ns) == 0 {
				continue
			}
			m := hx.Pick(rng, ns)
			ns2 := neighbours(m.s, alpha, g.seps)
			if len(ns2) == 0 {
				continue
			}
			m2 := hx.Pick(rng, ns2)
			put(m2.s, m.how+"+"+m2.how)
		}
	}
	// Cross-format pool: the valid samples and near misses of every format go to the schema of every OTHER
	// format (a validator that is replaced by a laxer parser typically starts to accept another format's
	// strings: an IPv6 literal as IPv4, a CIDR as an address, a date-time as a date, ...).
	for _, f := range formats {
		if f.family != "" || *onlyOpt {
			continue
		}
		l, seen := lives[f.name], seenBy[f.name]
		for _, g := range formats {
			if g.family != "" || g.name == f.name {
				continue
			}
			for _, s := range pool[g.name] {
				if !seen[s] {
					seen[s] = true
					emit(l, s, "cross:"+g.name)
				}
			}
		}
	}
	// Option families: the variants of one constructor share library code (regex builders, caches),
	// so they are used interleaved in this one process: every string of the family's pool goes to every
	// variant in turn (the first variant is therefore used again after each of the others), in the
	// order given by -optorder; vlib runs a second process with the reverse order.
	for _, fam := range []string{"dto", "tmo"} {
		var vs []*live
		for _, f := range formats {
			if f.family == fam {
				vs = append(vs, lives[f.name])
			}
		}
		if *optOrder == "rev" {
			for i, j := 0, len(vs)-1; i < j; i, j = i+1, j-1 {
				vs[i], vs[j] = vs[j], vs[i]
			}
		}
		limit := 5000
		if c.Thorough() {
			limit = 40000
		}
		for _, s := range familyPool(fam, rng, limit) {
			for _, l := range vs {
				emit(l, s, "family:"+*optOrder)
			}
		}
	}
	return o.Close(map[string]any{"stdlib_recognisers": indep})
}

// familyPool: strings valid for some variant of the family, and their single-edit neighbours
// in the part the options govern (time of day and zone).
func familyPool(fam string, rng *hx.Rng, limit int) []string {
	var seeds []string
	times := []string{"06:15", "06:15:00", "23:59:59", "06:15:00.1", "06:15:00.12", "06:15:00.123", "06:15:00.1234", "06:15:00.123456789", "06:15:00.1234567890", "00:00:00.000"}
	keep := 0
	if fam == "tmo" {
		seeds = append(seeds, times...)
		seeds = append(seeds, "06:15Z", "06:15:00Z", "06:15:00+02:00", "24:00", "06:60", "06:15:60", "6:15", "06:15:00.", "06:15.5", "06:15:00,5", "")
	} else {
		dates := []string{"2020-01-01", "2024-02-29"}
		for _, d := range dates {
			for _, t := range times {
				for _, z := range []string{"Z", "", "+02:00", "-00:00"} {
					seeds = append(seeds, d+"T"+t+z)
				}
			}
		}
		seeds = append(seeds, "2023-02-29T06:15:00Z", "2020-01-01T06:15:00z", "2020-01-01t06:15:00Z", "2020-01-01 06:15:00Z", "2020-01-01T06:15:00+24:00",
			"2020-01-01T06:15:00+02", "2020-01-01T06:15:00+0200", "2020-01-01T06:15:00,5Z", "2020-01-01T06:15:00.Z", "2020-01-01", "")
		keep = 10
	}
	seen := map[string]bool{}
	var pool, rest []string
	for _, s := range seeds {
		if !seen[s] {
			seen[s] = true
			pool = append(pool, s)
		}
	}
	for _, s := range seeds {
		head, tail := "", s
		if len(s) >= keep {
			head, tail = s[:keep], s[keep:]
		}
		for _, m := range neighbours(tail, "059:.TZ+-,", ":.") {
			t := head + m.s
			if !seen[t] {
				seen[t] = true
				rest = append(rest, t)
			}
		}
	}
	// deterministic sample of the neighbours up to the limit
	for len(pool) < limit && len(rest) > 0 {
		i := rng.Intn(len(rest))
		pool = append(pool, rest[i])
		rest[i] = rest[len(rest)-1]
		rest = rest[:len(rest)-1]
	}
	return pool
}

type mutant struct{ s, how string }

// neighbours: every single edit of s (insert / delete / substitute a byte of alpha at every
// position, duplicate a byte, flip the case of a letter, change the case of the whole string,
// append or prepend a newline or a space, insert a two-byte UTF-8 letter).
func neighbours(s, alpha, seps string) []mutant {
	var out []mutant
	add := func(t, how string) {
		if t != s {
			out = append(out, mutant{t, how})
		}
	}
	for i := 0; i <= len(s); i++ {
		for j := 0; j < len(alpha); j++ {
			add(s[:i]+alpha[j:j+1]+s[i:], "ins")
		}
	}
	for i := 0; i < len(s); i++ {
		add(s[:i]+s[i+1:], "del")
		for j := 0; j < len(alpha); j++ {
			add(s[:i]+alpha[j:j+1]+s[i+1:], "sub")
		}
		if strings.IndexByte(seps, s[i]) >= 0 {
			add(s[:i]+s[i:i+1]+s[i:], "dupsep")
		} else {
			add(s[:i]+s[i:i+1]+s[i:], "dup")
		}
		ch := s[i]
		if ch >= 'a' && ch <= 'z' {
			add(s[:i]+string(ch-32)+s[i+1:], "case")
		} else if ch >= 'A' && ch <= 'Z' {
			add(s[:i]+string(ch+32)+s[i+1:], "case")
		}
		if i+1 < len(s) {
			add(s[:i]+s[i+1:i+2]+s[i:i+1]+s[i+2:], "swap")
		}
	}
	add(strings.ToUpper(s), "upper")
	add(strings.ToLower(s), "lower")
	add(s+"\n", "nl")
	add(s+"\r\n", "crlf")
	add("\n"+s, "nl")
	add(s+" ", "space")
	add(" "+s, "space")
	add(s+"é", "utf8")
	add(s+s, "twice")
	if len(s) > 0 {
		add(s[:len(s)/2]+"é"+s[len(s)/2:], "utf8")
	}
	return out
}

// stdlibSays: an independent recogniser from the Go standard library where one exists
// (agreement statistics only; never the deciding step).
func stdlibSays(name, s string) (bool, bool) {
	switch name {
	case "ipv4":
		a, err := netip.ParseAddr(s)
		return err == nil && a.Is4(), true
	case "ipv6":
		a, err := netip.ParseAddr(s)
		return err == nil && a.Is6(), true
	case "cidrv4":
		p, err := netip.ParsePrefix(s)
		return err == nil && p.Addr().Is4(), true
	case "cidrv6":
		p, err := netip.ParsePrefix(s)
		return err == nil && p.Addr().Is6(), true
	case "base64":
		_, err := base64.StdEncoding.DecodeString(s)
		return err == nil, true
	case "base64url":
		_, e1 := base64.URLEncoding.DecodeString(s)
		_, e2 := base64.RawURLEncoding.DecodeString(s)
		return e1 == nil || e2 == nil, true
	case "hex":
		_, err := hex.DecodeString(s)
		return err == nil || (len(s)%2 == 1 && func() bool { _, e := hex.DecodeString(s + "0"); return e == nil }()), true
	case "isodate":
		_, err := time.Parse("2006-01-02", s)
		return err == nil, true
	case "isodatetime":
		_, err := time.Parse(time.RFC3339, s)
		return err == nil, true
	}
	return false, false
}
