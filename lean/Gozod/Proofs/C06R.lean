/-
  C06 — whitespace independence stated on the RAW tag string: a tag whose comma-separated parts are free of the
  parser's special characters (quotes, brackets, braces, backslash), written with any amount of white space
  around every part, splits into the same parts up to that white space and parses to the same rules.
  (`c06_parse_ws`: white space around the whole tag, every tag; `c06_rule_ws`: around the `=` of a rule.)
-/
import Gozod.Proofs.C06
set_option linter.unusedSimpArgs false
set_option linter.unusedVariables false
namespace Gozod.C06
open Gozod.TagParser

/-- the characters `splitParts` treats specially -/
def special (c : Nat) : Bool :=
  c == cBackslash || c == cDQuote || c == cSQuote || c == cLBracket || c == cRBracket || c == cLBrace || c == cRBrace || c == cComma

/-- a part without special characters (`required`, `min=3`, `enum=red green blue`, ` max = 5 `) -/
def Plain (p : Str) : Prop := ∀ c ∈ p, special c = false

/-- the raw tag: the parts joined by commas -/
def joinComma : List Str → Str
  | [] => []
  | [p] => p
  | p :: q :: ps => p ++ cComma :: joinComma (q :: ps)

theorem special_false (c : Nat) (h : special c = false) :
    c ≠ cBackslash ∧ c ≠ cDQuote ∧ c ≠ cSQuote ∧ c ≠ cLBracket ∧ c ≠ cRBracket ∧ c ≠ cLBrace ∧ c ≠ cRBrace ∧ c ≠ cComma := by
  simp only [special, Bool.or_eq_false_iff, beq_eq_false_iff_ne] at h
  obtain ⟨⟨⟨⟨⟨⟨⟨h1, h2⟩, h3⟩, h4⟩, h5⟩, h6⟩, h7⟩, h8⟩ := h
  exact ⟨h1, h2, h3, h4, h5, h6, h7, h8⟩

theorem space_plain (w : Str) (h : AllSpace w) : Plain w := by
  intro c hc
  obtain ⟨h1, h2, h3, h4, h5, h6, h7, h8⟩ := space_not_special c (h c hc)
  simp [special, h1, h2, h3, h4, h5, h6, h7, h8]

theorem plain_append (a b : Str) (ha : Plain a) (hb : Plain b) : Plain (a ++ b) := by
  intro c hc
  rcases List.mem_append.mp hc with h | h
  · exact ha c h
  · exact hb c h

theorem step_plain (s : St) (c : Nat) (m : Bool) (hs : s.escaped = false) (hc : special c = false) :
    step s c m = { s with buf := s.buf ++ [c] } := by
  obtain ⟨h1, h2, h3, h4, h5, h6, h7, h8⟩ := special_false c hc
  unfold step
  simp [hs, h1, h2, h3, h4, h5, h6, h7, h8]

theorem runM_plain (s : St) (p : Str) (m : Bool) (hs : s.escaped = false) (hp : Plain p) :
    runM s p m = { s with buf := s.buf ++ p } := by
  induction p generalizing s with
  | nil => simp [runM]
  | cons c p ih =>
    simp only [runM, step_plain s c _ hs (hp c (by simp))]
    rw [ih _ (by simpa using hs) (fun d hd => hp d (by simp [hd]))]
    simp

/-- nothing is open: the next comma is a top-level comma -/
def Neutral (s : St) : Prop := s.brackets = 0 ∧ s.braces = 0 ∧ s.quoted = false ∧ s.escaped = false

theorem step_comma (s : St) (m : Bool) (h : Neutral s) :
    step s cComma m = { s with parts := s.parts ++ [s.buf], buf := [] } := by
  obtain ⟨h1, h2, h3, h4⟩ := h
  unfold step
  simp (config := {decide := true}) [h1, h2, h3, h4]

/-- **Splitting of a raw tag with plain parts**: from a neutral state the first part continues the buffer, every
    comma closes a part, the last part stays in the buffer. -/
theorem outs_join (s : St) (q : Str) (qs : List Str) (m : Bool) (hs : Neutral s)
    (hq : Plain q) (hqs : ∀ p ∈ qs, Plain p) :
    outs (runM s (joinComma (q :: qs)) m) = s.parts ++ (s.buf ++ q) :: qs := by
  induction qs generalizing s q with
  | nil =>
    simp only [joinComma]
    rw [runM_plain s q m hs.2.2.2 hq]
    simp [outs]
  | cons q' qs ih =>
    simp only [joinComma]
    rw [runM_append, runM_plain s q _ hs.2.2.2 hq]
    have hn : Neutral { s with buf := s.buf ++ q } := hs
    simp only [runM]
    rw [step_comma _ _ hn]
    have hn' : Neutral { s with parts := s.parts ++ [s.buf ++ q], buf := ([] : Str) } := hs
    have := ih { s with parts := s.parts ++ [s.buf ++ q], buf := ([] : Str) } q' hn' (hqs q' (by simp))
      (fun p hp => hqs p (by simp [hp]))
    simpa using this

theorem outs_run_join (q : Str) (qs : List Str) (hq : Plain q) (hqs : ∀ p ∈ qs, Plain p) :
    outs (run {} (joinComma (q :: qs))) = q :: qs := by
  rw [run_eq_runM]
  have := outs_join {} q qs false ⟨rfl, rfl, rfl, rfl⟩ hq hqs
  simpa using this

theorem combine_congr (legacy : Bool) (ps : List Str) (pad : Str → Str)
    (hpad : ∀ p, ∃ w₁ w₂, AllSpace w₁ ∧ AllSpace w₂ ∧ pad p = w₁ ++ p ++ w₂) :
    (ps.map pad).map (ruleOfPart legacy) = ps.map (ruleOfPart legacy) := by
  rw [List.map_map]
  apply List.map_congr_left
  intro p _
  obtain ⟨w₁, w₂, h₁, h₂, e⟩ := hpad p
  simp only [Function.comp, e, ruleOfPart_pad _ _ _ _ h₁ h₂]

/-- **Whitespace independence on the raw tag string**: write the tag `p₁,p₂,…,pₙ` (parts without quotes, brackets,
    braces or backslashes) with any white space — any Unicode space, any amount — before and after every part:
    `splitParts` yields the padded parts, and `ParseTagString` yields the same rules. -/
theorem c06_tag_ws (legacy : Bool) (ps : List Str) (pad : Str → Str) (hp : ∀ p ∈ ps, Plain p)
    (hpad : ∀ p, ∃ w₁ w₂, AllSpace w₁ ∧ AllSpace w₂ ∧ pad p = w₁ ++ p ++ w₂) :
    outs (run {} (joinComma (ps.map pad))) = (outs (run {} (joinComma ps))).map pad ∨ ps = [] := by
  cases ps with
  | nil => right; rfl
  | cons q qs =>
    left
    have hpl : ∀ p, Plain p → Plain (pad p) := by
      intro p hpp
      obtain ⟨w₁, w₂, h₁, h₂, e⟩ := hpad p
      rw [e]; exact plain_append _ _ (plain_append _ _ (space_plain _ h₁) hpp) (space_plain _ h₂)
    rw [List.map_cons, outs_run_join (pad q) (qs.map pad) (hpl q (hp q (by simp)))
          (by intro p hpm; obtain ⟨p0, h0, e⟩ := List.mem_map.mp hpm; subst e; exact hpl p0 (hp p0 (by simp [h0]))),
        outs_run_join q qs (hp q (by simp)) (fun p hpm => hp p (by simp [hpm]))]
    rfl

/-- …and the parsed rules are the same (also on the code before 870d48c: the same tags panic). -/
theorem c06_tag_ws_rules (legacy : Bool) (ps : List Str) (pad : Str → Str) (hp : ∀ p ∈ ps, Plain p)
    (hpad : ∀ p, ∃ w₁ w₂, AllSpace w₁ ∧ AllSpace w₂ ∧ pad p = w₁ ++ p ++ w₂) (hne : ps ≠ []) :
    parseTag legacy (joinComma (ps.map pad)) = parseTag legacy (joinComma ps) := by
  rw [parseTag_eq, parseTag_eq]
  rcases c06_tag_ws legacy ps pad hp hpad with h | h
  · rw [h]; exact congrArg combine (combine_congr legacy _ pad hpad)
  · exact absurd h hne

-- inhabited: ` required , min = 3 ,max=5 ` against `required,min = 3,max=5`
example : Plain [0x6D, 0x69, 0x6E, 0x20, 0x3D, 0x20, 0x33] ∧ AllSpace [0x20, 0x09, 0xA0] := by
  refine ⟨?_, ?_⟩
  · intro c hc; simp at hc; rcases hc with h | h | h | h | h | h | h <;> subst h <;> decide
  · intro c hc; simp at hc; rcases hc with h | h | h <;> subst h <;> decide

end Gozod.C06
