/-
  Gozod.Model.FormatSpecDT — a date-time format is a calendar date (exactly ten bytes) followed by a tail:
  'T', the time of day, the zone.  The tail automata are the date-time automata of Model/FormatSpec.lean
  started just after the date; `C20.dateThen_split` (Proofs/C20DateTime.lean) proves

      (date-time).run s = isoDate.run (s.take 10) && (tail).run (s.drop 10)

  so that one certificate for the date pattern and a small certificate per option set for the tail
  give the theorem for every option set.   Core-only.
-/
import Gozod.Model.FormatSpec
namespace Gozod
namespace Fmt

/-- the state in which every date-time automaton is after a complete date -/
def afterDate : DateSt := ⟨10, 0, 0, 0, 0⟩

/-- a calendar date, then whatever `tstep` / `acc` describe, started in `start` -/
def dateThen (sup : List Nat) (tstep : DateSt → Nat → Option DateSt) (acc : DateSt → Bool) (start : DateSt) : Spec where
  State := DateSt
  beq := DateSt.beq
  beq_eq := DateSt.beq_eq
  init := start
  support := sup
  step := fun q c => if q.pos < 10 then dateStep 10000 q c else tstep q c
  acc := acc
  code := DateSt.code
  pp := DateSt.pp

/-- what follows the date in `IsoDateTime(IsoDatetimeOptions{Precision, Offset, Local})` -/
def dtTail (p : Prec) (offset loc : Bool) : Spec := { isoDateTimeOpt p offset loc with init := afterDate }

/-- what follows the date in RFC 3339 (`optSec = true`: seconds optional) -/
def dtTailRfc (optSec : Bool) : Spec := { isoDateTime optSec with init := afterDate }

end Fmt

namespace Re
/-- `r` is `head` followed by something -/
def splitsAs (r head : Re) : Bool :=
  match r with
  | seq a _ => beq a head
  | _ => false

/-- what follows the first factor of a concatenation -/
def seqTail : Re → Re
  | seq _ b => b
  | _ => eps
end Re
end Gozod
