package main

// Translator for C19 (source only, go/ast):  -gen PATH  writes lean/Gozod/Gen/C19Exports.lean with
//
//   reexports  every top-level `Name = pkg.Name` of gozod.go (var or type alias) whose right-hand side lives
//              in internal/issues or internal/utils — what `gozod.FlattenError` etc. ARE;
//   wrappers   every function of internal/issues/errors.go whose body is a single `return f(args…)` (optionally
//              after a guard `if x == nil { … }`, recorded) — the thin
//              entry points (FormatError, TreeifyError, FlattenError, FlattenErrorWithFormatter, ToDotPath,
//              PrettifyError) with the callee and the printed arguments;
//   errorMethod  the statements of (*ZodError).Error, printed, one per entry.
//
// Proofs/C19Exports.lean decides over the WHOLE regenerated table that every exported formatter is the internal
// function of the same name and that every thin entry point hands the error to the transcribed function with
// defaultIssueMapper(formatter) — so re-routing one of them changes a proof obligation, not only a sampled run.

import (
	"bytes"
	"flag"
	"fmt"
	"go/ast"
	"go/parser"
	"go/printer"
	"go/token"
	"os"
	"path/filepath"
	"sort"
	"strconv"
	"strings"
)

var (
	genPath  = flag.String("gen", "", "translator: write Gen/C19Exports.lean to this path and exit")
	repoPath = flag.String("repo", "", "library working tree (default $VERIF_REPO or /repo)")
	aim      = flag.String("aim", "", "comma-separated report names (flat,tree,fmt,pretty) whose Go functions changed: more synthesised cases")
)

func repoDir() string {
	if *repoPath != "" {
		return *repoPath
	}
	if r := os.Getenv("VERIF_REPO"); r != "" {
		return r
	}
	return "/repo"
}

func show(fset *token.FileSet, n any) string {
	var b bytes.Buffer
	_ = printer.Fprint(&b, fset, n)
	return strings.Join(strings.Fields(b.String()), " ")
}

func leanStr(s string) string { return strconv.Quote(s) }

func runGen(path string) error {
	repo := repoDir()
	fset := token.NewFileSet()

	// ---- gozod.go: re-exports
	root, err := parser.ParseFile(fset, filepath.Join(repo, "gozod.go"), nil, 0)
	if err != nil {
		return err
	}
	pkgOf := map[string]string{} // import name -> last path element, for the two packages of interest
	for _, im := range root.Imports {
		p, _ := strconv.Unquote(im.Path.Value)
		if strings.HasSuffix(p, "/internal/issues") || strings.HasSuffix(p, "/internal/utils") {
			name := filepath.Base(p)
			if im.Name != nil {
				name = im.Name.Name
			}
			pkgOf[name] = filepath.Base(p)
		}
	}
	type row struct{ name, pkg, target, kind string }
	var rows []row
	add := func(name string, rhs ast.Expr, kind string) {
		sel, ok := rhs.(*ast.SelectorExpr)
		if !ok {
			return
		}
		id, ok := sel.X.(*ast.Ident)
		if !ok {
			return
		}
		if pkg, ok := pkgOf[id.Name]; ok {
			rows = append(rows, row{name, pkg, sel.Sel.Name, kind})
		}
	}
	for _, d := range root.Decls {
		switch g := d.(type) {
		case *ast.GenDecl:
			for _, sp := range g.Specs {
				switch s := sp.(type) {
				case *ast.ValueSpec:
					if len(s.Names) == len(s.Values) {
						for i, n := range s.Names {
							add(n.Name, s.Values[i], strings.ToLower(g.Tok.String()))
						}
					}
				case *ast.TypeSpec:
					kind := "type"
					if s.Assign.IsValid() {
						kind = "alias"
					}
					add(s.Name.Name, s.Type, kind)
				}
			}
		case *ast.FuncDecl:
			// a re-export written as a function `func X(a) T { return issues.X(a) }` is recorded too
			if g.Recv == nil && g.Body != nil && len(g.Body.List) == 1 {
				if ret, ok := g.Body.List[0].(*ast.ReturnStmt); ok && len(ret.Results) == 1 {
					if call, ok := ret.Results[0].(*ast.CallExpr); ok {
						add(g.Name.Name, call.Fun, "func")
					}
				}
			}
		}
	}
	sort.Slice(rows, func(i, j int) bool { return rows[i].name < rows[j].name })

	// ---- internal/issues/errors.go: thin wrappers and the Error method
	ef, err := parser.ParseFile(fset, filepath.Join(repo, "internal", "issues", "errors.go"), nil, 0)
	if err != nil {
		return err
	}
	type wrap struct {
		name, callee string
		args         []string
		guard        string
	}
	var wraps []wrap
	var errorStmts []string
	var allFuncs []string
	for _, d := range ef.Decls {
		fd, ok := d.(*ast.FuncDecl)
		if !ok || fd.Body == nil {
			continue
		}
		name := fd.Name.Name
		if fd.Recv != nil && len(fd.Recv.List) == 1 {
			name = strings.TrimPrefix(show(fset, fd.Recv.List[0].Type), "*") + "." + name
		}
		allFuncs = append(allFuncs, name)
		if name == "ZodError.Error" {
			for _, st := range fd.Body.List {
				errorStmts = append(errorStmts, show(fset, st))
			}
		}
		// a thin entry point: one `return callee(args…)`, optionally preceded by a guard for a nil error
		// (`if zodErr == nil { … }`), whose text is recorded
		body := fd.Body.List
		guard := ""
		if len(body) == 2 {
			if ifs, isIf := body[0].(*ast.IfStmt); isIf && ifs.Init == nil && ifs.Else == nil && strings.HasSuffix(show(fset, ifs.Cond), "== nil") {
				guard = show(fset, ifs)
				body = body[1:]
			}
		}
		if len(body) != 1 {
			continue
		}
		ret, ok := body[0].(*ast.ReturnStmt)
		if !ok || len(ret.Results) != 1 {
			continue
		}
		call, ok := ret.Results[0].(*ast.CallExpr)
		if !ok {
			continue
		}
		w := wrap{name: name, callee: show(fset, call.Fun), guard: guard}
		for _, a := range call.Args {
			w.args = append(w.args, show(fset, a))
		}
		wraps = append(wraps, w)
	}
	sort.Slice(wraps, func(i, j int) bool { return wraps[i].name < wraps[j].name })
	sort.Strings(allFuncs)
	if len(rows) == 0 || len(wraps) == 0 || len(errorStmts) == 0 {
		return fmt.Errorf("translator found %d re-exports, %d wrappers, %d statements of ZodError.Error", len(rows), len(wraps), len(errorStmts))
	}

	var b strings.Builder
	b.WriteString("/- REGENERATED by `harness/cmd/c19 -gen` from gozod.go and internal/issues/errors.go on every run of ./check C19.\n   Do not edit. -/\n")
	b.WriteString("namespace Gozod.Gen.C19Exports\n\n")
	b.WriteString("/-- (exported name, internal package, name there, kind) of every `Name = issues.X` / `Name = utils.X` of gozod.go -/\n")
	b.WriteString("def reexports : List (String × String × String × String) := [\n")
	for i, r := range rows {
		sep := ","
		if i == len(rows)-1 {
			sep = ""
		}
		fmt.Fprintf(&b, "  (%s, %s, %s, %s)%s\n", leanStr(r.name), leanStr(r.pkg), leanStr(r.target), leanStr(r.kind), sep)
	}
	b.WriteString("]\n\n")
	b.WriteString("/-- (function, callee, arguments, nil guard) of every function of internal/issues/errors.go whose body is one\n    `return callee(args…)`, optionally after an `if … == nil { … }` (its text; \"\" when there is none) -/\n")
	b.WriteString("def wrappers : List (String × String × List String × String) := [\n")
	for i, w := range wraps {
		sep := ","
		if i == len(wraps)-1 {
			sep = ""
		}
		qa := make([]string, len(w.args))
		for j, a := range w.args {
			qa[j] = leanStr(a)
		}
		fmt.Fprintf(&b, "  (%s, %s, [%s], %s)%s\n", leanStr(w.name), leanStr(w.callee), strings.Join(qa, ", "), leanStr(w.guard), sep)
	}
	b.WriteString("]\n\n")
	b.WriteString("/-- the statements of `func (e *ZodError) Error() string`, printed -/\n")
	b.WriteString("def errorMethod : List String := [\n")
	for i, st := range errorStmts {
		sep := ","
		if i == len(errorStmts)-1 {
			sep = ""
		}
		fmt.Fprintf(&b, "  %s%s\n", leanStr(st), sep)
	}
	b.WriteString("]\n\n")
	b.WriteString("/-- every function declared in internal/issues/errors.go -/\n")
	b.WriteString("def errorsGoFuncs : List String := [")
	for i, f := range allFuncs {
		if i > 0 {
			b.WriteString(", ")
		}
		b.WriteString(leanStr(f))
	}
	b.WriteString("]\n\nend Gozod.Gen.C19Exports\n")

	if old, err := os.ReadFile(path); err == nil && string(old) == b.String() {
		return nil // unchanged: keep the file (and lake's build) as it is
	}
	return os.WriteFile(path, []byte(b.String()), 0o644)
}
