/-
  Line handler for C19 (error formatters).

    c19 cfg=<4 bits> <n> issue*   → "<model>\t<spec>"      (an error with n issues)
    c19 cfg=<4 bits> nil          → "<model>\t<spec>"      (a nil *ZodError)
    cfg    := the state of the three places repaired in round 4b (the harness names cfg=1111: pinned to the code as it stands): treeNeg treeOther
              dotOther nilSafe, `1` = fixed (Model/IssuesGo.lean `Cfg`); the spec does not read it
    issue  := I <code> <npath> seg* <msg> <nbranches> branch* <nissues> issue*
    branch := <n> issue*
    seg    := k<hex of the string's UTF-8 bytes> | i<decimal> (int ≥ 0) | j<decimal> (the int −decimal)
              | o<hex of fmt.Sprintf("%v", el)> (an element of any other dynamic type)
    code   := invalid_type | … (the 17 constants) | ?<hex>   (any other code string)
    msg    := m<hex>

  A report line is `flat=… tree=… fmt=… pretty=…` (canonical: map entries sorted by key, all
  strings in hex):
    list      [h,h,…]
    flat      F[form]{key:[msgs];…}
    tree      T[errors]{key:tree;…}(tree;…)
    fmt       M[errors]{key:fmt;…}
    pretty    P<hex>
  and a report whose call panicked is `panic`.
-/
import Gozod.Model.IssuesGo
import Gozod.Model.IssuesGoSpec
namespace Gozod.Drv.C19
open Gozod.Issues

/-! ### hex -/

def hexDigit (n : Nat) : Char :=
  if n < 10 then Char.ofNat (48 + n) else Char.ofNat (87 + n)

def hex (s : String) : String :=
  String.ofList (s.toUTF8.toList.flatMap (fun b => [hexDigit (b.toNat / 16), hexDigit (b.toNat % 16)]))

def unhexDigit (c : Char) : Option Nat :=
  if '0' ≤ c && c ≤ '9' then some (c.toNat - 48)
  else if 'a' ≤ c && c ≤ 'f' then some (c.toNat - 87)
  else none

def unhexBytes : List Char → Option (List UInt8)
  | [] => some []
  | [_] => none
  | a :: b :: r => do
    let x ← unhexDigit a
    let y ← unhexDigit b
    let rest ← unhexBytes r
    pure (UInt8.ofNat (16 * x + y) :: rest)

def unhex (s : String) : Option String := do
  let bs ← unhexBytes s.toList
  String.fromUTF8? (ByteArray.mk bs.toArray)

/-! ### parsing -/

def parseCode (t : String) : Option Code :=
  match t with
  | "invalid_type" => some .invalidType
  | "invalid_value" => some .invalidValue
  | "invalid_format" => some .invalidFormat
  | "invalid_union" => some .invalidUnion
  | "invalid_key" => some .invalidKey
  | "invalid_element" => some .invalidElement
  | "too_big" => some .tooBig
  | "too_small" => some .tooSmall
  | "not_multiple_of" => some .notMultipleOf
  | "unrecognized_keys" => some .unrecognizedKeys
  | "custom" => some .custom
  | "invalid_schema" => some .invalidSchema
  | "invalid_discriminator" => some .invalidDiscriminator
  | "incompatible_types" => some .incompatibleTypes
  | "missing_required" => some .missingRequired
  | "type_conversion" => some .typeConversion
  | "nil_pointer" => some .nilPointer
  | t => if t.startsWith "?" then (unhex (t.drop 1).toString).map Code.other else none

def parseSeg (t : String) : Option El :=
  if t.startsWith "k" then (unhex (t.drop 1).toString).map El.str
  else if t.startsWith "i" then ((t.drop 1).toString.toNat?).map (fun n => El.int (.ofNat n))
  else if t.startsWith "j" then
    match (t.drop 1).toString.toNat? with
    | some (n + 1) => some (El.int (.negSucc n))
    | _ => none
  else if t.startsWith "o" then (unhex (t.drop 1).toString).map El.other
  else none

def parseSegs : Nat → List String → Option (List El × List String)
  | 0, ts => some ([], ts)
  | n + 1, t :: ts => do
    let s ← parseSeg t
    let (r, ts') ← parseSegs n ts
    pure (s :: r, ts')
  | _ + 1, [] => none

mutual
partial def parseIssue : List String → Option (IssueGo × List String)
  | "I" :: c :: np :: ts => do
    let code ← parseCode c
    let n ← np.toNat?
    let (path, ts) ← parseSegs n ts
    match ts with
    | m :: nb :: ts =>
      if !m.startsWith "m" then none else do
      let msg ← unhex (m.drop 1).toString
      let nb ← nb.toNat?
      let (brs, ts) ← parseBranches nb ts
      match ts with
      | ni :: ts => do
        let ni ← ni.toNat?
        let (subs, ts) ← parseIssues ni ts
        pure (IssueGo.mk code path msg brs subs, ts)
      | [] => none
    | _ => none
  | _ => none
partial def parseIssues : Nat → List String → Option (List IssueGo × List String)
  | 0, ts => some ([], ts)
  | n + 1, ts => do
    let (i, ts) ← parseIssue ts
    let (r, ts) ← parseIssues n ts
    pure (i :: r, ts)
partial def parseBranches : Nat → List String → Option (List (List IssueGo) × List String)
  | 0, ts => some ([], ts)
  | n + 1, ts =>
    match ts with
    | c :: ts => do
      let c ← c.toNat?
      let (b, ts) ← parseIssues c ts
      let (r, ts) ← parseBranches n ts
      pure (b :: r, ts)
    | [] => none
end

/-! ### canonical rendering -/

/-- every message is written `m<hex>`: a list holding one empty message is not the empty list -/
def rList (ms : List String) : String := "[" ++ ",".intercalate (ms.map (fun m => "m" ++ hex m)) ++ "]"

def sortByKey {α : Type} (l : List (String × α)) : List (String × α) :=
  l.mergeSort (fun a b => !(b.1 < a.1))

def rFlat (f : Flat) : String :=
  let fs := sortByKey (f.fields.map (fun (k, ms) => (hex k, rList ms)))
  "F" ++ rList f.form ++ "{" ++ ";".intercalate (fs.map (fun (k, v) => k ++ ":" ++ v)) ++ "}"

mutual
partial def rTree : Tree → String
  | .node e p i =>
    let ps := sortByKey (p.map (fun (k, t) => (hex k, rTree t)))
    "T" ++ rList e ++ "{" ++ ";".intercalate (ps.map (fun (k, v) => k ++ ":" ++ v)) ++ "}("
      ++ ";".intercalate (i.map rTree) ++ ")"
end

mutual
partial def rFmt : Fmt → String
  | .node e k =>
    let ks := sortByKey (k.map (fun (k, t) => (hex k, rFmt t)))
    "M" ++ rList e ++ "{" ++ ";".intercalate (ks.map (fun (k, v) => k ++ ":" ++ v)) ++ "}"
end

def orPanic {α : Type} (f : α → String) : Option α → String
  | none => "panic"
  | some a => f a

def report (fl : Option Flat) (tr : Option Tree) (fm : Option Fmt) (pr : Option String) : String :=
  s!"flat={orPanic rFlat fl} tree={orPanic rTree tr} fmt={orPanic rFmt fm} pretty={orPanic (fun p => "P" ++ hex p) pr}"

def parseCfg (t : String) : Option Cfg :=
  match t.toList with
  | ['c', 'f', 'g', '=', a, b, c, d] =>
    if [a, b, c, d].all (fun x => x == '0' || x == '1') then some ⟨a == '1', b == '1', c == '1', d == '1'⟩ else none
  | _ => none

/-- the clause "a non-empty error never formats to an empty report" on the model's reports (a panic is not a report) -/
def neModel (e : Err) (m : Reports) : Bool :=
  (Spec.issuesOf e).isEmpty ||
    ((m.flat.any (fun f => 0 < f.count)) && (m.tree.any (fun t => 0 < t.count)) && (m.fmt.any (fun f => 0 < f.count))
      && (m.pretty.any (fun p => p != "")))

/-- … and as the statement has it: with the library's own messages (`dm`) unconditionally; with a user-supplied
    mapper / formatter unless the error is one root issue with an empty message (reading decision, notes/C19.md;
    Gozod.C19.c19_go_nonempty, c19_go_prettify_empty_iff relate this to `prettifyGo`) -/
def neSpec (dm : Bool) (e : Err) : Bool :=
  dm || match Spec.issuesOf e with
    | [i] => !(i.path.isEmpty && i.msg == "")
    | _ => true

def bit (b : Bool) : String := if b then "1" else "0"

def answer (c : Cfg) (dm : Bool) (e : Err) : String :=
  let m := reportsCfg c e
  let s := Spec.specReports e
  report m.flat m.tree m.fmt m.pretty ++ " ne=" ++ bit (neModel e m) ++ "\t"
    ++ report (some s.1) (some s.2.1) (some s.2.2.1) (some s.2.2.2) ++ " ne=" ++ bit (neSpec dm e)

def handle : List String → String
  | c :: ts =>
    match parseCfg c with
    | none => "bad-op"
    | some c =>
      match ts with
      | d :: ts =>
        if d != "dm=0" && d != "dm=1" then "bad-op" else
        let dm := d == "dm=1"
        match ts with
        | ["nil"] => answer c dm none
        | n :: ts =>
          match n.toNat? with
          | none => "bad-op"
          | some n =>
            match parseIssues n ts with
            | some (is, []) => answer c dm (some is)
            | _ => "bad-op"
        | [] => "bad-op"
      | [] => "bad-op"
  | _ => "bad-op"

end Gozod.Drv.C19
