// C09 harness, part (C) "hist": histories over families of schemas.
//
// A history builds two relatives A and B of one schema type (plain / with the type's own checks / with a
// refinement, each followed by random derivation steps), calls entry points on them in random order
// (warm-up), derives further schemas by every route the API offers — copy-on-write methods discovered by
// reflection (modifiers, checks, accessors such as Element/Unwrap, wrappers such as And/Or), CloneFrom in
// both directions and into a fresh schema — and then compares all six entry points on the target in a
// random order, twice. A never-parsed twin of the target (same constructor calls and derivations, no
// parses) is asked once through Parse and once through StrictParse: the warm schema must answer alike.
//
// "frame" lines tie the hypotheses of the Lean history theorem to the code: across every parse no field of
// the schema's core internals (exported or not, read by reflection) changes, and the internals of a derived
// schema are the same whether or not its ancestors have parsed anything.
package main

import (
	"encoding/hex"
	"fmt"
	"reflect"
	"sort"
	"strings"

	"github.com/kaptinlin/gozod"

	"verifharness/hx"
)

var epNames = []string{"Parse", "StrictParse", "ParseAny", "MustParse", "MustStrictParse", "MustParseAny"}
var epShort = map[string]string{"Parse": "P", "StrictParse": "S", "ParseAny": "A", "MustParse": "MP", "MustStrictParse": "MS", "MustParseAny": "MA"}

func freshArg(v reflect.Value) reflect.Value {
	if !v.IsValid() {
		return v
	}
	if v.Kind() == reflect.Pointer && !v.IsNil() {
		p := reflect.New(v.Type().Elem())
		p.Elem().Set(v.Elem())
		return p
	}
	if v.Kind() == reflect.Interface && !v.IsNil() {
		inner := freshArg(v.Elem())
		x := reflect.New(v.Type()).Elem()
		x.Set(inner)
		return x
	}
	return v
}

// callOne calls one entry point; the strict ones only when the input has the static type they require.
func callOne(schema any, name string, in reflect.Value, render func(any, error) string) string {
	rv := reflect.ValueOf(schema)
	m := rv.MethodByName(name)
	if !m.IsValid() {
		return "n/a"
	}
	arg := in
	if name == "StrictParse" || name == "MustStrictParse" {
		want := m.Type().In(0)
		switch {
		case in.IsValid() && in.Type() == want:
		case in.IsValid() && in.Kind() == reflect.Interface && !in.IsNil() && in.Elem().Type() == want:
			arg = in.Elem()
		case in.IsValid() && in.Kind() == reflect.Interface && want.Kind() == reflect.Interface && in.Type() != want:
			x := reflect.New(want).Elem()
			if !in.IsNil() {
				x.Set(in.Elem())
			}
			arg = x
		default:
			return "n/a"
		}
	} else if !in.IsValid() || in.Type() != anyT {
		x := reflect.New(anyT).Elem()
		if in.IsValid() {
			x.Set(in)
		}
		arg = x
	}
	arg = freshArg(arg)
	var out string
	must := strings.HasPrefix(name, "Must")
	func() {
		defer func() {
			if p := recover(); p != nil {
				if e, ok := p.(error); ok && must {
					out = render(nil, e) + errTypeTag(e)
				} else {
					out = "panic:" + strings.ReplaceAll(strings.ReplaceAll(fmt.Sprint(p), " ", "_"), ";", ",")
				}
			}
		}()
		res := m.Call([]reflect.Value{arg})
		var err error
		if len(res) == 2 && !res[1].IsNil() {
			err = res[1].Interface().(error)
		}
		out = render(res[0].Interface(), err) + errTypeTag(err)
	}()
	return out
}

// ---------- derivation steps by reflection ----------

type step struct {
	name string
	sel  int
}

func (s step) tok() string { return fmt.Sprintf("%s.%d", s.name, s.sel) }

var notDerivations = map[string]bool{
	"Parse": true, "MustParse": true, "StrictParse": true, "MustStrictParse": true, "ParseAny": true, "MustParseAny": true,
	"CloneFrom": true, "Internals": true, "GetInternals": true, "Coerce": true, "IsOptional": true, "IsNilable": true,
	"Meta": true, // writes the global registry (C08/C12 territory)
}

var classicMods = []string{"Optional", "Nilable", "Nullish", "NonOptional", "Default", "DefaultFunc", "Prefault", "PrefaultFunc"}

func isSchema(v any) bool {
	if v == nil {
		return false
	}
	rv := reflect.ValueOf(v)
	if rv.Kind() != reflect.Pointer || rv.IsNil() {
		return false
	}
	return rv.MethodByName("Parse").IsValid() && rv.MethodByName("StrictParse").IsValid() && rv.MethodByName("Internals").IsValid()
}

func parity(v reflect.Value) bool { return len(canon(v.Interface()))%2 == 0 }

// fillArg makes an argument of type pt: the entry's default value, constants, callbacks whose behaviour
// is fixed by sel, or a relative schema for `any` parameters (And/Or wrappers).
func fillArg(name string, pt reflect.Type, dflt any, sel int, rel any) (reflect.Value, bool) {
	switch pt.Kind() {
	case reflect.Func:
		if pt.IsVariadic() {
			return reflect.Value{}, false
		}
		switch {
		case pt.NumIn() == 0 && pt.NumOut() == 1:
			dv, ok := conv(dflt, pt.Out(0))
			if !ok {
				return reflect.Value{}, false
			}
			return reflect.MakeFunc(pt, func([]reflect.Value) []reflect.Value { return []reflect.Value{dv} }), true
		case pt.NumIn() == 1 && pt.NumOut() == 1 && pt.Out(0).Kind() == reflect.Bool:
			return reflect.MakeFunc(pt, func(a []reflect.Value) []reflect.Value {
				var b bool
				switch sel % 3 {
				case 0:
					b = parity(a[0])
				case 1:
					b = false
				default:
					b = true
				}
				return []reflect.Value{reflect.ValueOf(b)}
			}), true
		case pt.NumIn() == 1 && pt.NumOut() == 1 && pt.Out(0) == pt.In(0):
			if sel == 7 {
				// a nil-FILLING overwrite (`func(p *string) *string { if p == nil { return &dflt }; return p }`): the one kind of
				// check whose effect on an accepted nil is observable since /repo 7db47f1 (seeded/C09)
				dv, ok := conv(dflt, pt.In(0))
				switch pt.In(0).Kind() {
				case reflect.Pointer, reflect.Interface, reflect.Map, reflect.Slice:
				default:
					ok = false
				}
				return reflect.MakeFunc(pt, func(a []reflect.Value) []reflect.Value {
					if ok && isNilLike(a[0]) {
						return []reflect.Value{dv}
					}
					return []reflect.Value{a[0]}
				}), true
			}
			return reflect.MakeFunc(pt, func(a []reflect.Value) []reflect.Value { return []reflect.Value{a[0]} }), true
		}
		return reflect.Value{}, false
	case reflect.Interface:
		if name == "And" || name == "Or" {
			if pt.NumMethod() == 0 && rel != nil {
				x := reflect.New(pt).Elem()
				x.Set(reflect.ValueOf(rel))
				return x, true
			}
			return reflect.Value{}, false
		}
		if pt.NumMethod() == 0 {
			return conv(dflt, pt)
		}
		return reflect.Value{}, false
	case reflect.Int, reflect.Int8, reflect.Int16, reflect.Int32, reflect.Int64:
		if dv, ok := conv(dflt, pt); ok && reflect.TypeOf(dflt).Kind() == pt.Kind() {
			return dv, true
		}
		return reflect.ValueOf(1 + sel%3).Convert(pt), true
	case reflect.Uint, reflect.Uint8, reflect.Uint16, reflect.Uint32, reflect.Uint64:
		if dv, ok := conv(dflt, pt); ok && reflect.TypeOf(dflt).Kind() == pt.Kind() {
			return dv, true
		}
		return reflect.ValueOf(1 + sel%3).Convert(pt), true
	case reflect.String:
		if dv, ok := conv(dflt, pt); ok {
			return dv, true
		}
		return reflect.ValueOf("d").Convert(pt), true
	case reflect.Bool:
		return reflect.ValueOf(sel%2 == 0).Convert(pt), true
	}
	if dv, ok := conv(dflt, pt); ok {
		return dv, true
	}
	return reflect.Value{}, false
}

// applyStep calls a derivation method; ok=false when the method does not exist, cannot be fed, panics, or
// does not return a schema.
func applyStep(s any, st step, dflt any, rel any) (out any, ok bool) {
	m := reflect.ValueOf(s).MethodByName(st.name)
	if !m.IsValid() {
		return nil, false
	}
	mt := m.Type()
	if mt.NumOut() != 1 {
		return nil, false
	}
	n := mt.NumIn()
	if mt.IsVariadic() {
		n--
	}
	args := make([]reflect.Value, 0, n)
	for i := 0; i < n; i++ {
		a, ok := fillArg(st.name, mt.In(i), dflt, st.sel, rel)
		if !ok {
			return nil, false
		}
		args = append(args, a)
	}
	pm := hx.Safely(func() {
		r := m.Call(args)[0]
		if r.Kind() == reflect.Interface && !r.IsNil() {
			r = r.Elem()
		}
		if r.IsValid() && r.CanInterface() {
			out = r.Interface()
		}
	})
	if pm != "" || !isSchema(out) {
		return nil, false
	}
	return out, true
}

func derivationNames(s any) []string {
	t := reflect.TypeOf(s)
	var names []string
	for i := 0; i < t.NumMethod(); i++ {
		n := t.Method(i).Name
		if notDerivations[n] {
			continue
		}
		names = append(names, n)
	}
	sort.Strings(names)
	return names
}

func drawStep(r *hx.Rng, s any) step {
	if r.Chance(60) {
		return step{hx.Pick(r, classicMods), r.Intn(3)}
	}
	return step{hx.Pick(r, derivationNames(s)), r.Intn(3)}
}

// ---------- snapshots of the core internals (exported and unexported fields) ----------

func snapValue(v reflect.Value, exact bool, depth int) string {
	switch v.Kind() {
	case reflect.Bool:
		return fmt.Sprint(v.Bool())
	case reflect.Int, reflect.Int8, reflect.Int16, reflect.Int32, reflect.Int64:
		return fmt.Sprint(v.Int())
	case reflect.Uint, reflect.Uint8, reflect.Uint16, reflect.Uint32, reflect.Uint64, reflect.Uintptr:
		return fmt.Sprint(v.Uint())
	case reflect.Float32, reflect.Float64:
		return fmt.Sprint(v.Float())
	case reflect.String:
		return v.String()
	case reflect.Func, reflect.Chan, reflect.UnsafePointer:
		if v.IsNil() {
			return "nil"
		}
		if exact {
			return fmt.Sprintf("@%x", v.Pointer())
		}
		return "set"
	case reflect.Pointer:
		if v.IsNil() {
			return "nil"
		}
		if exact {
			return fmt.Sprintf("@%x", v.Pointer())
		}
		return "set"
	case reflect.Slice:
		if v.IsNil() {
			return "nil"
		}
		parts := []string{fmt.Sprintf("len%d", v.Len())}
		if exact {
			parts = append(parts, fmt.Sprintf("@%x", v.Pointer()))
			for i := 0; i < v.Len() && i < 16; i++ {
				parts = append(parts, snapValue(v.Index(i), exact, depth+1))
			}
		}
		return strings.Join(parts, "/")
	case reflect.Map:
		if v.IsNil() {
			return "nil"
		}
		var keys []string
		for _, k := range v.MapKeys() {
			keys = append(keys, fmt.Sprintf("%v", k))
		}
		sort.Strings(keys)
		s := fmt.Sprintf("len%d[%s]", v.Len(), strings.Join(keys, ","))
		if exact {
			s += fmt.Sprintf("@%x", v.Pointer())
		}
		return s
	case reflect.Interface:
		if v.IsNil() {
			return "nil"
		}
		e := v.Elem()
		switch e.Kind() {
		case reflect.Pointer, reflect.Func, reflect.Map, reflect.Slice, reflect.Chan:
			return e.Type().String() + ":" + snapValue(e, exact, depth+1)
		}
		return e.Type().String() + ":" + strings.ReplaceAll(fmt.Sprintf("%v", e), " ", "_")
	case reflect.Struct:
		if depth > 3 {
			return "struct"
		}
		var parts []string
		for i := 0; i < v.NumField(); i++ {
			parts = append(parts, v.Type().Field(i).Name+"="+snapValue(v.Field(i), exact, depth+1))
		}
		return "{" + strings.Join(parts, " ") + "}"
	}
	return v.Kind().String()
}

// snap reads every field of the schema's core.ZodTypeInternals. exact: with addresses (same schema before /
// after a call); otherwise up to addresses, the *Priority counters replaced by their rank (they come from a
// process-wide counter).
func snap(schema any, exact bool) map[string]string {
	out := map[string]string{}
	m := reflect.ValueOf(schema).MethodByName("Internals")
	if !m.IsValid() {
		return out
	}
	var iv reflect.Value
	if pm := hx.Safely(func() { iv = m.Call(nil)[0] }); pm != "" || !iv.IsValid() || iv.Kind() != reflect.Pointer || iv.IsNil() {
		return out
	}
	sv := iv.Elem()
	type pr struct {
		name string
		v    int64
	}
	var prios []pr
	for i := 0; i < sv.NumField(); i++ {
		f := sv.Type().Field(i)
		fv := sv.Field(i)
		if !exact && strings.HasSuffix(f.Name, "Priority") && fv.CanInt() {
			prios = append(prios, pr{f.Name, fv.Int()})
			continue
		}
		out[f.Name] = snapValue(fv, exact, 0)
	}
	if len(prios) > 0 {
		sort.SliceStable(prios, func(i, j int) bool { return prios[i].v < prios[j].v })
		rank := 0
		for i, p := range prios {
			if i > 0 && p.v != prios[i-1].v {
				rank++
			}
			if p.v == 0 {
				out[p.name] = "unset"
			} else {
				out[p.name] = fmt.Sprintf("rank%d", rank)
			}
		}
	}
	return out
}

func snapDiff(a, b map[string]string) []string {
	var d []string
	for k, v := range a {
		if b[k] != v {
			d = append(d, k)
		}
	}
	for k := range b {
		if _, ok := a[k]; !ok {
			d = append(d, k)
		}
	}
	sort.Strings(d)
	return d
}

// ---------- the history interpreter ----------

type hop struct {
	kind  string // run | clone | chain | fresh
	ep    string
	j, k  int
	nilIn bool
	st    step
	stTok string
}

func (h hop) tok() string {
	switch h.kind {
	case "run":
		in := "v"
		if h.nilIn {
			in = "n"
		}
		return fmt.Sprintf("run:%s:%d:%s", epShort[h.ep], h.j, in)
	case "clone":
		return fmt.Sprintf("clone:%d:%d", h.j, h.k)
	case "chain":
		return fmt.Sprintf("chain:%d:%s", h.j, h.stTok)
	}
	return fmt.Sprintf("fresh:%d", h.j)
}

// family abstracts how schemas of one type are built, derived and fed.
type family struct {
	ty     string
	mk     []func() any                                  // the relatives A, B, …
	mkTok  []string                                      // how they were built
	fresh  func(like any) (any, bool)                    // a new, never parsed, plain schema of the same Go type
	chain  func(s any, st step, rel any) (any, bool)     // one derivation step
	value  func(s any, nilIn bool) (reflect.Value, bool) // an input for a warm-up call on s
	render func(any, error) string
}

type frameLog struct {
	wrote map[string]bool
}

func (f *family) exec(ops []hop, withRuns bool, fl *frameLog) []any {
	heap := make([]any, 0, len(f.mk)+len(ops))
	for _, mk := range f.mk {
		heap = append(heap, mk())
	}
	for _, op := range ops {
		if op.j >= len(heap) || op.k >= len(heap) {
			if op.kind == "chain" || op.kind == "fresh" {
				heap = append(heap, nil)
			}
			continue
		}
		switch op.kind {
		case "run":
			if !withRuns || heap[op.j] == nil {
				continue
			}
			in, ok := f.value(heap[op.j], op.nilIn)
			if !ok {
				continue
			}
			before := snap(heap[op.j], true)
			callOne(heap[op.j], op.ep, in, f.render)
			if fl != nil {
				for _, d := range snapDiff(before, snap(heap[op.j], true)) {
					fl.wrote[d] = true
				}
			}
		case "clone":
			if heap[op.j] == nil || heap[op.k] == nil {
				continue
			}
			m := reflect.ValueOf(heap[op.j]).MethodByName("CloneFrom")
			if m.IsValid() {
				hx.Safely(func() { m.Call([]reflect.Value{reflect.ValueOf(heap[op.k])}) })
			}
		case "chain":
			var out any
			if heap[op.j] != nil {
				rel := heap[(op.j+1)%len(f.mk)]
				if o, ok := f.chain(heap[op.j], op.st, rel); ok {
					out = o
				}
			}
			heap = append(heap, out)
		case "fresh":
			var out any
			if heap[op.j] != nil {
				if o, ok := f.fresh(heap[op.j]); ok {
					out = o
				}
			}
			heap = append(heap, out)
		}
	}
	return heap
}

// drawOps: warm-up calls on the relatives, a derivation route, optionally more warm-up and a second route.
func (f *family) drawOps(r *hx.Rng, drawChain func(s any) (step, string)) ([]hop, int) {
	var ops []hop
	n := len(f.mk)
	heapLen := n
	// a scratch heap kept in step so that chain steps are drawn on the schema they will be applied to
	scratch := f.exec(nil, false, nil)
	warm := func(cnt int) {
		for i := 0; i < cnt; i++ {
			op := hop{kind: "run", ep: hx.Pick(r, epNames), j: r.Intn(heapLen), nilIn: r.Chance(25)}
			if r.Chance(50) {
				op.ep = hx.Pick(r, []string{"StrictParse", "MustStrictParse"})
			}
			ops = append(ops, op)
		}
	}
	target := 1 % n
	// contains[x][y]: schema x may hold schema y as a member (derived by a wrapper method). A schema must never
	// receive, through CloneFrom, the internals of a schema that holds it: the result would contain itself.
	contains := map[int]map[int]bool{}
	holds := func(x, y int) bool { return contains[x] != nil && contains[x][y] }
	addAll := func(x int, ys ...int) {
		if contains[x] == nil {
			contains[x] = map[int]bool{}
		}
		for _, y := range ys {
			contains[x][y] = true
			for z := range contains[y] {
				contains[x][z] = true
			}
		}
	}
	isClassic := func(name string) bool {
		for _, m := range classicMods {
			if strings.HasPrefix(name, m) {
				return true
			}
		}
		return false
	}
	route := func() {
		switch r.Intn(7) {
		case 0: // the schema itself, after its relatives and itself have parsed
			target = r.Intn(heapLen)
		case 1, 2: // copy-on-write method of a warm schema
			j := r.Intn(heapLen)
			if scratch[j] == nil {
				return
			}
			st, tok := drawChain(scratch[j])
			op := hop{kind: "chain", j: j, st: st, stTok: tok}
			ops = append(ops, op)
			var out any
			if o, ok := f.chain(scratch[j], st, scratch[(j+1)%n]); ok {
				out = o
			}
			scratch = append(scratch, out)
			if isClassic(st.name) {
				addAll(heapLen, mapKeys(contains[j])...)
			} else {
				addAll(heapLen, j, (j+1)%n)
			}
			target = heapLen
			heapLen++
		case 3, 4, 5: // CloneFrom in either direction between two schemas of the heap
			d, s := r.Intn(heapLen), r.Intn(heapLen)
			if d == s {
				s = (s + 1) % heapLen
			}
			if holds(s, d) {
				target = d
				return
			}
			addAll(d, mapKeys(contains[s])...)
			ops = append(ops, hop{kind: "clone", j: d, k: s})
			if scratch[d] != nil && scratch[s] != nil {
				if m := reflect.ValueOf(scratch[d]).MethodByName("CloneFrom"); m.IsValid() {
					hx.Safely(func() { m.Call([]reflect.Value{reflect.ValueOf(scratch[s])}) })
				}
			}
			target = d
		default: // a fresh plain schema receives a warm one
			s := r.Intn(heapLen)
			ops = append(ops, hop{kind: "fresh", j: s}, hop{kind: "clone", j: heapLen, k: s})
			var out any
			if scratch[s] != nil {
				if o, ok := f.fresh(scratch[s]); ok {
					out = o
					if m := reflect.ValueOf(o).MethodByName("CloneFrom"); m.IsValid() {
						hx.Safely(func() { m.Call([]reflect.Value{reflect.ValueOf(scratch[s])}) })
					}
				}
			}
			scratch = append(scratch, out)
			addAll(heapLen, mapKeys(contains[s])...)
			target = heapLen
			heapLen++
		}
	}
	warm(1 + r.Intn(4))
	route()
	if r.Chance(45) {
		warm(r.Intn(3))
		route()
	}
	return ops, target
}

func mapKeys(m map[int]bool) []int {
	var ks []int
	for k := range m {
		ks = append(ks, k)
	}
	sort.Ints(ks)
	return ks
}

func opsTok(ops []hop) string {
	var ts []string
	for _, o := range ops {
		ts = append(ts, o.tok())
	}
	return strings.Join(ts, " ")
}

// compare runs the six entry points twice in random orders on the target and asks the never-parsed twins.
func (f *family) compare(r *hx.Rng, ops []hop, t int, in reflect.Value, heap []any, fl *frameLog) (obs string, ok bool) {
	if t >= len(heap) || heap[t] == nil {
		return "", false
	}
	rounds := [2]map[string]string{{}, {}}
	before := snap(heap[t], true)
	var orderTok []string
	for k := 0; k < 2; k++ {
		order := append([]string(nil), epNames...)
		for i := len(order) - 1; i > 0; i-- {
			j := r.Intn(i + 1)
			order[i], order[j] = order[j], order[i]
		}
		for _, ep := range order {
			rounds[k][ep] = callOne(heap[t], ep, in, f.render)
			orderTok = append(orderTok, epShort[ep])
		}
	}
	for _, d := range snapDiff(before, snap(heap[t], true)) {
		fl.wrote[d] = true
	}
	var flags []string
	for _, ep := range epNames {
		if rounds[0][ep] != rounds[1][ep] {
			flags = append(flags, "round2-"+epShort[ep])
		}
	}
	// A disagreement between the warm schema's entry points that its never-parsed twin (same constructor calls
	// and derivations, no parses) does not show is induced by the history, whatever class it falls in.
	if s := rounds[0]["StrictParse"]; s != "n/a" && s != rounds[0]["Parse"] {
		var coldObs [2]string
		for k, ep := range []string{"Parse", "StrictParse"} {
			cold := f.exec(ops, false, nil)
			if t < len(cold) && cold[t] != nil {
				coldObs[k] = callOne(cold[t], ep, in, f.render)
			}
		}
		if coldObs[0] != "" && coldObs[1] != "" && (coldObs[0] != rounds[0]["Parse"] || coldObs[1] != s) {
			flags = append(flags, "cold")
		}
	}
	h := "ok"
	if len(flags) > 0 {
		h = strings.Join(flags, ",")
	}
	var parts []string
	for _, ep := range epNames {
		parts = append(parts, epShort[ep]+"="+rounds[0][ep])
	}
	_ = orderTok
	return strings.Join(parts, ";") + ";H=" + h, true
}

func (f *family) frame(ops []hop, t int, heap []any, fl *frameLog) string {
	var parts []string
	if len(fl.wrote) > 0 {
		var ks []string
		for k := range fl.wrote {
			ks = append(ks, k)
		}
		sort.Strings(ks)
		parts = append(parts, "parse-wrote:"+strings.Join(ks, ","))
	}
	cold := f.exec(ops, false, nil)
	if t < len(cold) && cold[t] != nil && t < len(heap) && heap[t] != nil {
		if d := snapDiff(snap(heap[t], false), snap(cold[t], false)); len(d) > 0 {
			parts = append(parts, "derived-depends-on-parses:"+strings.Join(d, ","))
		}
	}
	if len(parts) == 0 {
		return "frame:same"
	}
	return "frame:" + strings.Join(parts, ";")
}

// ---------- generic families (every gentry) ----------

type grecipe struct {
	variant string
	steps   []step
}

func (g grecipe) tok() string {
	t := g.variant
	for _, s := range g.steps {
		t += "+" + s.tok()
	}
	return t
}

func buildVariant(e *gentry, variant string) (s any) {
	hx.Safely(func() {
		switch variant {
		case "checked":
			s = e.mk()
		case "refined":
			p := e.plain()
			if o, ok := applyStep(p, step{"Refine", 0}, e.dflt, nil); ok {
				s = o
			} else {
				s = e.mk()
			}
		default:
			s = e.plain()
		}
	})
	return s
}

func (g grecipe) build(e *gentry) any {
	s := buildVariant(e, g.variant)
	for _, st := range g.steps {
		if s == nil {
			return nil
		}
		o, ok := applyStep(s, st, e.dflt, nil)
		if !ok {
			return nil
		}
		s = o
	}
	return s
}

func drawRecipe(r *hx.Rng, e *gentry, like reflect.Type) grecipe {
	for try := 0; ; try++ {
		g := grecipe{variant: hx.Pick(r, []string{"plain", "plain", "checked", "checked", "refined"})}
		s := buildVariant(e, g.variant)
		for j, m := 0, r.Intn(3); j < m && s != nil; j++ {
			st := drawStep(r, s)
			if r.Chance(85) {
				st = step{hx.Pick(r, classicMods), r.Intn(3)}
			}
			if o, ok := applyStep(s, st, e.dflt, nil); ok {
				s = o
				g.steps = append(g.steps, st)
			}
		}
		if s == nil {
			continue
		}
		if like == nil || reflect.TypeOf(s) == like || try >= 6 {
			return g
		}
	}
}

func genericValue(e *gentry, pool []any) func(s any, nilIn bool) (reflect.Value, bool) {
	return func(s any, nilIn bool) (reflect.Value, bool) {
		sm := reflect.ValueOf(s).MethodByName("StrictParse")
		if !sm.IsValid() {
			return reflect.Value{}, false
		}
		want := sm.Type().In(0)
		if nilIn {
			switch want.Kind() {
			case reflect.Pointer, reflect.Map, reflect.Slice, reflect.Interface:
				return reflect.Zero(want), true
			}
			return reflect.Zero(anyT), true
		}
		for _, x := range pool {
			if v, ok := conv(x, want); ok {
				return v, true
			}
		}
		return reflect.Value{}, false
	}
}

var commonPool = []any{50, "hello", 7, "x", true, 5.5}

func runHistGen(o *hx.Out, r *hx.Rng, rounds int) {
	es := gentries()
	for round := 0; round < rounds; round++ {
		for ei := range es {
			e := &es[ei]
			ra := drawRecipe(r, e, nil)
			a := ra.build(e)
			if a == nil {
				continue
			}
			var like reflect.Type
			if r.Chance(80) {
				like = reflect.TypeOf(a)
			}
			rb := drawRecipe(r, e, like)
			if r.Bool() {
				ra, rb = rb, ra
			}
			pool := append(append([]any(nil), e.ins...), commonPool...)
			f := &family{
				ty:    e.name,
				mk:    []func() any{func() any { return ra.build(e) }, func() any { return rb.build(e) }},
				mkTok: []string{ra.tok(), rb.tok()},
				fresh: func(like any) (any, bool) {
					for _, v := range []string{"plain", "opt"} {
						var s any
						hx.Safely(func() {
							s = e.plain()
							if v == "opt" {
								s, _ = applyStep(s, step{"Optional", 0}, e.dflt, nil)
							}
						})
						if s != nil && reflect.TypeOf(s) == reflect.TypeOf(like) {
							return s, true
						}
					}
					return nil, false
				},
				chain:  func(s any, st step, rel any) (any, bool) { return applyStep(s, st, e.dflt, rel) },
				value:  genericValue(e, pool),
				render: renderGen,
			}
			ops, t := f.drawOps(r, func(s any) (step, string) { st := drawStep(r, s); return st, st.tok() })
			fl := &frameLog{wrote: map[string]bool{}}
			heap := f.exec(ops, true, fl)
			if t >= len(heap) || heap[t] == nil {
				continue
			}
			sm := reflect.ValueOf(heap[t]).MethodByName("StrictParse")
			want := sm.Type().In(0)
			type inp struct {
				v   reflect.Value
				tok string
			}
			var ins []inp
			for _, x := range pool {
				if v, ok := conv(x, want); ok {
					ins = append(ins, inp{v, canon(x)})
				}
			}
			switch want.Kind() {
			case reflect.Pointer, reflect.Map, reflect.Slice, reflect.Interface:
				ins = append(ins, inp{reflect.Zero(want), "nil-of-R"})
			}
			for i := len(ins) - 1; i > 0; i-- {
				j := r.Intn(i + 1)
				ins[i], ins[j] = ins[j], ins[i]
			}
			if len(ins) > 3 {
				ins = ins[:3]
			}
			descr := fmt.Sprintf("%s // %s // %s // t=%d", f.mkTok[0], f.mkTok[1], opsTok(ops), t)
			for _, x := range ins {
				obs, ok := f.compare(r, ops, t, x.v, heap, fl)
				if !ok {
					continue
				}
				o.Emit(fmt.Sprintf("c09 hist gen %s %s | %s #%s", e.name, descr, x.tok, tagFor(e, heap[t])), obs)
				o.Count("hist:" + e.name)
				o.Count("hist-target:" + tagFor(e, heap[t]))
				o.Count("hist-route:" + routeOf(ops))
			}
			o.Emit(fmt.Sprintf("c09 frame gen %s %s | - #%s", e.name, descr, e.name), f.frame(ops, t, heap, fl))
		}
	}
}

// kindOf names the schema type of s ("union" for *types.ZodUnion[...]).
func kindOf(s any) string {
	t := reflect.TypeOf(s)
	if t == nil {
		return "nil"
	}
	if t.Kind() == reflect.Pointer {
		t = t.Elem()
	}
	n := t.Name()
	if i := strings.IndexByte(n, '['); i >= 0 {
		n = n[:i]
	}
	return strings.ToLower(strings.TrimPrefix(n, "Zod"))
}

// tagFor: the family's name while the target is of the family's own schema type, else the target's kind
// (wrappers such as And/Or yield intersections and unions, accessors yield member schemas).
func tagFor(e *gentry, target any) string {
	if kindOf(target) == kindOf(e.plain()) {
		return e.name
	}
	return kindOf(target)
}

func routeOf(ops []hop) string {
	var ks []string
	for _, o := range ops {
		if o.kind != "run" {
			ks = append(ks, o.kind)
		}
	}
	if len(ks) == 0 {
		return "self"
	}
	return strings.Join(ks, "+")
}

// ---------- the string family (predicted by the Lean history machine) ----------

type srecipe struct {
	ctorPtr bool
	cs      []chk
	mods    []string // tokens as in the "str" lines
}

func applyStrMod(schema any, tok string) any {
	parts := strings.SplitN(tok, ":", 2)
	meth := reflect.ValueOf(schema).MethodByName(parts[0])
	switch parts[0] {
	case "Default", "Prefault":
		v := unhexs(parts[1])
		return meth.Call([]reflect.Value{reflect.ValueOf(v)})[0].Interface()
	case "DefaultFunc", "PrefaultFunc":
		v := unhexs(parts[1])
		return meth.Call([]reflect.Value{reflect.ValueOf(func() string { return v })})[0].Interface()
	}
	return meth.Call(nil)[0].Interface()
}

func unhexs(h string) string {
	if h == "-" {
		return ""
	}
	b, _ := hex.DecodeString(h)
	return string(b)
}

func drawStrMod(r *hx.Rng) string {
	name := hx.Pick(r, classicMods)
	switch name {
	case "Default", "Prefault", "DefaultFunc", "PrefaultFunc":
		return name + ":" + hexs(genString(r, 6))
	}
	return name
}

func (s srecipe) build() any {
	var schema any
	if s.ctorPtr {
		schema = buildPtr(s.cs)
	} else {
		schema = buildVal(s.cs)
	}
	for _, m := range s.mods {
		schema = applyStrMod(schema, m)
	}
	return schema
}

func (s srecipe) tok() string {
	var ctoks []string
	for _, c := range s.cs {
		ctoks = append(ctoks, c.tokens())
	}
	return strings.Join(strings.Fields(fmt.Sprintf("%s %s ; %d %s", hx.B01(s.ctorPtr), strings.Join(s.mods, " "), len(s.cs), strings.Join(ctoks, " "))), " ")
}

func runHistStr(o *hx.Out, r *hx.Rng, n int) {
	for i := 0; i < n; i++ {
		in := genString(r, 7)
		draw := func() srecipe {
			s := srecipe{ctorPtr: r.Chance(40)}
			if r.Chance(65) {
				for j, m := 0, 1+r.Intn(4); j < m; j++ {
					s.cs = append(s.cs, genCheck(r, in))
				}
			}
			for j, m := 0, r.Intn(3); j < m; j++ {
				s.mods = append(s.mods, drawStrMod(r))
			}
			return s
		}
		ra, rb := draw(), draw()
		if r.Chance(70) { // same Go type, so that CloneFrom is not a no-op
			for try := 0; try < 8 && reflect.TypeOf(ra.build()) != reflect.TypeOf(rb.build()); try++ {
				rb = draw()
			}
		}
		f := &family{
			ty:    "string",
			mk:    []func() any{ra.build, rb.build},
			mkTok: []string{ra.tok(), rb.tok()},
			fresh: func(like any) (any, bool) {
				if _, ok := like.(*gozod.ZodString[*string]); ok {
					return gozod.StringPtr(), true
				}
				return gozod.String(), true
			},
			chain: func(s any, st step, rel any) (out any, ok bool) {
				pm := hx.Safely(func() { out = applyStrMod(s, st.name) })
				return out, pm == "" && out != nil
			},
			value: func(s any, nilIn bool) (reflect.Value, bool) {
				_, isPtr := s.(*gozod.ZodString[*string])
				switch {
				case nilIn && isPtr:
					return reflect.ValueOf((*string)(nil)), true
				case nilIn:
					return reflect.Zero(anyT), true
				case isPtr:
					v := in
					return reflect.ValueOf(&v), true
				}
				return reflect.ValueOf(in), true
			},
			render: renderStr,
		}
		ops, t := f.drawOps(r, func(any) (step, string) { m := drawStrMod(r); return step{name: m}, m })
		fl := &frameLog{wrote: map[string]bool{}}
		heap := f.exec(ops, true, fl)
		if t >= len(heap) || heap[t] == nil {
			continue
		}
		_, isPtr := heap[t].(*gozod.ZodString[*string])
		type inp struct {
			tok string
			v   reflect.Value
		}
		sv := in
		ins := []inp{{"nil", reflect.Zero(anyT)}}
		if isPtr {
			ins = append(ins, inp{hexs(in) + "*", reflect.ValueOf(&sv)}, inp{"nilptr", reflect.ValueOf((*string)(nil))})
		} else {
			ins = append(ins, inp{hexs(in), reflect.ValueOf(in)})
		}
		descr := fmt.Sprintf("%s // %s // %s // t=%d in=%s", f.mkTok[0], f.mkTok[1], opsTok(ops), t, hexs(in))
		for _, x := range ins {
			obs, ok := f.compare(r, ops, t, x.v, heap, fl)
			if !ok {
				continue
			}
			o.Emit(fmt.Sprintf("c09 hist str %s | %s #string", descr, x.tok), obs)
			o.Count("hist:string")
			o.Count("hist-route:" + routeOf(ops))
		}
		o.Emit(fmt.Sprintf("c09 frame str %s | - #string", descr), f.frame(ops, t, heap, fl))
	}
}
