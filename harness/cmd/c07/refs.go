package main

// The instance GRAPH of a built schema, as `(*converter).convert` walks it — the input of the Lean model of the
// reference bookkeeping (lean/Gozod/Model/JsonSchemaRefs.lean, driven by `c07 refs …` ops) — and the `$defs` names /
// `$ref` targets of the real document, to compare with what the model's `convertTop` computes on that graph.
//
//	c07 refs <OPTS> <ROOT> ( n I B ID O N TYPE NILT LAZY K* )*
//	    I = instance number, B = the instance its Inner() chain ends in (`unwrapSchema`), ID = `-` | i:<registry ID> (`getID`),
//	    O / N = Internals().IsOptional() / IsNilable(), TYPE = the ZodTypeCode constant name (composite? is decided by the
//	    Lean side from the regenerated `compositeTypes` table), NILT = type is Nil, LAZY = converted by convertLazy,
//	    K* = the instances the type's converter hands to c.convert, in call order.
//	impl: "defs=<sorted $defs keys>;refs=<sorted set of N in {"$ref":"#/$defs/N"}>"  (or "error")
//
// What is read from the REAL objects: identity, Inner() chains, registry IDs, the Optional / Nilable flags.  What is
// derived from the AST: which children each converter visits and in which order (objects: sorted field names then the
// catch-all; arrays / tuples: items then rest; records: key then value; maps: value, then the key when it has checks;
// unions: members — for the two-member "optional union" the non-null member first and, when the union is Optional and not
// Nilable, only it; xor: members; intersection: left, right; lazy: the inner schema).

import (
	"sort"
	"strings"

	"github.com/kaptinlin/gozod/core"
)

var typeConst = map[string]string{
	"str": "String", "int": "Int", "flt": "Float64", "bool": "Bool", "nil": "Nil", "any": "Any", "never": "Never",
	"enum": "Enum", "lit": "Literal", "obj": "Object", "slice": "Slice", "arr": "Array", "tup": "Tuple", "rec": "Record",
	"union": "Union", "xor": "Xor", "and": "Intersection", "lazy": "Lazy", "map": "Map",
}

func coreNode(s *Sch) *Sch {
	for s.K == "opt" || s.K == "nul" || s.K == "id" {
		s = s.Elem
	}
	return s
}

func isNilNode(s *Sch) bool { return coreNode(s).K == "nil" }

// convKids: the AST nodes whose instances the converter of `s` converts, in order.  `inst` = the live instance of s.
func convKids(s *Sch, inst core.ZodSchema) []*Sch {
	c := coreNode(s)
	switch c.K {
	case "obj":
		fs := append([]Field{}, c.Fields...)
		sort.Slice(fs, func(i, j int) bool { return fs[i].Name < fs[j].Name })
		seen := map[string]bool{}
		var out []*Sch
		for i := len(fs) - 1; i >= 0; i-- { // a later field of the same name overwrites an earlier one in the shape map
			if seen[fs[i].Name] {
				fs = append(fs[:i], fs[i+1:]...)
				continue
			}
			seen[fs[i].Name] = true
		}
		for _, f := range fs {
			out = append(out, f.S)
		}
		if c.Catch != nil {
			out = append(out, c.Catch)
		}
		return out
	case "slice", "lazy":
		return []*Sch{c.Elem}
	case "arr", "tup":
		out := append([]*Sch{}, c.Items...)
		if c.Rest != nil {
			out = append(out, c.Rest)
		}
		return out
	case "rec":
		return []*Sch{c.Key, c.Elem}
	case "map":
		out := []*Sch{c.Elem}
		if len(c.Key.Cks) > 0 {
			out = append(out, c.Key)
		}
		return out
	case "union":
		if len(c.Items) == 2 && isNilNode(c.Items[0]) != isNilNode(c.Items[1]) {
			nonNull, null := c.Items[0], c.Items[1]
			if isNilNode(nonNull) {
				nonNull, null = null, nonNull
			}
			in := inst.Internals()
			if in.IsOptional() && !in.IsNilable() {
				return []*Sch{nonNull}
			}
			return []*Sch{nonNull, null}
		}
		return c.Items
	case "xor", "and":
		return c.Items
	}
	return nil
}

func hasRecv(s *Sch) bool {
	if s == nil {
		return false
	}
	if s.K == "recv" {
		return true
	}
	return hasRecv(s.Elem)
}

func realInner(s core.ZodSchema) core.ZodSchema {
	if g, ok := s.(interface{ Inner() core.ZodSchema }); ok {
		return g.Inner()
	}
	return nil
}

// realBase: jsonschema/to.go unwrapSchema on the live instance.
func realBase(s core.ZodSchema) core.ZodSchema {
	visited := map[core.ZodSchema]bool{}
	for s != nil && !visited[s] {
		visited[s] = true
		in := realInner(s)
		if in == nil || in == s {
			break
		}
		s = in
	}
	return s
}

// realID: jsonschema/to.go getID / lookupMeta on the live instance (`private` = an empty private registry: no IDs).
func realID(s core.ZodSchema, private bool) string {
	if private {
		return ""
	}
	if m, ok := core.GlobalRegistry.Get(s); ok {
		return m.ID
	}
	if in := realInner(s); in != nil {
		if m, ok := core.GlobalRegistry.Get(in); ok {
			return m.ID
		}
	}
	return ""
}

// graphText: the node table reachable from the root AST node; "" when an instance is missing from the builder's memo.
func (r *runner) graphText(root *Sch, private bool) string {
	num := map[core.ZodSchema]int{}
	numOf := func(s core.ZodSchema) int {
		if n, ok := num[s]; ok {
			return n
		}
		num[s] = len(num)
		return num[s]
	}
	var b strings.Builder
	done := map[core.ZodSchema]bool{}
	ok := true
	var walk func(s *Sch)
	walk = func(s *Sch) {
		inst, has := r.bld.memo[s]
		if !has || inst == nil {
			ok = false
			return
		}
		if done[inst] {
			return
		}
		done[inst] = true
		kids := convKids(s, inst)
		in := inst.Internals()
		id := "-"
		if v := realID(inst, private); v != "" {
			id = "i:" + v
		}
		b.WriteString(" ( n " + itoa(numOf(inst)) + " " + itoa(numOf(realBase(inst))) + " " + id + " " + b01(in.IsOptional()) + " " + b01(in.IsNilable()) +
			" " + typeConst[coreNode(s).K] + " " + b01(isNilNode(s)) + " " + b01(coreNode(s).K == "lazy"))
		for _, k := range kids {
			if ki, has := r.bld.memo[k]; has && ki != nil {
				b.WriteString(" " + itoa(numOf(ki)))
			} else {
				ok = false
			}
		}
		b.WriteString(" )")
		for _, k := range kids {
			walk(k)
		}
	}
	rootInst := r.bld.memo[root]
	if rootInst == nil {
		return ""
	}
	rootNum := numOf(rootInst)
	walk(root)
	if !ok {
		return ""
	}
	return itoa(rootNum) + b.String()
}

func itoa(n int) string { return strings.TrimSpace(strings.Join([]string{"", intStr(n)}, "")) }

func intStr(n int) string {
	if n == 0 {
		return "0"
	}
	var d []byte
	for n > 0 {
		d = append([]byte{byte('0' + n%10)}, d...)
		n /= 10
	}
	return string(d)
}

// refsObservation: the `$defs` keys and the set of `$ref` names of the raw document.
func refsObservation(tree any) string {
	var defs []string
	if m, ok := tree.(map[string]any); ok {
		if d, ok := m["$defs"].(map[string]any); ok {
			for k := range d {
				defs = append(defs, k)
			}
		}
	}
	sort.Strings(defs)
	set := map[string]bool{}
	var walk func(v any)
	walk = func(v any) {
		switch x := v.(type) {
		case []any:
			for _, e := range x {
				walk(e)
			}
		case map[string]any:
			if rs, ok := x["$ref"].(string); ok && strings.HasPrefix(rs, "#/$defs/") {
				set[strings.TrimPrefix(rs, "#/$defs/")] = true
			}
			for k, e := range x {
				if k == "const" || k == "enum" || k == "default" || k == "examples" {
					continue
				}
				walk(e)
			}
		}
	}
	walk(tree)
	var refs []string
	for k := range set {
		refs = append(refs, k)
	}
	sort.Strings(refs)
	return "defs=" + strings.Join(defs, ",") + ";refs=" + strings.Join(refs, ",")
}
