package main

// C15 class "own" — Parse / mutate / Parse histories over the results of EVERY schema kind of a modelled family, judged
// against every schema-owned cell (not only defaults).
//
// The family is the schema language of lean/Gozod/Model/Owned.lean (`GSchema`):
//
//	T ::= any | str | lit k V^k | dflt V T | obj <s|l|x> k (key T)^k | slice T | rec T | union T T
//
//	any           types.Any()                                   the input itself is the result
//	str           types.String()
//	lit           types.LiteralOf[any]([]any{V…})               members: scalars and composites ([]any / map[string]any graphs)
//	dflt V T      T.Default(V)
//	obj s|l|x     types.Object / LooseObject / StrictObject
//	slice T       types.Slice[any](T)
//	rec T         types.Record(types.String(), T)
//	union a b     types.Union([]any{a, b})
//	(no Lazy here: LazyAny over a container never asks its target — a listed C02 finding; `val` / `reparse` run Lazy trees)
//
// One case = a root schema, the family built around it (a schema derived from it with Describe — same `Def`, same held
// values —, Object{w: root}, Slice(root), Union(root, str): they all hold the SAME member / default cells), inputs for
// each member, and a history of steps
//
//	P<m>.<i>   Parse with member m of a FRESH copy of input i (an equal value made of other cells)
//	M<j>       deep in-place mutation of everything reachable from the j-th result
//
// Observation:  <same|CHANGED per repeated (m,i)> | <fresh|ALIASED> | <schema-same|schema-written> | <verdict and look of the first result of every (m,i)>
//
//	ALIASED          a result contains a cell that the schema holds (storex.SchemaAddrs: everything reachable from the
//	                 schemas, unexported fields included) and that the caller did not pass in, or a cell of an earlier result
//	schema-written   storex.DeepHash of the family (contents + pointer identities of everything the schemas hold) changed
//
// The op line carries the schemas (with the graphs they hold) and the inputs in ONE label space; the Lean driver rebuilds
// the store, runs `parseS` / `copy` / `mutateAll` on it and predicts the whole observation.

import (
	"fmt"
	"math"
	"os"
	"reflect"
	"strconv"
	"strings"

	"github.com/kaptinlin/gozod/core"
	"github.com/kaptinlin/gozod/types"

	"verifharness/hx"
	"verifharness/storex"
)

var (
	ownStrs  = []string{"a", "b", "x", "s", "t", "lit"}
	ownInts  = []int{0, 1, 2, 7}
	ownKeys  = []string{"a", "b", "c", "w", "zz", "k", "q"}
	ownKeyID = map[string]int{}
)

// ownInit checks that the content ids the encoders use keep the scalars of the pool apart and that no map key id looks
// like a slice index (the model tells a slice cell from a map cell by its keys: indices < 8, key ids ≥ 8).
func ownInit() error {
	seen := map[int]string{}
	pool := []any{"a", "b", "x", "s", "t", "lit", 0, 1, 2, 7, true, false, 99, "mutated"}
	for _, f := range ownFloats {
		pool = append(pool, f)
	}
	for _, v := range pool {
		id := storex.ScalarID(v)
		if w, ok := seen[id]; ok {
			return fmt.Errorf("own: scalar ids collide: %v and %s", v, w)
		}
		seen[id] = fmt.Sprint(v)
	}
	ks := map[int]string{}
	for _, k := range ownKeys {
		id := storex.ScalarID(k)
		if id < 8 {
			return fmt.Errorf("own: key id of %q is %d (< 8)", k, id)
		}
		if w, ok := ks[id]; ok {
			return fmt.Errorf("own: key ids collide: %s and %s", k, w)
		}
		ks[id] = k
		ownKeyID[k] = id
	}
	return nil
}

// ownFloats: float leaves of a pointee of the class optr (jvalFloats on): NaN in three bit patterns, -0, the infinities, one
// ordinary number. A scalar's content id is the id of its BITS (storex.FloatRepr), which is what the model's `sameV` compares:
// a NaN leaf is the same as itself, two NaNs of different payload are not. (Not in the histories of the class own: there the
// members of literals are compared by the library with reflect.DeepEqual, under which a NaN matches nothing — another matter.)
var (
	ownFloats  = []float64{nanQ, nanP, nanNeg, negZ, math.Inf(1), math.Inf(-1), 6.25}
	jvalFloats = false
)

var ownDebug = os.Getenv("C15_OWN_DEBUG") != ""

type mnode struct {
	kind string
	mode string // obj: s (strip) l (loose) x (strict)
	keys []string
	kids []*mnode
	vals []any // lit: members; dflt: the value
	s    core.ZodSchema
}

// jval: a non-empty any-typed graph of depth ≤ d (no empty containers, no typed nils).
func jval(r *hx.Rng, d int) any {
	if d <= 0 || r.Chance(20) {
		if jvalFloats && r.Chance(40) {
			return hx.Pick(r, ownFloats)
		}
		switch r.Intn(3) {
		case 0:
			return hx.Pick(r, ownStrs)
		case 1:
			return hx.Pick(r, ownInts)
		default:
			return r.Bool()
		}
	}
	if r.Bool() {
		xs := make([]any, 1+r.Intn(3))
		for i := range xs {
			xs[i] = jval(r, d-1)
		}
		return xs
	}
	m := map[string]any{}
	for i := 0; i < 1+r.Intn(3); i++ {
		m[hx.Pick(r, ownKeys)] = jval(r, d-1)
	}
	return m
}

func jcomposite(r *hx.Rng, d int, wantMap, wantSlice bool) any {
	for {
		v := jval(r, d)
		switch v.(type) {
		case []any:
			if !wantMap {
				return v
			}
		case map[string]any:
			if !wantSlice {
				return v
			}
		}
	}
}

func cp(v any) any {
	switch x := v.(type) {
	case []any:
		out := make([]any, len(x))
		for i := range x {
			out[i] = cp(x[i])
		}
		return out
	case map[string]any:
		out := make(map[string]any, len(x))
		for k, e := range x {
			out[k] = cp(e)
		}
		return out
	}
	return v
}

type mgen struct{ r *hx.Rng }

func (g *mgen) leaf() *mnode {
	r := g.r
	switch r.Intn(6) {
	case 0:
		return &mnode{kind: "any"}
	case 1:
		return &mnode{kind: "str"}
	default:
		n := 1 + r.Intn(3)
		ms := make([]any, n)
		for i := range ms {
			if r.Chance(75) {
				ms[i] = jcomposite(r, 1+r.Intn(3), false, false)
			} else {
				ms[i] = jval(r, 0)
			}
		}
		// LiteralOf[any] with a comparable FIRST member hashes every member (newZodLiteralFromDef) and panics at construction on
		// a later slice / map member; a composite goes first (seen in passing — a constructor panic, not a C15 matter)
		for i, m := range ms {
			switch m.(type) {
			case []any, map[string]any:
				ms[0], ms[i] = ms[i], ms[0]
			}
		}
		return &mnode{kind: "lit", vals: ms}
	}
}

// tree: a schema of depth ≤ d; `member` = it will sit inside a container (a default is allowed there and at the root only)
func (g *mgen) tree(d int, dfltOK bool) *mnode {
	r := g.r
	var n *mnode
	if d <= 0 {
		n = g.leaf()
	} else {
		switch r.Intn(7) {
		case 0, 1, 2:
			keys := append([]string{}, ownKeys[:3]...)[:1+r.Intn(3)]
			n = &mnode{kind: "obj", mode: hx.Pick(r, []string{"s", "s", "l", "x"}), keys: keys}
			for range keys {
				n.kids = append(n.kids, g.tree(d-1-r.Intn(2), true))
			}
		case 3, 4:
			n = &mnode{kind: "slice", kids: []*mnode{g.tree(d-1-r.Intn(2), true)}}
		case 5:
			n = &mnode{kind: "rec", kids: []*mnode{g.tree(d-1-r.Intn(2), true)}}
		default:
			n = &mnode{kind: "union", kids: []*mnode{g.tree(d-1, false), g.tree(d-1, false)}}
		}
	}
	if dfltOK && n.kind != "str" && r.Chance(30) {
		var v any
		switch n.kind {
		case "slice":
			v = jcomposite(r, 1+r.Intn(3), false, true)
		case "obj", "rec":
			v = jcomposite(r, 1+r.Intn(3), true, false)
		default:
			v = jcomposite(r, 1+r.Intn(3), false, false)
		}
		n = &mnode{kind: "dflt", vals: []any{v}, kids: []*mnode{n}}
	}
	return n
}

func (n *mnode) build() core.ZodSchema {
	if n.s != nil {
		return n.s
	}
	switch n.kind {
	case "any":
		n.s = types.Any()
	case "str":
		n.s = types.String()
	case "lit":
		n.s = types.LiteralOf[any](n.vals)
	case "obj":
		shape := core.ObjectSchema{}
		for i, k := range n.keys {
			shape[k] = n.kids[i].build()
		}
		switch n.mode {
		case "l":
			n.s = types.LooseObject(shape)
		case "x":
			n.s = types.StrictObject(shape)
		default:
			n.s = types.Object(shape)
		}
	case "slice":
		n.s = types.Slice[any](n.kids[0].build())
	case "rec":
		n.s = types.Record(types.String(), n.kids[0].build())
	case "union":
		n.s = types.Union([]any{n.kids[0].build(), n.kids[1].build()})
	case "dflt":
		inner := n.kids[0].build()
		m := reflect.ValueOf(inner).MethodByName("Default")
		arg := reflect.New(m.Type().In(0)).Elem()
		arg.Set(reflect.ValueOf(n.vals[0]))
		for _, x := range m.Call([]reflect.Value{arg}) {
			if z, ok := x.Interface().(core.ZodSchema); ok {
				n.s = z
			}
		}
	}
	return n.s
}

// enc writes the schema with the graphs it holds.
func (n *mnode) enc(me *storex.MultiEncoder) string {
	switch n.kind {
	case "any", "str":
		return n.kind
	case "lit":
		out := []string{"lit", fmt.Sprint(len(n.vals))}
		for _, v := range n.vals {
			out = append(out, me.Encode(v))
		}
		return strings.Join(out, " ")
	case "dflt":
		return "dflt " + me.Encode(n.vals[0]) + " " + n.kids[0].enc(me)
	case "obj":
		out := []string{"obj", n.mode, fmt.Sprint(len(n.keys))}
		for i, k := range n.keys {
			out = append(out, fmt.Sprint(ownKeyID[k]), n.kids[i].enc(me))
		}
		return strings.Join(out, " ")
	case "union":
		return "union " + n.kids[0].enc(me) + " " + n.kids[1].enc(me)
	default: // slice rec
		return n.kind + " " + n.kids[0].enc(me)
	}
}

func (n *mnode) name() string {
	switch n.kind {
	case "any", "str":
		return n.kind
	case "lit":
		return fmt.Sprintf("lit%d", len(n.vals))
	case "dflt":
		return "dflt(" + n.kids[0].name() + ")"
	case "obj":
		out := "obj/" + n.mode + "{"
		for i, k := range n.keys {
			out += k + ":" + n.kids[i].name() + ","
		}
		return out + "}"
	case "union":
		return "union(" + n.kids[0].name() + "|" + n.kids[1].name() + ")"
	}
	return n.kind + "(" + n.kids[0].name() + ")"
}

// in: an input for the schema, mostly accepted.
func (n *mnode) in(r *hx.Rng) any {
	if r.Chance(4) {
		return jval(r, 2)
	}
	switch n.kind {
	case "any":
		if r.Chance(10) {
			return nil
		}
		return jval(r, 2)
	case "str":
		if r.Chance(12) {
			return hx.Pick(r, ownInts)
		}
		return hx.Pick(r, ownStrs)
	case "lit":
		if r.Chance(80) {
			return cp(hx.Pick(r, n.vals))
		}
		return jval(r, 2)
	case "dflt":
		if r.Chance(35) {
			return nil
		}
		return n.kids[0].in(r)
	case "obj":
		m := map[string]any{}
		for i, k := range n.keys {
			if r.Chance(4) {
				continue
			}
			m[k] = n.kids[i].in(r)
		}
		if n.mode != "x" && r.Chance(50) || r.Chance(5) {
			m["zz"] = jval(r, 2)
		}
		if len(m) == 0 {
			m["q"] = 1
		}
		return m
	case "slice":
		if r.Chance(4) {
			return nil
		}
		xs := make([]any, 1+r.Intn(3))
		for i := range xs {
			xs[i] = n.kids[0].in(r)
		}
		return xs
	case "rec":
		m := map[string]any{}
		for i := 0; i < 1+r.Intn(3); i++ {
			m[hx.Pick(r, ownKeys)] = n.kids[0].in(r)
		}
		return m
	case "union":
		return n.kids[r.Intn(2)].in(r)
	default:
		return n.kids[0].in(r)
	}
}

func (n *mnode) holdsComposite() bool {
	for _, v := range n.vals {
		switch v.(type) {
		case []any, map[string]any:
			return true
		}
	}
	for _, k := range n.kids {
		if k.holdsComposite() {
			return true
		}
	}
	return false
}

func runOwn(c hx.Config, o *hx.Out) error {
	if err := ownInit(); err != nil {
		return err
	}
	nCases := 900
	if c.Thorough() {
		nCases = 40000
	}
	// C15_AIM=<k>: a modelled Go function changed since its structure was recorded (vlib/c15.py): k times as many cases
	if k, err := strconv.Atoi(os.Getenv("C15_AIM")); err == nil && k > 1 && k <= 16 {
		nCases *= k
		o.Count("own:aimed-by-fingerprint")
	}
	root := hx.NewRng(c.Seed ^ 0xC15C)
	for ci := 0; ci < nCases; ci++ {
		r := hx.NewRng(root.Next())
		g := &mgen{r}
		var rootN *mnode
		for {
			rootN = g.tree(ci%4, true)
			if rootN.holdsComposite() || r.Chance(15) {
				break
			}
		}
		type member struct {
			n    *mnode
			s    any
			name string
		}
		var fam []member
		built := true
		if p := hx.Safely(func() {
			fam = append(fam, member{rootN, rootN.build(), "root"})
			if d, ok, _ := storex.Call(rootN.s, hx.Pick(r, []string{"Describe", "RefineAny", "Meta"}), 0); ok {
				fam = append(fam, member{rootN, d, "derived"}) // shares Def / the held values with the root
			}
			w := &mnode{kind: "obj", mode: "s", keys: []string{"w"}, kids: []*mnode{rootN}}
			fam = append(fam, member{w, w.build(), "obj{w:root}"})
			sl := &mnode{kind: "slice", kids: []*mnode{rootN}}
			fam = append(fam, member{sl, sl.build(), "slice(root)"})
			if rootN.kind != "dflt" {
				u := &mnode{kind: "union", kids: []*mnode{rootN, {kind: "str"}}}
				fam = append(fam, member{u, u.build(), "union(root|str)"})
			}
		}); p != "" {
			built = false
			if ownDebug {
				fmt.Fprintf(os.Stderr, "own-debug build-failed %s: %s\n", rootN.name(), p)
			}
		}
		for _, m := range fam {
			if m.s == nil {
				built = false
			}
		}
		if !built {
			o.Count("own:schema-build-failed")
			continue
		}
		// inputs: two per member
		type input struct{ v any }
		var inputs []input
		for _, m := range fam {
			for k := 0; k < 2; k++ {
				inputs = append(inputs, input{m.n.in(r)})
			}
		}
		// the op line: schemas first (their graphs get the low labels = the schema-owned region), then the inputs
		me := storex.NewMultiEncoder()
		var parts []string
		for _, m := range fam {
			parts = append(parts, m.n.enc(me))
		}
		ownedCells := me.Cells()
		var inParts []string
		for _, in := range inputs {
			inParts = append(inParts, me.Encode(in.v))
		}
		// history
		type step struct {
			parse bool
			m, i  int
			j     int
		}
		steps := []step{{true, 0, 0, 0}, {false, 0, 0, 0}, {true, 0, 0, 0}}
		np := 2
		for k := 0; k < 4+r.Intn(4); k++ {
			if r.Chance(60) {
				m := r.Intn(len(fam))
				i := 2*m + r.Intn(2)
				if r.Chance(15) {
					i = r.Intn(len(inputs))
				}
				steps = append(steps, step{true, m, i, 0})
				np++
			} else {
				steps = append(steps, step{false, 0, 0, r.Intn(np)})
			}
		}
		steps = append(steps, step{false, 0, 0, np - 1}, step{true, 0, 0, 0})
		if len(fam) > 2 {
			steps = append(steps, step{true, 2, 4, 0}, step{false, 0, 0, np + 1}, step{true, 2, 4, 0}, step{true, 0, 0, 0})
		}
		var schemas []any
		for _, m := range fam {
			schemas = append(schemas, m.s)
		}
		// a first parse per member before the schemas are looked at: a Lazy resolves (and caches) its inner schema then
		for mi, s := range schemas {
			callParse(s, "any", cp(inputs[2*mi].v))
		}
		owned := storex.SchemaAddrs(schemas...)
		hashBefore := uint64(0)
		for _, s := range schemas {
			hashBefore = hashBefore*1000003 + storex.DeepHash(s)
		}
		var results []any
		var toks, verd, firsts []string
		first := map[string]string{}
		fresh, shared := true, ""
		accepted := 0
		for _, st := range steps {
			if !st.parse {
				toks = append(toks, fmt.Sprintf("M%d", st.j))
				storex.MutateResult(results[st.j])
				continue
			}
			toks = append(toks, fmt.Sprintf("P%d.%d", st.m, st.i))
			in := cp(inputs[st.i].v)
			entry := "any"
			if len(results)%3 == 1 {
				entry = "parse"
			}
			res, err, ran := callParse(fam[st.m].s, entry, in)
			if !ran {
				res, err, _ = callParse(fam[st.m].s, "any", in)
			}
			tok := "r"
			if err == nil {
				tok = "a" + storex.Canon(res)
				accepted++
				if x := storex.AliasedWith(owned, in, res); x != "" {
					fresh, shared = false, "schema-held:"+x
				}
				for _, old := range results {
					if x := storex.SharedAddr(old, res); x != "" {
						fresh, shared = false, "earlier-result:"+x
					}
				}
			} else {
				res = nil
			}
			key := fmt.Sprintf("%d.%d", st.m, st.i)
			if ownDebug {
				fmt.Fprintf(os.Stderr, "own-debug case=%d %s %s(%s) in=%s -> %s\n", ci, toks[len(toks)-1], fam[st.m].name, fam[st.m].n.name(), storex.Canon(in), tok)
			}
			if f, ok := first[key]; ok {
				if f == tok {
					verd = append(verd, "same")
				} else {
					verd = append(verd, "CHANGED")
				}
			} else {
				first[key] = tok
				if err == nil {
					firsts = append(firsts, fmt.Sprintf("a%d", storex.SerHash(res)))
				} else {
					firsts = append(firsts, "r")
				}
			}
			results = append(results, res)
		}
		hashAfter := uint64(0)
		for _, s := range schemas {
			hashAfter = hashAfter*1000003 + storex.DeepHash(s)
		}
		sw := "schema-same"
		if hashAfter != hashBefore {
			sw = "schema-written"
		}
		fr := "fresh"
		if !fresh {
			fr = "ALIASED"
		}
		cm := ""
		if shared != "" {
			cm = " shared=" + strings.ReplaceAll(strings.ReplaceAll(shared, " ", ""), "#", "")
		}
		var strIDs []string
		for _, s := range ownStrs {
			strIDs = append(strIDs, fmt.Sprint(storex.ScalarID(s)))
		}
		o.Emit(fmt.Sprintf("c15 own %d %s | T %s | %s | %s #own:%s seed=%x owned-cells=%d%s %s",
			ownedCells, strings.Join(toks, " "), strings.Join(strIDs, " "), strings.Join(parts, " ; "), strings.Join(inParts, " ; "),
			strings.ReplaceAll(rootN.name(), " ", ""), c.Seed, ownedCells, cm, typ(rootN.s)),
			strings.Join(verd, ",")+"|"+fr+"|"+sw+"|"+strings.Join(firsts, ","))
		o.Count("own:root:" + rootN.kind)
		o.Count(fmt.Sprintf("own:accepted-parses:%d", min(accepted, 9)))
		if rootN.holdsComposite() {
			o.Count("own:schema-holds-composite-member-or-default")
		}
	}
	return nil
}
