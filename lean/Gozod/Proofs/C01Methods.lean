/-
  C01 — the method table of the primitive schema types, regenerated from the source, is exactly the
  table the model was written against (see `Gozod.Model.PrimMethodsSpec`).
-/
import Gozod.Model.PrimMethodsSpec
namespace Gozod.C01
open Gozod.PrimMethodsSpec

/-- Every exported method of the six primitive schema types is classified, and delegates to what the
    expectation records (over the WHOLE regenerated table). -/
theorem c01_methods_classified : methodOffenders = [] := by decide +kernel

/-- The table is not vacuous. -/
theorem c01_methods_nonempty : Gozod.Gen.primMethods.length = Gozod.Gen.primMethodCount ∧ 200 ≤ Gozod.Gen.primMethodCount := by
  decide +kernel

/-- Exactly these methods attach a check that C01 leaves to another property. -/
theorem c01_opaque_methods :
    opaqueMethods.map (fun e => e.1 ++ "." ++ e.2.1) =
      ["ZodString.Coerce", "ZodString.Email", "ZodString.JSON", "ZodString.JWT", "ZodString.MAC", "ZodString.Normalize",
       "ZodString.Slugify", "ZodIntegerTyped.Coerce", "ZodFloatTyped.Coerce", "ZodBool.Coerce"] := by decide +kernel

end Gozod.C01
