/-
  C07 — recursive schemas: a cycle through Lazy whose target is NOT the schema handed to ToJSONSchema.

  The family (harness/cmd/c07 `recv`):   V = Union([leaf, Slice(LazyAny(func() any { return V }))])
                                           T = V  |  StrictObject{"val": V}  |  Slice(V)            (`Wrap`)
  V's inner Lazy resolves to a Union, which `(*schemaWrapper).Parse` does consult (`S.lazyConsults`), so Parse really is
  recursive here: a value is accepted by V iff the leaf accepts it or it is an array of values accepted by V
  (`acceptsV`, structural recursion on the instance; the Lazy rejects a nil element — `validateLazy`).

  `convertLazy` meets V in `c.seen` (its conversion is in progress) and answers with a reference:
    * before the fix C07-lazy-ref-nonroot: `{"$ref": "#"}` whenever V has no registry ID and no `$defs` name — but `#`
      is the ROOT document T, not V (`validTL`: the items of the array alternative must validate against T);
    * with the fix: `#` only when the target is the root, otherwise a new `$defs` entry filled in when the target's
      conversion returns (`validTF`: items validate against V).
  The validity functions below are the Draft 2020-12 meaning of those documents, with `$ref` resolved (`#` = the whole
  document, `#/$defs/def1` = V's definition), by structural recursion on the instance.  Core-only.
-/
import Gozod.Model.JsonSchema
namespace Gozod.Jsc

inductive Wrap | root | field | slice
  deriving DecidableEq, Repr

/-- the field name "val" -/
def kVal : Str := [118, 97, 108]

/-! ### Parse -/

mutual
/-- `V.Parse`: Union — nil is rejected up front, then the leaf, then `Slice(Lazy → V)`. -/
def acceptsV (leaf : S) : Json → Bool
  | .arr xs => accepts leaf (.arr xs) || allV leaf xs
  | .null => false
  | .bool b => accepts leaf (.bool b)
  | .num q => accepts leaf (.num q)
  | .str s => accepts leaf (.str s)
  | .obj fs => accepts leaf (.obj fs)
def allV (leaf : S) : JsonList → Bool
  | .nil => true
  | .cons x xs => acceptsV leaf x && allV leaf xs
end

/-- the value of the first field named `val`, as `validateObject` reads it (`value["val"]`). -/
def acceptsT (w : Wrap) (leaf : S) (x : Json) : Bool :=
  match w with
  | .root => acceptsV leaf x
  | .field => match x with
      | .obj fs => (match fs.find kVal with
                    | some v => acceptsV leaf v
                    | none => false) && fs.all (fun k _ => k == kVal)
      | _ => false
  | .slice => match x with
      | .arr xs => allV leaf xs
      | _ => false

/-! ### the document with the fix: the Lazy refers to V -/

mutual
/-- `anyOf [leaf document, {type: array, items: {$ref: V}}]` -/
def validVF (leaf : S) : Json → Bool
  | .arr xs => jsValid (toJS false false false leaf) (.arr xs) || allValidVF leaf xs
  | .null => jsValid (toJS false false false leaf) .null
  | .bool b => jsValid (toJS false false false leaf) (.bool b)
  | .num q => jsValid (toJS false false false leaf) (.num q)
  | .str s => jsValid (toJS false false false leaf) (.str s)
  | .obj fs => jsValid (toJS false false false leaf) (.obj fs)
def allValidVF (leaf : S) : JsonList → Bool
  | .nil => true
  | .cons x xs => validVF leaf x && allValidVF leaf xs
end

def validTF (w : Wrap) (leaf : S) (x : Json) : Bool :=
  match w with
  | .root => validVF leaf x
  | .field => match x with          -- {type: object, properties: {val: V}, required: [val], additionalProperties: false}
      | .obj fs => (match fs.find kVal with
                    | some v => validVF leaf v
                    | none => false) && fs.all (fun k _ => k == kVal)
      | _ => false
  | .slice => match x with          -- {type: array, items: V}
      | .arr xs => allValidVF leaf xs
      | _ => false

/-! ### the document before the fix: the Lazy refers to `#`, the root T -/

mutual
/-- `anyOf [leaf document, {type: array, items: {$ref: "#"}}]` inside the root document T = StrictObject{val: V}. -/
def validVLf (leaf : S) : Json → Bool
  | .arr xs => jsValid (toJS false false false leaf) (.arr xs) || allValidTLf leaf xs
  | .null => jsValid (toJS false false false leaf) .null
  | .bool b => jsValid (toJS false false false leaf) (.bool b)
  | .num q => jsValid (toJS false false false leaf) (.num q)
  | .str s => jsValid (toJS false false false leaf) (.str s)
  | .obj fs => jsValid (toJS false false false leaf) (.obj fs)
/-- the root document: an object whose only field `val` validates against V's document. -/
def validTLf (leaf : S) : Json → Bool
  | .obj fs => fs.hasKey kVal && fieldsTLf leaf fs
  | _ => false
def allValidTLf (leaf : S) : JsonList → Bool
  | .nil => true
  | .cons x xs => validTLf leaf x && allValidTLf leaf xs
def fieldsTLf (leaf : S) : JsonFields → Bool
  | .nil => true
  | .cons k v fs => (k == kVal) && validVLf leaf v && fieldsTLf leaf fs
end

mutual
/-- the same inside the root document T = Slice(V): the items of the inner array must be arrays of V again. -/
def validVLs (leaf : S) : Json → Bool
  | .arr xs => jsValid (toJS false false false leaf) (.arr xs) || allValidTLs leaf xs
  | .null => jsValid (toJS false false false leaf) .null
  | .bool b => jsValid (toJS false false false leaf) (.bool b)
  | .num q => jsValid (toJS false false false leaf) (.num q)
  | .str s => jsValid (toJS false false false leaf) (.str s)
  | .obj fs => jsValid (toJS false false false leaf) (.obj fs)
def validTLs (leaf : S) : Json → Bool
  | .arr xs => allValidVLs leaf xs
  | _ => false
def allValidTLs (leaf : S) : JsonList → Bool
  | .nil => true
  | .cons x xs => validTLs leaf x && allValidTLs leaf xs
def allValidVLs (leaf : S) : JsonList → Bool
  | .nil => true
  | .cons x xs => validVLs leaf x && allValidVLs leaf xs
end

/-- the document `convertLazy` produced before the fix (`#` = the root, which is right for `Wrap.root` only). -/
def validTL (w : Wrap) (leaf : S) (x : Json) : Bool :=
  match w with
  | .root => validVF leaf x
  | .field => validTLf leaf x
  | .slice => validTLs leaf x

/-- leaves for which the base theorem applies one level down and the union rule "nil is rejected first" is invisible. -/
def reprRec (leaf : S) : Bool := reprP false leaf && !leaf.acceptsNull

end Gozod.Jsc
