/-
  Transcription of what gozodgen emits for ONE field (`cmd/gozodgen/writer.go`:
  `generateFieldSchemaCode`, `generateValidatorChain`, `baseConstructor`, `basicTypeConstructor`,
  `generateTypedValue`, `isStringType`, `isPointerType`), on top of the transcription of the generator's
  own tag parser (`GenSplit`) and of its literal formatting (`GenChain`).

  Round 4: the emitted expression is built as a STRUCTURE first (`Chain` = constructor expression +
  method calls with classified arguments — what the typing judgement of `GenTyped` reads) and rendered to
  text second;  field types are type expressions (`Ty`: the 16 basic names, `time.Time`, named struct types,
  pointers, slices, maps, nested arbitrarily), and `baseConstructor` is transcribed as it is written: over
  the TEXT of the type name (`getTypeNameFromAST`), including its `strings.LastIndex(typeName, "]")`.

      emitField t sn tag  =  the schema expression written for  `F <t> \`gozod:"<tag>"\``  in `type <sn> struct`

  Round 4b/4c: the transcription carries a `WriterFacts` parameter — one Boolean per decision of the writer that had a
  second variant. Since round 4c it is PINNED: everything executed and every property theorem uses `WriterFacts.head`
  (the writer of /repo HEAD, all twelve fixes landed); `WriterFacts.legacy` (the writer of round 4) survives in witness
  theorems only. harness/cmd/c13/facts.go still reads the variants off writer.go with go/ast (`Gozod.Gen.writerFacts`),
  now as an EXPECTATION: `C13.c13_writer_pinned : Gen.writerFacts = .head`.

  Strings are lists of code points; `none` = outside the modelled fragment (gozodgen refuses the tag,
  `strconv.Quote` of a rune whose quoting is not modelled, a JSON `default=` on a slice / map field).
-/
import Gozod.Model.GenChain
import Gozod.Model.GenSplit
namespace Gozod.GenEmit
open Gozod.TagParser Gozod.GenSplit

def asc (s : String) : Str := s.toList.map Char.toNat

/-- the keys of `basicTypes` / `basicTypeConstructors` -/
inductive Basic
  | string | int | int8 | int16 | int32 | int64 | uint | uint8 | uint16 | uint32 | uint64
  | float32 | float64 | bool | complex64 | complex128
  deriving DecidableEq, Repr

def Basic.all : List Basic :=
  [.string, .int, .int8, .int16, .int32, .int64, .uint, .uint8, .uint16, .uint32, .uint64,
   .float32, .float64, .bool, .complex64, .complex128]

/-- the Go spelling of the type -/
def Basic.name : Basic → String
  | .string => "string" | .int => "int" | .int8 => "int8" | .int16 => "int16" | .int32 => "int32" | .int64 => "int64"
  | .uint => "uint" | .uint8 => "uint8" | .uint16 => "uint16" | .uint32 => "uint32" | .uint64 => "uint64"
  | .float32 => "float32" | .float64 => "float64" | .bool => "bool" | .complex64 => "complex64" | .complex128 => "complex128"

/-- `basicTypeConstructors[name]` without the `gozod.` prefix and the `()` -/
def Basic.ctorName : Basic → String
  | .string => "String" | .int => "Int" | .int8 => "Int8" | .int16 => "Int16" | .int32 => "Int32" | .int64 => "Int64"
  | .uint => "Uint" | .uint8 => "Uint8" | .uint16 => "Uint16" | .uint32 => "Uint32" | .uint64 => "Uint64"
  | .float32 => "Float32" | .float64 => "Float64" | .bool => "Bool" | .complex64 => "Complex64" | .complex128 => "Complex128"

def Basic.ofName? (s : Str) : Option Basic := Basic.all.find? fun b => asc b.name = s

/-- field type expressions: what `getTypeNameFromAST` prints and `typesToReflectType` classifies -/
inductive Ty
  | basic (b : Basic)
  | time                      -- `time.Time`
  | named (n : Str)           -- an identifier that is not a basic name: a struct type of the package
  | ptr (t : Ty) | slice (t : Ty) | map (k v : Ty)
  deriving DecidableEq, Repr

/-- `getTypeNameFromAST` -/
def Ty.typeName : Ty → Str
  | .basic b => asc b.name
  | .time => asc "time.Time"
  | .named n => n
  | .ptr t => 0x2A :: t.typeName
  | .slice t => asc "[]" ++ t.typeName
  | .map k v => asc "map[" ++ k.typeName ++ [0x5D] ++ v.typeName

/-- `reflect.Kind` of `typesToReflectType(t)`, as far as the writer looks at it
    (a named struct type becomes `any`: Interface; `time.Time` the marker struct) -/
inductive RKind | basic (b : Basic) | pointer | slice | map | other
  deriving DecidableEq, Repr

def Ty.kind : Ty → RKind
  | .basic b => .basic b | .ptr _ => .pointer | .slice _ => .slice | .map _ _ => .map | _ => .other

/-- `isStringType` -/
def Ty.isString : Ty → Bool
  | .basic .string => true | .ptr (.basic .string) => true | _ => false
/-- `isPointerType` -/
def Ty.isPtr : Ty → Bool
  | .ptr _ => true | _ => false

/-! ### which writer -/

/-- structure facts of cmd/gozodgen/writer.go (one per decision that has more than one known variant) -/
structure WriterFacts where
  urlImport : Bool             -- generateImports writes "net/url" for a `url` rule
  specialOptNonPtrOnly : Bool  -- UUID / Enum paths: `.Optional()` only when `!isPointerType(field.Type)`
  optionalOnEveryPtr : Bool    -- general path: `isPointerType(field.Type) || !field.Required`
  timePtr : Bool               -- baseConstructor, pointer branch: `base == "time.Time"` → gozod.Time()
  sliceTyped : Bool            -- gozod.Slice[T](e); `*[]T` → the slice constructor; no .Optional() on slice fields; `time` import read off the emitted code
  mapKeyMatch : Bool           -- mapKeyEnd (bracket matching) instead of strings.LastIndex(typeName, "]")
  recordTyped : Bool           -- gozod.Record[string, V](gozod.String(), typedConstructor(V)); RecordPtr; `any` → gozod.Any(); no .Optional() on map fields
  urlCtor : Bool               -- URL special case: gozod.URL()
  ruleApplies : Bool           -- generateValidatorChain asks ruleApplies; the Enum path asks enumRuleApplies
  boundArg : Bool              -- min/max/gt/gte/lt/lte arguments through boundArgument
  extraRules : Bool            -- cases length, nonempty, positive, negative, nonnegative, nonpositive
  jsonNumKinds : Bool          -- generateSliceValue: a slice literal for every integer / float element kind
  deriving DecidableEq, Repr

/-- the writer of round 4 (/repo 65a0069 … cef00ff): LEGACY — survives in witness theorems only -/
def WriterFacts.legacy : WriterFacts := ⟨true, true, true, false, false, false, false, false, false, false, false, false⟩
/-- THE WRITER OF /repo HEAD — every one of the twelve decisions in the variant that landed (d18b0f8, f000f64, b3b31f0,
    5150498, dc7638b, 8d449bc, 04764f2, b4218fe, eb477b9, cf94592, 2cfb151, 0a09f8c). Round 4c: the model, the driver and
    every theorem are PINNED to this value; `Gozod.Gen.writerFacts` (what go/ast finds in the tree) must equal it
    (`C13.c13_writer_pinned`) — a tree that shows a legacy variant again is a broken obligation, not an accepted alternative. -/
def WriterFacts.head : WriterFacts := ⟨false, false, false, true, true, true, true, true, true, true, true, true⟩

/-! ### the structure of an emitted expression -/

/-- an argument as gozodgen writes it -/
inductive Arg
  | raw (text : Str)          -- the parameter of the tag, verbatim (`fmt.Sprintf(".Min(%s)", p)`), or a normalised number
  | quoted (lit : Str)        -- `strconv.Quote(p)`: the text of a Go string literal
  | regexp (lit : Str)        -- `regexp.MustCompile("<escaped>")`
  deriving DecidableEq, Repr

structure Call where
  name : String
  args : List Arg
  deriving DecidableEq, Repr

/-- constructor expressions of `baseConstructor` / `typedConstructor` and of the UUID / URL / Enum special cases -/
inductive CExpr
  | prim (b : Basic)                 -- gozod.String() …
  | primPtr (b : Basic)              -- gozod.StringPtr() …  (typedConstructor)
  | any | time | timePtr             -- gozod.Any(), gozod.Time(), gozod.TimePtr()
  | fromStruct (tyText : Str)        -- gozod.FromStruct[<text>]()
  | fromStructPtr (tyText : Str)     -- gozod.FromStructPtr[<text>]()
  | lazyStruct (n : Str)             -- gozod.Lazy(func() gozod.ZodType[any] { return gozod.FromStruct[<n>]() })
  | slice (ptr : Bool) (targ : Option Str) (e : CExpr)    -- gozod.Slice(e) | gozod.Slice[T](e) | gozod.SlicePtr[T](e)
  | record (ptr : Bool) (targ : Option Str) (e : CExpr)   -- gozod.Record(e) | gozod.Record[string, V](gozod.String(), e) | gozod.RecordPtr[…](…)
  | uuid | url | enum (vals : List Str)    -- vals: the quoted literals
  deriving Repr

structure Chain where
  ctor : CExpr
  calls : List Call
  deriving Repr

def joinSep (sep : Str) : List Str → Str
  | [] => []
  | [x] => x
  | x :: xs => x ++ sep ++ joinSep sep xs

def Arg.render : Arg → Str
  | .raw t => t
  | .quoted l => l
  | .regexp l => asc "regexp.MustCompile(" ++ l ++ [0x29]

def Call.render (c : Call) : Str := [0x2E] ++ asc c.name ++ [0x28] ++ joinSep (asc ", ") (c.args.map Arg.render) ++ [0x29]

def ptrSuffix (ptr : Bool) : Str := if ptr then asc "Ptr" else []

def CExpr.render : CExpr → Str
  | .prim b => asc ("gozod." ++ b.ctorName ++ "()")
  | .primPtr b => asc ("gozod." ++ b.ctorName ++ "Ptr()")
  | .any => asc "gozod.Any()" | .time => asc "gozod.Time()" | .timePtr => asc "gozod.TimePtr()"
  | .fromStruct t => asc "gozod.FromStruct[" ++ t ++ asc "]()"
  | .fromStructPtr t => asc "gozod.FromStructPtr[" ++ t ++ asc "]()"
  | .lazyStruct n => asc "gozod.Lazy(func() gozod.ZodType[any] { return gozod.FromStruct[" ++ n ++ asc "]() })"
  | .slice ptr none e => asc "gozod.Slice" ++ ptrSuffix ptr ++ [0x28] ++ e.render ++ [0x29]
  | .slice ptr (some t) e => asc "gozod.Slice" ++ ptrSuffix ptr ++ [0x5B] ++ t ++ asc "](" ++ e.render ++ [0x29]
  | .record ptr none e => asc "gozod.Record" ++ ptrSuffix ptr ++ [0x28] ++ e.render ++ [0x29]
  | .record ptr (some v) e => asc "gozod.Record" ++ ptrSuffix ptr ++ asc "[string, " ++ v ++ asc "](gozod.String(), " ++ e.render ++ [0x29]
  | .uuid => asc "gozod.UUID()"
  | .url => asc "gozod.URL()"
  | .enum vals => asc "gozod.Enum(" ++ joinSep (asc ", ") vals ++ [0x29]

def Chain.render (c : Chain) : Str := c.ctor.render ++ (c.calls.map Call.render).flatten

/-! ### `baseConstructor(typeName, structName)` / `typedConstructor` — over the text of the type name -/

def cutPrefix (p s : Str) : Option Str := if p.isPrefixOf s then some (s.drop p.length) else none

/-- `strings.LastIndex(s, "]")` -/
def lastIndexRB : Str → Option Nat
  | [] => none
  | c :: rest =>
    match lastIndexRB rest with
    | some i => some (i + 1)
    | none => if c = 0x5D then some 0 else none

/-- the loop of `mapKeyEnd` from index `i` on with bracket depth `d` -/
def mapKeyEndF : Int → Nat → Str → Option Nat
  | _, _, [] => none
  | d, i, c :: rest =>
    if c = 0x5B then mapKeyEndF (d + 1) (i + 1) rest
    else if c = 0x5D then (if d - 1 = 0 then some i else mapKeyEndF (d - 1) (i + 1) rest)
    else mapKeyEndF d (i + 1) rest

/-- `mapKeyEnd(typeName)`: the bracket that closes the key type of `map[K]V` -/
def mapKeyEnd (tn : Str) : Option Nat := mapKeyEndF 0 3 (tn.drop 3)

/-- `basicTypeConstructor` -/
def basicCtor (name : Str) : CExpr :=
  match Basic.ofName? name with | some b => .prim b | none => .any

def trimStar (s : Str) : Str := (cutPrefix [0x2A] s).getD s

/-- `"gozod.SlicePtr" + strings.TrimPrefix(text, "gozod.Slice")` / the same for Record, on the structure
    (the text always starts with that prefix: the type name starts with `[]` / `map[`) -/
def setPtr : CExpr → CExpr
  | .slice _ t e => .slice true t e
  | .record _ t e => .record true t e
  | e => e

/-- `baseConstructor` (typed = false) and `typedConstructor` (typed = true; exists only in a writer with `recordTyped`);
    the fuel is the length of the type name (every recursive call is on a proper suffix) -/
def ctorF (W : WriterFacts) (sn : Str) : Nat → Bool → Str → CExpr
  | 0, _, _ => .any
  | f + 1, typed, tn =>
    match cutPrefix [0x2A] tn with
    | some base =>
      if typed then
        match Basic.ofName? base with
        | some b => .primPtr b
        | none =>
          if base = asc "time.Time" then .timePtr
          else if (asc "[]").isPrefixOf base ∨ (asc "map[").isPrefixOf base then setPtr (ctorF W sn f false base)
          else .fromStructPtr base
      else
        if (Basic.ofName? base).isSome then basicCtor base
        else if sn ≠ [] ∧ base = sn then .lazyStruct base
        else if W.timePtr ∧ base = asc "time.Time" then .time
        else if W.sliceTyped ∧ (asc "[]").isPrefixOf base then ctorF W sn f false base
        else if W.recordTyped ∧ (asc "map[").isPrefixOf base then setPtr (ctorF W sn f false base)
        else .fromStruct base
    | none =>
    if typed ∧ sn ≠ [] ∧ tn = sn then .fromStruct tn else
    match cutPrefix (asc "[]") tn with
    | some elem =>
      let clean := trimStar elem
      if sn ≠ [] ∧ clean = sn then .slice false none (.lazyStruct clean)
      else .slice false (if W.sliceTyped then some elem else none) (ctorF W sn f false elem)
    | none =>
    if (asc "map[").isPrefixOf tn then
      let malformed : CExpr := if W.recordTyped then .record false (some (asc "any")) .any else .record false none .any
      match (if W.mapKeyMatch then mapKeyEnd tn else lastIndexRB tn) with
      | some idx =>
        if idx < tn.length - 1 then
          let val := tn.drop (idx + 1)
          if W.recordTyped then .record false (some val) (ctorF W sn f true val)
          else
            let clean := trimStar val
            if sn ≠ [] ∧ clean = sn then .record false none (.lazyStruct clean) else .record false none (ctorF W sn f false val)
        else malformed
      | none => malformed
    else if W.recordTyped ∧ tn = asc "any" then .any
    else if (Basic.ofName? tn).isSome then basicCtor tn
    else if tn = asc "time.Time" then .time
    else if sn ≠ [] ∧ tn = sn then .lazyStruct tn
    else if tn ≠ asc "unknown" then .fromStruct tn
    else .any

def baseCtor (W : WriterFacts) (t : Ty) (sn : Str) : CExpr := ctorF W sn (t.typeName.length + 1) false t.typeName

/-! ### `generateValidatorChain(rule, fieldType)` -/

def startsWithBr (s : Str) : Bool := s.head? = some cLBracket || s.head? = some cLBrace
def endsWith (c : Nat) (s : Str) : Bool := s.getLast? = some c

/-! #### JSON `default=` / `prefault=` parameters of slice and map fields (`generateSliceValue`, `generateMapValue`) -/

/-- an item of a JSON array / a value of a JSON object, in the fragment modelled: a string without `"` and `\`,
    an integer of at most 15 digits, `true`, `false` -/
inductive JItem | str (s : Str) | int (v : Int) | bool (b : Bool)
  deriving DecidableEq, Repr

/-- split at the commas outside double quotes -/
def splitItems : Bool → Str → Str → List Str
  | _, cur, [] => [cur.reverse]
  | inQ, cur, c :: rest =>
    if c = 0x22 then splitItems (!inQ) (c :: cur) rest
    else if c = 0x2C ∧ !inQ then cur.reverse :: splitItems inQ [] rest
    else splitItems inQ (c :: cur) rest

def parseItem (s : Str) : Option JItem :=
  if s = asc "true" then some (.bool true) else if s = asc "false" then some (.bool false)
  else match s with
    | 0x22 :: rest =>
      match rest.reverse with
      | 0x22 :: body => if body.all (fun c => c ≠ 0x22 ∧ c ≠ 0x5C ∧ 0x20 ≤ c ∧ c < 0x7F) then some (.str body.reverse) else none
      | _ => none
    | _ =>
      let (neg, r) := (match s with | 0x2D :: r => (true, r) | _ => (false, s))
      if !r.isEmpty ∧ r.all (fun c => 0x30 ≤ c && c ≤ 0x39) ∧ r.length ≤ 15 ∧ (r.length = 1 ∨ r.head? ≠ some 0x30) then
        let v : Nat := r.foldl (fun acc d => acc * 10 + (d - 0x30)) 0
        some (.int (if neg then -(v : Int) else v))
      else none

def allItems : List (Option JItem) → Option (List JItem)
  | [] => some []
  | none :: _ => none
  | some x :: xs => (allItems xs).map (x :: ·)

/-- `[item,item,…]` without white space; `none`: outside the fragment -/
def parseJArray (v : Str) : Option (List JItem) :=
  match v with
  | 0x5B :: rest =>
    match rest.reverse with
    | 0x5D :: body => if body.isEmpty then some [] else allItems ((splitItems false [] body.reverse).map parseItem)
    | _ => none
  | _ => none

/-- `generateSliceValue` for a bracketed value: the Go slice literal for element kinds string / int / bool (items of another
    JSON type are skipped), the value verbatim for the other element kinds; `none`: JSON outside the fragment, or `%g` of float64 -/
def sliceLiteral (W : WriterFacts) (v : Str) (elem : Ty) : Option Str :=
  match parseJArray v with
  | none => none
  | some items =>
    match elem with
    | .basic .string =>
      some (asc "[]string{" ++ joinSep (asc ", ") (items.filterMap fun i => match i with | .str s => some ([0x22] ++ s ++ [0x22]) | _ => none) ++ [0x7D])
    | .basic .int =>
      some (asc "[]int{" ++ joinSep (asc ", ") (items.filterMap fun i => match i with | .int n => some (asc (toString n)) | _ => none) ++ [0x7D])
    | .basic .bool =>
      some (asc "[]bool{" ++ joinSep (asc ", ") (items.filterMap fun i => match i with | .bool b => some (asc (if b then "true" else "false")) | _ => none) ++ [0x7D])
    | .basic .float64 => none
    | .basic .float32 => if W.jsonNumKinds then none else some v
    | .basic b =>
      -- the other integer kinds (with `jsonNumKinds`): `[]int64{1, 2}` — the kind's name is the type's name
      if W.jsonNumKinds ∧ b != .complex64 ∧ b != .complex128 then
        some (asc ("[]" ++ b.name ++ "{") ++ joinSep (asc ", ") (items.filterMap fun i => match i with | .int n => some (asc (toString n)) | _ => none) ++ [0x7D])
      else some v
    | _ => some v

/-- `generateTypedValue(method, value, fieldType)`: `strconv.Quote` for kind String, the value verbatim for the
    other basic kinds and for `any`/struct kinds; slices: verbatim unless the (trimmed) value is bracketed —
    then `generateSliceValue` (`sliceLiteral`); maps: verbatim unless braced — then the JSON path of `generateMapValue`,
    which is not modelled (`none`: it ranges over a Go map, the order of the entries is not determined);
    pointers: the element type -/
def typedArg (W : WriterFacts) (value : Str) : Ty → Option Arg
  | .basic .string => (GenChain.emitDefaultFixed value).map Arg.quoted
  | .ptr t => typedArg W value t
  | .slice e =>
    let v := trimSpace value
    if v.head? = some cLBracket ∧ endsWith 0x5D v then (sliceLiteral W v e).map Arg.raw else some (.raw v)
  | .map _ _ =>
    let v := trimSpace value
    if v.head? = some cLBrace ∧ endsWith 0x7D v then none else some (.raw v)
  | _ => some (.raw value)

/-- the field type `ruleApplies` / `boundArgument` look at: one pointer level removed -/
def Ty.deref : Ty → Ty
  | .ptr t => t
  | t => t

/-- reflect kinds Int … Uint64, Float32, Float64, Complex64, Complex128 -/
def Ty.numeric : Ty → Bool
  | .basic b => b != .string && b != .bool
  | _ => false

def Ty.floaty : Ty → Bool
  | .basic .float32 | .basic .float64 | .basic .complex64 | .basic .complex128 => true
  | _ => false

def Ty.sized : Ty → Bool
  | .basic .string | .slice _ | .map _ _ => true
  | _ => false

/-- `ruleApplies(name, fieldType)` -/
def ruleAppliesTo (n : Str) (t : Ty) : Bool :=
  let t := t.deref
  if n = asc "min" ∨ n = asc "max" then t.numeric || t.sized
  else if n = asc "length" ∨ n = asc "nonempty" then t.sized
  else if n = asc "gt" ∨ n = asc "gte" ∨ n = asc "lt" ∨ n = asc "lte" ∨ n = asc "positive" ∨ n = asc "negative" ∨
          n = asc "nonnegative" ∨ n = asc "nonpositive" then t.numeric
  else if n = asc "email" ∨ n = asc "url" ∨ n = asc "ipv4" ∨ n = asc "ipv6" ∨ n = asc "regex" ∨ n = asc "trim" ∨
          n = asc "lowercase" ∨ n = asc "uppercase" then t == .basic .string
  else true

/-- `enumRuleApplies(name)` -/
def enumRuleAppliesTo (n : Str) : Bool :=
  n = asc "default" ∨ n = asc "prefault" ∨ n = asc "nilable" ∨ n = asc "refine" ∨ n = asc "check"

/-! #### numbers in rule parameters (`strconv.ParseInt(p, 10, 64)`, the decimal fragment of `strconv.ParseFloat`) -/

def isDig (c : Nat) : Bool := 0x30 ≤ c && c ≤ 0x39
def digitsVal (ds : Str) : Nat := ds.foldl (fun acc d => acc * 10 + (d - 0x30)) 0

/-- sign and rest: `strconv.ParseInt` / `ParseFloat` accept one leading `+` or `-` -/
def splitSign : Str → Bool × Str
  | 0x2D :: r => (true, r)
  | 0x2B :: r => (false, r)
  | s => (false, s)

/-- shapes of a numeric parameter -/
inductive NumShape
  | int (v : Int)                               -- `[+-]?d+`
  | dec (neg : Bool) (ip : Nat) (fracLen : Nat) -- `[+-]?d+.d+` (decimal, no exponent)
  | floatChars                                  -- only characters of `0123456789+-.eE`, another shape (exponent, `1.`, `.5`, …)
  | notNumber                                   -- some other character: ParseInt and the float test both fail
  deriving DecidableEq, Repr

def numShape (p : Str) : NumShape :=
  let (neg, r) := splitSign p
  if !r.isEmpty ∧ r.all isDig then .int (if neg then -(digitsVal r : Int) else digitsVal r)
  else
    let ip := r.takeWhile isDig
    match r.drop ip.length with
    | 0x2E :: fr =>
      if !ip.isEmpty ∧ !fr.isEmpty ∧ fr.all isDig then .dec neg (digitsVal ip) fr.length
      else if p.all (fun c => isDig c || c = 0x2B || c = 0x2D || c = 0x2E || c = 0x65 || c = 0x45) then .floatChars else .notNumber
    | _ => if p.all (fun c => isDig c || c = 0x2B || c = 0x2D || c = 0x2E || c = 0x65 || c = 0x45) then .floatChars else .notNumber

/-- `strconv.FormatInt(n, 10)` -/
def fmtInt (n : Int) : Str := asc (toString n)

/-- `boundArgument(name, param, fieldType)`: `some (some a)` the argument, `some none` no call is written,
    `none` outside the modelled fragment (exponents, a fraction that float64 rounding could carry over an integer,
    integers below -2^63 on gt/gte/lt/lte) -/
def boundArg (n : Str) (p : Str) (t : Ty) : Option (Option Arg) :=
  let t := t.deref
  if t.floaty then
    match numShape p with
    | .int _ | .dec _ _ _ => some (some (.raw p))
    | .notNumber => some none
    | .floatChars => if p.isEmpty then some none else none
  else
    match numShape p with
    | .int v =>
      if -(2 ^ 63) ≤ v ∧ v ≤ 2 ^ 63 - 1 then some (some (.raw (fmtInt v)))
      else if n = asc "min" ∨ n = asc "max" then some none
      else if v ≥ 2 ^ 63 then some none
      else none
    | .dec neg ip fl =>
      if n = asc "min" ∨ n = asc "max" then some none
      else if ip < 2 ^ 31 ∧ fl ≤ 6 then some (some (.raw (fmtInt (if neg then -(ip : Int) else ip))))
      else none
    | .notNumber => if n = asc "min" ∨ n = asc "max" then some none else (if p.isEmpty then some none else none)
    | .floatChars => if n = asc "min" ∨ n = asc "max" then some none else none

def call1 (m : String) (ps : List Str) : Option (List Call) :=
  match ps with
  | p :: _ => some [⟨m, [.raw p]⟩]
  | [] => some []

/-- a bound rule: the parameter verbatim (legacy) or through `boundArgument` -/
def callBound (W : WriterFacts) (m : String) (n : Str) (ps : List Str) (t : Ty) : Option (List Call) :=
  match ps with
  | p :: _ =>
    if W.boundArg then
      match boundArg n p t with
      | some (some a) => some [⟨m, [a]⟩]
      | some none => some []
      | none => none
    else some [⟨m, [.raw p]⟩]
  | [] => some []

/-- `strconv.Atoi(p)` succeeds with value `v` -/
def atoi? (p : Str) : Option Int :=
  match numShape p with
  | .int v => if -(2 ^ 63) ≤ v ∧ v ≤ 2 ^ 63 - 1 then some v else none
  | _ => none

/-- `generateValidatorChain(rule, fieldType)`: zero or one call -/
def chainOf (W : WriterFacts) (r : Rule) (t : Ty) : Option (List Call) :=
  let ps := r.params.getD []
  let n := r.name
  if W.ruleApplies ∧ !ruleAppliesTo n t then some []
  else if n = asc "min" then callBound W "Min" n ps t else if n = asc "max" then callBound W "Max" n ps t
  else if n = asc "gt" then callBound W "Gt" n ps t else if n = asc "gte" then callBound W "Gte" n ps t
  else if n = asc "lt" then callBound W "Lt" n ps t else if n = asc "lte" then callBound W "Lte" n ps t
  else if W.extraRules ∧ n = asc "length" then
    match ps with
    | p :: _ => (match atoi? p with | some v => some [⟨"Length", [.raw (fmtInt v)]⟩] | none => some [])
    | [] => some []
  else if W.extraRules ∧ n = asc "nonempty" then some [⟨"Min", [.raw (asc "1")]⟩]
  else if W.extraRules ∧ n = asc "positive" then some [⟨"Positive", []⟩]
  else if W.extraRules ∧ n = asc "negative" then some [⟨"Negative", []⟩]
  else if W.extraRules ∧ n = asc "nonnegative" then some [⟨"NonNegative", []⟩]
  else if W.extraRules ∧ n = asc "nonpositive" then some [⟨"NonPositive", []⟩]
  else if n = asc "refine" then call1 "Refine" ps else if n = asc "check" then call1 "Check" ps
  else if n = asc "email" then some [⟨"Email", []⟩] else if n = asc "url" then some [⟨"URL", []⟩]
  else if n = asc "ipv4" then some [⟨"IPv4", []⟩] else if n = asc "ipv6" then some [⟨"IPv6", []⟩]
  else if n = asc "trim" then some [⟨"Trim", []⟩] else if n = asc "lowercase" then some [⟨"ToLowerCase", []⟩]
  else if n = asc "uppercase" then some [⟨"ToUpperCase", []⟩] else if n = asc "nilable" then some [⟨"Nilable", []⟩]
  else if n = asc "regex" then
    match ps with
    | p :: _ => some [⟨"Regex", [.regexp (GenChain.emitRegex p)]⟩]
    | [] => some []
  else if n = asc "default" ∨ n = asc "prefault" then
    match ps with
    | p :: rest =>
      let value := if !rest.isEmpty && !startsWithBr p then joinSep [0x20] ps else p
      (typedArg W value t).map fun a => [⟨if n = asc "default" then "Default" else "Prefault", [a]⟩]
    | [] => some []
  else some []   -- required, uuid, enum, time, unknown names: nothing

def allSome : List (Option Str) → Option (List Str)
  | [] => some []
  | none :: _ => none
  | some x :: xs => (allSome xs).map (x :: ·)

def chainAll (W : WriterFacts) (rs : List Rule) (t : Ty) : Option (List Call) :=
  rs.foldl (fun acc r => match acc, chainOf W r t with | some a, some c => some (a ++ c) | _, _ => none) (some [])

def hasName (rs : List Rule) (n : Str) : Bool := rs.any (·.name = n)

def optionalCall (b : Bool) : List Call := if b then [⟨"Optional", []⟩] else []

/-- `.Optional()` of the UUID / URL / Enum paths -/
def specialOptional (W : WriterFacts) (t : Ty) (required : Bool) : Bool :=
  !required && (!W.specialOptNonPtrOnly || !t.isPtr)

/-- `.Optional()` of the general path -/
def generalOptional (W : WriterFacts) (t : Ty) (required : Bool) : Bool :=
  (if W.optionalOnEveryPtr then t.isPtr || !required else !required) &&
  !(W.sliceTyped && t.kind == .slice) && !(W.recordTyped && t.kind == .map)

/-- `generateFieldSchemaCode`, as a structure -/
def emitChain (W : WriterFacts) (t : Ty) (sn : Str) (rs : List Rule) : Option Chain :=
  let required := hasName rs (asc "required")
  -- `firstFormatRule`: the first `uuid` / `url` rule of the tag (the writer with the URL special case only)
  let urlFirst : Bool := (rs.find? fun r => r.name = asc "uuid" ∨ r.name = asc "url").map (·.name) == some (asc "url")
  if hasName rs (asc "uuid") ∧ t.isString ∧ !(W.urlCtor ∧ urlFirst) then
    (chainAll W (rs.filter fun r => r.name ≠ asc "uuid" ∧ !(W.urlCtor ∧ r.name = asc "url")) t).map fun c =>
      ⟨.uuid, c ++ optionalCall (specialOptional W t required)⟩
  else if W.urlCtor ∧ urlFirst ∧ t.isString ∧ !hasName rs (asc "enum") then
    (chainAll W (rs.filter (·.name ≠ asc "url")) t).map fun c => ⟨.url, c ++ optionalCall (specialOptional W t required)⟩
  else
    match (if t.isString then rs.find? (·.name = asc "enum") else none) with
    | some e =>
      -- strconv.Quote(param) (fix 6be4d1c); `none` when a member holds a rune whose quoting is not modelled
      match allSome ((e.params.getD []).map GenChain.emitDefaultFixed) with
      | none => none
      | some vals =>
        (chainAll W (rs.filter fun r => r.name ≠ asc "enum" ∧ (!W.ruleApplies ∨ enumRuleAppliesTo r.name)) t).map fun c =>
          ⟨.enum vals, c ++ optionalCall (specialOptional W t required)⟩
    | none =>
      (chainAll W rs t).map fun c => ⟨baseCtor W t sn, c ++ optionalCall (generalOptional W t required)⟩

/-- the text of the emitted expression -/
def emitRules (W : WriterFacts) (t : Ty) (sn : Str) (rs : List Rule) : Option Str := (emitChain W t sn rs).map Chain.render

def emitField (W : WriterFacts) (t : Ty) (sn : Str) (tag : Str) : Option Str :=
  match genParseTag tag with
  | .ok rs => emitRules W t sn rs
  | .error _ => none

/-! ### the syntax of field types (`getTypeNameFromAST`), read back -/

def isIdent (cs : List Char) : Bool :=
  match cs with
  | [] => false
  | c :: _ => (c.isAlpha || c == '_') && cs.all fun d => d.isAlphanum || d == '_'

/-- the field type as written in the source (`*T`, `[]T`, `map[K]V` with a bracket-free key, basic names, `time.Time`,
    identifiers); `Ty.typeName (parseTy s) = s` on what it accepts -/
def parseTyF : Nat → List Char → Option Ty
  | 0, _ => none
  | f + 1, cs =>
    match cs with
    | '*' :: r => (parseTyF f r).map .ptr
    | '[' :: ']' :: r => (parseTyF f r).map .slice
    | 'm' :: 'a' :: 'p' :: '[' :: r =>
      let k := r.takeWhile (· != ']')
      let v := (r.dropWhile (· != ']')).drop 1
      match parseTyF f k, parseTyF f v with
      | some k, some v => some (.map k v)
      | _, _ => none
    | _ =>
      let s := String.ofList cs
      if s == "time.Time" then some .time
      else match Basic.all.find? (·.name == s) with
        | some b => some (.basic b)
        | none => if isIdent cs then some (.named (asc s)) else none

def parseTy (s : String) : Option Ty := parseTyF (s.length + 1) s.toList

/-! ### `generateImports` -/

def hasInfix (p : Str) : Str → Bool
  | [] => p.isEmpty
  | c :: rest => p.isPrefixOf (c :: rest) || hasInfix p rest

/-- import paths gozodgen writes for a struct with these fields, beside `github.com/kaptinlin/gozod`
    (legacy: the `time` import is keyed on `field.Type.String()` containing "time.Time", which the marker type
    `main.timeType` never does: it is never written; with `sliceTyped`: keyed on the constructor text of the field — `baseConstructor`, never a rule parameter) -/
def importsOf (W : WriterFacts) (fields : List (List Rule)) (chains : List Chain) : List String :=
  let has (ns : List String) := fields.any fun rs => rs.any fun r => ns.any fun n => r.name = asc n
  (if W.sliceTyped ∧ chains.any (fun c => match c.ctor with
        | .enum _ | .uuid | .url => false          -- a string field: baseConstructor("string") = gozod.String()
        | e => hasInfix (asc "time.Time") e.render) then ["time"] else []) ++
  (if has ["trim", "lowercase", "uppercase"] then ["strings"] else []) ++
  (if (fields.zip chains).any (fun fc => fc.1.any (fun r => r.name = asc "regex") ∧ fc.2.calls.any (fun k => k.name == "Regex")) then ["regexp"] else []) ++
  (if W.urlImport ∧ has ["url"] then ["net/url"] else []) ++
  (if has ["ipv4", "ipv6"] then ["net"] else []) ++
  (if has ["refine", "check"] then ["github.com/kaptinlin/gozod/core"] else [])


/-! ### the analyzer: keys of a field declaration with several names, files outside the default build -/

/-- `parseStructFields` / `extractJSONName` for one field declaration `n₁, n₂, … T` without a json tag: the key written for
    each name. The analyzer of round 4 falls back to `field.Names[0]` for every name; with `multiName` to the name itself. -/
def fieldKeys (multiName : Bool) (names : List Str) : List Str :=
  if multiName then names else names.map fun _ => names.headD []

/-- where a tagged struct is declared -/
inductive SrcKind
  | plain          -- a .go file that is part of every build
  | testFile       -- a _test.go file
  | constrained    -- a file with a //go:build line, or a GOOS / GOARCH file-name suffix
  deriving DecidableEq, Repr

/-- `outputPath` + the template: the generated file is `<snake(struct)>_gen.go` beside the source, it is never a _test file
    and carries no build constraint — so it is part of every build, and it refers to the struct type: the package still
    builds only if the struct is part of every build too -/
def packageStillBuilds (skipTestFiles : Bool) : SrcKind → Bool
  | .plain => true
  | .testFile => skipTestFiles        -- with `skipTestFiles` nothing is generated for the struct
  | .constrained => false

end Gozod.GenEmit
