"""C01 — primitive schemas accept exactly the values satisfying type and every check."""
import os, subprocess
from . import common as C

MANIFEST = dict(
   technique="Lean 4 proof (ParsePrimitive type dispatch + the C10 check-engine theorems + the C16 exactness theorems + exact binary64 rounding lemmas for float MultipleOf) + go/ast method table of the six primitive types regenerated on every run and decided whole (`decide +kernel`) + differential correspondence on real string / integer / float / bool / enum / literal schemas over every Go kind of input",
   text="c01_accept_iff: for every primitive schema, check chain, environment and non-nil input, Parse succeeds iff the input is a value of the schema's type (or a pointer to one) and no check fails on the value threaded through the overwrites before it; c01_result: the returned value is exactly that threaded value; c01_foreign_rejected; c01_num_holds_spec bridges every numeric check to the mathematical relation (via C16); c01_float_multipleOf: for every pair of binary64 bit patterns the float MultipleOf check equals the documented epsilon-relation on the exact remainder and difference (rounding lemmas in Proofs/FloatMulRound); c01_float_cmp/_nan_rejected/_finite_iff/_safe_iff/_int; c01_enum_iff / c01_enum_spec_iff (Go's == on interface values — the definition the driver runs — accepts exactly 'one of the listed values': same dynamic type and same value, NaN none, +0 = -0; the spec oracle decides that meaning by other means); holds_iff_spec (every string check of the model = its documented meaning Str.Spec: exists prefix / suffix / split, forall byte) and c01_str_accept_iff_spec (acceptance restated with it); seenAt_compose (the returned value is the left-to-right composition of exactly the declared overwrites), trim_idem / lower_idem / upper_idem, strU_apply_ascii / strU_parse_ascii (Go's Unicode TrimSpace/ToLower/ToUpper model = ASCII model on ASCII input); c01_methods_classified: every exported method of ZodString/ZodIntegerTyped/ZodFloatTyped/ZodBool/ZodEnum/ZodLiteral in the CURRENT source is modelled (and delegates to the transcribed check factory) or listed as outside C01 (c01_opaque_methods pins that list). Tie: Gen/PrimMethods.lean and Gen/CaseTable.lean regenerated on every run; every exported constructor of the six types (String/StringPtr, Int8..Uint64/..Ptr, Float/Number/Float32/64/..Ptr, types.Byte/Rune/Integer/IntegerTyped/FloatTyped/StringTyped/BoolTyped incl. instantiations with named Go types, Bool/BoolPtr, Enum/EnumSlice/EnumPtr/Literal/LiteralOf/LiteralPtr) with boundary-directed chains on values, pointers, pointers to pointers and 27 foreign Go kinds; non-ASCII and invalid UTF-8 inputs through every chain (Unicode TrimSpace/ToLower/ToUpper modelled); the implementation is also judged directly by the documented meaning (spec verdict computed without the model's predicates: string checks as regular languages through the derivative matcher of Model/Regex.lean (Str.specHolds), numerics through specHolds, enum/literal through GoEq.specOneOf).",
   note="Trusted: Lean kernel; axioms propext/Classical.choice/Quot.sound at most; harness + comparer; the Go toolchain's unicode tables (regenerated into Gen/CaseTable.lean) and utf8 decoding as transcribed in Model/StrU.lean (Proofs/C01StrU: on ASCII input the Unicode model IS the ASCII model, through the whole engine — strU_parse_ascii; idempotence laws; beyond ASCII the run decides). String semantics are byte-level (Go len/HasPrefix/Contains). Regex: four fixed patterns and pure-literal patterns only; Email/JSON/JWT/MAC are C20's, Normalize/Slugify and Coerce are outside (pinned by c01_opaque_methods). The epsilon of float MultipleOf is the float-computed max(1e-10, |d|*1e-6) of the code comment. Float.Int accepts +-Inf (Trunc(Inf) == Inf), read as 'no fractional part'. Named Go types: foreign for the constructors of the predeclared types (documented strict type semantics); the schema's own type for the generic constructors — where built-in checks reject every value (open numN:*) and StringTyped/BoolTyped accept nothing (open strN:*, boolN:*).",
   design="DESIGN.md §5 C01; notes/C01.md")

MODULES = ["Gozod.Proofs.C01", "Gozod.Proofs.C01Methods", "Gozod.Proofs.C01StrU", "Gozod.Proofs.C01Enum", "Gozod.Proofs.C01StrSpec"]
THEOREMS = ["Gozod.C01." + t for t in ["c01_accept_iff", "c01_result", "c01_foreign_rejected", "c01_num_holds_spec", "c01_enum_iff", "c01_enum_spec_iff", "c01_enum_model_eq_spec", "c01_enum_nan", "c01_enum_other_type", "goEq_iff", "isIntF_eq_spec",
    "c01_methods_classified", "c01_methods_nonempty", "c01_opaque_methods",
    "c01_float_multipleOf", "c01_float_cmp", "c01_float_nan_rejected", "c01_float_finite_iff", "c01_float_safe_iff", "c01_float_int"]] + [
    "Gozod.FloatMul.implMultF_eq_specMultF", "Gozod.FloatMul.ofBits_rep"] + ["Gozod.C01." + t for t in [
    "trim_ascii", "strU_apply_ascii", "apply_ascii_closed", "strU_run_ascii", "strU_runOn_ascii", "strU_parse_ascii",
    "trim_idem", "trim_no_space_ends", "lower_idem", "upper_idem", "lower_then_lowercase", "upper_then_uppercase",
    "strU_trim_idem", "strU_lower_idem", "strU_upper_idem", "seenAt_compose", "seenAt_no_overwrite",
    "holds_iff_spec", "checkFails_iff_spec", "c01_str_accept_iff_spec", "isInfix_iff"]]

def key(op, impl, M, S):
    kind = C.op_body(op).split(" ")[1]
    how = C.op_comment(op).split(" ")[0]
    if impl.startswith("panic"): return "%s:panic" % kind
    why = (S or "").split(":")[1] if (S or "").startswith("spec-rejects:") else "model-differs"
    obs = "ok" if impl.startswith("ok:") else ":".join(impl.split(":")[:2])
    return "%s:%s:%s:%s" % (kind, how, why, obs)

def describe(op):
    return "harness/cmd/c01: str = String()/StringPtr() + checks; num <kind> <ptr-variant> checks (cmp op bound | mul d); enum/literal value sets; input after '|'"

GEN_METHODS = os.path.join(C.LEAN, "Gozod", "Gen", "PrimMethods.lean")
GEN_CASE = os.path.join(C.LEAN, "Gozod", "Gen", "CaseTable.lean")

def translate(res):
    """Regenerate Gen/PrimMethods.lean (go/ast over the six primitive types of REPO) and Gen/CaseTable.lean
    (the toolchain's unicode tables); the files are rewritten only when their content changes."""
    ok, out = C.build_harness("C01")
    if not ok:
        return "harness does not build against the current tree:\n" + out[-3000:]
    before = [open(f).read() if os.path.exists(f) else "" for f in (GEN_METHODS, GEN_CASE)]
    rc, out = C.run([C.harness_bin("C01"), "-out", C.BUILD, "-gen-methods", GEN_METHODS, "-gen-casetable", GEN_CASE, "-repo", C.REPO], env=C.goenv(), timeout=600)
    if rc != 0:
        return "translator failed (rc=%d): %s" % (rc, out[-2000:])
    for f, b in zip((GEN_METHODS, GEN_CASE), before):
        if open(f).read() != b: res.notes.append("%s changed and was rewritten" % os.path.relpath(f, C.VERIF))
    return ""

def method_offenders():
    """Which entries of the regenerated method table the expectation does not cover (asks the driver)."""
    try:
        p = subprocess.run([C.driver_bin("C01")], input="c01 methods\n", capture_output=True, text=True, timeout=120)
        return p.stdout.strip()
    except Exception as e:
        return "(driver unavailable: %s)" % e

def run(res):
    with C.Lock("c01-gen"):
        return _run(res)

def _run(res):
    err = translate(res)
    if err:
        C.tie_broken(res, "translator C01/PrimMethods", err)
        return res.finish()
    ok, detail = C.prove(res, MODULES, THEOREMS)
    if not ok:
        C.lake_build(["driver_c01"])
        if "C01Methods" in detail or "c01_methods" in detail:
            detail = ("the method table regenerated from the source differs from the expectation in Model/PrimMethodsSpec.lean:\n  "
                      + method_offenders().replace(" ; ", "\n  ") + "\n\n" + detail)
        C.tie_broken(res, "proof Gozod.Proofs.C01", detail)
    data, err = C.correspond(res, "C01", feed_impl=True)
    if data is None:
        C.tie_broken(res, "correspondence C01/ParsePrimitive", err)
        return res.finish()
    C.decide(res, "C01", data, key, "C01/ParsePrimitive+checks", describe=describe)
    res.coverage["rule"] = ("strings: String()/StringPtr(), 0-8 checks (Min/Max/Length at len-1..len+1, StartsWith/EndsWith/Includes on fragments of the input, Lowercase/Uppercase, Trim/ToLowerCase/ToUpperCase, 4 fixed regexes, "
        "pure-literal regexes in 6 anchoring shapes) on ASCII and non-ASCII inputs (cased/caseless runes of every UTF-8 width, every Unicode white-space rune, invalid and truncated sequences, random runes < U+20000) as string, *string, **string and foreign kinds; "
        "numerics: 12 kinds x value/pointer constructors, 0-7 checks (Gt/Gte/Lt/Lte/Min/Max/sign shorthands at and next to the input, Safe, Finite, integer MultipleOf/Step, float MultipleOf/Step with divisors placing the input at / 1 ulp / (1+-1e-3)*epsilon around a multiple, Float.Int) on value, pointer, pointer-to-pointer and foreign inputs; "
        "constructors: every exported one incl. aliases and the generic constructors of package types, 5-8% instantiated with a named Go type (numN/strN/boolN lines); "
        "enum/literal over string, int, bool, float64 and mixed-any value sets with every constructor variant, inputs in, out, equal values of other dynamic types, named types, pointers; Bool/BoolPtr with 0-2 refinements on bool, *bool, **bool, foreign. "
        "translators: method table (go/ast, all exported methods of the six types) and unicode tables. distinct = distinct op lines.")
    res.assumptions += ["byte-level string semantics", "Go toolchain unicode tables (Gen/CaseTable.lean) for TrimSpace/ToLower/ToUpper",
                        "float MultipleOf epsilon = float-computed max(1e-10, |d|*1e-6)"]
    return res.finish()
