import Gozod.Drv.Loop
import Gozod.Drv.C08
def main : IO Unit := Gozod.Drv.runTokens Gozod.Drv.C08.handle
