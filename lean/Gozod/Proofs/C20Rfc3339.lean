/-
  C20 — validator side of ISO date-time: `validate.ISODateTime` = `regex.DefaultDatetime.MatchString(s)` ∧ `time.Parse(time.RFC3339, s)`.

      c20_isodatetime : ∀ s, (accepts Gen.val_isodatetime s && Parsers.goRFC3339 s) = (Fmt.isoDateTime false).run s

  The guard pattern is RFC 3339 with optional seconds (`c20_isodatetime_pattern_optsec_full`, certificate), the
  transcription of `time.Parse(RFC3339)` is lenient in three other ways (one-digit hour, ',' before the fraction,
  offsets up to 24:60) but insists on the seconds; together they are exactly RFC 3339.

  Proof: both the definition and the Go parser split into the date (ten bytes, `dateThen_split` / `goDatePrefix_split`,
  `c20_isodate`) and a tail.  The tail automaton is characterised as a recursive-descent recogniser (`specTail optSec`,
  by stage lemmas `R10 … R26`, the fraction loop `run21` by induction over the digits), and
  `specTail true t && goTail t = specTail false t` is a case analysis on the first bytes of `t`.
-/
import Gozod.Proofs.C20Parsers
import Gozod.Gen.Regexes
namespace Gozod.C20
open Gozod Gozod.Re Gozod.Fmt Gozod.Parsers

/-! ## the tail automaton without wrappers -/

def tstepO (b : Bool) (o : Option DateSt) (c : Nat) : Option DateSt := o.bind (fun q => timeStep b q c)

/-- the tail automaton started in `q` -/
def runT (b : Bool) (q : DateSt) (t : List Nat) : Bool := accD (fun q => q.pos = 27) (t.foldl (tstepO b) (some q))

theorem timeStep_none_outside (b : Bool) (q : DateSt) (c : Nat) (h : dtSupport.elem c = false) : timeStep b q c = none := by
  have hd : isDigit c = false := by
    cases hd : isDigit c with
    | false => rfl
    | true => rw [dtSupport_sup c (digit_or_dash_elem (Or.inl hd))] at h; cases h
  have h43 : c ≠ 43 := by intro e; subst e; revert h; decide
  have h45 : c ≠ 45 := by intro e; subst e; revert h; decide
  have h46 : c ≠ 46 := by intro e; subst e; revert h; decide
  have h58 : c ≠ 58 := by intro e; subst e; revert h; decide
  have h84 : c ≠ 84 := by intro e; subst e; revert h; decide
  have h90 : c ≠ 90 := by intro e; subst e; revert h; decide
  simp [timeStep, hd, h43, h45, h46, h58, h84, h90]

theorem tail_fold (b : Bool) : ∀ (t : List Nat) (o : Option DateSt), (∀ q, o = some q → 10 ≤ q.pos) →
    t.foldl (gD dtSupport (thenStep (timeStep b))) o = t.foldl (tstepO b) o
  | [], _, _ => rfl
  | c :: t, o, ho => by
    have e : gD dtSupport (thenStep (timeStep b)) o c = tstepO b o c := by
      cases o with
      | none => rfl
      | some q =>
        have hq : ¬ q.pos < 10 := by have := ho q rfl; omega
        simp only [gD, thenStep, if_neg hq, tstepO, Option.bind]
        by_cases hc : dtSupport.elem c = true
        · rw [if_pos hc]
        · rw [if_neg hc, timeStep_none_outside b q c (by simpa using hc)]
    simp only [List.foldl_cons]
    rw [e]
    refine tail_fold b t _ ?_
    intro q' hq'
    cases o with
    | none => cases hq'
    | some q => exact timeStep_pos (ho q rfl) hq'

theorem tail_run (b : Bool) (t : List Nat) : (dtTailRfc b).run t = runT b afterDate t := by
  rw [dtTailRfc_eq, run_dateThen]
  unfold runD runT
  rw [tail_fold b t (some afterDate) (fun q h => by cases h; decide)]

theorem foldl_tstepO_none (b : Bool) : ∀ t : List Nat, t.foldl (tstepO b) none = none
  | [] => rfl
  | _ :: t => foldl_tstepO_none b t

theorem runT_nil (b : Bool) (q : DateSt) : runT b q [] = decide (q.pos = 27) := rfl

theorem runT_cons (b : Bool) (q : DateSt) (c : Nat) (r : List Nat) :
    runT b q (c :: r) = match timeStep b q c with | some q' => runT b q' r | none => false := by
  unfold runT
  simp only [List.foldl_cons, tstepO, Option.bind]
  cases timeStep b q c with
  | none => simp only []; rw [show (List.foldl (tstepO b) none r) = none from foldl_tstepO_none b r]; rfl
  | some q' => rfl

/-! ### stage lemmas: one byte from each position -/

theorem R10 (b : Bool) (c : Nat) (r : List Nat) : runT b ⟨10, 0, 0, 0, 0⟩ (c :: r) = (decide (c = 84) && runT b ⟨11, 0, 0, 0, 0⟩ r) := by
  rw [runT_cons]; by_cases h : c = 84 <;> simp [timeStep, h]
theorem R11 (b : Bool) (y c : Nat) (r : List Nat) : runT b ⟨11, y, 0, 0, 0⟩ (c :: r) = (isDigit c && runT b ⟨12, y, 0, 0, c - 48⟩ r) := by
  rw [runT_cons]; by_cases h : isDigit c = true <;> simp [timeStep, h]
theorem R12 (b : Bool) (y t c : Nat) (r : List Nat) :
    runT b ⟨12, y, 0, 0, t⟩ (c :: r) = ((isDigit c && decide (t * 10 + (c - 48) ≤ 23)) && runT b ⟨13, y, 0, 0, 0⟩ r) := by
  rw [runT_cons]; by_cases h : isDigit c = true <;> by_cases h2 : t * 10 + (c - 48) ≤ 23 <;> simp [timeStep, h, h2]
theorem R13 (b : Bool) (y c : Nat) (r : List Nat) : runT b ⟨13, y, 0, 0, 0⟩ (c :: r) = (decide (c = 58) && runT b ⟨14, y, 0, 0, 0⟩ r) := by
  rw [runT_cons]; by_cases h : c = 58 <;> simp [timeStep, h]
theorem R14 (b : Bool) (y c : Nat) (r : List Nat) : runT b ⟨14, y, 0, 0, 0⟩ (c :: r) = (isDigit c && runT b ⟨15, y, 0, 0, c - 48⟩ r) := by
  rw [runT_cons]; by_cases h : isDigit c = true <;> simp [timeStep, h]
theorem R15 (b : Bool) (y t c : Nat) (r : List Nat) :
    runT b ⟨15, y, 0, 0, t⟩ (c :: r) = ((isDigit c && decide (t * 10 + (c - 48) ≤ 59)) && runT b ⟨16, y, 0, 0, 0⟩ r) := by
  rw [runT_cons]; by_cases h : isDigit c = true <;> by_cases h2 : t * 10 + (c - 48) ≤ 59 <;> simp [timeStep, h, h2]
theorem R17 (b : Bool) (y c : Nat) (r : List Nat) : runT b ⟨17, y, 0, 0, 0⟩ (c :: r) = (isDigit c && runT b ⟨18, y, 0, 0, c - 48⟩ r) := by
  rw [runT_cons]; by_cases h : isDigit c = true <;> simp [timeStep, h]
theorem R18 (b : Bool) (y t c : Nat) (r : List Nat) :
    runT b ⟨18, y, 0, 0, t⟩ (c :: r) = ((isDigit c && decide (t * 10 + (c - 48) ≤ 59)) && runT b ⟨19, y, 0, 0, 0⟩ r) := by
  rw [runT_cons]; by_cases h : isDigit c = true <;> by_cases h2 : t * 10 + (c - 48) ≤ 59 <;> simp [timeStep, h, h2]
theorem R20 (b : Bool) (y c : Nat) (r : List Nat) : runT b ⟨20, y, 0, 0, 0⟩ (c :: r) = (isDigit c && runT b ⟨21, y, 0, 0, 0⟩ r) := by
  rw [runT_cons]; by_cases h : isDigit c = true <;> simp [timeStep, h]
theorem R22 (b : Bool) (y c : Nat) (r : List Nat) : runT b ⟨22, y, 0, 0, 0⟩ (c :: r) = (isDigit c && runT b ⟨23, y, 0, 0, c - 48⟩ r) := by
  rw [runT_cons]; by_cases h : isDigit c = true <;> simp [timeStep, h]
theorem R23 (b : Bool) (y t c : Nat) (r : List Nat) :
    runT b ⟨23, y, 0, 0, t⟩ (c :: r) = ((isDigit c && decide (t * 10 + (c - 48) ≤ 23)) && runT b ⟨24, y, 0, 0, 0⟩ r) := by
  rw [runT_cons]; by_cases h : isDigit c = true <;> by_cases h2 : t * 10 + (c - 48) ≤ 23 <;> simp [timeStep, h, h2]
theorem R24 (b : Bool) (y c : Nat) (r : List Nat) : runT b ⟨24, y, 0, 0, 0⟩ (c :: r) = (decide (c = 58) && runT b ⟨25, y, 0, 0, 0⟩ r) := by
  rw [runT_cons]; by_cases h : c = 58 <;> simp [timeStep, h]
theorem R25 (b : Bool) (y c : Nat) (r : List Nat) : runT b ⟨25, y, 0, 0, 0⟩ (c :: r) = (isDigit c && runT b ⟨26, y, 0, 0, c - 48⟩ r) := by
  rw [runT_cons]; by_cases h : isDigit c = true <;> simp [timeStep, h]
theorem R26 (b : Bool) (y t c : Nat) (r : List Nat) :
    runT b ⟨26, y, 0, 0, t⟩ (c :: r) = ((isDigit c && decide (t * 10 + (c - 48) ≤ 59)) && runT b ⟨27, y, 0, 0, 0⟩ r) := by
  rw [runT_cons]; by_cases h : isDigit c = true <;> by_cases h2 : t * 10 + (c - 48) ≤ 59 <;> simp [timeStep, h, h2]
theorem R27 (b : Bool) (y : Nat) (r : List Nat) : runT b ⟨27, y, 0, 0, 0⟩ r = r.isEmpty := by
  cases r with
  | nil => rfl
  | cons c r => rw [runT_cons]; simp [timeStep]

/-! ### the tail as a recursive-descent recogniser -/

/-- a numeric offset after its sign: hh ':' mm, hh ≤ 23, mm ≤ 59 -/
def offS : List Nat → Bool
  | h1 :: h2 :: c :: m1 :: m2 :: rest =>
    isDigit h1 && ((isDigit h2 && decide ((h1 - 48) * 10 + (h2 - 48) ≤ 23)) && (decide (c = 58) && (isDigit m1 &&
      ((isDigit m2 && decide ((m1 - 48) * 10 + (m2 - 48) ≤ 59)) && rest.isEmpty))))
  | _ => false

/-- the zone of RFC 3339: 'Z' or a numeric offset -/
def zoneS : List Nat → Bool
  | [] => false
  | c :: r => if c = 90 then r.isEmpty else if c = 43 ∨ c = 45 then offS r else false

theorem run22 (b : Bool) (y : Nat) (r : List Nat) : runT b ⟨22, y, 0, 0, 0⟩ r = offS r := by
  rcases r with _ | ⟨h1, _ | ⟨h2, _ | ⟨c, _ | ⟨m1, _ | ⟨m2, rest⟩⟩⟩⟩⟩
  all_goals simp [offS, R22, R23, R24, R25, R26, R27, runT_nil]

/-- the step `zone` of `timeStep` in a state ⟨p, y, 0, 0, 0⟩ -/
def zoneGo (y c : Nat) : Option DateSt :=
  if c = 90 then some ⟨27, y, 0, 0, 0⟩ else if c = 43 ∨ c = 45 then some ⟨22, y, 0, 0, 0⟩ else none

theorem zone_run (b : Bool) (y c : Nat) (r : List Nat) :
    (match zoneGo y c with | some q' => runT b q' r | none => false) = zoneS (c :: r) := by
  unfold zoneGo zoneS
  by_cases h90 : c = 90
  · simp [h90, R27]
  · by_cases hs : c = 43 ∨ c = 45
    · simp [h90, hs, run22]
    · simp [h90, hs]

/-- the fraction digits after the first one: any number of digits, then the zone -/
theorem run21 (b : Bool) (y : Nat) : ∀ r : List Nat, runT b ⟨21, y, 0, 0, 0⟩ r = zoneS (dropDigits r)
  | [] => rfl
  | c :: r => by
    rw [runT_cons]
    by_cases hd : isDigit c = true
    · have e : timeStep b ⟨21, y, 0, 0, 0⟩ c = some ⟨21, y, 0, 0, 0⟩ := by simp [timeStep, hd]
      rw [e]; simp only [dropDigits, hd, if_true]
      exact run21 b y r
    · have e : timeStep b ⟨21, y, 0, 0, 0⟩ c = zoneGo y c := by
        simp only [Bool.not_eq_true] at hd
        simp [timeStep, hd, zoneGo]
      rw [e, zone_run]; simp [dropDigits, hd]

/-- after the seconds: an optional fraction '.' digit+, then the zone -/
def fracS : List Nat → Bool
  | [] => false
  | c :: r => if c = 46 then (match r with | d :: r' => isDigit d && zoneS (dropDigits r') | [] => false) else zoneS (c :: r)

theorem run19 (b : Bool) (y : Nat) (r : List Nat) : runT b ⟨19, y, 0, 0, 0⟩ r = fracS r := by
  cases r with
  | nil => rfl
  | cons c r =>
    rw [runT_cons]
    by_cases h : c = 46
    · have e : timeStep b ⟨19, y, 0, 0, 0⟩ c = some ⟨20, y, 0, 0, 0⟩ := by simp [timeStep, h]
      rw [e]; simp only [fracS, h, if_true]
      cases r with
      | nil => rfl
      | cons d r' => rw [R20, run21]
    · have e : timeStep b ⟨19, y, 0, 0, 0⟩ c = zoneGo y c := by simp [timeStep, h, zoneGo]
      rw [e, zone_run]; simp [fracS, h]

/-- the seconds field and what follows -/
def secS : List Nat → Bool
  | s1 :: s2 :: r => isDigit s1 && ((isDigit s2 && decide ((s1 - 48) * 10 + (s2 - 48) ≤ 59)) && fracS r)
  | _ => false

theorem run17 (b : Bool) (y : Nat) (r : List Nat) : runT b ⟨17, y, 0, 0, 0⟩ r = secS r := by
  rcases r with _ | ⟨s1, _ | ⟨s2, r⟩⟩
  · rfl
  · simp [secS, R17, runT_nil]
  · simp only [secS, R17, R18, run19]

/-- after hh:mm — ':' and the seconds, or (only when the seconds are optional) the zone at once -/
def afterMin (b : Bool) : List Nat → Bool
  | [] => false
  | c :: r => if c = 58 then secS r else (b && zoneS (c :: r))

theorem run16 (b : Bool) (r : List Nat) : runT b ⟨16, 0, 0, 0, 0⟩ r = afterMin b r := by
  cases r with
  | nil => rfl
  | cons c r =>
    rw [runT_cons]
    by_cases h : c = 58
    · have e : timeStep b ⟨16, 0, 0, 0, 0⟩ c = some ⟨17, 0, 0, 0, 0⟩ := by simp [timeStep, h]
      rw [e]; simp only [afterMin, h, if_true]; exact run17 b 0 r
    · cases b with
      | false =>
        have e : timeStep false ⟨16, 0, 0, 0, 0⟩ c = none := by simp [timeStep, h]
        rw [e]; simp [afterMin, h]
      | true =>
        have e : timeStep true ⟨16, 0, 0, 0, 0⟩ c = zoneGo 1 c := by
          simp only [timeStep, zoneGo]
          by_cases h90 : c = 90
          · simp [h90]
          · by_cases hs : c = 43 ∨ c = 45
            · simp [h, h90, hs]
            · simp [h, h90, hs]
        rw [e, zone_run]; simp [afterMin, h]

/-- 'T' hh ':' mm with hh ≤ 23, mm ≤ 59 -/
def timePrefix (c0 c1 c2 c3 c4 c5 : Nat) : Bool :=
  decide (c0 = 84) && (isDigit c1 && ((isDigit c2 && decide ((c1 - 48) * 10 + (c2 - 48) ≤ 23)) && (decide (c3 = 58) &&
    (isDigit c4 && (isDigit c5 && decide ((c4 - 48) * 10 + (c5 - 48) ≤ 59))))))

/-- RFC 3339 after the date (`optSec = true`: the seconds may be left out) -/
def specTail (b : Bool) : List Nat → Bool
  | c0 :: c1 :: c2 :: c3 :: c4 :: c5 :: rest => timePrefix c0 c1 c2 c3 c4 c5 && afterMin b rest
  | _ => false

theorem tail_spec (b : Bool) (t : List Nat) : (dtTailRfc b).run t = specTail b t := by
  rw [tail_run]
  rcases t with _ | ⟨c0, _ | ⟨c1, _ | ⟨c2, _ | ⟨c3, _ | ⟨c4, _ | ⟨c5, rest⟩⟩⟩⟩⟩⟩
  all_goals simp only [afterDate, specTail, timePrefix, R10, R11, R12, R13, R14, R15, run16, runT_nil]
  all_goals simp [Bool.and_assoc]

/-! ## the Go parser: date prefix, then the tail -/

/-- `goRFC3339` after `goDatePrefix` (the rest of its `do` block) -/
def goTail (s : List Nat) : Bool :=
  (do
    let s ← lit 84 s
    let (h, s) ← take1or2 s
    let s ← lit 58 s
    let (mi, s) ← takeDigits 2 s
    let s ← lit 58 s
    let (sec, s) ← takeDigits 2 s
    if h ≥ 24 ∨ mi ≥ 60 ∨ sec ≥ 60 then none
    let s := match s with
      | p :: d :: rest => if (p = 46 ∨ p = 44) ∧ isDigit d then dropDigits rest else s
      | _ => s
    some (goZone s)).getD false

theorem goRFC3339_eq (s : List Nat) :
    goRFC3339 s = match goDatePrefix s with | some r => goTail r | none => false := by
  unfold goRFC3339 goTail
  cases goDatePrefix s <;> rfl

theorem goDatePrefix10 (a b c d e f g h i j : Nat) (rest : List Nat) :
    goDatePrefix (a :: b :: c :: d :: e :: f :: g :: h :: i :: j :: rest)
      = if dateShape [a, b, c, d, e, f, g, h, i, j] then some rest else none := by
  simp only [goDatePrefix, td4, td2, lit, dateShape, bind, Option.bind]
  by_cases h1 : isDigit a ∧ isDigit b ∧ isDigit c ∧ isDigit d
  · by_cases he : e = 45
    · by_cases h2 : isDigit f ∧ isDigit g
      · by_cases hh : h = 45
        · by_cases h3 : isDigit i ∧ isDigit j
          · simp [h1, he, h2, hh, h3, td2, lit]
          · simp [h1, he, h2, hh, h3, td2, lit]
        · simp [h1, he, h2, hh, td2, lit]
      · simp [h1, he, h2, td2, lit]
    · simp [h1, he, lit]
  · simp [h1]; intros; simp_all

/-- the Go date prefix is the calendar date on the first ten bytes; the rest is what remains -/
theorem goDatePrefix_split (s : List Nat) :
    goDatePrefix s = if isoDate.run (s.take 10) then some (s.drop 10) else none := by
  by_cases hl : 10 ≤ s.length
  · rcases s with _ | ⟨a, _ | ⟨b, _ | ⟨c, _ | ⟨d, _ | ⟨e, _ | ⟨f, _ | ⟨g, _ | ⟨h, _ | ⟨i, _ | ⟨j, rest⟩⟩⟩⟩⟩⟩⟩⟩⟩⟩
    all_goals first | (simp at hl; done) | skip
    rw [goDatePrefix10]
    have e : isoDate.run (List.take 10 (a :: b :: c :: d :: e :: f :: g :: h :: i :: j :: rest))
        = dateShape [a, b, c, d, e, f, g, h, i, j] := isoDate10 a b c d e f g h i j
    simp only [e, List.drop]
  · have h1 : goDatePrefix s = none := by
      cases hg : goDatePrefix s with
      | none => rfl
      | some r => have := goDatePrefix_length hg; omega
    have h2 : isoDate.run (s.take 10) = false := by
      cases hg : isoDate.run (s.take 10) with
      | false => rfl
      | true => have := date_length hg; rw [List.length_take] at this; omega
    rw [h1, h2]; rfl

/-! ## guard pattern ∧ Go parser = RFC 3339, on the tail -/

theorem offS_goZone (sg : Nat) (hs : sg = 43 ∨ sg = 45) (r : List Nat) (h : offS r = true) : goZone (sg :: r) = true := by
  rcases r with _ | ⟨h1, _ | ⟨h2, _ | ⟨c, _ | ⟨m1, _ | ⟨m2, rest⟩⟩⟩⟩⟩
  all_goals first | (simp [offS] at h; done) | skip
  simp only [offS, Bool.and_eq_true, decide_eq_true_eq, List.isEmpty_iff] at h
  obtain ⟨a1, ⟨a2, a3⟩, a4, a5, ⟨a6, a7⟩, a8⟩ := h
  subst a8
  have hsg : (decide (sg = 43) || decide (sg = 45)) = true := by rcases hs with h | h <;> simp [h]
  simp only [goZone, hsg, a1, a2, a4, a5, a6, Bool.true_and, Bool.and_true, decide_true, Bool.and_eq_true, decide_eq_true_eq]
  omega

theorem zoneS_goZone (z : List Nat) (h : zoneS z = true) : goZone z = true := by
  cases z with
  | nil => simp [zoneS] at h
  | cons c r =>
    simp only [zoneS] at h
    by_cases h90 : c = 90
    · rw [if_pos h90] at h
      have : r = [] := by simpa using h
      subst this; subst h90; rfl
    · rw [if_neg h90] at h
      by_cases hs : c = 43 ∨ c = 45
      · rw [if_pos hs] at h; exact offS_goZone c hs r h
      · rw [if_neg hs] at h; cases h

/-- the head of a zone is 'Z', '+' or '-' -/
theorem zoneS_head {c : Nat} {r : List Nat} (h : zoneS (c :: r) = true) : c = 90 ∨ c = 43 ∨ c = 45 := by
  simp only [zoneS] at h
  by_cases h90 : c = 90
  · exact Or.inl h90
  · rw [if_neg h90] at h
    by_cases hs : c = 43 ∨ c = 45
    · exact Or.inr hs
    · rw [if_neg hs] at h; cases h

/-- what `goTail` does after the seconds -/
def goAfterSec (s : List Nat) : Bool :=
  goZone (match s with
    | p :: d :: rest => if (p = 46 ∨ p = 44) ∧ isDigit d then dropDigits rest else s
    | _ => s)

theorem fracS_go (r : List Nat) (h : fracS r = true) : goAfterSec r = true := by
  cases r with
  | nil => simp [fracS] at h
  | cons c r =>
    simp only [fracS] at h
    by_cases h46 : c = 46
    · rw [if_pos h46] at h
      cases r with
      | nil => simp at h
      | cons d r' =>
        simp only [Bool.and_eq_true] at h
        simp only [goAfterSec, h46, h.1, true_or, and_self, if_true]
        exact zoneS_goZone _ h.2
    · rw [if_neg h46] at h
      have hz := zoneS_goZone _ h
      have hh := zoneS_head h
      have h44 : c ≠ 44 := by omega
      cases r with
      | nil => simpa [goAfterSec] using hz
      | cons d r' => simp only [goAfterSec, h46, h44, false_or, false_and, if_false]; exact hz

theorem digit_lt {a : Nat} (h : isDigit a = true) : 48 ≤ a ∧ a ≤ 57 := by
  simpa [isDigit] using h

/-- the Go parser on a tail whose first six bytes are a well-formed 'T' hh ':' mm -/
theorem goTail_prefix (c0 c1 c2 c3 c4 c5 : Nat) (rest : List Nat) (hp : timePrefix c0 c1 c2 c3 c4 c5 = true) :
    goTail (c0 :: c1 :: c2 :: c3 :: c4 :: c5 :: rest) =
      match rest with
      | c6 :: s1 :: s2 :: r => decide (c6 = 58) && (isDigit s1 && isDigit s2 && decide ((s1 - 48) * 10 + (s2 - 48) < 60)) && goAfterSec r
      | _ => false := by
  simp only [timePrefix, Bool.and_eq_true, decide_eq_true_eq] at hp
  obtain ⟨e0, d1, ⟨d2, hh⟩, e3, d4, d5, hm⟩ := hp
  subst e0 e3
  have hh' : ¬ (c1 - 48) * 10 + (c2 - 48) ≥ 24 := by omega
  have hm' : ¬ (c4 - 48) * 10 + (c5 - 48) ≥ 60 := by omega
  rcases rest with _ | ⟨c6, _ | ⟨s1, _ | ⟨s2, r⟩⟩⟩
  · simp [goTail, lit, take1or2, d1, d2, td2, d4, d5, bind, Option.bind]
  · by_cases h6 : c6 = 58 <;> simp [goTail, lit, take1or2, d1, d2, td2, d4, d5, bind, Option.bind, h6, takeDigits]
  · by_cases h6 : c6 = 58 <;> simp [goTail, lit, take1or2, d1, d2, td2, d4, d5, bind, Option.bind, h6, takeDigits]
  · by_cases h6 : c6 = 58
    · by_cases hs : isDigit s1 = true ∧ isDigit s2 = true
      · by_cases hv : (s1 - 48) * 10 + (s2 - 48) < 60
        · have hv' : ¬ (s1 - 48) * 10 + (s2 - 48) ≥ 60 := by omega
          simp [goTail, goAfterSec, lit, take1or2, d1, d2, td2, d4, d5, bind, Option.bind, h6, hs, hh', hm', hv, hv']
        · have hv' : (s1 - 48) * 10 + (s2 - 48) ≥ 60 := by omega
          simp [goTail, lit, take1or2, d1, d2, td2, d4, d5, bind, Option.bind, h6, hs, hv, hv']
      · have : ¬ (isDigit s1 = true ∧ isDigit s2 = true) := hs
        simp [goTail, lit, take1or2, d1, d2, td2, d4, d5, bind, Option.bind, h6, hs]
    · simp [goTail, lit, take1or2, d1, d2, td2, d4, d5, bind, Option.bind, h6]

/-- **on the tail: RFC 3339 with optional seconds ∧ the Go parser = RFC 3339** -/
theorem tail_guard_go (t : List Nat) : (specTail true t && goTail t) = specTail false t := by
  rcases t with _ | ⟨c0, _ | ⟨c1, _ | ⟨c2, _ | ⟨c3, _ | ⟨c4, _ | ⟨c5, rest⟩⟩⟩⟩⟩⟩
  all_goals first | (simp [specTail]; done) | skip
  simp only [specTail]
  cases hp : timePrefix c0 c1 c2 c3 c4 c5 with
  | false => simp
  | true =>
    rw [goTail_prefix _ _ _ _ _ _ rest hp]
    simp only [Bool.true_and]
    cases rest with
    | nil => rfl
    | cons c6 r =>
      by_cases h6 : c6 = 58
      · subst h6
        simp only [afterMin, if_true]
        rcases r with _ | ⟨s1, _ | ⟨s2, r'⟩⟩
        · rfl
        · simp [secS]
        · cases hs : secS (s1 :: s2 :: r') with
          | false => rfl
          | true =>
            simp only [secS, Bool.and_eq_true, decide_eq_true_eq] at hs
            obtain ⟨a1, ⟨a2, a3⟩, a4⟩ := hs
            have : (s1 - 48) * 10 + (s2 - 48) < 60 := by omega
            simp [a1, a2, this, fracS_go r' a4]
      · simp only [afterMin, if_neg h6, Bool.false_and, Bool.true_and]
        rcases r with _ | ⟨s1, _ | ⟨s2, r'⟩⟩ <;> simp [h6]

/-! ## the theorem -/

/-- **validate.ISODateTime (guard pattern ∧ `time.Parse(time.RFC3339)` as transcribed in `Parsers.goRFC3339`) accepts exactly the
    RFC 3339 date-times, for all strings** -/
theorem c20_isodatetime : ∀ s, (accepts Gen.val_isodatetime s && goRFC3339 s) = (isoDateTime false).run s := by
  intro s
  have e : Gen.val_isodatetime = Gen.pat_isodatetime := beq_eq (by decide +kernel)
  rw [e, c20_isodatetime_pattern_optsec_full, goRFC3339_eq, goDatePrefix_split]
  rw [isoDateTime_eq, isoDateTime_eq,
    dateThen_split dtSupport _ _ dtSupport_sup (fun q h => by simp; omega),
    dateThen_split dtSupport _ _ dtSupport_sup (fun q h => by simp; omega),
    ← dtTailRfc_eq, ← dtTailRfc_eq, tail_spec, tail_spec]
  cases hd : isoDate.run (s.take 10) with
  | false => simp
  | true => simp only [Bool.true_and, if_true]; exact tail_guard_go _

/-- the two conjuncts are both needed: the pattern alone takes `hh:mm` + zone, the parser alone takes the lenient forms -/
example : accepts Gen.val_isodatetime (b! "2024-12-06T15:30Z") = true ∧ goRFC3339 (b! "2024-12-06T15:30Z") = false ∧
    accepts Gen.val_isodatetime (b! "2024-12-06T15:30:00,5Z") = false ∧ goRFC3339 (b! "2024-12-06T15:30:00,5Z") = true ∧
    (isoDateTime false).run (b! "2024-02-29T23:59:59.123456789+23:59") = true ∧
    (accepts Gen.val_isodatetime (b! "2024-02-29T23:59:59.123456789+23:59") && goRFC3339 (b! "2024-02-29T23:59:59.123456789+23:59")) = true := by
  decide +kernel

end Gozod.C20
