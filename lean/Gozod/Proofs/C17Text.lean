/-
  C17, integer text sources without assumptions about strconv: for a string source whose
  text-derived fields are computed by `Gozod.Model.ParseInt` (`StrInfo.ofText`, which is how the
  driver builds every string source), the integer helpers return exactly the integer the text
  denotes — `Denotes`, the positional reading of sign? digit+ — or fail.

  * `c17_int64_text_sound` / `c17_integer_text_sound` — success ⇒ the (trimmed) text is blank and the
    result 0 (library convention), or it is a decimal numeral denoting the result, which fits the
    target type;
  * `c17_int64_text_complete` — a numeral denoting an int64 always converts (no spurious failure
    on plain numerals); `c17_int64_text_err` — any other non-blank text is an error;
  * `c17_text_roundtrip_i64` — `ToInt64(ToString(n)) = n` for every int64 `n`;
    `c17_text_roundtrip_big` — `ToBigInt(ToString(n)) = n` for every integer;
  * `c17_string_int_sound` — the string target from an integer / big-integer source: the text
    written is `FormatInt`'s, which denotes the source;
  * `c17_bigint_text_sound` — `ToBigInt` of a text: blank → 0, a decimal numeral → its value, or
    (after a `0x` prefix) what `SetString(·[2:],16)` read; `sign_after_prefix_witness`: that last
    reading accepts `"0x+1F"` (open known finding `sign-after-0x-prefix`).
-/
import Gozod.Proofs.C17
import Gozod.Proofs.C17Parse
namespace Gozod.C17T
open Gozod Gozod.Coerce Gozod.ParseInt Gozod.C17P

/-- What a text denotes as an integer: blank (after `TrimSpace`) reads as 0 — the library's
    convention — otherwise the decimal numeral's value. -/
def TextInt (bytes : List Nat) (n : Int) : Prop :=
  (trimSpace bytes = [] ∧ n = 0) ∨ Denotes (trimSpace bytes) n

theorem isEmpty_iff (l : List Nat) : l.isEmpty = true ↔ l = [] := by
  cases l <;> simp

theorem toInt64_text (b : List Nat) (nm : String) (p q : Option F) :
    toInt64 (.str (StrInfo.ofText b nm p q)) =
      if trimSpace b = [] then .ok 0 else
        match parseInt (trimSpace b) 64 with
        | some i => .ok i
        | none => .error .format := by
  simp only [toInt64, stringToInt64, StrInfo.ofText]
  by_cases h : trimSpace b = []
  · simp [h]
  · have : (trimSpace b).isEmpty = false := by
      cases hb : (trimSpace b).isEmpty with
      | false => rfl
      | true => exact absurd ((isEmpty_iff _).mp hb) h
    simp [h, this]
    cases parseInt (trimSpace b) 64 <;> rfl

/-- **ToInt64 of a text is sound**: the result is what the text denotes, and an int64. -/
theorem c17_int64_text_sound (b : List Nat) (nm : String) (p q : Option F) (n : Int)
    (h : toInt64 (.str (StrInfo.ofText b nm p q)) = .ok n) : TextInt b n ∧ IntTy.i64.inRange n := by
  rw [toInt64_text] at h
  by_cases hb : trimSpace b = []
  · rw [if_pos hb] at h; injection h with h; subst h
    exact ⟨Or.inl ⟨hb, rfl⟩, by decide⟩
  · rw [if_neg hb] at h
    cases hp : parseInt (trimSpace b) 64 with
    | none => rw [hp] at h; cases h
    | some i =>
      rw [hp] at h; injection h with h; subst h
      have ⟨hd, hlo, hhi⟩ := parseInt_sound _ 64 i hp
      refine ⟨Or.inr hd, (C17.i64_range i).mpr ⟨?_, ?_⟩⟩
      · simpa using hlo
      · have : i < 2 ^ 63 := by simpa using hhi
        omega

/-- **…and complete on numerals**: a text denoting an int64 (leading zeros, a plus sign, blanks
    around it allowed) converts to exactly that value. -/
theorem c17_int64_text_complete (b : List Nat) (nm : String) (p q : Option F) (n : Int)
    (hd : Denotes (trimSpace b) n) (hr : IntTy.i64.inRange n) :
    toInt64 (.str (StrInfo.ofText b nm p q)) = .ok n := by
  rw [toInt64_text, if_neg (denotes_ne_nil _ n hd)]
  have ⟨hlo, hhi⟩ := (C17.i64_range n).mp hr
  rw [parseInt_complete _ 64 n (by decide) hd (by simpa using hlo) (by show n < 2 ^ 63; omega)]

/-- Every other non-blank text is an error: no numeral, or one that does not fit. -/
theorem c17_int64_text_err (b : List Nat) (nm : String) (p q : Option F) (hne : trimSpace b ≠ [])
    (hno : ∀ n, Denotes (trimSpace b) n → ¬ IntTy.i64.inRange n) :
    ∃ e, toInt64 (.str (StrInfo.ofText b nm p q)) = .error e := by
  cases h : toInt64 (.str (StrInfo.ofText b nm p q)) with
  | error e => exact ⟨e, rfl⟩
  | ok n =>
    have ⟨ht, hr⟩ := c17_int64_text_sound b nm p q n h
    rcases ht with ⟨hb, _⟩ | hd
    · exact absurd hb hne
    · exact absurd hr (hno n hd)

/-- **ToInteger[T] of a text**, every integer target: the denoted value, within the type. -/
theorem c17_integer_text_sound (t : IntTy) (b : List Nat) (nm : String) (p q : Option F) (n : Int)
    (h : toInteger t (.str (StrInfo.ofText b nm p q)) = .ok n) : TextInt b n ∧ t.inRange n := by
  rw [C17.toInteger_nonbool t _ (by intro x hx; cases hx)] at h
  cases h64 : toInt64 (.str (StrInfo.ofText b nm p q)) with
  | error e => rw [h64] at h; cases h
  | ok v =>
    rw [h64] at h
    have ⟨hd, hr⟩ := c17_int64_text_sound b nm p q v h64
    have ⟨he, hin⟩ := C17.checkBounds_sound t v n hr h
    subst he
    exact ⟨hd, hin⟩

example : toInteger .i8 (.str (StrInfo.ofText [32, 43, 48, 49, 50, 55, 9] "" none none)) = .ok 127 ∧
    toInteger .i8 (.str (StrInfo.ofText [49, 50, 56] "" none none)) = .error .overflow ∧
    toInteger .u8 (.str (StrInfo.ofText [45, 49] "" none none)) = .error .negative ∧
    toInt64 (.str (StrInfo.ofText [49, 95, 48] "" none none)) = .error .format := by
  decide

/-! ## string target from integers; round trips -/

/-- **String target, integer sources**: the text is `FormatInt`'s and denotes the source. -/
theorem c17_string_int_sound (f g : F → List Nat) (t : IntTy) (v : Int) :
    toStr f g (.int t v) = .ok (formatInt v) ∧ toStr f g (.big v) = .ok (formatInt v) ∧
    Denotes (formatInt v) v :=
  ⟨rfl, rfl, formatInt_denotes v⟩

/-- `ToInt64(ToString(n)) = n` for every int64. -/
theorem c17_text_roundtrip_i64 (nm : String) (p q : Option F) (n : Int) (hr : IntTy.i64.inRange n) :
    toInt64 (.str (StrInfo.ofText (formatInt n) nm p q)) = .ok n := by
  apply c17_int64_text_complete _ nm p q n _ hr
  rw [trimSpace_formatInt]; exact formatInt_denotes n

theorem toBigInt_text (b : List Nat) (nm : String) (p q : Option F) :
    toBigInt (.str (StrInfo.ofText b nm p q)) =
      if trimSpace b = [] then .ok 0 else
        match parseBig (trimSpace b) 10 with
        | some i => .ok i
        | none => if hasHexPrefix (trimSpace b) then
            (match parseBig ((trimSpace b).drop 2) 16 with
              | some i => .ok i
              | none => .error .format)
          else .error .format := by
  simp only [toBigInt, stringToBig, StrInfo.ofText]
  by_cases h : trimSpace b = []
  · simp [h]
  · have : (trimSpace b).isEmpty = false := by
      cases hb : (trimSpace b).isEmpty with
      | false => rfl
      | true => exact absurd ((isEmpty_iff _).mp hb) h
    simp [h, this]
    cases parseBig (trimSpace b) 10 <;> cases parseBig (List.drop 2 (trimSpace b)) 16 <;>
      by_cases hx : hasHexPrefix (trimSpace b) = true <;> simp [hx]

/-- `ToBigInt(ToString(n)) = n` for every integer. -/
theorem c17_text_roundtrip_big (nm : String) (p q : Option F) (n : Int) :
    toBigInt (.str (StrInfo.ofText (formatInt n) nm p q)) = .ok n := by
  rw [toBigInt_text, trimSpace_formatInt, if_neg (denotes_ne_nil _ n (formatInt_denotes n)), parseBig_formatInt]

/-- **ToBigInt of a text**: 0 for a blank text, the numeral's value for a decimal numeral, else —
    after a `0x`/`0X` prefix only — what `SetString(text[2:], 16)` read. -/
theorem c17_bigint_text_sound (b : List Nat) (nm : String) (p q : Option F) (n : Int)
    (h : toBigInt (.str (StrInfo.ofText b nm p q)) = .ok n) :
    TextInt b n ∨ (hasHexPrefix (trimSpace b) = true ∧ parseBig ((trimSpace b).drop 2) 16 = some n) := by
  rw [toBigInt_text] at h
  by_cases hb : trimSpace b = []
  · rw [if_pos hb] at h; injection h with h; subst h; exact Or.inl (Or.inl ⟨hb, rfl⟩)
  · rw [if_neg hb] at h
    cases hp : parseBig (trimSpace b) 10 with
    | some i =>
      rw [hp] at h; injection h with h; subst h
      exact Or.inl (Or.inr (parseBig_sound _ _ hp))
    | none =>
      rw [hp] at h
      simp only [] at h
      by_cases hx : hasHexPrefix (trimSpace b) = true
      · rw [if_pos hx] at h
        cases h16 : parseBig ((trimSpace b).drop 2) 16 with
        | none => rw [h16] at h; cases h
        | some i => rw [h16] at h; injection h with h; subst h; exact Or.inr ⟨hx, rfl⟩
      · rw [if_neg hx] at h; cases h

/-- Witness for the open known finding `sign-after-0x-prefix`: `ToBigInt("0x+1F") = 31`,
    `ToBigInt("0X-ff") = -255`, while `"-0x1F"` is rejected. -/
theorem sign_after_prefix_witness :
    toBigInt (.str (StrInfo.ofText [48, 120, 43, 49, 70] "" none none)) = .ok 31 ∧
    toBigInt (.str (StrInfo.ofText [48, 88, 45, 102, 102] "" none none)) = .ok (-255) ∧
    toBigInt (.str (StrInfo.ofText [45, 48, 120, 49, 70] "" none none)) = .error .format := by
  decide

/-! ## float32 target and string target, source kind by source kind -/

/-- What a successful `ToFloat[float32]` must have returned. -/
def float32Post (r : F) : Src → Prop
  | .f32 x => r = x ∧ x ≠ .nan
  | .f64 x => x ≠ .nan ∧ absGtMaxF32 x = false ∧ r = roundF32 x
  | .int _ v => r = .fin (toF32Int v) 0
  | .bool b => r = roundF32 (.fin (boolInt b) 0)
  | .str i => (i.blank = true ∧ r = .fin 0 0) ∨ (i.pFloat32 = some r ∧ r ≠ .nan)
  | .big v => r = bigToF32 v ∧ ∃ a k, r = .fin a k
  | .cplx _ _ mag => absGtMaxF32 mag = false ∧ r = roundF32 mag   -- the magnitude (known finding)
  | _ => False

/-- **C17 (float32 target, value).** A float32 is returned unchanged (not NaN); a float64 is
    rounded once to float32 (`roundF32`, correctly rounded: `C17.roundMag_correct`) after the
    `> MaxFloat32` guard, so the result is finite (`C17.c17_f32_no_inf`); an integer is rounded once
    to 24 bits (`toF32Int`, correctly rounded: `C17.roundTo_correct`); text is what
    `ParseFloat(·, 32)` read (not NaN) or 0 for blank text; a big integer its finite nearest float32. -/
theorem c17_float32_sound (s : Src) (r : F) (h : toFloat32 s = .ok r) : float32Post r s := by
  cases s with
  | int t v => rw [C17.toFloat32_int] at h; injection h with h; exact h.symm
  | f32 x =>
    rw [C17.toFloat32_f32] at h
    cases x <;> simp [F.isNaN] at h <;> subst h <;> simp [float32Post]
  | f64 x =>
    rw [C17.toFloat32_f64, C17.toFloat64_f64] at h
    cases x with
    | nan => simp [F.isNaN, bind, Except.bind] at h
    | pinf => simp [F.isNaN, bind, Except.bind, absGtMaxF32] at h
    | ninf => simp [F.isNaN, bind, Except.bind, absGtMaxF32] at h
    | fin a k =>
      simp only [F.isNaN, Bool.false_eq_true, ↓reduceIte, bind, Except.bind] at h
      by_cases hg : absGtMaxF32 (.fin a k) = true
      · rw [if_pos hg] at h; cases h
      · rw [if_neg hg] at h; injection h with h
        exact ⟨by simp, by simpa using hg, h.symm⟩
  | bool b =>
    rw [C17.toFloat32_bool, C17.toFloat64_bool] at h
    simp only [bind, Except.bind] at h
    by_cases hg : absGtMaxF32 (.fin (boolInt b) 0) = true
    · rw [if_pos hg] at h; cases h
    · rw [if_neg hg] at h; injection h with h; exact h.symm
  | str i =>
    rw [C17.toFloat32_str] at h
    simp only [float32Post]
    cases hb : i.blank with
    | true => rw [hb] at h; simp [stringToFloat] at h; left; exact ⟨rfl, h.symm⟩
    | false =>
      rw [hb] at h
      cases hp : i.pFloat32 with
      | none => rw [hp] at h; simp [stringToFloat] at h
      | some f =>
        rw [hp] at h
        cases f <;> simp [stringToFloat, F.isNaN] at h <;> subst h <;> simp
  | big v =>
    rw [C17.toFloat32_big] at h
    exact C17.finOrOverflow_ok _ _ h
  | cplx re im mag =>
    simp only [toFloat32, toFloat64, bind, Except.bind] at h
    by_cases hg : absGtMaxF32 mag = true
    · rw [if_pos hg] at h; cases h
    · rw [if_neg hg] at h; injection h with h; exact ⟨by simpa using hg, h.symm⟩
  | nilptr => cases h
  | other => cases h

example : toFloat32 (.f64 (.fin (2 ^ 24 + 1) 24)) = .ok (.fin (2 ^ 23) 23) ∧
    float32Post (.fin (2 ^ 23) 23) (.f64 (.fin (2 ^ 24 + 1) 24)) := by
  refine ⟨by decide, by simp, by decide, by decide⟩

/-- What a successful `ToString` must have returned (`f`, `g` = `FormatFloat(x,'g',-1,32|64)`). -/
def stringPost (f g : F → List Nat) (bs : List Nat) : Src → Prop
  | .str i => bs = i.bytes
  | .bool b => bs = strBytes (if b then "true" else "false")
  | .int _ v => bs = formatInt v ∧ Denotes bs v
  | .big v => bs = formatInt v ∧ Denotes bs v
  | .f32 x => bs = f x
  | .f64 x => bs = g x
  | _ => False

/-- **C17 (string target).** Text is returned unchanged; a bool is "true"/"false"; an integer or
    big integer is the decimal numeral that denotes it (`formatInt_denotes`), which the integer
    helpers read back (`c17_text_roundtrip_i64`, `c17_text_roundtrip_big`); a float is
    `strconv.FormatFloat(x,'g',-1,bits)` (parameter: judged by the value its text denotes in the
    correspondence). -/
theorem c17_string_sound (f g : F → List Nat) (s : Src) (bs : List Nat) (h : toStr f g s = .ok bs) :
    stringPost f g bs s := by
  cases s with
  | str i => injection h with h; exact h.symm
  | bool b => injection h with h; exact h.symm
  | int t v => injection h with h; subst h; exact ⟨rfl, formatInt_denotes v⟩
  | big v => injection h with h; subst h; exact ⟨rfl, formatInt_denotes v⟩
  | f32 x => injection h with h; exact h.symm
  | f64 x => injection h with h; exact h.symm
  | cplx _ _ _ => cases h
  | nilptr => cases h
  | other => cases h

/-! ## An independent reading of "the text, trimmed" for ASCII text (round 4c, audit LOW: "`TextInt` is defined via
     the model's own `trimSpace`")

  For a text of the shape `l ++ core ++ r` — `l`, `r` runs of the six ASCII blanks, `core` printable non-blank
  ASCII — the integer reading is stated on `core` directly, with no reference to `trimSpace`. -/

def AsciiBlank (b : Nat) : Prop := b = 9 ∨ b = 10 ∨ b = 11 ∨ b = 12 ∨ b = 13 ∨ b = 32

theorem spaceAtHead_blank (b : Nat) (rest : List Nat) (h : AsciiBlank b) : spaceAtHead (b :: rest) = 1 := by
  rcases h with rfl | rfl | rfl | rfl | rfl | rfl <;> rfl

theorem spaceAtEndRev_blank (b : Nat) (rest : List Nat) (h : AsciiBlank b) : spaceAtEndRev (b :: rest) = 1 := by
  rcases h with rfl | rfl | rfl | rfl | rfl | rfl <;> rfl

theorem stripWith_blanks (f : List Nat → Nat) (hf : ∀ b rest, AsciiBlank b → f (b :: rest) = 1) (l rest : List Nat)
    (hl : ∀ b ∈ l, AsciiBlank b) (fuel : Nat) (hfuel : l.length ≤ fuel) :
    stripWith f fuel (l ++ rest) = stripWith f (fuel - l.length) rest := by
  induction l generalizing fuel with
  | nil => simp
  | cons b l ih =>
    cases fuel with
    | zero => simp at hfuel
    | succ k =>
      have h1 := hf b (l ++ rest) (hl b (List.mem_cons_self ..))
      have hk : l.length ≤ k := by simpa using hfuel
      simp only [List.cons_append, stripWith, h1, List.drop_succ_cons, List.drop_zero, List.length_cons]
      rw [ih (fun c hc => hl c (List.mem_cons_of_mem _ hc)) k hk]
      congr 1; omega

theorem stripWith_nil (f : List Nat → Nat) (h0 : f [] = 0) (fuel : Nat) : stripWith f fuel [] = [] :=
  stripWith_zero f fuel [] h0

/-- **`TrimSpace` on ASCII text, against the shape of the text**: blanks on either side go, the core stays. -/
theorem trimSpace_ascii_frame (l core r : List Nat) (hl : ∀ b ∈ l, AsciiBlank b) (hr : ∀ b ∈ r, AsciiBlank b)
    (hc : ∀ b ∈ core, 33 ≤ b ∧ b ≤ 127) : trimSpace (l ++ core ++ r) = core := by
  unfold trimSpace
  have h1 : stripWith spaceAtHead (l ++ core ++ r).length (l ++ core ++ r) = core ++ r ∨
      (core = [] ∧ stripWith spaceAtHead (l ++ core ++ r).length (l ++ core ++ r) = []) := by
    rw [List.append_assoc, stripWith_blanks _ spaceAtHead_blank l (core ++ r) hl _ (by simp)]
    cases core with
    | nil =>
      right
      refine ⟨rfl, ?_⟩
      have := stripWith_blanks _ spaceAtHead_blank r [] hr ((l ++ ([] ++ r)).length - l.length) (by simp)
      simp only [List.append_nil, List.nil_append] at this ⊢
      rw [this]
      exact stripWith_nil _ rfl _
    | cons b cs =>
      left
      exact stripWith_zero _ _ _ (spaceAtHead_ascii b _ (hc b (List.mem_cons_self ..)))
  rcases h1 with h1 | ⟨hnil, h1⟩
  · simp only [h1]
    rw [List.reverse_append]
    rw [stripWith_blanks _ spaceAtEndRev_blank r.reverse core.reverse (fun b hb => hr b (List.mem_reverse.mp hb)) _ (by simp)]
    have : stripWith spaceAtEndRev ((core ++ r).length - r.reverse.length) core.reverse = core.reverse := by
      cases hcr : core.reverse with
      | nil => exact stripWith_nil _ rfl _
      | cons b rest =>
        have hb : b ∈ core := by
          have : b ∈ core.reverse := by rw [hcr]; exact List.mem_cons_self ..
          exact List.mem_reverse.mp this
        exact stripWith_zero _ _ _ (spaceAtEndRev_ascii b rest (hc b hb))
    rw [this, List.reverse_reverse]
  · subst hnil
    rw [h1]
    rfl

/-- **Integer text, read on the text itself** (ASCII): what `ToInt64` returns for `blanks core blanks` is 0 when the core
    is empty and otherwise the value of the decimal numeral `core` — no `trimSpace` in the statement. -/
theorem c17_int64_text_sound_ascii (l core r : List Nat) (nm : String) (p q : Option F) (n : Int)
    (hl : ∀ b ∈ l, AsciiBlank b) (hr : ∀ b ∈ r, AsciiBlank b) (hc : ∀ b ∈ core, 33 ≤ b ∧ b ≤ 127)
    (h : toInt64 (.str (StrInfo.ofText (l ++ core ++ r) nm p q)) = .ok n) :
    ((core = [] ∧ n = 0) ∨ Denotes core n) ∧ IntTy.i64.inRange n := by
  have ⟨ht, hrange⟩ := c17_int64_text_sound (l ++ core ++ r) nm p q n h
  unfold TextInt at ht
  rw [trimSpace_ascii_frame l core r hl hr hc] at ht
  exact ⟨ht, hrange⟩

example : toInt64 (.str (StrInfo.ofText ([32, 9] ++ [45, 52, 50] ++ [10]) "" none none)) = .ok (-42) := by decide


end Gozod.C17T
