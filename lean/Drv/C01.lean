import Gozod.Drv.Loop
import Gozod.Drv.C01
def main : IO Unit := Gozod.Drv.runLines Gozod.Drv.C01.handleLine
