-- REGENERATED on every `./check C06` run by vlib/c06.py from harness/cmd/c06sw (go/ast over types/*.go). DO NOT EDIT.
import Gozod.Model.TagSwitch
namespace Gozod.Gen
open Gozod.Tags Gozod.Tags.Sw

def tagFacts : Facts where
  names := ["ZodString", "string", "ZodIntegerTyped", "int,int", "int8,int8", "int16,int16", "int32,int32", "int64,int64", "uint,uint", "uint8,uint8", "uint16,uint16", "uint32,uint32", "uint64,uint64", "ZodFloatTyped", "float32,float32", "float64,float64", "ZodSlice", "string,[]string", "int,[]int", "int64,[]int64", "float64,[]float64", "bool,[]bool", "any,*[]any", "any,[]any", "*string", "int,*int", "int8,*int8", "int16,*int16", "int32,*int32", "int64,*int64", "uint,*uint", "uint8,*uint8", "uint16,*uint16", "uint32,*uint32", "uint64,*uint64", "float32,*float32", "float64,*float64", "string,*[]string", "int,*[]int", "int64,*[]int64", "float64,*[]float64", "bool,*[]bool", "numericTagSchema", "sizedTagSchema", "ZodMap", "ZodRecord", "stringTagSchema", "ZodBase64", "ZodBase64URL", "ZodCIDRv4", "ZodCIDRv6", "ZodCUID", "ZodCUID2", "ZodE164", "ZodEmail", "ZodEmoji", "ZodGUID", "ZodHex", "ZodHostname", "ZodIPv4", "ZodIPv6", "ZodIso", "ZodJWT", "ZodKSUID", "ZodMAC", "ZodNanoID", "ZodULID", "ZodURL", "ZodUUID", "ZodXID", "applyParameterizedRule", "applyMinConstraint", "applyMaxConstraint", "applyStringFormat", "applyNumericTagRule", "applyParsedTagRules", "applyEnumConstraint", "ZodBool", "bool", "applyLiteralConstraint", "*bool", "map[string]string,map[string]string", "map[string]any,map[string]any", "map[string]string,*map[string]string", "map[string]any,*map[string]any", "applyDefaultValue", "applyPrefaultValue", "applyNilableModifier"]
  schemaTy := [
    (⟨false, .string⟩, 0, 1),
    (⟨false, .int⟩, 2, 3),
    (⟨false, .int8⟩, 2, 4),
    (⟨false, .int16⟩, 2, 5),
    (⟨false, .int32⟩, 2, 6),
    (⟨false, .int64⟩, 2, 7),
    (⟨false, .uint⟩, 2, 8),
    (⟨false, .uint8⟩, 2, 9),
    (⟨false, .uint16⟩, 2, 10),
    (⟨false, .uint32⟩, 2, 11),
    (⟨false, .uint64⟩, 2, 12),
    (⟨false, .float32⟩, 13, 14),
    (⟨false, .float64⟩, 13, 15),
    (⟨false, .slice_string⟩, 16, 17),
    (⟨false, .slice_int⟩, 16, 18),
    (⟨false, .slice_int64⟩, 16, 19),
    (⟨false, .slice_float64⟩, 16, 20),
    (⟨false, .slice_bool⟩, 16, 21),
    (⟨false, .slice_int32⟩, 16, 22),
    (⟨false, .slice_uint8⟩, 16, 22),
    (⟨false, .slice_slice_string⟩, 16, 22),
    (⟨false, .slice_struct⟩, 16, 23),
    (⟨false, .slice_ptr_string⟩, 16, 22),
    (⟨true, .string⟩, 0, 24),
    (⟨true, .int⟩, 2, 25),
    (⟨true, .int8⟩, 2, 26),
    (⟨true, .int16⟩, 2, 27),
    (⟨true, .int32⟩, 2, 28),
    (⟨true, .int64⟩, 2, 29),
    (⟨true, .uint⟩, 2, 30),
    (⟨true, .uint8⟩, 2, 31),
    (⟨true, .uint16⟩, 2, 32),
    (⟨true, .uint32⟩, 2, 33),
    (⟨true, .uint64⟩, 2, 34),
    (⟨true, .float32⟩, 13, 35),
    (⟨true, .float64⟩, 13, 36),
    (⟨true, .slice_string⟩, 16, 37),
    (⟨true, .slice_int⟩, 16, 38),
    (⟨true, .slice_int64⟩, 16, 39),
    (⟨true, .slice_float64⟩, 16, 40),
    (⟨true, .slice_bool⟩, 16, 41),
    (⟨true, .slice_int32⟩, 16, 22),
    (⟨true, .slice_uint8⟩, 16, 22),
    (⟨true, .slice_slice_string⟩, 16, 22),
    (⟨true, .slice_struct⟩, 16, 23),
    (⟨true, .slice_ptr_string⟩, 16, 22)
  ]
  rows := [
    ⟨.min, 70, 2417, [⟨42, none⟩]⟩,
    ⟨.min, 71, 2466, [⟨46, none⟩, ⟨43, none⟩]⟩,
    ⟨.max, 70, 2417, [⟨42, none⟩]⟩,
    ⟨.max, 72, 2476, [⟨46, none⟩, ⟨43, none⟩]⟩,
    ⟨.length, 70, 2433, [⟨46, none⟩]⟩,
    ⟨.length, 70, 2435, [⟨43, none⟩]⟩,
    ⟨.email, 73, 2254, [⟨46, none⟩]⟩,
    ⟨.url, 73, 2254, [⟨46, none⟩]⟩,
    ⟨.uuid, 73, 2254, [⟨46, none⟩]⟩,
    ⟨.regex, 70, 2440, [⟨46, none⟩]⟩,
    ⟨.positive, 74, 2407, [⟨42, none⟩]⟩,
    ⟨.negative, 74, 2407, [⟨42, none⟩]⟩,
    ⟨.nonnegative, 74, 2407, [⟨42, none⟩]⟩,
    ⟨.nonpositive, 74, 2407, [⟨42, none⟩]⟩,
    ⟨.nonempty, 75, 2188, [⟨46, none⟩]⟩,
    ⟨.nonempty, 75, 2190, [⟨43, none⟩]⟩,
    ⟨.gt, 70, 2417, [⟨42, none⟩]⟩,
    ⟨.gte, 70, 2417, [⟨42, none⟩]⟩,
    ⟨.lt, 70, 2417, [⟨42, none⟩]⟩,
    ⟨.lte, 70, 2417, [⟨42, none⟩]⟩
  ]
  ifaces := [
    (42, [13, 2]),
    (43, [44, 45, 16]),
    (46, [0, 47, 48, 49, 50, 51, 52, 53, 54, 55, 56, 57, 58, 59, 60, 61, 62, 63, 64, 65, 66, 67, 68, 69])
  ]

/-- NON-PROPERTY table: the rule names types/struct.go implements but docs/tags.md does not list; same indices into
    `tagFacts.names`; `(rule name, function, line, cases)`.  Read by C13 (gozodgen vs FromStruct); no C06 theorem. -/
def tagSwitchesX : List (String × Nat × Nat × List CaseTy) := [
    ⟨"enum", 76, 2487, [⟨0, some 1⟩, ⟨2, some 3⟩]⟩,
    ⟨"literal", 79, 2507, [⟨0, some 1⟩, ⟨2, some 3⟩, ⟨77, some 78⟩]⟩,
    ⟨"default", 85, 2523, [⟨0, some 1⟩, ⟨0, some 24⟩, ⟨2, some 3⟩, ⟨2, some 25⟩, ⟨2, some 4⟩, ⟨2, some 26⟩, ⟨2, some 5⟩, ⟨2, some 27⟩, ⟨2, some 6⟩, ⟨2, some 28⟩, ⟨2, some 7⟩, ⟨2, some 29⟩, ⟨2, some 8⟩, ⟨2, some 30⟩, ⟨2, some 9⟩, ⟨2, some 31⟩, ⟨2, some 10⟩, ⟨2, some 32⟩, ⟨2, some 11⟩, ⟨2, some 33⟩, ⟨2, some 12⟩, ⟨2, some 34⟩, ⟨13, some 15⟩, ⟨13, some 36⟩, ⟨13, some 14⟩, ⟨13, some 35⟩, ⟨77, some 78⟩, ⟨77, some 80⟩, ⟨16, some 17⟩, ⟨16, some 18⟩, ⟨16, some 20⟩, ⟨16, some 21⟩, ⟨44, some 81⟩, ⟨44, some 82⟩, ⟨16, some 37⟩, ⟨16, some 38⟩, ⟨16, some 40⟩, ⟨16, some 41⟩, ⟨44, some 83⟩, ⟨44, some 84⟩, ⟨45, some 84⟩]⟩,
    ⟨"default", 85, 2646, []⟩,
    ⟨"default", 85, 2659, []⟩,
    ⟨"default", 85, 2679, []⟩,
    ⟨"default", 85, 2699, []⟩,
    ⟨"default", 85, 2718, []⟩,
    ⟨"default", 85, 2737, []⟩,
    ⟨"default", 85, 2749, []⟩,
    ⟨"default", 85, 2768, []⟩,
    ⟨"default", 85, 2787, []⟩,
    ⟨"default", 85, 2806, []⟩,
    ⟨"prefault", 86, 3229, [⟨0, some 1⟩, ⟨0, some 24⟩, ⟨2, some 3⟩, ⟨2, some 25⟩, ⟨2, some 4⟩, ⟨2, some 26⟩, ⟨2, some 5⟩, ⟨2, some 27⟩, ⟨2, some 6⟩, ⟨2, some 28⟩, ⟨2, some 7⟩, ⟨2, some 29⟩, ⟨2, some 8⟩, ⟨2, some 30⟩, ⟨2, some 9⟩, ⟨2, some 31⟩, ⟨2, some 10⟩, ⟨2, some 32⟩, ⟨2, some 11⟩, ⟨2, some 33⟩, ⟨2, some 12⟩, ⟨2, some 34⟩, ⟨13, some 15⟩, ⟨13, some 36⟩, ⟨13, some 14⟩, ⟨13, some 35⟩, ⟨77, some 78⟩, ⟨77, some 80⟩, ⟨16, some 17⟩, ⟨16, some 18⟩, ⟨44, some 81⟩]⟩,
    ⟨"prefault", 86, 3352, []⟩,
    ⟨"prefault", 86, 3365, []⟩,
    ⟨"prefault", 86, 3386, []⟩,
    ⟨"nilable", 87, 2283, [⟨0, some 1⟩, ⟨2, some 3⟩, ⟨2, some 7⟩, ⟨13, some 15⟩, ⟨13, some 14⟩, ⟨77, some 78⟩]⟩,
    ⟨"finite", 74, 2407, [⟨42, none⟩]⟩,
    ⟨"multipleof", 70, 2417, []⟩,
    ⟨"includes", 70, 2444, [⟨46, none⟩]⟩,
    ⟨"startswith", 70, 2448, [⟨46, none⟩]⟩,
    ⟨"endswith", 70, 2452, [⟨46, none⟩]⟩,
    ⟨"ipv4", 73, 2254, [⟨46, none⟩]⟩,
    ⟨"ipv6", 73, 2254, [⟨46, none⟩]⟩,
    ⟨"cidrv4", 73, 2254, [⟨46, none⟩]⟩,
    ⟨"cidrv6", 73, 2254, [⟨46, none⟩]⟩,
    ⟨"cuid", 73, 2254, [⟨46, none⟩]⟩,
    ⟨"cuid2", 73, 2254, [⟨46, none⟩]⟩,
    ⟨"jwt", 73, 2254, [⟨46, none⟩]⟩,
    ⟨"iso_datetime", 73, 2254, [⟨46, none⟩]⟩,
    ⟨"iso_date", 73, 2254, [⟨46, none⟩]⟩,
    ⟨"iso_time", 73, 2254, [⟨46, none⟩]⟩,
    ⟨"iso_duration", 73, 2254, [⟨46, none⟩]⟩
  ]

end Gozod.Gen
