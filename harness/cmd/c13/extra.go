package main

// C13, round 4b — programs the earlier generators never wrote:
//
//	c13 mname <names>            a field declaration with several names (`F, G string`): the keys gozodgen writes for it, and
//	                             whether the generated file type-checks (duplicate keys in a map literal do not)
//	c13 bfile <kind>             a tagged struct declared in a file that is not part of every build of the package
//	                             (a _test.go file, a file with a //go:build line, a file with a GOOS suffix): after gozodgen
//	                             the package must still build (`go build ./...` and `go vet ./...`)
import (
	"fmt"
	"os"
	"path/filepath"
	"regexp"
	"sort"
	"strconv"
	"strings"
	"time"

	"verifharness/hx"
)

type mnameCase struct {
	names []string
	ty    string
	tag   string
}

var keyLine = regexp.MustCompile(`^\t\t"([A-Za-z0-9_]+)": `)

// keysInOrder reads the keys of the StructSchema literal of a generated file, in the order written (duplicates kept).
func keysInOrder(path string) []string {
	b, err := os.ReadFile(path)
	if err != nil {
		return nil
	}
	var ks []string
	for _, line := range strings.Split(string(b), "\n") {
		if m := keyLine.FindStringSubmatch(line); m != nil {
			ks = append(ks, m[1])
		}
	}
	return ks
}

func emitMultiName(o *hx.Out, tmp, gen string, rng *hx.Rng, thorough bool) {
	cases := []mnameCase{
		{[]string{"F", "G"}, "string", "min=2"},
		{[]string{"A", "B", "C"}, "int", "required"},
		{[]string{"P", "Q"}, "*string", "max=5"},
		{[]string{"Only"}, "string", "min=1"},
	}
	n := 3
	if thorough {
		n = 12
	}
	pool := []string{"Aa", "Bb", "Cc", "Dd", "Ee", "Ff", "Gg"}
	for i := 0; i < n; i++ {
		k := 2 + rng.Intn(3)
		start := rng.Intn(len(pool) - k + 1)
		cases = append(cases, mnameCase{append([]string{}, pool[start:start+k]...), hx.Pick(rng, []string{"string", "int", "[]string", "*int"}), hx.Pick(rng, []string{"required", "min=1", "max=9"})})
	}
	dir := filepath.Join(tmp, "mn")
	os.MkdirAll(dir, 0o755)
	var sb strings.Builder
	sb.WriteString("package main\n\n")
	for i, c := range cases {
		fmt.Fprintf(&sb, "type M%d struct {\n\t%s %s %s\n}\n\n", i, strings.Join(c.names, ", "), c.ty, structTag(c.tag))
	}
	os.WriteFile(filepath.Join(dir, "models.go"), []byte(sb.String()), 0o644)
	if out, rc, to := goRun(tmp, 2*time.Minute, gen, dir); rc != 0 || to {
		o.Emit("c13 gen # multi-name fields: "+firstLine(out), fmt.Sprintf("exit:%d", rc))
		return
	}
	os.WriteFile(filepath.Join(dir, "zz_stop.go"), []byte("package main\n\nfunc main() {}\n\nvar zzStopAfterTypeCheck int = \"type-check only\"\n"), 0o644)
	out, _, _ := goRun(tmp, 10*time.Minute, "go", "build", "-gcflags=-e", "-o", os.DevNull, "./mn")
	errLine := regexp.MustCompile(`(?m)^(?:\./)?(?:mn/)?(m\d+)_gen\.go:\d+:\d+: (.*)$`)
	bad := map[string]string{}
	for _, m := range errLine.FindAllStringSubmatch(out, -1) {
		if _, seen := bad[m[1]]; !seen {
			bad[m[1]] = m[2]
		}
	}
	if !strings.Contains(out, "zz_stop.go") {
		die("multi-name fields: the type-check-only build did not reach its stop marker:\n%s", firstN(out, 2000))
	}
	for i, c := range cases {
		keys := keysInOrder(filepath.Join(dir, fmt.Sprintf("m%d_gen.go", i)))
		st := "ok"
		if msg, ok := bad[fmt.Sprintf("m%d", i)]; ok {
			st = "notypecheck"
			_ = msg
		}
		o.Emit(fmt.Sprintf("c13 mname %s # type M%d struct { %s %s %s } err=%q", strings.Join(c.names, ","), i, strings.Join(c.names, ", "), c.ty, structTag(c.tag), bad[fmt.Sprintf("m%d", i)]),
			"keys="+strings.Join(keys, ",")+" st="+st)
		o.Count("mname:" + st)
	}
}

type bfileCase struct {
	kind, file, head string
}

var bfileCases = []bfileCase{
	{"plain", "model.go", ""},
	{"second-file", "other_model.go", ""},
	{"test-file", "model_test.go", ""},
	{"build-ignore", "model_ignored.go", "//go:build ignore\n\n"},
	{"build-tag", "model_tagged.go", "//go:build sometag\n\n"},
	{"goos-suffix", "model_plan9.go", ""},
	{"goarch-suffix", "model_wasm.go", ""},
}

func emitBuildFiles(o *hx.Out, tmp, gen string) {
	for i, c := range bfileCases {
		dir := filepath.Join(tmp, "bf", fmt.Sprintf("p%d", i))
		os.MkdirAll(dir, 0o755)
		os.WriteFile(filepath.Join(dir, "main.go"), []byte("package main\n\nfunc main() {}\n\ntype Base struct {\n\tN string `gozod:\"min=1\"`\n}\n"), 0o644)
		os.WriteFile(filepath.Join(dir, c.file), []byte(c.head+"package main\n\ntype Extra struct {\n\tF string `gozod:\"min=2\"`\n}\n"), 0o644)
		obs := "ok"
		if out, rc, to := goRun(tmp, 2*time.Minute, gen, dir); rc != 0 || to {
			obs = fmt.Sprintf("gen-exit:%d", rc)
			_ = out
		} else {
			normaliseStamps(dir)
			rel := "./" + filepath.ToSlash(filepath.Join("bf", fmt.Sprintf("p%d", i)))
			out1, rc1, _ := goRun(tmp, 10*time.Minute, "go", "build", "-o", os.DevNull, rel)
			out2, rc2, _ := goRun(tmp, 10*time.Minute, "go", "vet", rel)
			if rc1 != 0 || rc2 != 0 {
				if !regexp.MustCompile(`(?m)\.go:\d+:`).MatchString(out1 + out2) {
					die("build-file case %s: the Go toolchain failed without a source diagnostic:\n%s", c.kind, firstN(out1+out2, 2000))
				}
				obs = "nobuild"
			}
			diag := regexp.MustCompile(`(?m)^.*\.go:\d+:\d+: .*$`).FindString(out1 + out2)
			o.Emit(fmt.Sprintf("c13 bfile %s # package main: main.go (struct Base) + %s (%sstruct Extra, tagged); gozodgen; go build + go vet of the package: %s", c.kind, c.file,
				strings.ReplaceAll(c.head, "\n", " "), strings.TrimSpace(diag)), obs)
			o.Count("bfile:" + obs)
			continue
		}
		o.Emit(fmt.Sprintf("c13 bfile %s # package main: main.go + %s; gozodgen failed", c.kind, c.file), obs)
		o.Count("bfile:" + obs)
	}
}

// ---------------------------------------------------------------------------------------------
// regen (round 4c): gozodgen run a SECOND time on a package that already holds the files it generated — the normal
// `go generate` workflow. The files written by the second run must be the files of the first (up to the timestamp comment).
//
//	c13 regen <case>        same | differ:<file> | exit:<n>
var regenTS = regexp.MustCompile(`(?m)^// Generated at: .*$`)

func emitRegen(o *hx.Out, tmp, gen string) {
	cases := []struct{ name, src string }{
		{"narrow-ints", "type R struct {\n\tA int8 `gozod:\"min=3\"`\n\tB uint16 `gozod:\"max=9\"`\n\tC uint64 `gozod:\"gt=1,required\"`\n\tD *int16 `gozod:\"positive\"`\n}\n"},
		{"basic", "type R struct {\n\tA string `gozod:\"min=2,email\"`\n\tB int `gozod:\"min=1,max=5\"`\n\tC float64 `gozod:\"gt=0.5\"`\n\tD bool `gozod:\"required\"`\n}\n"},
		{"containers", "type In struct {\n\tN int32 `gozod:\"min=1\"`\n}\n\ntype R struct {\n\tA []uint8 `gozod:\"min=1\"`\n\tB map[string]int8 `gozod:\"max=3\"`\n\tC *In `gozod:\"required\"`\n\tD []In `gozod:\"nonempty\"`\n}\n"},
		{"named", "type Level uint8\n\ntype R struct {\n\tA Level `gozod:\"required\"`\n\tB []Level `gozod:\"min=1\"`\n\tC float32 `gozod:\"lte=2.5\"`\n}\n"},
	}
	for i, c := range cases {
		dir := filepath.Join(tmp, "regen", strconv.Itoa(i))
		os.MkdirAll(dir, 0o755)
		os.WriteFile(filepath.Join(dir, "m.go"), []byte("package main\n\nfunc main() {}\n\n"+c.src), 0o644)
		read := func() map[string]string {
			res := map[string]string{}
			es, _ := os.ReadDir(dir)
			for _, e := range es {
				if strings.HasSuffix(e.Name(), "_gen.go") {
					b, _ := os.ReadFile(filepath.Join(dir, e.Name()))
					res[e.Name()] = regenTS.ReplaceAllString(string(b), "")
				}
			}
			return res
		}
		obs := "same"
		var first map[string]string
		for run := 0; run < 2 && obs == "same"; run++ {
			if _, rc, to := goRun(tmp, 2*time.Minute, gen, dir); rc != 0 || to {
				obs = fmt.Sprintf("exit:%d", rc)
				break
			}
			if run == 0 {
				first = read()
				continue
			}
			second := read()
			var names []string
			for n := range first {
				names = append(names, n)
			}
			sort.Strings(names)
			for _, n := range names {
				if second[n] != first[n] {
					obs = "differ:" + n
					break
				}
			}
			if obs == "same" && len(second) != len(first) {
				obs = "differ:file-set"
			}
		}
		o.Emit(fmt.Sprintf("c13 regen %s # package main: %s ; gozodgen twice on the directory", c.name, strings.ReplaceAll(c.src, "\n", " ")), obs)
		o.Count("regen:" + strings.SplitN(obs, ":", 2)[0])
	}
}
