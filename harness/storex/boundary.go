package storex

// Boundary-derived probes (C12, round 4b): "afterwards the schema, its ancestors and its siblings parse every input as
// before" is observed through a parse fingerprint; a fixed probe set cannot see a bound that moved from 5 to 6 unless it
// happens to contain 5 or 6.  When a schema joins a history its own boundary values are read off an ISOLATED TWIN (the
// live family is never converted implicitly) in two ways — the twin's JSON Schema document (every keyword at every
// depth: minimum/maximum/exclusive*/multipleOf, minLength/maxLength, minItems/maxItems, minProperties/maxProperties,
// properties/required, enum/const) and the twin's Bag after running its checks' OnAttach callbacks against the twin
// itself (every base kind, also the ones without a document: bigint, map, set, …) — and turned into inputs on both
// sides of every bound: numbers at bound −1 / bound / bound +1 (as int, int64 and float64, and ±0.5), strings, lists
// and maps of length bound −1 / bound / bound +1, objects with every declared key present, each required key absent,
// one undeclared key present.

import (
	"encoding/json"
	"fmt"
	"math"
	"sort"
	"strings"

	"github.com/kaptinlin/gozod/core"
	"github.com/kaptinlin/gozod/jsonschema"

	"verifharness/hx"
)

// BProbe is one derived input with the class of bound it straddles.
type BProbe struct {
	In    any
	Class string // num | strlen | items | props | keys | member
	Bound string // which bound of the schema it belongs to (class:value)
}

type bounds struct {
	nums, slens, ilens, plens []float64
	objs                      []map[string]any // documents of object nodes (properties / required)
	members                   []any
}

func addF(xs []float64, v float64) []float64 {
	for _, x := range xs {
		if x == v {
			return xs
		}
	}
	if len(xs) >= 4 || math.IsNaN(v) || math.IsInf(v, 0) {
		return xs
	}
	return append(xs, v)
}

func (b *bounds) walk(v any, d int) {
	if d > 12 {
		return
	}
	switch x := v.(type) {
	case map[string]any:
		keys := make([]string, 0, len(x))
		for k := range x {
			keys = append(keys, k)
		}
		sort.Strings(keys)
		if _, ok := x["properties"]; ok && len(b.objs) < 2 {
			b.objs = append(b.objs, x)
		}
		for _, k := range keys {
			val := x[k]
			if f, ok := val.(float64); ok {
				switch k {
				case "minimum", "maximum", "exclusiveMinimum", "exclusiveMaximum", "multipleOf":
					b.nums = addF(b.nums, f)
				case "minLength", "maxLength":
					b.slens = addF(b.slens, f)
				case "minItems", "maxItems":
					b.ilens = addF(b.ilens, f)
				case "minProperties", "maxProperties":
					b.plens = addF(b.plens, f)
				}
				continue
			}
			switch k {
			case "enum":
				if ms, ok := val.([]any); ok {
					for _, m := range ms {
						if len(b.members) < 6 {
							b.members = append(b.members, m)
						}
					}
				}
				continue
			case "const":
				if len(b.members) < 6 {
					b.members = append(b.members, val)
				}
				continue
			case "examples", "default":
				continue
			}
			b.walk(val, d+1)
		}
	case []any:
		for _, e := range x {
			b.walk(e, d+1)
		}
	}
}

func toF(v any) (float64, bool) {
	switch x := v.(type) {
	case int:
		return float64(x), true
	case int8:
		return float64(x), true
	case int16:
		return float64(x), true
	case int32:
		return float64(x), true
	case int64:
		return float64(x), true
	case uint:
		return float64(x), true
	case uint8:
		return float64(x), true
	case uint16:
		return float64(x), true
	case uint32:
		return float64(x), true
	case uint64:
		return float64(x), true
	case float32:
		return float64(x), true
	case float64:
		return x, true
	}
	return 0, false
}

// fromBag reads the bounds out of an annotated Bag (keys as internal/checks writes them).
func (b *bounds) fromBag(bag map[string]any) {
	keys := make([]string, 0, len(bag))
	for k := range bag {
		keys = append(keys, k)
	}
	sort.Strings(keys)
	for _, k := range keys {
		f, ok := toF(bag[k])
		if !ok {
			continue
		}
		lk := strings.ToLower(k)
		switch {
		case strings.Contains(lk, "length"):
			b.slens = addF(b.slens, f)
			b.ilens = addF(b.ilens, f) // `length` of a slice check is written under the same key
		case strings.Contains(lk, "items"):
			b.ilens = addF(b.ilens, f)
		case strings.Contains(lk, "size"), strings.Contains(lk, "properties"):
			b.plens = addF(b.plens, f)
			b.ilens = addF(b.ilens, f)
		default:
			b.nums = addF(b.nums, f)
		}
	}
}

func sampleFor(doc any) any {
	m, _ := doc.(map[string]any)
	t := ""
	switch x := m["type"].(type) {
	case string:
		t = x
	case []any:
		if len(x) > 0 {
			t, _ = x[0].(string)
		}
	}
	if ms, ok := m["enum"].([]any); ok && len(ms) > 0 {
		return ms[0]
	}
	if c, ok := m["const"]; ok {
		return c
	}
	switch t {
	case "integer":
		if f, ok := m["minimum"].(float64); ok && math.Abs(f) < 1e9 {
			return int(f)
		}
		return 1
	case "number":
		return 1.5
	case "boolean":
		return true
	case "array":
		return []any{}
	case "object":
		return map[string]any{}
	case "null":
		return nil
	}
	n := 1
	if f, ok := m["minLength"].(float64); ok && f < 64 {
		n = int(f)
	}
	return strings.Repeat("x", n)
}

func repeatAny(k int) []any {
	out := make([]any, k)
	for i := range out {
		out[i] = "a"
	}
	return out
}

func keyedMap(k int) map[string]any {
	out := make(map[string]any, k)
	for i := 0; i < k; i++ {
		out[fmt.Sprintf("k%d", i)] = "x"
	}
	return out
}

// BoundaryProbes derives the probes from a scratch schema (an isolated twin): it is converted and its OnAttach
// callbacks are run against itself here, so it must not be used for anything else afterwards.
func BoundaryProbes(scratch any) []BProbe {
	var b bounds
	hx.Safely(func() {
		d, err := jsonschema.ToJSONSchema(scratch, jsonschema.Options{Unrepresentable: "any"})
		if err != nil || d == nil {
			return
		}
		raw, err := json.Marshal(d)
		if err != nil {
			return
		}
		var doc any
		if json.Unmarshal(raw, &doc) == nil {
			b.walk(doc, 0)
		}
	})
	hx.Safely(func() {
		s, ok := scratch.(Schema)
		if !ok || s.Internals() == nil {
			return
		}
		for _, c := range s.Internals().Checks {
			if c == nil || c.Zod() == nil {
				continue
			}
			if zc := c.Zod(); zc.Def != nil && (zc.Def.Check == "describe" || zc.Def.Check == "meta") {
				continue
			}
			for _, fn := range c.Zod().OnAttach {
				if fn != nil {
					hx.Safely(func() { fn(scratch) })
				}
			}
		}
		b.fromBag(s.Internals().Bag)
	})
	var out []BProbe
	add := func(class, bound string, in any) { out = append(out, BProbe{In: in, Class: class, Bound: bound}) }
	for _, f := range b.nums {
		bd := fmt.Sprintf("num:%g", f)
		if f == math.Trunc(f) && math.Abs(f) < 1e15 {
			n := int(f)
			for _, v := range []int{n - 1, n, n + 1} {
				add("num", bd, v)
			}
			add("num", bd, int64(n-1))
			add("num", bd, int64(n+1))
		}
		if math.Abs(f) < 1e300 {
			for _, v := range []float64{f - 1, f - 0.5, f, f + 0.5, f + 1} {
				add("num", bd, v)
			}
		}
	}
	for _, f := range b.slens {
		if f < 0 || f > 48 {
			continue
		}
		for _, k := range []int{int(f) - 1, int(f), int(f) + 1} {
			if k >= 0 {
				add("strlen", fmt.Sprintf("strlen:%g", f), strings.Repeat("a", k))
			}
		}
	}
	for _, f := range b.ilens {
		if f < 0 || f > 12 {
			continue
		}
		for _, k := range []int{int(f) - 1, int(f), int(f) + 1} {
			if k >= 0 {
				add("items", fmt.Sprintf("items:%g", f), repeatAny(k))
			}
		}
	}
	for _, f := range b.plens {
		if f < 0 || f > 12 {
			continue
		}
		for _, k := range []int{int(f) - 1, int(f), int(f) + 1} {
			if k >= 0 {
				add("props", fmt.Sprintf("props:%g", f), keyedMap(k))
			}
		}
	}
	for oi, o := range b.objs {
		props, _ := o["properties"].(map[string]any)
		var req []string
		if rs, ok := o["required"].([]any); ok {
			for _, r := range rs {
				if s, ok := r.(string); ok {
					req = append(req, s)
				}
			}
		}
		sort.Strings(req)
		full := func() map[string]any {
			m := map[string]any{}
			for k, pd := range props {
				m[k] = sampleFor(pd)
			}
			return m
		}
		bd := fmt.Sprintf("keys:%d", oi)
		add("keys", bd, full())
		for _, r := range req {
			m := full()
			delete(m, r)
			add("keys", bd, m)
		}
		m := full()
		m["zz_undeclared"] = "x"
		add("keys", bd, m)
		only := map[string]any{} // only the required keys
		for _, r := range req {
			only[r] = sampleFor(props[r])
		}
		add("keys", bd, only)
	}
	for _, m := range b.members {
		add("member", "member", m)
		if f, ok := m.(float64); ok && f == math.Trunc(f) && math.Abs(f) < 1e15 {
			add("member", "member", int(f))
		}
	}
	if len(out) > 40 {
		out = out[:40]
	}
	return out
}

// splitOf tells whether the probes of one bound are answered on both sides by s: "straddled" (some accepted, some
// rejected), "all-rejected", "all-accepted".
func splitOf(s any, ps []BProbe) map[string]string {
	acc, rej := map[string]int{}, map[string]int{}
	for _, p := range ps {
		_, err, pn := ParseAny(s, p.In)
		if err != nil || pn != "" {
			rej[p.Bound]++
		} else {
			acc[p.Bound]++
		}
	}
	out := map[string]string{}
	for _, p := range ps {
		switch {
		case acc[p.Bound] > 0 && rej[p.Bound] > 0:
			out[p.Bound] = "straddled"
		case acc[p.Bound] > 0:
			out[p.Bound] = "all-accepted"
		default:
			out[p.Bound] = "all-rejected"
		}
	}
	return out
}

// typeCode names the base kind of a schema for the distribution.
func typeCode(s any) string {
	if z, ok := s.(Schema); ok && z.Internals() != nil {
		return string(z.Internals().Type)
	}
	return "?"
}

var _ = core.ZodTypeString
