/-
  C20 — validator side of the formats that are not (only) one regular expression.

  * ISO date: `validate.ISODate` = `time.Parse("2006-01-02", s)`, transcribed as `Parsers.goDate` (Model/GoParsers.lean):
        c20_isodate : ∀ s, goDate s = isoDate.run s
    both are characterised by the arithmetic shape of the ten bytes (`dateShape`): `goDate10`, `isoDate10`;
    other lengths are refused by both (`goDate_length`, `date_length`).
  * `gozod.UUID("v4"|"v6"|"v7")`: two checks (regex.UUID, then regex.UUID<n>), exported as `allOf` of two patterns:
        c20_uuidp4 : ∀ s, (accepts val_uuidp4 s && accepts val_uuidp4_2 s) = (uuid (some 4)).run s      (and p6, p7; `_pattern`)
    from the certificates of `uuid` / `uuidv<n>` and the inclusion `uuid (some v) ⊆ uuid none` (`uuid_incl`, a simulation).
-/
import Gozod.Proofs.C20DateTime
import Gozod.Gen.Re_uuidp4
import Gozod.Gen.Re_uuidp6
import Gozod.Gen.Re_uuidp7
namespace Gozod.C20
open Gozod Gozod.Re Gozod.Fmt Gozod.Parsers

/-! ## ISO date -/

/-- the ten bytes of a date, as arithmetic -/
def dateShape : List Nat → Bool
  | [a, b, c, d, e, f, g, h, i, j] =>
    isDigit a && isDigit b && isDigit c && isDigit d && e = 45 && isDigit f && isDigit g && h = 45 && isDigit i && isDigit j &&
      validDate ((((a - 48) * 10 + (b - 48)) * 10 + (c - 48)) * 10 + (d - 48)) ((f - 48) * 10 + (g - 48)) ((i - 48) * 10 + (j - 48))
  | _ => false

theorem td1 (a : Nat) (r : List Nat) : takeDigits 1 (a :: r) = if isDigit a then some (a - 48, r) else none := by
  simp [takeDigits]
theorem td2 (a b : Nat) (r : List Nat) : takeDigits 2 (a :: b :: r) = if isDigit a ∧ isDigit b then some ((a - 48) * 10 + (b - 48), r) else none := by
  simp only [takeDigits, td1]
  by_cases ha : isDigit a = true <;> by_cases hb : isDigit b = true <;> simp [ha, hb]
theorem td4 (a b c d : Nat) (r : List Nat) : takeDigits 4 (a :: b :: c :: d :: r) =
    if isDigit a ∧ isDigit b ∧ isDigit c ∧ isDigit d then some ((((a - 48) * 10 + (b - 48)) * 10 + (c - 48)) * 10 + (d - 48), r) else none := by
  simp only [takeDigits]
  by_cases ha : isDigit a = true <;> by_cases hb : isDigit b = true <;> by_cases hc : isDigit c = true <;> by_cases hd : isDigit d = true <;> simp [ha, hb, hc, hd]

theorem goDate10 (a b c d e f g h i j : Nat) : goDate [a, b, c, d, e, f, g, h, i, j] = dateShape [a, b, c, d, e, f, g, h, i, j] := by
  simp only [goDate, goDatePrefix, td4, td2, lit, dateShape, bind, Option.bind]
  by_cases h1 : isDigit a ∧ isDigit b ∧ isDigit c ∧ isDigit d
  · by_cases he : e = 45
    · by_cases h2 : isDigit f ∧ isDigit g
      · by_cases hh : h = 45
        · by_cases h3 : isDigit i ∧ isDigit j
          · simp [h1, he, h2, hh, h3, td2, lit]
            split <;> simp_all
          · simp [h1, he, h2, hh, h3, td2, lit]
        · simp [h1, he, h2, hh, td2, lit]
      · simp [h1, he, h2, td2, lit]
    · simp [h1, he, lit]
  · simp [h1]; intros; simp_all

/-! ### the automaton side -/

/-- one step of the date automaton on an optional state -/
def dstep (o : Option DateSt) (c : Nat) : Option DateSt := o.bind (fun q => dateStep 10000 q c)

theorem gD_eq (o : Option DateSt) (c : Nat) : gD (45 :: digits) (dateStep 10000) o c = dstep o c := by
  cases o with
  | none => rfl
  | some q =>
    simp only [gD, dstep, Option.bind]
    cases hd : dateStep 10000 q c with
    | none => split <;> rfl
    | some q' => rw [if_pos (digit_or_dash_elem (dateStep_some hd).2.2.2)]

theorem digit_le {a : Nat} (h : isDigit a = true) : a - 48 ≤ 9 := by
  simp only [isDigit, Bool.and_eq_true, Nat.ble_eq] at h; omega

theorem leapFlag (Y : Nat) : decide ((if isLeap Y = true then 1 else 0) = 1) = isLeap Y := by
  cases isLeap Y <;> simp

theorem isoDate10 (a b c d e f g h i j : Nat) : isoDate.run [a, b, c, d, e, f, g, h, i, j] = dateShape [a, b, c, d, e, f, g, h, i, j] := by
  rw [run_isoDate]
  simp only [runD, List.foldl, gD_eq, dateShape]
  by_cases ha : isDigit a = true
  · by_cases hb : isDigit b = true
    · by_cases hc : isDigit c = true
      · by_cases hd : isDigit d = true
        · have := digit_le ha; have := digit_le hb; have := digit_le hc; have := digit_le hd
          have hy : (((((a - 48)) % 10000 * 10 + (b - 48)) % 10000 * 10 + (c - 48)) % 10000 * 10 + (d - 48)) % 10000
              = (((a - 48) * 10 + (b - 48)) * 10 + (c - 48)) * 10 + (d - 48) := by omega
          by_cases he : e = 45
          · by_cases hf : isDigit f = true
            · by_cases hg : isDigit g = true
              · by_cases hm : 1 ≤ (f - 48) * 10 + (g - 48) ∧ (f - 48) * 10 + (g - 48) ≤ 12
                · by_cases hh : h = 45
                  · by_cases hi : isDigit i = true
                    · by_cases hj : isDigit j = true
                      · by_cases hday : 1 ≤ (i - 48) * 10 + (j - 48) ∧ (i - 48) * 10 + (j - 48) ≤
                            daysIn (isLeap ((((a - 48) * 10 + (b - 48)) * 10 + (c - 48)) * 10 + (d - 48))) ((f - 48) * 10 + (g - 48))
                        · simp [dstep, dateStep, accD, validDate, ha, hb, hc, hd, he, hf, hg, hh, hi, hj, hy, hm, hday, leapFlag]
                        · simp [dstep, dateStep, accD, validDate, ha, hb, hc, hd, he, hf, hg, hh, hi, hj, hy, hm, hday, leapFlag]
                          intro h1; omega
                      · simp [dstep, dateStep, accD, ha, hb, hc, hd, he, hf, hg, hh, hi, hj, hy, hm]
                    · simp [dstep, dateStep, accD, ha, hb, hc, hd, he, hf, hg, hh, hi, hy, hm]
                  · simp [dstep, dateStep, accD, ha, hb, hc, hd, he, hf, hg, hh, hy, hm]
                · simp [dstep, dateStep, accD, validDate, ha, hb, hc, hd, he, hf, hg, hy, hm]
              · simp [dstep, dateStep, accD, ha, hb, hc, hd, he, hf, hg, hy]
            · simp [dstep, dateStep, accD, ha, hb, hc, hd, he, hf, hy]
          · simp [dstep, dateStep, accD, ha, hb, hc, hd, he, hy]
        · simp [dstep, dateStep, accD, ha, hb, hc, hd]
      · simp [dstep, dateStep, accD, ha, hb, hc]
    · simp [dstep, dateStep, accD, ha, hb]
  · simp [dstep, dateStep, accD, ha]

theorem takeDigits_length : ∀ (n : Nat) (s rest : List Nat) (v : Nat), takeDigits n s = some (v, rest) → s.length = rest.length + n
  | 0, s, rest, v, h => by simp [takeDigits] at h; rw [h.2]; rfl
  | n + 1, s, rest, v, h => by
    simp only [takeDigits] at h
    split at h
    · next v' c rest' heq =>
      split at h
      · simp only [Option.some.injEq, Prod.mk.injEq] at h
        have := takeDigits_length n s (c :: rest') v' heq
        rw [← h.2]; simp at this; omega
      · cases h
    · cases h

theorem lit_length {c : Nat} {s rest : List Nat} (h : lit c s = some rest) : s.length = rest.length + 1 := by
  cases s with
  | nil => simp [lit] at h
  | cons x xs => simp only [lit] at h; split at h <;> simp_all

theorem goDatePrefix_length {s rest : List Nat} (h : goDatePrefix s = some rest) : s.length = rest.length + 10 := by
  simp only [goDatePrefix, bind, Option.bind_eq_some_iff] at h
  obtain ⟨⟨y, s1⟩, h1, ⟨s2, h2, ⟨m, s3⟩, h3, s4, h4, ⟨d, s5⟩, h5, hv⟩⟩ := h
  dsimp only at h1 h2 h3 h4 h5 hv
  have := takeDigits_length _ _ _ _ h1
  have := lit_length h2
  have := takeDigits_length _ _ _ _ h3
  have := lit_length h4
  have := takeDigits_length _ _ _ _ h5
  split at hv
  · have hr : s5 = rest := by simpa using hv
    subst hr; omega
  · cases hv

theorem goDate_length {s : List Nat} (h : goDate s = true) : s.length = 10 := by
  unfold goDate at h
  split at h
  · next heq => simpa using goDatePrefix_length heq
  · cases h

/-- **validate.ISODate (`time.Parse("2006-01-02", s)` as transcribed in `Parsers.goDate`) accepts exactly the calendar dates** -/
theorem c20_isodate : ∀ s, goDate s = isoDate.run s := by
  intro s
  by_cases hl : s.length = 10
  · rcases s with _ | ⟨a, _ | ⟨b, _ | ⟨c, _ | ⟨d, _ | ⟨e, _ | ⟨f, _ | ⟨g, _ | ⟨h, _ | ⟨i, _ | ⟨j, _ | ⟨k, rest⟩⟩⟩⟩⟩⟩⟩⟩⟩⟩⟩
    all_goals first | (simp at hl; done) | skip
    · exact (goDate10 a b c d e f g h i j).trans (isoDate10 a b c d e f g h i j).symm
  · have h1 : goDate s = false := by
      cases hg : goDate s with
      | false => rfl
      | true => exact absurd (goDate_length hg) hl
    have h2 : isoDate.run s = false := by
      cases hg : isoDate.run s with
      | false => rfl
      | true => exact absurd (date_length hg) hl
    rw [h1, h2]

example : goDate (b! "2024-02-29") = true ∧ goDate (b! "2023-02-29") = false ∧ goDate (b! "2024-2-29") = false := by decide +kernel

/-! ## UUID("vN"): the generic UUID check and the version check together -/

/-- every accepted string of `S` is accepted by `Q` (a simulation `R` between the states) -/
theorem run_incl (S Q : Spec) (R : S.State → Q.State → Prop) (hsup : S.support = Q.support) (hinit : R S.init Q.init)
    (hstep : ∀ q q' c q1, R q q' → S.step q c = some q1 → ∃ q1', Q.step q' c = some q1' ∧ R q1 q1')
    (hacc : ∀ q q', R q q' → S.acc q = true → Q.acc q' = true) : ∀ s, S.run s = true → Q.run s = true := by
  have key : ∀ (s : List Nat) (o : Option S.State) (o' : Option Q.State),
      (∀ q, o = some q → ∃ q', o' = some q' ∧ R q q') →
      S.accO (s.foldl S.gstep o) = true → Q.accO (s.foldl Q.gstep o') = true := by
    intro s
    induction s with
    | nil =>
      intro o o' hr h
      cases o with
      | none => cases h
      | some q =>
        obtain ⟨q', rfl, hq⟩ := hr q rfl
        exact hacc q q' hq h
    | cons c s ih =>
      intro o o' hr h
      simp only [List.foldl_cons] at h ⊢
      refine ih (S.gstep o c) (Q.gstep o' c) ?_ h
      intro q1 h1
      cases o with
      | none => cases h1
      | some q =>
        obtain ⟨q', rfl, hq⟩ := hr q rfl
        have h1' : (if S.support.elem c then S.step q c else none) = some q1 := h1
        split at h1'
        · next hc =>
          obtain ⟨q1', hs, hr1⟩ := hstep q q' c q1 hq h1'
          refine ⟨q1', ?_, hr1⟩
          show (if Q.support.elem c then Q.step q' c else none) = some q1'
          rw [← hsup, if_pos hc]; exact hs
        · cases h1'
  intro s h
  exact key s (some S.init) (some Q.init) (fun q hq => by cases hq; exact ⟨Q.init, rfl, hinit⟩) h

/-- a version-`v` UUID (1 ≤ v ≤ 8) is a UUID -/
theorem uuid_incl (v : Nat) (hv : 1 ≤ v ∧ v ≤ 8) : ∀ s, (uuid (some v)).run s = true → (uuid none).run s = true :=
  run_incl (uuid (some v)) (uuid none) (fun q q' => q.pos = q'.pos ∧ q.zero = q'.zero ∧ (q.ok = true → q'.ok = true)) rfl
    ⟨rfl, rfl, fun h => h⟩
    (fun q q' c q1 hr h => by
      obtain ⟨pos, zero, ok⟩ := q
      obtain ⟨pos', zero', ok'⟩ := q'
      obtain ⟨h1, h2, h3⟩ := hr
      simp only at h1 h2 h3
      subst h1 h2
      simp only [uuid, uuidStep] at h ⊢
      by_cases hp : pos ≥ 36
      · rw [if_pos hp] at h; cases h
      · by_cases hd : pos = 8 ∨ pos = 13 ∨ pos = 18 ∨ pos = 23
        · by_cases hc : c = 45
          · rw [if_neg hp, if_pos hd, if_pos hc] at h ⊢
            cases h; exact ⟨_, rfl, rfl, rfl, h3⟩
          · rw [if_neg hp, if_pos hd, if_neg hc] at h; cases h
        · by_cases hc : c = 45
          · rw [if_neg hp, if_neg hd, if_pos hc] at h; cases h
          · rw [if_neg hp, if_neg hd, if_neg hc] at h ⊢
            cases h
            refine ⟨_, rfl, rfl, rfl, ?_⟩
            simp only [Bool.and_eq_true, Bool.or_eq_true, decide_eq_true_eq, bne_iff_ne, ne_eq, Nat.ble_eq]
            intro ⟨⟨hok, hver⟩, hvar⟩
            refine ⟨⟨h3 hok, ?_⟩, hvar⟩
            rcases hver with hver | hver
            · exact Or.inl hver
            · right; omega)
    (fun q q' hr h => by
      obtain ⟨h1, h2, h3⟩ := hr
      simp only [uuid, Bool.and_eq_true, Bool.or_eq_true, decide_eq_true_eq, Option.isNone] at h ⊢
      refine ⟨by omega, ?_⟩
      rcases h.2 with h | h
      · exact Or.inl (h3 h)
      · exact absurd h.1 (by simp))

theorem and_of_incl {a b : Bool} (h : b = true → a = true) : (a && b) = b := by
  cases a <;> cases b <;> simp_all

theorem c20_uuidp4 : ∀ s, (accepts Gen.val_uuidp4 s && accepts Gen.val_uuidp4_2 s) = (uuid (some 4)).run s := fun s => by
  have e1 : Gen.val_uuidp4 = Gen.val_uuid := beq_eq (by decide +kernel)
  have e2 : Gen.val_uuidp4_2 = Gen.val_uuidv4 := beq_eq (by decide +kernel)
  rw [e1, e2, c20_uuid, c20_uuidv4]
  exact and_of_incl (uuid_incl 4 (by decide) s)
theorem c20_uuidp4_pattern : ∀ s, (accepts Gen.pat_uuidp4 s && accepts Gen.pat_uuidp4_2 s) = (uuid (some 4)).run s := c20_uuidp4

theorem c20_uuidp6 : ∀ s, (accepts Gen.val_uuidp6 s && accepts Gen.val_uuidp6_2 s) = (uuid (some 6)).run s := fun s => by
  have e1 : Gen.val_uuidp6 = Gen.val_uuid := beq_eq (by decide +kernel)
  have e2 : Gen.val_uuidp6_2 = Gen.val_uuidv6 := beq_eq (by decide +kernel)
  rw [e1, e2, c20_uuid, c20_uuidv6]
  exact and_of_incl (uuid_incl 6 (by decide) s)
theorem c20_uuidp6_pattern : ∀ s, (accepts Gen.pat_uuidp6 s && accepts Gen.pat_uuidp6_2 s) = (uuid (some 6)).run s := c20_uuidp6

theorem c20_uuidp7 : ∀ s, (accepts Gen.val_uuidp7 s && accepts Gen.val_uuidp7_2 s) = (uuid (some 7)).run s := fun s => by
  have e1 : Gen.val_uuidp7 = Gen.val_uuid := beq_eq (by decide +kernel)
  have e2 : Gen.val_uuidp7_2 = Gen.val_uuidv7 := beq_eq (by decide +kernel)
  rw [e1, e2, c20_uuid, c20_uuidv7]
  exact and_of_incl (uuid_incl 7 (by decide) s)
theorem c20_uuidp7_pattern : ∀ s, (accepts Gen.pat_uuidp7 s && accepts Gen.pat_uuidp7_2 s) = (uuid (some 7)).run s := c20_uuidp7

end Gozod.C20
