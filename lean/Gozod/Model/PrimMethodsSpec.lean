/-
  Gozod.Model.PrimMethodsSpec — what the C01/C10 models make of every exported method of the six
  primitive schema types (`ZodString`, `ZodIntegerTyped`, `ZodFloatTyped`, `ZodBool`, `ZodEnum`,
  `ZodLiteral`). `Gen/PrimMethods.lean` is regenerated from the source by go/ast on every run; the
  theorem `C01.c01_methods_classified` states that the regenerated table and this expectation agree
  entry by entry: every method is modelled (and delegates to the check factory the model transcribes)
  or is listed here with the reason it is outside C01. A new method, a removed one, or a method that
  starts delegating to another factory (`Min` → `checks.MaxLength`) breaks the proof and names the entry.

  Classes:
    check m      attaches one predicate check; `m` names the Lean definition that transcribes it
    overwrite m  attaches an overwrite check
    custom       Refine / RefineAny / Check / With: a user callback (`Env.holds`, universally quantified)
    modifier     Optional … PrefaultFunc: fields of `Prim.Internals` (C03 / C09)
    entry        the six parse entry points (`Prim.parse`, `Prim.strictParse`; C09)
    wrapper      Transform / Pipe (`parsePipeline`, C10) and And / Or (C02)
    derive       Enum.Exclude / Extract: a new value set (the enum model takes the value set as given)
    accessor     accessors and registry metadata: no effect on the parse result
    outside why  not modelled by C01; `why` names the owner
-/
import Gozod.Gen.PrimMethods
namespace Gozod.PrimMethodsSpec

inductive Cls where
  | check (model : String)
  | overwrite (model : String)
  | custom | modifier | entry | wrapper | derive | accessor
  | outside (why : String)
  deriving Repr, DecidableEq

/-- (receiver, method, delegates, class) -/
def expected : List (String × String × String × Cls) := [
  ("ZodString", "And", "", .wrapper),
  ("ZodString", "Check", "z.withCheck+checks.NewCustom+utils.NormalizeCustomParams", .custom),
  ("ZodString", "CloneFrom", "", .accessor),
  ("ZodString", "Coerce", "", .outside "C17 coercion"),
  ("ZodString", "Default", "z.withInternals", .modifier),
  ("ZodString", "DefaultFunc", "z.withInternals", .modifier),
  ("ZodString", "Describe", "", .accessor),
  ("ZodString", "Email", "z.withCheck+checks.Email", .outside "C20 format check"),
  ("ZodString", "EndsWith", "z.withCheck+checks.EndsWith", .check "Str.SPred.endsWith"),
  ("ZodString", "ExactOptional", "z.withInternals", .modifier),
  ("ZodString", "Includes", "z.withCheck+checks.Includes", .check "Str.SPred.includes"),
  ("ZodString", "Internals", "", .accessor),
  ("ZodString", "IsNilable", "", .accessor),
  ("ZodString", "IsOptional", "", .accessor),
  ("ZodString", "JSON", "z.withCheck+checks.JSON", .outside "C20 format check"),
  ("ZodString", "JWT", "z.withCheck+checks.JWT+checks.JWTWithAlgorithm+checks.JWTWithOptions", .outside "C20 format check"),
  ("ZodString", "Length", "z.withCheck+checks.Length", .check "Str.SPred.lenEq"),
  ("ZodString", "Lowercase", "z.withCheck+checks.Lowercase", .check "Str.SPred.lowercase"),
  ("ZodString", "MAC", "z.withCheck+checks.MAC+checks.MACWithDelimiter+checks.MACWithOptions", .outside "C20 format check"),
  ("ZodString", "Max", "z.withCheck+checks.MaxLength", .check "Str.SPred.maxLen"),
  ("ZodString", "Meta", "", .accessor),
  ("ZodString", "Min", "z.withCheck+checks.MinLength", .check "Str.SPred.minLen"),
  ("ZodString", "MustParse", "z.Parse", .entry),
  ("ZodString", "MustParseAny", "z.ParseAny", .entry),
  ("ZodString", "MustStrictParse", "z.StrictParse", .entry),
  ("ZodString", "Nilable", "z.withPtrInternals", .modifier),
  ("ZodString", "NonOptional", "", .modifier),
  ("ZodString", "Normalize", "z.Overwrite", .outside "x/text normalisation / slug overwrite"),
  ("ZodString", "Nullish", "z.withPtrInternals", .modifier),
  ("ZodString", "Optional", "z.withPtrInternals", .modifier),
  ("ZodString", "Or", "", .wrapper),
  ("ZodString", "Overwrite", "z.withCheck+checks.NewZodCheckOverwrite", .overwrite "Str.SOw.custom"),
  ("ZodString", "Parse", "engine.ParsePrimitive", .entry),
  ("ZodString", "ParseAny", "z.Parse", .entry),
  ("ZodString", "Pipe", "core.NewZodPipe", .wrapper),
  ("ZodString", "Prefault", "z.withInternals", .modifier),
  ("ZodString", "PrefaultFunc", "z.withInternals", .modifier),
  ("ZodString", "Refine", "z.withCheck+checks.NewCustom+utils.NormalizeCustomParams", .custom),
  ("ZodString", "RefineAny", "z.withCheck+checks.NewCustom+utils.NormalizeCustomParams", .custom),
  ("ZodString", "Regex", "z.withCheck+checks.Regex", .check "Str.SPred.regex"),
  ("ZodString", "RegexString", "z.Regex", .check "Str.SPred.regex"),
  ("ZodString", "Slugify", "z.Overwrite", .outside "x/text normalisation / slug overwrite"),
  ("ZodString", "StartsWith", "z.withCheck+checks.StartsWith", .check "Str.SPred.startsWith"),
  ("ZodString", "StrictParse", "engine.ParsePrimitiveStrict", .entry),
  ("ZodString", "ToLowerCase", "z.Overwrite", .overwrite "Str.SOw.lower"),
  ("ZodString", "ToUpperCase", "z.Overwrite", .overwrite "Str.SOw.upper"),
  ("ZodString", "Transform", "core.NewZodTransform", .wrapper),
  ("ZodString", "Trim", "z.Overwrite", .overwrite "Str.SOw.trim"),
  ("ZodString", "Uppercase", "z.withCheck+checks.Uppercase", .check "Str.SPred.uppercase"),
  ("ZodString", "With", "z.Check", .custom),
  ("ZodIntegerTyped", "And", "", .wrapper),
  ("ZodIntegerTyped", "Check", ".Set+z.withCheck+checks.NewCustom+utils.NormalizeCustomParams", .custom),
  ("ZodIntegerTyped", "CloneFrom", "", .accessor),
  ("ZodIntegerTyped", "Coerce", "", .outside "C17 coercion"),
  ("ZodIntegerTyped", "Default", "z.withInternals", .modifier),
  ("ZodIntegerTyped", "DefaultFunc", "z.withInternals", .modifier),
  ("ZodIntegerTyped", "Describe", "z.withInternals", .accessor),
  ("ZodIntegerTyped", "ExactOptional", "z.withInternals", .modifier),
  ("ZodIntegerTyped", "Gt", "z.withCheck+checks.Gt", .check "NPred.cmp gt"),
  ("ZodIntegerTyped", "Gte", "z.withCheck+checks.Gte", .check "NPred.cmp gte"),
  ("ZodIntegerTyped", "Internals", "", .accessor),
  ("ZodIntegerTyped", "IsNilable", "", .accessor),
  ("ZodIntegerTyped", "IsOptional", "", .accessor),
  ("ZodIntegerTyped", "Lt", "z.withCheck+checks.Lt", .check "NPred.cmp lt"),
  ("ZodIntegerTyped", "Lte", "z.withCheck+checks.Lte", .check "NPred.cmp lte"),
  ("ZodIntegerTyped", "Max", "z.withCheck+checks.Lte", .check "NPred.cmp lte"),
  ("ZodIntegerTyped", "Meta", "z.withInternals", .accessor),
  ("ZodIntegerTyped", "Min", "z.withCheck+checks.Gte", .check "NPred.cmp gte"),
  ("ZodIntegerTyped", "MultipleOf", "z.withCheck+checks.MultipleOf", .check "NPred.mult"),
  ("ZodIntegerTyped", "MustParse", "z.Parse", .entry),
  ("ZodIntegerTyped", "MustStrictParse", "z.StrictParse", .entry),
  ("ZodIntegerTyped", "Negative", "z.Lt(0)", .check "NPred.cmp lt 0"),
  ("ZodIntegerTyped", "Nilable", "z.withPtrInternals", .modifier),
  ("ZodIntegerTyped", "NonNegative", "z.Gte(0)", .check "NPred.cmp gte 0"),
  ("ZodIntegerTyped", "NonOptional", "", .modifier),
  ("ZodIntegerTyped", "NonPositive", "z.Lte(0)", .check "NPred.cmp lte 0"),
  ("ZodIntegerTyped", "Nullish", "z.withPtrInternals", .modifier),
  ("ZodIntegerTyped", "Optional", "z.withPtrInternals", .modifier),
  ("ZodIntegerTyped", "Or", "", .wrapper),
  ("ZodIntegerTyped", "Overwrite", "z.withCheck+checks.NewZodCheckOverwrite", .overwrite "Env.apply (quantified)"),
  ("ZodIntegerTyped", "Parse", "engine.ParsePrimitive", .entry),
  ("ZodIntegerTyped", "ParseAny", "z.Parse", .entry),
  ("ZodIntegerTyped", "Pipe", "core.NewZodPipe", .wrapper),
  ("ZodIntegerTyped", "Positive", "z.Gt(0)", .check "NPred.cmp gt 0"),
  ("ZodIntegerTyped", "Prefault", "z.withInternals", .modifier),
  ("ZodIntegerTyped", "PrefaultFunc", "z.withInternals", .modifier),
  ("ZodIntegerTyped", "Refine", "z.IsNilable+z.withCheck+checks.NewCustom+utils.RefineParams", .custom),
  ("ZodIntegerTyped", "RefineAny", "z.withCheck+checks.NewCustom+utils.NormalizeCustomParams", .custom),
  ("ZodIntegerTyped", "Safe", ".Lte(maxSafeInt)+z.Gte(minSafeInt)", .check "NPred.safe"),
  ("ZodIntegerTyped", "Step", "z.MultipleOf", .check "NPred.mult"),
  ("ZodIntegerTyped", "StrictParse", "engine.ParsePrimitiveStrict", .entry),
  ("ZodIntegerTyped", "Transform", "core.NewZodTransform", .wrapper),
  ("ZodIntegerTyped", "With", "z.Check", .custom),
  ("ZodFloatTyped", "And", "", .wrapper),
  ("ZodFloatTyped", "Check", ".Set+z.withCheck+checks.NewCustom+utils.NormalizeCustomParams", .custom),
  ("ZodFloatTyped", "CloneFrom", "", .accessor),
  ("ZodFloatTyped", "Coerce", "", .outside "C17 coercion"),
  ("ZodFloatTyped", "Default", "z.withInternals", .modifier),
  ("ZodFloatTyped", "DefaultFunc", "z.withInternals", .modifier),
  ("ZodFloatTyped", "Describe", "z.withInternals", .accessor),
  ("ZodFloatTyped", "ExactOptional", "z.withInternals", .modifier),
  ("ZodFloatTyped", "Finite", "z.withCheck+checks.NewCustom+math.IsInf+math.IsNaN", .check "NPred.finite"),
  ("ZodFloatTyped", "Gt", "z.withCheck+checks.Gt", .check "NPred.cmp gt"),
  ("ZodFloatTyped", "Gte", "z.withCheck+checks.Gte", .check "NPred.cmp gte"),
  ("ZodFloatTyped", "Int", "z.withCheck+checks.NewCustom+math.Trunc", .check "NPred.isInt"),
  ("ZodFloatTyped", "Internals", "", .accessor),
  ("ZodFloatTyped", "IsNilable", "", .accessor),
  ("ZodFloatTyped", "IsOptional", "", .accessor),
  ("ZodFloatTyped", "Lt", "z.withCheck+checks.Lt", .check "NPred.cmp lt"),
  ("ZodFloatTyped", "Lte", "z.withCheck+checks.Lte", .check "NPred.cmp lte"),
  ("ZodFloatTyped", "Max", "z.withCheck+checks.Lte", .check "NPred.cmp lte"),
  ("ZodFloatTyped", "Meta", "z.withInternals", .accessor),
  ("ZodFloatTyped", "Min", "z.withCheck+checks.Gte", .check "NPred.cmp gte"),
  ("ZodFloatTyped", "MultipleOf", "z.withCheck+checks.MultipleOf", .check "NPred.multF"),
  ("ZodFloatTyped", "MustParse", "z.Parse", .entry),
  ("ZodFloatTyped", "MustStrictParse", "z.StrictParse", .entry),
  ("ZodFloatTyped", "Negative", "z.Lt(0)", .check "NPred.cmp lt 0"),
  ("ZodFloatTyped", "Nilable", "z.withPtrInternals", .modifier),
  ("ZodFloatTyped", "NonNegative", "z.Gte(0)", .check "NPred.cmp gte 0"),
  ("ZodFloatTyped", "NonOptional", "", .modifier),
  ("ZodFloatTyped", "NonPositive", "z.Lte(0)", .check "NPred.cmp lte 0"),
  ("ZodFloatTyped", "Nullish", "z.withPtrInternals", .modifier),
  ("ZodFloatTyped", "Optional", "z.withPtrInternals", .modifier),
  ("ZodFloatTyped", "Or", "", .wrapper),
  ("ZodFloatTyped", "Overwrite", "z.withCheck+checks.NewZodCheckOverwrite", .overwrite "Env.apply (quantified)"),
  ("ZodFloatTyped", "Parse", "engine.ParsePrimitive", .entry),
  ("ZodFloatTyped", "ParseAny", "z.Parse", .entry),
  ("ZodFloatTyped", "Pipe", "core.NewZodPipe", .wrapper),
  ("ZodFloatTyped", "Positive", "z.Gt(0)", .check "NPred.cmp gt 0"),
  ("ZodFloatTyped", "Prefault", "z.withInternals", .modifier),
  ("ZodFloatTyped", "PrefaultFunc", "z.withInternals", .modifier),
  ("ZodFloatTyped", "Refine", "z.IsNilable+z.withCheck+checks.NewCustom+utils.RefineParams", .custom),
  ("ZodFloatTyped", "RefineAny", "z.withCheck+checks.NewCustom+utils.NormalizeCustomParams", .custom),
  ("ZodFloatTyped", "Safe", ".Lte(safeIntMax)+z.Gte(safeIntMin)", .check "NPred.safe"),
  ("ZodFloatTyped", "Step", "z.MultipleOf", .check "NPred.multF"),
  ("ZodFloatTyped", "StrictParse", "engine.ParsePrimitiveStrict", .entry),
  ("ZodFloatTyped", "Transform", "core.NewZodTransform", .wrapper),
  ("ZodFloatTyped", "With", "z.Check", .custom),
  ("ZodBool", "And", "", .wrapper),
  ("ZodBool", "Check", "checks.NewCustom+utils.NormalizeCustomParams+z.withCheck", .custom),
  ("ZodBool", "CloneFrom", "", .accessor),
  ("ZodBool", "Coerce", "", .outside "C17 coercion"),
  ("ZodBool", "Default", "z.withInternals", .modifier),
  ("ZodBool", "DefaultFunc", "z.withInternals", .modifier),
  ("ZodBool", "Describe", "z.withInternals", .accessor),
  ("ZodBool", "ExactOptional", "z.withInternals", .modifier),
  ("ZodBool", "Internals", "", .accessor),
  ("ZodBool", "IsNilable", "", .accessor),
  ("ZodBool", "IsOptional", "", .accessor),
  ("ZodBool", "Meta", "z.withInternals", .accessor),
  ("ZodBool", "MustParse", "z.Parse", .entry),
  ("ZodBool", "MustStrictParse", "z.StrictParse", .entry),
  ("ZodBool", "Nilable", "z.withPtrInternals", .modifier),
  ("ZodBool", "NonOptional", "", .modifier),
  ("ZodBool", "Nullish", "z.withPtrInternals", .modifier),
  ("ZodBool", "Optional", "z.withPtrInternals", .modifier),
  ("ZodBool", "Or", "", .wrapper),
  ("ZodBool", "Overwrite", "checks.NewZodCheckOverwrite+z.withCheck", .overwrite "Env.apply (quantified)"),
  ("ZodBool", "Parse", "engine.ParsePrimitive", .entry),
  ("ZodBool", "ParseAny", "z.Parse", .entry),
  ("ZodBool", "Pipe", "core.NewZodPipe", .wrapper),
  ("ZodBool", "Prefault", "z.withInternals", .modifier),
  ("ZodBool", "PrefaultFunc", "z.withInternals", .modifier),
  ("ZodBool", "Refine", "checks.NewCustom+utils.RefineParams+z.withCheck", .custom),
  ("ZodBool", "RefineAny", "checks.NewCustom+utils.RefineParams+z.withCheck", .custom),
  ("ZodBool", "StrictParse", "engine.ParsePrimitiveStrict", .entry),
  ("ZodBool", "Transform", "core.NewZodTransform", .wrapper),
  ("ZodBool", "With", "z.Check", .custom),
  ("ZodEnum", "And", "", .wrapper),
  ("ZodEnum", "Check", "checks.NewCustom+utils.NormalizeCustomParams+z.withCheck", .custom),
  ("ZodEnum", "CloneFrom", "", .accessor),
  ("ZodEnum", "Default", "z.withInternals", .modifier),
  ("ZodEnum", "DefaultFunc", "z.withInternals", .modifier),
  ("ZodEnum", "Describe", "z.withInternals", .accessor),
  ("ZodEnum", "Enum", "", .accessor),
  ("ZodEnum", "ExactOptional", "z.withInternals", .modifier),
  ("ZodEnum", "Exclude", "", .derive),
  ("ZodEnum", "Extract", "", .derive),
  ("ZodEnum", "Internals", "", .accessor),
  ("ZodEnum", "IsNilable", "", .accessor),
  ("ZodEnum", "IsOptional", "", .accessor),
  ("ZodEnum", "Meta", "z.withInternals", .accessor),
  ("ZodEnum", "MustParse", "z.Parse", .entry),
  ("ZodEnum", "MustStrictParse", "z.StrictParse", .entry),
  ("ZodEnum", "Nilable", "z.withPtrInternals", .modifier),
  ("ZodEnum", "NonOptional", "", .modifier),
  ("ZodEnum", "Nullish", "z.withPtrInternals", .modifier),
  ("ZodEnum", "Optional", "z.withPtrInternals", .modifier),
  ("ZodEnum", "Options", "", .accessor),
  ("ZodEnum", "Or", "", .wrapper),
  ("ZodEnum", "Parse", "engine.ParsePrimitive", .entry),
  ("ZodEnum", "ParseAny", "z.Parse", .entry),
  ("ZodEnum", "Pipe", "core.NewZodPipe", .wrapper),
  ("ZodEnum", "Prefault", "z.withInternals", .modifier),
  ("ZodEnum", "PrefaultFunc", "z.withInternals", .modifier),
  ("ZodEnum", "Refine", "checks.NewCustom+utils.RefineParams+z.withCheck", .custom),
  ("ZodEnum", "RefineAny", "checks.NewCustom+utils.RefineParams+z.withCheck", .custom),
  ("ZodEnum", "StrictParse", "z.Parse", .entry),
  ("ZodEnum", "Transform", "core.NewZodTransform", .wrapper),
  ("ZodEnum", "With", "z.Check", .custom),
  ("ZodLiteral", "Contains", "", .accessor),
  ("ZodLiteral", "Default", "z.withInternals", .modifier),
  ("ZodLiteral", "DefaultFunc", "z.withInternals", .modifier),
  ("ZodLiteral", "Describe", "z.withInternals", .accessor),
  ("ZodLiteral", "Internals", "", .accessor),
  ("ZodLiteral", "IsNilable", "", .accessor),
  ("ZodLiteral", "IsOptional", "", .accessor),
  ("ZodLiteral", "Meta", "z.withInternals", .accessor),
  ("ZodLiteral", "MustParse", "z.Parse", .entry),
  ("ZodLiteral", "MustParseAny", "z.ParseAny", .entry),
  ("ZodLiteral", "MustStrictParse", "z.StrictParse", .entry),
  ("ZodLiteral", "Nilable", "z.withPtrInternals", .modifier),
  ("ZodLiteral", "Nullish", "z.withPtrInternals", .modifier),
  ("ZodLiteral", "Optional", "z.withPtrInternals", .modifier),
  ("ZodLiteral", "Parse", "engine.ParsePrimitive", .entry),
  ("ZodLiteral", "ParseAny", "z.Parse", .entry),
  ("ZodLiteral", "Prefault", "z.withInternals", .modifier),
  ("ZodLiteral", "PrefaultFunc", "z.withInternals", .modifier),
  ("ZodLiteral", "Refine", "z.withCheck+checks.NewCustom+utils.NormalizeCustomParams", .custom),
  ("ZodLiteral", "RefineAny", "z.withCheck+checks.NewCustom+utils.NormalizeCustomParams", .custom),
  ("ZodLiteral", "StrictParse", "z.Parse", .entry),
  ("ZodLiteral", "Value", "", .accessor),
  ("ZodLiteral", "Values", "", .accessor)
]

def key (e : String × String × String) : String := e.1 ++ "." ++ e.2.1 ++ " -> " ++ e.2.2

/-- The delegates of a method are part of the expectation only where the C01/C10 models transcribe them:
    checks, overwrites and user-callback wrappers. For the other classes (entry points, modifiers, wrappers,
    accessors — owned by C09/C03/C02) only the presence and the class of the method are pinned. -/
def Cls.pinsDelegates : Cls → Bool
  | .check _ | .overwrite _ | .custom => true
  | _ => false

def norm (c : Cls) (e : String × String × String) : String × String × String :=
  if c.pinsDelegates then e else (e.1, e.2.1, "")

def classOf (recv method : String) : Option Cls :=
  (expected.find? fun e => e.1 == recv && e.2.1 == method).map (·.2.2.2)

/-- Entries of the regenerated table that the expectation does not list (with the same delegates where
    they are pinned), and expected entries the source no longer has. -/
def methodOffenders : List String :=
  let exp := expected.map fun e => norm e.2.2.2 (e.1, e.2.1, e.2.2.1)
  let got := Gozod.Gen.primMethods.map fun e =>
    match classOf e.1 e.2.1 with
    | some c => norm c e
    | none => e
  (got.filter (fun e => !exp.contains e)).map (fun e => "unexpected: " ++ key e) ++
  (exp.filter (fun e => !got.contains e)).map (fun e => "missing: " ++ key e)

/-- The methods C01 does not model, with the recorded reason. -/
def opaqueMethods : List (String × String × String) :=
  expected.filterMap fun e => match e.2.2.2 with
    | .outside why => some (e.1, e.2.1, why)
    | _ => none

end Gozod.PrimMethodsSpec
