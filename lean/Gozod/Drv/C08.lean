/-
  Line handler for C08 (and the history part of C12): abstract histories of chaining calls.

    c08 <Base> <bag n|e|f> <vals n|e|f> <len> <cap> | <recv> <class> <k> <len> <cap> <bag> <vals> <resultHasMeta 0|1> <Method> | …

  class ∈ derive (Clone + k appended checks) | copymeta | metaself | bagwrite | rebuild (constructor-built,
  header/bag/vals given) | access / alias (an accessor returns an existing inner schema — not yet / already in the
  live list: the model step is `applyXOp … .access`, no store effect; "distinct schema" does not apply to an accessor
  (the protocol's 1), "nothing changed" is COMPUTED from the observations like for every other class; structure not compared).
  Output:  V:<fresh>:<changed,…>;…  S:b<idx,…>a<idx,…>v<idx,…>h<len>/<cap>;…  <TAB>  V:1:;1:;…
  (model verdicts + predicted sharing structure, then the property oracle: every step fresh, nothing changed).
-/
import Gozod.Model.Store
import Gozod.Model.StoreC08
namespace Gozod.Drv.C08
open Gozod.Store Gozod.StoreC08

def splitOnBar : List String → List (List String)
  | [] => [[]]
  | t :: ts =>
    match splitOnBar ts with
    | [] => [[t]]
    | g :: gs => if t == "|" then [] :: g :: gs else (t :: g) :: gs

def stateCell (σ : Store) (l : Option Loc) (st : String) (filled : Cell) : Store :=
  match l with
  | some x => if st == "f" then write σ x filled else σ
  | none => σ

/-- constructor-built schema with the observed header and map states -/
def build (σ : Store) (len cap : Nat) (bag vals : String) : Store × Schema :=
  let cks := (List.range len).map (fun i => 8 * (σ.next + i) + 8)
  let dummy : Schema := { self := 0, kind := 0, flags := 0, checks := ⟨0, 0, 0⟩, bag := none, values := none,
                          shape := none, dflt := none }
  let (σ1, s) := applyOp fixed σ dummy (.rebuild 1 0 cks cap (bag != "n") (vals != "n") false)
  let σ2 := stateCell σ1 s.bag bag (.bag [(5, .num 1)])
  let σ3 := stateCell σ2 s.values vals (.vals [1])
  (σ3, s)

def idxList (xs : List Nat) : String := ",".intercalate (xs.map toString)

def sharing (live : List Schema) (r : Schema) : String :=
  let idx := List.range live.length
  let pick (p : Schema → Bool) : List Nat := idx.filter (fun i => match live[i]? with | some s => p s | none => false)
  let b := pick (fun s => match r.bag, s.bag with | some x, some y => x == y | _, _ => false)
  let a := pick (fun s => r.checks.cap > 0 && s.checks.cap > 0 && r.checks.loc == s.checks.loc)
  let v := pick (fun s => match r.values, s.values with | some x, some y => x == y | _, _ => false)
  s!"b{idxList b}a{idxList a}v{idxList v}h{r.checks.len}/{r.checks.cap}"

structure St where
  σ : Store
  live : List Schema
  deps : List (Nat × Nat) := []      -- (composite index, member index): And/Or results hold the receiver
  verdicts : List String
  structs : List String

/-- the verdict of an accessor step (classes access / alias), computed (round 4c, audit A LOW: it was the constant
    "1:"): freshness does not apply to an accessor — the 1 is the protocol's, the harness writes the same —; which
    live schemas changed is read off the observations before and after, as for every other class -/
def accessVerdict (st : St) (σ' : Store) : String :=
  let changed := (List.range st.live.length).filter
    (fun j => (st.live[j]?.map (obs st.σ.heap)) != (st.live[j]?.map (obs σ'.heap)))
  s!"1:{idxList changed}"

def stepModel (cfg : Cfg) (st : St) : List String → Option St
  | [recv, cls, k, len, cap, bag, vals, rm, _method] => do
    let i ← recv.toNat?
    let k ← k.toNat?
    let len ← len.toNat?
    let cap ← cap.toNat?
    let rs ← st.live[i]?
    if cls == "alias" then
      -- the accessor handed out live[k]: the op of the extended classes the theorems c08x_* are about
      let r ← st.live[k]?
      let (σ', _) := applyXOp cfg st.σ rs .access
      some { st with σ := σ', deps := st.deps ++ (st.deps.filter (fun d => d.1 == k)).map (fun d => (st.live.length, d.2)),
                     live := st.live ++ [r], verdicts := st.verdicts ++ [accessVerdict st σ'], structs := st.structs ++ ["-"] }
    else if cls == "access" then
      -- the accessor handed out an inner schema the history has not seen: no store effect (`applyXOp … .access`);
      -- the schema then enters the history's store with the header the run observed, so that later steps can use it
      let (σ0, _) := applyXOp cfg st.σ rs .access
      let (σ', r) := build σ0 len cap bag vals
      some { st with σ := σ', live := st.live ++ [r], verdicts := st.verdicts ++ [accessVerdict st σ'], structs := st.structs ++ ["-"] }
    else
      let cfg : Cfg := { cfg with grow := fun _ => cap }   -- the runtime's growslice answer, as observed
      let op : Option Op :=
        if cls == "self" then some (.derive 0 [] none) else
        if cls == "derive" then some (.derive (rs.flags + 1) ((List.range k).map (fun j => 8 * (st.σ.next + j) + 8)) none)
        else if cls == "copymeta" then some (.copyMeta (k + 1))
        else if cls == "metaself" then some (.metaSelf (k + 1))
        else if cls == "bagwrite" then some (.bagWrite 4 1)
        else if cls == "rebuild" then none
        else none
      let (σ', r) ← (match op with
        | some o => if cls == "self" then some (st.σ, rs) else some (applyOp cfg st.σ rs o)
        | none =>
          if cls == "rebuild" || cls == "wrap" then some (build st.σ len cap bag vals)
          else if cls == "refilter" then
            -- Clone, then `Checks` replaced by a freshly made slice (removeEmailChecks), then appends
            let (σ1, c) := clone cfg st.σ rs
            let (σ2, a) := alloc σ1 (.arr ((List.range cap).map (fun j => 8 * (σ1.next + j) + 8)))
            some (withInternals σ2 rs { c with checks := ⟨a, len, cap⟩ } none)
          else none)
      -- only some types' `withInternals` copy the receiver's registry entry to the new schema
      let σ' := if rm == "0" && r.self ≥ st.σ.next then write σ' r.self (.reg none) else σ'
      let before := st.live.map (obs st.σ.heap)
      let after := st.live.map (obs σ'.heap)
      let changed0 := (List.range st.live.length).filter (fun j => before[j]? != after[j]?)
      let changed := changed0
      let fresh := !(st.live.any (fun s => s.self == r.self))
      let v := s!"{if fresh then 1 else 0}:{idxList changed}"
      let deps :=
        if cls == "wrap" then st.deps ++ [(st.live.length, i)]
        else if cls == "rebuild" then st.deps
        else st.deps ++ (st.deps.filter (fun d => d.1 == i)).map (fun d => (st.live.length, d.2))
      some { σ := σ', live := st.live ++ [r], verdicts := st.verdicts ++ [v],
             structs := st.structs ++ [sharing st.live r], deps := deps }
  | _ => none

def runSteps (cfg : Cfg) (st : St) : List (List String) → Option St
  | [] => some st
  | s :: rest => match stepModel cfg st s with
    | some st' => runSteps cfg st' rest
    | none => none

def handleWith (cfg : Cfg) (toks : List String) : String :=
  match splitOnBar toks with
  | [_base, bag, vals, len, cap] :: steps =>
    match len.toNat?, cap.toNat? with
    | some len, some cap =>
      let (σ, s) := build { heap := fun _ => none, next := 1 } len cap bag vals
      match runSteps cfg { σ := σ, live := [s], verdicts := [], structs := [] } steps with
      | some st =>
        let spec := ";".intercalate (steps.map (fun _ => "1:"))
        s!"V:{";".intercalate st.verdicts} S:{";".intercalate st.structs}\tV:{spec}"
      | none => "bad-op"
    | _, _ => "bad-op"
  | _ => "bad-op"

def handle : List String → String := handleWith fixed

end Gozod.Drv.C08
