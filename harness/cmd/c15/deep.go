package main

// C15 class "deep" — defaults / prefaults that are deeper than the clone's depth limit, or self-referential.
//
// engine.deepCloneValue (what resolveDefault / CloneDefaultValue hand out for Parse(nil)) counts every reflect level
// (slice, interface, map, …) and, on /repo before pending/C15-clone-deep-default, returns the ORIGINAL below level 64. The
// values generated here are any-typed (`[]any` / `map[string]any` nests): two code levels per container level, so the
// container at nesting level k (0 = the value itself) is copied iff 2k ≤ 64, i.e. k ≤ 32 — the Lean model's `copy` with
// fuel 33 (`Gozod.Graph.legacyCloneLevels`).
//
// Values:   chain      N nested containers (N = 20 … 48, alternating / all slices / all maps) ending in a scalar leaf cell
//           selfmap    m["self"] = m;  selfslice  xs[1] = xs;  ring  a → b → c → a (maps and slices mixed)
//           lasso      a chain of L containers ending in a ring
//           diamond    one cell reachable along two paths (sharing without a cycle)
// Schemas:  Any / Unknown / Slice[any](Any) / Record(String, Any) / Object{}.Loose × {Default, Prefault}, and the family
//           {schema, Describe, a second schema given the same value}.
// History:  P (Parse(nil)), M<j>@<k> (follow the spine of the j-th result k levels down — the first entry, in key order,
//           that holds a container — and mutate that cell in place: every scalar entry replaced, one entry added), P …
//           with k drawn around the limit (0, 1, 31, 32, 33, 34, N-1) and beyond one turn of a cycle.
// Observation: <same|CHANGED per later P> | <fresh|ALIASED>
//           same     the look of the result (tree unfolding to 90 levels, cycle-safe) equals the first result's
//           ALIASED  a cell of a result (walked iteratively, no depth cap) is a cell of the value the schema holds or of an
//                    earlier result
// The walkers here are iterative and uncapped (storex.GraphCells / MutateDeep stop at depth 60).

import (
	"fmt"
	"reflect"
	"sort"
	"strings"

	"github.com/kaptinlin/gozod/core"
	"github.com/kaptinlin/gozod/types"

	"verifharness/hx"
	"verifharness/storex"
)

const deepLook = 90

func cellAddr(v any) (uintptr, bool) {
	switch x := v.(type) {
	case []any:
		if cap(x) == 0 {
			return 0, false
		}
		return reflect.ValueOf(x).Pointer(), true
	case map[string]any:
		if x == nil {
			return 0, false
		}
		return reflect.ValueOf(x).Pointer(), true
	}
	return 0, false
}

func sortedKeys(m map[string]any) []string {
	ks := make([]string, 0, len(m))
	for k := range m {
		ks = append(ks, k)
	}
	// the order of the encoders: by the canonical text of the key
	sort.Slice(ks, func(i, j int) bool { return storex.Canon(ks[i]) < storex.Canon(ks[j]) })
	return ks
}

// allCells: every cell reachable from v (iterative, cycle-safe, no depth cap).
func allCells(v any) map[uintptr]bool {
	seen := map[uintptr]bool{}
	stack := []any{v}
	for len(stack) > 0 {
		x := stack[len(stack)-1]
		stack = stack[:len(stack)-1]
		if a, ok := cellAddr(x); ok {
			if seen[a] {
				continue
			}
			seen[a] = true
		}
		switch c := x.(type) {
		case []any:
			for _, e := range c {
				stack = append(stack, e)
			}
		case map[string]any:
			for _, e := range c {
				stack = append(stack, e)
			}
		}
	}
	return seen
}

// look: the tree unfolding of v down to d levels (no addresses).
func look(b *strings.Builder, v any, d int) {
	if d == 0 {
		b.WriteString("…")
		return
	}
	switch c := v.(type) {
	case []any:
		if c == nil {
			b.WriteString("nil")
			return
		}
		b.WriteString("[")
		for _, e := range c {
			look(b, e, d-1)
			b.WriteString(",")
		}
		b.WriteString("]")
	case map[string]any:
		if c == nil {
			b.WriteString("nil")
			return
		}
		b.WriteString("{")
		for _, k := range sortedKeys(c) {
			b.WriteString(k + ":")
			look(b, c[k], d-1)
			b.WriteString(",")
		}
		b.WriteString("}")
	default:
		b.WriteString(storex.Canon(v))
	}
}

func lookOf(v any) string {
	var b strings.Builder
	look(&b, v, deepLook)
	return b.String()
}

// spineNext: the first entry (in key order) that holds a container.
func spineNext(v any) (any, bool) {
	switch c := v.(type) {
	case []any:
		for _, e := range c {
			if _, ok := cellAddr(e); ok {
				return e, true
			}
		}
	case map[string]any:
		for _, k := range sortedKeys(c) {
			if _, ok := cellAddr(c[k]); ok {
				return c[k], true
			}
		}
	}
	return nil, false
}

// mutateAt follows the spine k levels down and mutates that cell in place.
func mutateAt(v any, k int) {
	cur := v
	for i := 0; i < k; i++ {
		n, ok := spineNext(cur)
		if !ok {
			break
		}
		cur = n
	}
	switch c := cur.(type) {
	case []any:
		for i, e := range c {
			if _, ok := cellAddr(e); !ok {
				c[i] = "mutated"
			}
		}
	case map[string]any:
		for key, e := range c {
			if _, ok := cellAddr(e); !ok {
				c[key] = "mutated"
			}
		}
		c["added"] = 99
	}
}

type deepVal struct {
	kind  string
	v     any
	depth int // nesting levels of the spine before it ends or closes
}

func mkCell(r *hx.Rng, asMap bool, next any) any {
	if asMap {
		m := map[string]any{"a": hx.Pick(r, ownStrs)}
		if next != nil {
			m["n"] = next
		}
		if r.Chance(30) {
			m["b"] = r.Intn(5)
		}
		return m
	}
	xs := []any{hx.Pick(r, ownStrs)}
	if next != nil {
		xs = append(xs, next)
	}
	if r.Chance(30) {
		xs = append(xs, r.Intn(5))
	}
	return xs
}

func setNext(cell, next any) {
	switch c := cell.(type) {
	case []any:
		c[1] = next
	case map[string]any:
		c["n"] = next
	}
}

func deepValue(r *hx.Rng, which int) deepVal {
	style := r.Intn(3) // 0 alternating, 1 slices, 2 maps
	asMap := func(i int) bool { return style == 2 || (style == 0 && i%2 == 0) }
	chain := func(n int, tail any) any {
		cur := tail
		for i := n - 1; i >= 0; i-- {
			cur = mkCell(r, asMap(i), cur)
		}
		return cur
	}
	switch which {
	case 0: // chain deeper or shallower than the limit
		n := hx.Pick(r, []int{20, 30, 32, 33, 34, 35, 40, 48})
		return deepVal{"chain", chain(n-1, mkCell(r, asMap(n-1), nil)), n}
	case 1:
		m := map[string]any{"a": "x"}
		m["self"] = m
		return deepVal{"selfmap", m, 1}
	case 2:
		xs := []any{"x", nil}
		xs[1] = xs
		return deepVal{"selfslice", xs, 1}
	case 3: // ring of 2..5 cells
		n := 2 + r.Intn(4)
		cells := make([]any, n)
		for i := range cells {
			cells[i] = mkCell(r, asMap(i), "placeholder")
		}
		for i := range cells {
			setNext(cells[i], cells[(i+1)%n])
		}
		return deepVal{"ring", cells[0], n}
	case 4: // lasso: a chain ending in a ring
		n := 2 + r.Intn(3)
		cells := make([]any, n)
		for i := range cells {
			cells[i] = mkCell(r, asMap(i), "placeholder")
		}
		for i := range cells {
			setNext(cells[i], cells[(i+1)%n])
		}
		l := 1 + r.Intn(6)
		return deepVal{"lasso", chain(l, cells[0]), l + n}
	default: // diamond: sharing without a cycle
		shared := mkCell(r, r.Bool(), mkCell(r, r.Bool(), nil))
		return deepVal{"diamond", map[string]any{"l": []any{"x", shared}, "r": map[string]any{"n": shared}}, 3}
	}
}

type deepBase struct {
	name string
	mk   func() any
	fits func(v any) bool
}

func deepBases() []deepBase {
	isMap := func(v any) bool { _, ok := v.(map[string]any); return ok }
	isSlice := func(v any) bool { _, ok := v.([]any); return ok }
	all := func(any) bool { return true }
	return []deepBase{
		{"Any", func() any { return types.Any() }, all},
		{"Unknown", func() any { return types.Unknown() }, all},
		{"Slice[any](Any)", func() any { return types.Slice[any](types.Any()) }, isSlice},
		{"Record(String,Any)", func() any { return types.Record(types.String(), types.Any()) }, isMap},
		{"LooseObject{}", func() any { return types.LooseObject(core.ObjectSchema{}) }, isMap},
	}
}

func runDeep(c hx.Config, o *hx.Out) {
	per := 2
	if c.Thorough() {
		per = 40
	}
	r := hx.NewRng(c.Seed ^ 0xC15D)
	for _, b := range deepBases() {
		for _, method := range []string{"Default", "Prefault"} {
			for which := 0; which < 6; which++ {
				for k := 0; k < per; k++ {
					dv := deepValue(r, which)
					if !b.fits(dv.v) {
						continue
					}
					s := applyDefault(b.mk(), method, reflect.ValueOf(&dv.v).Elem())
					if s == nil {
						if m := reflect.ValueOf(b.mk()).MethodByName(method); m.IsValid() {
							arg := reflect.New(m.Type().In(0)).Elem()
							if reflect.TypeOf(dv.v).AssignableTo(arg.Type()) {
								arg.Set(reflect.ValueOf(dv.v))
								s = applyDefault(b.mk(), method, arg)
							}
						}
					}
					if s == nil {
						o.Count("deep:not-applicable")
						continue
					}
					fam := []any{s}
					if d, ok, _ := storex.Call(s, "Describe", 0); ok {
						fam = append(fam, d)
					}
					r0, e0, ran := callParse(s, "any", nil)
					if !ran || e0 != nil || r0 == nil {
						o.Count("deep:" + method + ":value-not-accepted")
						continue
					}
					first := lookOf(r0)
					held := allCells(dv.v)
					heldLook := lookOf(dv.v)
					// history: P M0@k P, then more mutations at other depths and parses on the family
					ks := []int{0, 1, 31, 32, 33, 34, dv.depth - 1, dv.depth, 2*dv.depth + 33, 40, 66}
					type step struct {
						parse bool
						m     int
						j, k  int
					}
					steps := []step{{parse: true}, {j: 0, k: hx.Pick(r, ks)}, {parse: true}}
					np := 2
					for i := 0; i < 3+r.Intn(3); i++ {
						if r.Bool() {
							steps = append(steps, step{parse: true, m: r.Intn(len(fam))})
							np++
						} else {
							steps = append(steps, step{j: r.Intn(np), k: hx.Pick(r, ks)})
						}
					}
					steps = append(steps, step{j: np - 1, k: 33}, step{parse: true})
					var results []any
					var toks, verd []string
					fresh := true
					shared := ""
					for _, st := range steps {
						if !st.parse {
							if st.k < 0 {
								st.k = 0
							}
							toks = append(toks, fmt.Sprintf("M%d@%d", st.j, st.k))
							mutateAt(results[st.j], st.k)
							continue
						}
						toks = append(toks, "P")
						res, err, _ := callParse(fam[st.m], "any", nil)
						if err != nil {
							res = nil
						}
						cells := allCells(res)
						for a := range cells {
							if held[a] {
								fresh, shared = false, "schema-held"
							}
						}
						for _, old := range results {
							for a := range allCells(old) {
								if cells[a] {
									fresh, shared = false, "earlier-result"
								}
							}
						}
						if len(results) > 0 {
							if lookOf(res) == first {
								verd = append(verd, "same")
							} else {
								verd = append(verd, "CHANGED")
							}
						}
						results = append(results, res)
					}
					if lookOf(dv.v) != heldLook {
						fresh = false
						if shared == "" {
							shared = "value-held-by-schema-written"
						}
					}
					fr := "fresh"
					if !fresh {
						fr = "ALIASED"
					}
					cm := ""
					if shared != "" {
						cm = " shared=" + shared
					}
					sh := storex.EncodeGraph(dv.v)
					o.Emit(fmt.Sprintf("c15 deep %s %s | %s #deep:%s:%s.%s levels=%d%s %s", strings.ToLower(method), strings.Join(toks, " "), sh.Tokens,
						dv.kind, strings.ReplaceAll(b.name, " ", ""), method, dv.depth, cm, typ(s)), strings.Join(verd, ",")+"|"+fr)
					o.Count("deep:" + dv.kind)
					if dv.kind == "chain" {
						o.Count(fmt.Sprintf("deep:chain:levels%d", dv.depth))
					}
				}
			}
		}
	}
}
