/-
  C09 — the complex engine path (`ParseComplex` / `ParseComplexStrict` after 692881a), the legacy
  `ParseComplexStrict` with its witnesses, and the `ParseAny` / `Must*` wrappers.
-/
import Gozod.Model.Complex
namespace Gozod.C09
open Gozod Gozod.Cpx

variable {P O T V E : Type}

/-- A result conversion of a type's own `Parse` that does what `ParseComplexStrict`'s tail does. -/
def ConvOK (conv : Bool → Cpx.Res V E → Cpx.Res V E) : Prop := ∀ rPtr r, conv rPtr r = adapt rPtr r

/-- **C09 (complex engine path), full strength.** For every validator, every behaviour of the checks on
    pointers / defaults / nil, every transform, every configuration (checks, Optional, Nilable,
    NonOptional, Default(Func), Prefault(Func), lazy, struct, pointer T, missing validator) and EVERY
    input — well-typed or not, nil pointers and nil slices/maps included — `ParseComplexStrict` answers
    what the type's `Parse` answers: same error, or the same value in the shape of R. -/
theorem c09_complex_strict_eq_parse (conv : Bool → Cpx.Res V E → Cpx.Res V E) (hconv : ConvOK conv)
    (env : CEnv P O T V E) (c : CCfg P O T V) (x : CIn V) :
    strictParse env c x = typeParse conv env c x := by
  unfold strictParse typeParse; rw [hconv]

/-- `ZodSlice.Parse`'s conversion is such a conversion (the one type whose pair is the bare engine pair,
    `Gen/EntryPoints.lean`: `.complex`). -/
theorem sliceConv_ok : ConvOK (sliceConv : Bool → Cpx.Res V E → Cpx.Res V E) := by
  intro rPtr r; cases r <;> rfl

theorem c09_slice_strict_eq_parse (env : CEnv P O T V E) (c : CCfg P O T V) (x : CIn V) :
    strictParse env c x = typeParse sliceConv env c x :=
  c09_complex_strict_eq_parse sliceConv sliceConv_ok env c x

/-- The payload of a result, whatever its Go shape. -/
def payload : Cpx.Res V E → Option V
  | .val v => some v
  | .ptr v => some v
  | _ => none

def errorOf : Cpx.Res V E → Option E
  | .err e => some e
  | _ => none

/-- Adapting to R changes neither the verdict, nor the issues, nor the value. -/
theorem adapt_preserves (rPtr : Bool) (r : Cpx.Res V E) :
    errorOf (adapt rPtr r) = errorOf r ∧ payload (adapt rPtr r) = payload r := by
  cases r <;> cases rPtr <;> exact ⟨rfl, rfl⟩

/-- … so `ParseComplexStrict` fails exactly when `ParseComplex` fails, with the same error, and succeeds
    with the same value. -/
theorem c09_complex_same_verdict_value (env : CEnv P O T V E) (c : CCfg P O T V) (x : CIn V) :
    errorOf (strictParse env c x) = errorOf (parse env c x) ∧ payload (strictParse env c x) = payload (parse env c x) :=
  adapt_preserves _ _

/-- The result has the shape of R: never a `T` for R = `*T`, never a pointer for R = `T`. -/
theorem adapt_shape (rPtr : Bool) (r : Cpx.Res V E) :
    (∀ v, adapt rPtr r = .val v → rPtr = false) ∧ (∀ v, adapt rPtr r = .ptr v → rPtr = true) ∧ adapt rPtr r ≠ .nilPtr := by
  cases r <;> cases rPtr <;> simp [adapt]

theorem adapt_idem (rPtr : Bool) (r : Cpx.Res V E) : adapt rPtr (adapt rPtr r) = adapt rPtr r := by
  cases r <;> cases rPtr <;> rfl

/-- Under the model's reading of a prefault (a non-nil `T`), `handleNilComplex` is only reached with a
    configuration that handles nil: the "not handled" arm is dead unless a prefault is set. -/
theorem handleNilComplex_handled (env : CEnv P O T V E) (c : CCfg P O T V)
    (h : resolveDefault c.i = none → c.i.pv = none ∧ c.i.pf = none) :
    ∃ r, pmCore env c true = .handled r ∧ handleNilComplex env c = r := by
  have key : ∃ r, pmCore env c true = .handled r := by
    unfold pmCore
    cases hd : resolveDefault c.i with
    | some d => by_cases ho : hasOverwrite c.i.checks = true <;> simp [ho]
    | none =>
      obtain ⟨h1, h2⟩ := h hd
      simp only [h1, h2, Bool.not_true, Bool.false_eq_true, ↓reduceIte]
      by_cases a : (c.i.nonOptional && !c.tIsPtr) = true
      · exact ⟨_, by rw [if_pos a]⟩
      · rw [if_neg a]
        by_cases b : (c.i.optional || c.i.nilable || c.tIsPtr) = true
        · rw [if_pos b]
          by_cases d : (if c.isNilType then (nilApplicable c.i c.i.checks).isEmpty else !hasOverwrite c.i.checks) = true
          · exact ⟨_, by rw [if_pos d]⟩
          · exact ⟨_, by rw [if_neg d]⟩
        · rw [if_neg b]
          by_cases d : c.i.admitsNil = true
          · exact ⟨_, by rw [if_pos d]⟩
          · exact ⟨_, by rw [if_neg d]⟩
  obtain ⟨r, hr⟩ := key
  exact ⟨r, hr, by unfold handleNilComplex; rw [hr]⟩

/-! ### The legacy `ParseComplexStrict` disagrees with `ParseComplex` (witnesses, by evaluation) -/

/-- A slice-like type: the validator rejects values below 10 (an element test — nothing to do with
    `checks`), overwrites add 1; its pointer extractor also takes values. -/
def lEnv : CEnv Nat Nat Nat Nat Nat where
  validate := fun cs v => if v < 10 then .error 7 else .ok (if hasOverwrite cs then v + 1 else v)
  firstPass := fun _ _ => none
  checksOnDefault := fun _ d => .val (d + 1)
  checksOnNil := fun _ => .nil
  trans := fun _ r => r
  typeErr := 1
  nonOptErr := 2

def valIn (takes : Bool) (v : Nat) : CIn Nat := { isNil := false, untyped := false, ptrEx := if takes then some (some v) else none, typEx := some v }
def nilPtrIn : CIn Nat := { isNil := true, untyped := false, ptrEx := some none, typEx := none }

/-- Fast path: no checks, no modifiers — the legacy code returns the input without calling the validator
    (`Slice(Int().Min(10))` on `[5]`: StrictParse ok, Parse too_small). -/
theorem legacy_fast_path_witness :
    legacyStrictParse lEnv { i := {}, ptrExTakesValues := true } (valIn true 5) = .val 5 ∧
    strictParse lEnv { i := {}, ptrExTakesValues := true } (valIn true 5) = .err 7 ∧
    typeParse sliceConv lEnv { i := {}, ptrExTakesValues := true } (valIn true 5) = .err 7 := by decide

/-- Strict nil path: Optional is tested before Default (`Optional().Default(d)` on a nil pointer: the legacy
    code returns nil, `Parse` the default). -/
theorem legacy_nil_path_witness :
    legacyStrictParse lEnv { i := { optional := true, ptrSchema := true, dv := some 42 } } nilPtrIn = .nilPtr ∧
    strictParse lEnv { i := { optional := true, ptrSchema := true, dv := some 42 } } nilPtrIn = .ptr 42 ∧
    typeParse sliceConv lEnv { i := { optional := true, ptrSchema := true, dv := some 42 } } nilPtrIn = .ptr 42 := by decide

/-- Validation-only path: the verdict of the validator, but the INPUT as the value (an overwrite is lost). -/
theorem legacy_validation_only_witness :
    legacyStrictParse lEnv { i := { checks := [.overwrite 0] }, ptrExTakesValues := true } (valIn true 20) = .val 20 ∧
    strictParse lEnv { i := { checks := [.overwrite 0] }, ptrExTakesValues := true } (valIn true 20) = .val 21 := by decide

/-- Fallback: `r.(R)` with `ParseComplex`'s `*T` against R = `T` (a prefault on a value schema whose pointer
    extractor takes values: Parse succeeds, the legacy StrictParse reports a type error). -/
theorem legacy_fallback_witness :
    legacyStrictParse lEnv { i := { pv := some 30 }, ptrExTakesValues := true } (valIn true 20) = .err 1 ∧
    strictParse lEnv { i := { pv := some 30 }, ptrExTakesValues := true } (valIn true 20) = .val 20 := by decide

/-- The pointer pre-pass of the legacy `validatePointer` let an overwrite check bypass the validator: a value
    the validator rejects (an invalid member) came back accepted — in `Parse` and, since 692881a, in
    `StrictParse` alike (so it was never a C09 disagreement on the engine pair, but it is one as soon as one of
    the two entry points reaches the validator by another route: seeded/C09c). -/
theorem legacy_validatePointer_bypass :
    legacyValidatePointer { lEnv with firstPass := fun _ v => some (v + 1) } { i := { checks := [.overwrite 0] } } 5 = .ptr 6 ∧
    validatePointer { lEnv with firstPass := fun _ v => some (v + 1) } { i := { checks := [.overwrite 0] } } 5 = .err 7 := by decide

/-- Hence the legacy function does not have the property. -/
theorem legacy_not_agreeing :
    ¬ ∀ (c : CCfg Nat Nat Nat Nat) (x : CIn Nat), legacyStrictParse lEnv c x = typeParse sliceConv lEnv c x := by
  intro h
  have := h { i := {}, ptrExTakesValues := true } (valIn true 5)
  revert this; decide

/-- Non-vacuity of `c09_complex_strict_eq_parse`: configurations through the prefault, nil-check, pointer
    and value arms. -/
example : strictParse lEnv { i := { pv := some 30, ptrSchema := true } } nilPtrIn = .ptr 30 := by decide
example : strictParse lEnv { i := { nonOptional := true } } nilPtrIn = .err 2 := by decide
example : strictParse lEnv { i := { checks := [.pred 0 false none] } } (valIn false 5) = .err 7 := by decide
example : strictParse lEnv { i := { ptrSchema := true, nilable := true } } (valIn true 12) = .ptr 12 := by decide

/-! ### `ParseAny` and the `Must*` variants

  `c09_table_wrappers` (whole regenerated table) establishes that on every schema type `ParseAny` is
  `fwd Parse` and `Must<X>` is `must X`; these theorems say what those two shapes do. -/

/-- **Each `Must` variant returns that result or panics with that same error** (and does nothing else). -/
theorem c09_must_returns_or_panics {I A : Type} (f : I → Except E A) (x : I) :
    (∃ a, f x = .ok a ∧ must f x = .returned a) ∨ (∃ e, f x = .error e ∧ must f x = .panicked e) := by
  unfold must
  cases h : f x with
  | ok a => exact .inl ⟨a, rfl, rfl⟩
  | error e => exact .inr ⟨e, rfl, rfl⟩

theorem must_returned_iff {I A : Type} (f : I → Except E A) (x : I) (a : A) :
    must f x = .returned a ↔ f x = .ok a := by
  unfold must; cases h : f x <;> simp

theorem must_panicked_iff {I A : Type} (f : I → Except E A) (x : I) (e : E) :
    must f x = .panicked e ↔ f x = .error e := by
  unfold must; cases h : f x <;> simp

/-- The two strict entry points and the two lenient ones therefore stand or fall together: if `StrictParse`
    agrees with `Parse` on an input, `MustStrictParse` agrees with `MustParse` on it. -/
theorem must_congr {I A : Type} (f g : I → Except E A) (x : I) (h : f x = g x) : must f x = must g x := by
  unfold must; rw [h]

/-- **The six entry points stand or fall with the (`Parse`, `StrictParse`) pair.** Whatever a type's `Parse` and
    `StrictParse` are: where they agree on an input, all six entry points — assembled the way the regenerated table says
    every type assembles them (`six`) — answer with `Parse`'s result, the `Must` variants by returning it or panicking
    with that very error. -/
theorem c09_six_agree {I A : Type} (P S : I → Except E A) (x : I) (h : S x = P x) :
    (six P S x).s = (six P S x).p ∧ (six P S x).a = (six P S x).p ∧ (six P S x).ms = (six P S x).mp ∧
    (six P S x).ma = (six P S x).mp ∧
    (∀ e, P x = .error e → (six P S x).mp = .panicked e) ∧ (∀ r, P x = .ok r → (six P S x).mp = .returned r) := by
  simp only [six, fwd, must, h]
  refine ⟨trivial, trivial, trivial, trivial, ?_, ?_⟩
  · intro e he; rw [he]
  · intro r hr; rw [hr]

/-- `ParseAny`, `MustParse` and `MustParseAny` follow `Parse` on EVERY input (no hypothesis on the strict pair): the
    wrapper shapes never look at their argument. -/
theorem c09_six_any_follow_parse {I A : Type} (P S : I → Except E A) (x : I) :
    (six P S x).a = (six P S x).p ∧ (six P S x).ma = (six P S x).mp ∧
    ((∃ r, (six P S x).p = .ok r ∧ (six P S x).mp = .returned r) ∨ (∃ e, (six P S x).p = .error e ∧ (six P S x).mp = .panicked e)) :=
  ⟨rfl, rfl, c09_must_returns_or_panics P x⟩

/-- A disagreeing pair shows in the six: the statement above is not vacuous (a `StrictParse` that returns its input). -/
example : (six (fun (n : Nat) => if n < 3 then (.error "small" : Except String Nat) else .ok n) (fun n => .ok n) 1).ms = .returned 1 ∧
    (six (fun (n : Nat) => if n < 3 then (.error "small" : Except String Nat) else .ok n) (fun n => .ok n) 1).mp = .panicked "small" := by decide

/-- ZodSlice: all six entry points on every input, for every validator and configuration. -/
theorem c09_slice_six (env : CEnv P O T V E) (c : CCfg P O T V) (x : CIn V) :
    let r := six (fun y => (typeParse sliceConv env c y).toExcept) (fun y => (strictParse env c y).toExcept) x
    r.s = r.p ∧ r.a = r.p ∧ r.ms = r.mp ∧ r.ma = r.mp := by
  have h := c09_six_agree (fun y => (typeParse sliceConv env c y).toExcept) (fun y => (strictParse env c y).toExcept) x
    (by simp only [c09_slice_strict_eq_parse])
  exact ⟨h.1, h.2.1, h.2.2.1, h.2.2.2.1⟩

example : (six (fun y => (typeParse sliceConv lEnv { i := { checks := [.pred 0 false none] } } y).toExcept)
    (fun y => (strictParse lEnv { i := { checks := [.pred 0 false none] } } y).toExcept) (valIn false 5)).mp = .panicked 7 := by decide
example : (six (fun y => (typeParse sliceConv lEnv { i := { ptrSchema := true, nilable := true } } y).toExcept)
    (fun y => (strictParse lEnv { i := { ptrSchema := true, nilable := true } } y).toExcept) (valIn true 12)).ms = .returned (.ptr 12) := by decide

example : must (fun (n : Nat) => if n < 3 then (.error "small" : Except String Nat) else .ok n) 1 = .panicked "small" := by decide
example : must (fun (n : Nat) => if n < 3 then (.error "small" : Except String Nat) else .ok n) 5 = .returned 5 := by decide

end Gozod.C09
