/-
  C07, last clause: "the generated document is itself a valid Draft 2020-12 schema whose references all resolve".

  `c07_refs_resolve`: for EVERY schema graph (any sharing of instances, any cycles through Lazy, any registry IDs), every
  option set and every root, each `$ref` that `convert` writes — into the document or into a `$defs` entry — names an
  entry of the `$defs` that `toJSONSchemaSingle` attaches to the root.  The one place where a reference is written
  BEFORE its definition exists is `convertLazy` meeting an inner schema whose conversion is still in progress and that
  has a registry ID (`#/$defs/<id>` now, `c.defs[id]` when that conversion returns): the invariant carries such names
  as "pending on the call stack", and the stack is empty at the end.  (`lazyRef`'s own `$defs` entries — /repo 16f278d,
  for a target that is not the root — are entered into `refs` and `defs` at once, like the automatic names.)
-/
import Gozod.Model.JsonSchemaRefs
namespace Gozod.C07
open Gozod.Jsc.Refs

/-- what holds between any two steps of a conversion; `stack` = the instances whose `convert` call is in progress. -/
structure Inv (g : Graph) (stack : List Nat) (st : St) : Prop where
  /-- an automatic name is entered into `refs` and `defs` together -/
  refsDefs : ∀ b name, st.refs b = some name → name ∈ st.defs
  /-- a finished instance with a registry ID has its definition -/
  seenIds : ∀ m, m ∈ st.seen → m ∉ stack → ∀ i, (g m).id = some i → i ∈ st.defs
  /-- an emitted reference resolves, or is the ID of an instance still being converted -/
  outOk : ∀ name, name ∈ st.out → name ∈ st.defs ∨ ∃ m, m ∈ stack ∧ (g m).id = some name

theorem inv_init (g : Graph) : Inv g [] {} :=
  ⟨by intro b name h; simp at h, by intro m h; simp at h, by intro name h; simp at h⟩

theorem inv_counts (g : Graph) (s : List Nat) (st : St) (c : Nat → Nat) (h : Inv g s st) : Inv g s { st with counts := c } :=
  ⟨h.refsDefs, h.seenIds, h.outOk⟩

theorem inv_emit (g : Graph) (s : List Nat) (st : St) (name : String) (h : Inv g s st)
    (hn : name ∈ st.defs ∨ ∃ m, m ∈ s ∧ (g m).id = some name) : Inv g s (st.emit name) := by
  refine ⟨h.refsDefs, h.seenIds, ?_⟩
  intro nm hm
  simp only [St.emit, List.mem_cons] at hm
  rcases hm with rfl | hm
  · exact hn
  · exact h.outOk nm hm

theorem inv_register (g : Graph) (s : List Nat) (st : St) (b : Nat) (h : Inv g s st) :
    Inv g s (st.register b) ∧ autoName (st.register b).auto ∈ (st.register b).defs := by
  refine ⟨⟨?_, ?_, ?_⟩, by simp [St.register]⟩
  · intro b' name hb
    simp only [St.register] at hb ⊢
    by_cases hbb : b' = b
    · simp [hbb] at hb; simp [← hb]
    · simp [hbb] at hb; exact List.mem_cons_of_mem _ (h.refsDefs b' name hb)
  · intro m hm hs i hi
    exact List.mem_cons_of_mem _ (h.seenIds m hm hs i hi)
  · intro name hn
    rcases h.outOk name hn with hd | hp
    · exact Or.inl (List.mem_cons_of_mem _ hd)
    · exact Or.inr hp

theorem inv_addDef (g : Graph) (s : List Nat) (st : St) (i : String) (h : Inv g s st) :
    Inv g s { st with defs := if st.defs.contains i then st.defs else i :: st.defs }
    ∧ i ∈ (if st.defs.contains i then st.defs else i :: st.defs) := by
  have hsub : ∀ x, x ∈ st.defs → x ∈ (if st.defs.contains i then st.defs else i :: st.defs) := by
    intro x hx; split
    · exact hx
    · exact List.mem_cons_of_mem _ hx
  refine ⟨⟨fun b name hb => hsub _ (h.refsDefs b name hb), fun m hm hs j hj => hsub _ (h.seenIds m hm hs j hj), ?_⟩, ?_⟩
  · intro name hn
    rcases h.outOk name hn with hd | hp
    · exact Or.inl (hsub _ hd)
    · exact Or.inr hp
  · split
    · rename_i hc; simpa using hc
    · simp

/-- entering `convert` for a fresh instance: it joins `seen` and the stack. -/
theorem inv_push (g : Graph) (s : List Nat) (st : St) (n : Nat) (h : Inv g s st) :
    Inv g (n :: s) { st with seen := n :: st.seen } := by
  refine ⟨h.refsDefs, ?_, ?_⟩
  · intro m hm hs i hi
    simp only [List.mem_cons, not_or] at hm hs
    rcases hm with rfl | hm
    · exact absurd rfl hs.1
    · exact h.seenIds m hm hs.2 i hi
  · intro name hn
    rcases h.outOk name hn with hd | ⟨m, hm, hi⟩
    · exact Or.inl hd
    · exact Or.inr ⟨m, List.mem_cons_of_mem _ hm, hi⟩

/-- leaving it: allowed once the instance's own ID (if any) has its definition. -/
theorem inv_pop (g : Graph) (s : List Nat) (st : St) (n : Nat) (h : Inv g (n :: s) st)
    (hid : ∀ i, (g n).id = some i → i ∈ st.defs) : Inv g s st := by
  refine ⟨h.refsDefs, ?_, ?_⟩
  · intro m hm hs i hi
    by_cases hmn : m = n
    · subst hmn; exact hid i hi
    · exact h.seenIds m hm (by simp [hmn, hs]) i hi
  · intro name hn
    rcases h.outOk name hn with hd | ⟨m, hm, hi⟩
    · exact Or.inl hd
    · simp only [List.mem_cons] at hm
      rcases hm with rfl | hm
      · exact Or.inl (hid name hi)
      · exact Or.inr ⟨m, hm, hi⟩

theorem inv_foldKids (g : Graph) (s : List Nat) (f : St → Nat → Option St)
    (hf : ∀ st k st', Inv g s st → f st k = some st' → Inv g s st') :
    ∀ (ks : List Nat) (st st' : St), Inv g s st → foldKids f st ks = some st' → Inv g s st'
  | [], st, st', h, he => by simp [foldKids] at he; exact he ▸ h
  | k :: ks, st, st', h, he => by
    simp only [foldKids] at he
    split at he
    · simp at he
    · rename_i st1 h1
      exact inv_foldKids g s f hf ks st1 st' (hf st k st1 h h1) he

theorem inv_lazyAnswer (g : Graph) (root : Nat) (s : List Nat) (st : St) (m : Nat) (h : Inv g s st) (hm : m ∈ st.seen) :
    Inv g s (lazyAnswer g root st m) := by
  unfold lazyAnswer
  split
  · rename_i i hi
    apply inv_emit g s st i h
    by_cases hs : m ∈ s
    · exact Or.inr ⟨m, hs, hi⟩
    · exact Or.inl (h.seenIds m hm hs i hi)
  · split
    · rename_i name hr
      exact inv_emit g s st name h (Or.inl (h.refsDefs _ name hr))
    · split
      · exact h
      · have hr := inv_register g s st (g m).base h
        exact inv_emit g s _ _ hr.1 (Or.inl hr.2)

theorem inv_lazyKid (g : Graph) (root : Nat) (s : List Nat) (conv : St → Nat → Option St)
    (hc : ∀ st k st', Inv g s st → conv st k = some st' → Inv g s st')
    (st : St) (m : Nat) (st' : St) (h : Inv g s st) (he : lazyKid g root conv st m = some st') : Inv g s st' := by
  unfold lazyKid at he
  split at he
  · rename_i hseen
    cases he
    exact inv_lazyAnswer g root s st m h (by simpa using hseen)
  · exact hc st m st' h he

theorem inv_stepRegister (g : Graph) (s : List Nat) (o : Opts) (nd : Node) (st : St) (h : Inv g s st) :
    Inv g s (stepRegister o nd st) := by
  unfold stepRegister; split
  · exact (inv_register g s st _ h).1
  · exact h

theorem inv_stepId (g : Graph) (s : List Nat) (nd : Node) (st : St) (h : Inv g s st) :
    Inv g s (stepId nd st) ∧ ∀ i, nd.id = some i → i ∈ (stepId nd st).defs := by
  unfold stepId
  cases hid : nd.id with
  | none => exact ⟨h, by intro i hi; simp at hi⟩
  | some i =>
    have ha := inv_addDef g s st i h
    simp only
    split
    · exact ⟨ha.1, by intro j hj; cases hj; exact ha.2⟩
    · refine ⟨inv_emit g s _ i ha.1 (Or.inl ha.2), ?_⟩
      intro j hj; cases hj; exact ha.2

theorem inv_stepAuto (g : Graph) (s : List Nat) (o : Opts) (nd : Node) (st : St) (h : Inv g s st) :
    Inv g s (stepAuto o nd st) ∧ ∀ x, x ∈ st.defs → x ∈ (stepAuto o nd st).defs := by
  unfold stepAuto; split
  · split
    · rename_i name hr
      exact ⟨inv_emit g s st name h (Or.inl (h.refsDefs _ name hr)), fun x hx => hx⟩
    · have hr := inv_register g s st nd.base h
      exact ⟨inv_emit g s _ _ hr.1 (Or.inl hr.2), fun x hx => List.mem_cons_of_mem _ hx⟩
  · exact ⟨h, fun x hx => hx⟩

/-- `convert` keeps the invariant, for the stack it was entered with. -/
theorem inv_convert (g : Graph) (o : Opts) (root : Nat) :
    ∀ (fuel : Nat) (s : List Nat) (st : St) (n : Nat) (st' : St),
      Inv g s st → convert g o root fuel s st n = some st' → Inv g s st'
  | 0, _, _, _, _, _, he => by simp [convert] at he
  | fuel + 1, s, st, n, st', h, he => by
    have ih := inv_convert g o root fuel (n :: s)
    have hc := inv_counts g s st (fun b => if b = (g n).base then st.counts b + 1 else st.counts b) h
    simp only [convert] at he
    split at he
    · -- the instance is in `seen`
      rename_i hseen
      have hans : Inv g s (if s.contains n = true then
            lazyAnswer g root { st with counts := fun b => if b = (g n).base then st.counts b + 1 else st.counts b } n
          else { st with counts := fun b => if b = (g n).base then st.counts b + 1 else st.counts b }) := by
        split
        · exact inv_lazyAnswer g root s _ n hc (by simpa using hseen)
        · exact hc
      split at he
      · simp at he
      · split at he
        · split at he
          · rename_i name hr
            cases he
            exact inv_emit g s _ name hc (Or.inl (h.refsDefs _ name hr))
          · cases he; exact hans
        · cases he; exact hans
    · -- a fresh instance
      split at he
      · simp at he
      · rename_i st2 hsub
        cases he
        have h0 := inv_push g s _ n hc
        have h2 : Inv g (n :: s) st2 := by
          split at hsub
          · exact inv_foldKids g (n :: s) _ (fun st k st' hi he => inv_lazyKid g root (n :: s) _ ih st k st' hi he) _ _ st2 h0 hsub
          · exact inv_foldKids g (n :: s) _ ih _ _ st2 h0 hsub
        have h4 := inv_stepId g (n :: s) (g n) _ (inv_stepRegister g (n :: s) o (g n) st2 h2)
        have h5 := inv_stepAuto g (n :: s) o (g n) _ h4.1
        exact inv_pop g s _ n h5.1 (fun i hi => h5.2 i (h4.2 i hi))

/-- **C07, references.**  Whatever the schema graph, the options and the root: when the conversion succeeds, every
    `$ref: "#/$defs/N"` it wrote names a key of the `$defs` attached to the root. -/
theorem c07_refs_resolve (g : Graph) (o : Opts) (fuel root : Nat) (st : St)
    (h : convertTop g o fuel root = some st) : ∀ name, name ∈ st.out → name ∈ st.defs := by
  intro name hn
  have hi := inv_convert g o root fuel [] {} root st (inv_init g) h
  rcases hi.outOk name hn with hd | ⟨m, hm, _⟩
  · exact hd
  · simp at hm

/-- … and every automatic name in `refs` (what a later `seen` hit or `convertLazy` would emit) is a key too. -/
theorem c07_refs_table_resolves (g : Graph) (o : Opts) (fuel root : Nat) (st : St)
    (h : convertTop g o fuel root = some st) : ∀ b name, st.refs b = some name → name ∈ st.defs :=
  (inv_convert g o root fuel [] {} root st (inv_init g) h).refsDefs

/-! ### the hypotheses are inhabited: a recursive tree under a parent, with a registry ID, Reused:"ref"

  0 = Object{tree: 1, again: 1}   1 = Object "Node" (ID) {children: 2}   2 = Slice(3)   3 = Lazy(→ 1) -/
def exGraph : Graph
  | 0 => { base := 0, composite := true, kids := [1, 1] }
  | 1 => { base := 1, id := some "Node", composite := true, kids := [2] }
  | 2 => { base := 2, composite := true, kids := [3] }
  | 3 => { base := 3, isLazy := true, kids := [1] }
  | n => { base := n }

/-- the Lazy node refers to `Node` while Node's own conversion is still running; at the end `$defs` has `Node` and the
    automatic names; with Cycles:"throw" the second visit of instance 1 is an error. -/
example : (convertTop exGraph { reusedRef := true } 10 0).map (fun st => (st.out, st.defs))
      = some (["def2", "Node", "Node"], ["def3", "Node", "def2", "def1"]) := by decide
example : (convertTop exGraph {} 10 0).map (fun st => (st.out, st.defs)) = some (["Node", "Node"], ["Node"]) := by decide
example : (convertTop exGraph { cyclesThrow := true } 10 0).isNone = true := by decide

/-! a recursive node WITHOUT an ID below a parent (0 = Object{tree: 1}, 1 = Object{next: 2}, 2 = Lazy(→ 1)): the Lazy's
    target is not the root, so it gets its own `$defs` entry; converted on its own (root = 1) the answer is `#`.
    (Same names as the real converter's documents, /repo 16f278d.) -/
def exGraph2 : Graph
  | 0 => { base := 0, composite := true, kids := [1] }
  | 1 => { base := 1, composite := true, kids := [2] }
  | 2 => { base := 2, isLazy := true, kids := [1] }
  | n => { base := n }

example : (convertTop exGraph2 {} 10 0).map (fun st => (st.out, st.defs)) = some (["def1"], ["def1"]) := by decide
example : (convertTop exGraph2 {} 10 1).map (fun st => (st.out, st.defs)) = some ([], []) := by decide
example : (convertTop exGraph2 { reusedRef := true } 10 0).map (fun st => (st.out, st.defs)) = some (["def1"], ["def2", "def1"]) := by decide

end Gozod.C07
