package storex

// Schema-owned cells (C15, round 4).
//
// A schema holds reference-typed values in many places besides DefaultValue / PrefaultValue: the members of a literal
// or enum (`Def.Values`, `Values` maps, `Entries`), shapes, catch-alls, option lists, the inner schema of a Lazy, the
// internals of every schema it embeds. `SchemaAddrs` walks ALL of it (unexported fields included) and lists the
// address of every map, slice backing array and pointee; `AliasedWithSchema` tells whether a value handed out by Parse
// is made of any of those cells (cells the caller passed in itself are the caller's, not the schema's).

import (
	"fmt"
	"reflect"
	"sort"
	"strings"
)

func ownOrHarness(t reflect.Type) bool {
	p := t.PkgPath()
	return p == "" || strings.HasPrefix(p, "github.com/kaptinlin/gozod") || strings.HasPrefix(p, "verifharness") || p == "main"
}

func schemaAddrs(out map[uintptr]string, path string, v reflect.Value, seen map[string]bool, d int) {
	if !v.IsValid() || d > 60 {
		return
	}
	switch v.Kind() {
	case reflect.Interface:
		if !v.IsNil() {
			schemaAddrs(out, path, v.Elem(), seen, d+1)
		}
	case reflect.Ptr:
		if v.IsNil() || !ownOrHarness(v.Type().Elem()) {
			return
		}
		id := fmt.Sprintf("p%x:%s", v.Pointer(), v.Type())
		if seen[id] {
			return
		}
		seen[id] = true
		if v.Type().Elem().Size() > 0 {
			out[v.Pointer()] = path + "/* " + v.Type().String()
		}
		schemaAddrs(out, path+"/*", v.Elem(), seen, d+1)
	case reflect.Map:
		if v.IsNil() {
			return
		}
		id := fmt.Sprintf("m%x", v.Pointer())
		if seen[id] {
			return
		}
		seen[id] = true
		out[v.Pointer()] = path + " " + v.Type().String()
		it := v.MapRange()
		for it.Next() {
			schemaAddrs(out, path+"/k", it.Key(), seen, d+1)
			schemaAddrs(out, path+"/v", it.Value(), seen, d+1)
		}
	case reflect.Slice:
		if v.IsNil() || v.Cap() == 0 {
			return
		}
		id := fmt.Sprintf("s%x/%d:%s", v.Pointer(), v.Cap(), v.Type())
		if seen[id] {
			return
		}
		seen[id] = true
		if v.Type().Elem().Size() > 0 {
			out[v.Pointer()] = path + " " + v.Type().String()
		}
		for i := 0; i < v.Len(); i++ {
			schemaAddrs(out, fmt.Sprintf("%s/%d", path, i), v.Index(i), seen, d+1)
		}
	case reflect.Struct:
		if !ownOrHarness(v.Type()) {
			return
		}
		for i := 0; i < v.NumField(); i++ {
			schemaAddrs(out, path+"."+v.Type().Field(i).Name, v.Field(i), seen, d+1)
		}
	case reflect.Array:
		for i := 0; i < v.Len(); i++ {
			schemaAddrs(out, fmt.Sprintf("%s[%d]", path, i), v.Index(i), seen, d+1)
		}
	}
}

// SchemaAddrs is the set of addresses of every map, slice backing array and pointee reachable from the schemas through
// gozod-defined types, unexported fields included (address ↦ where it was found).
func SchemaAddrs(schemas ...any) map[uintptr]string {
	out := map[uintptr]string{}
	seen := map[string]bool{}
	for i, s := range schemas {
		schemaAddrs(out, fmt.Sprintf("schema%d", i), reflect.ValueOf(s), seen, 0)
	}
	return out
}

// AliasedWith reports a cell of `result` that is one of `owned` and is not a cell the caller passed in with `input`
// ("" when there is none).
func AliasedWith(owned map[uintptr]string, input, result any) string {
	mine := GraphAddrs(input)
	var hits []string
	for _, c := range GraphCells(result) {
		if c.Addr == 0 || zeroSized(c.Type) {
			continue
		}
		if _, ok := mine[c.Addr]; ok {
			continue
		}
		if p, ok := owned[c.Addr]; ok {
			hits = append(hits, c.Path+" == "+p)
		}
	}
	sort.Strings(hits)
	if len(hits) == 0 {
		return ""
	}
	return hits[0]
}

// MultiEncoder encodes several graphs into one label space (a cell met in two graphs is written once and referred to
// with `B` afterwards), so that the Lean driver rebuilds them in one store with the sharing between them intact.
type MultiEncoder struct{ e *encoder }

func NewMultiEncoder() *MultiEncoder { return &MultiEncoder{&encoder{labels: map[string]int{}}} }

// Encode returns the tokens of v; labels continue from the graphs encoded before.
func (m *MultiEncoder) Encode(v any) string {
	mark := len(m.e.b)
	m.e.enc(reflect.ValueOf(v), 0, false)
	return strings.Join(m.e.b[mark:], " ")
}

// Cells is the number of reference cells written so far.
func (m *MultiEncoder) Cells() int { return len(m.e.labels) }

// ScalarID is the content id the encoders give a scalar.
func ScalarID(v any) int { return id3(Canon(v)) }
