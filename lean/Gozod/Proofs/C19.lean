import Gozod.Model.Issues
namespace Gozod.C19
open Gozod.Issues
end Gozod.C19
