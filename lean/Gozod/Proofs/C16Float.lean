/-
  C16, the float branch of `validate.MultipleOf` (documented relative-ε rule, `Model/NumFloat`).
  The statement of C16 holds integer MultipleOf to exact divisibility (`c16_multiple_int`); for
  floats the library documents a tolerance.  What the ε-rule does decide:

  * `c16_float_multiple_complete` — every exact multiple is accepted (for all finite operands,
    any magnitude): the rule never rejects a true multiple;
  * `c16_float_multiple_zero`, `c16_float_multiple_nan` — a zero divisor and NaN operands accept
    nothing;
  * `float_multiple_not_exact` (witness) — it is not exact divisibility: 10000005 passes for
    10^7, 0.3 passes for 0.1 (the case the tolerance exists for), 5 does not pass for 2;
  * `float_multiple_inf_divisor` — every finite value passes for a divisor of ±Inf (ε = +Inf).
-/
import Gozod.Model.NumFloat
namespace Gozod.C16F
open Gozod Gozod.Coerce Gozod.NumFloat

theorem roundFin_not_nan (p emin emax : Nat) (a : Int) (k : Nat) : roundFin p emin emax a k ≠ .nan := by
  unfold roundFin
  split
  split <;> (try split) <;> simp

theorem c1em10_pos : c1em10 = .fin 7737125245533627 86 := by decide

/-- ε = max(1e-10, x) is strictly positive whenever `x` is not NaN. -/
theorem zero_lt_eps (m : Nat) (x : F) (hx : x ≠ .nan) : flt (.fin 0 m) (fmax c1em10 x) = true := by
  rw [c1em10_pos]
  have hm : (0 : Int) < 2 ^ m := Int.pow_pos (by decide)
  have hc : compare 0 (7737125245533627 * (2 : Int) ^ m) = .lt := Int.compare_eq_lt.mpr (Int.mul_pos (by decide) hm)
  cases x with
  | nan => exact absurd rfl hx
  | pinf => simp [fmax, F.cmp, flt]
  | ninf => simp [fmax, F.cmp, flt, hc]
  | fin b l =>
    have hp : (0 : Int) < 2 ^ 86 := Int.pow_pos (by decide)
    have hl : (0 : Int) < 2 ^ l := Int.pow_pos (by decide)
    simp only [fmax, F.cmp]
    rcases Int.lt_trichotomy (7737125245533627 * 2 ^ l) (b * 2 ^ 86) with h | h | h
    · rw [Int.compare_eq_lt.mpr h]
      have h0 : (0 : Int) < 7737125245533627 * 2 ^ l := Int.mul_pos (by decide) hl
      have hb : 0 < b := by
        apply Decidable.byContradiction; intro hc
        have : b * 2 ^ 86 ≤ 0 := Int.mul_nonpos_of_nonpos_of_nonneg (by omega) (Int.le_of_lt hp)
        omega
      have : (0 : Int) < b * 2 ^ m := Int.mul_pos hb hm
      simp [flt, F.cmp, Int.compare_eq_lt.mpr this]
    · rw [Int.compare_eq_eq.mpr h]; simp [flt, F.cmp, hc]
    · rw [Int.compare_eq_gt.mpr h]; simp [flt, F.cmp, hc]

/-- **The ε-rule never rejects an exact multiple**: if `v = n · d` (as real numbers) for an
    integer `n`, finite `v`, finite non-zero `d`, then `MultipleOf(v, d)` holds. -/
theorem c16_float_multiple_complete (a b n : Int) (k l : Nat) (hb : b ≠ 0) (h : a * 2 ^ l = n * (b * 2 ^ k)) :
    floatMultipleOf (.fin a k) (.fin b l) = true := by
  have hz : isZeroF (.fin b l) = false := by simp [isZeroF, hb]
  have hmod : fmod (.fin a k) (.fin b l) = .fin 0 (k + l) := by
    simp only [fmod, hb, ↓reduceIte, h, Int.mul_tmod_left]
  unfold floatMultipleOf
  simp only [F.isNaN, Bool.or_self, Bool.false_eq_true, ↓reduceIte, hz, hmod, fabs, Int.natAbs_zero,
    Int.cast_ofNat_Int]
  rw [Bool.or_eq_true]; left
  apply zero_lt_eps
  have h6 : c1em6 = .fin 4722366482869645 72 := by decide
  rw [h6]; simp only [fmul]
  exact roundFin_not_nan _ _ _ _ _

theorem c16_float_multiple_zero (v : F) (l : Nat) : floatMultipleOf v (.fin 0 l) = false := by
  unfold floatMultipleOf; cases v <;> simp [F.isNaN, isZeroF]

theorem c16_float_multiple_nan (x : F) : floatMultipleOf .nan x = false ∧ floatMultipleOf x .nan = false := by
  constructor <;> unfold floatMultipleOf <;> cases x <;> simp [F.isNaN]

/-- Witness: the rule is a tolerance, not exact divisibility. -/
theorem float_multiple_not_exact :
    floatMultipleOf (.fin 10000005 0) (.fin 10000000 0) = true ∧ ¬ ((10000000 : Int) ∣ 10000005) ∧
    floatMultipleOf (F.ofBits 0x3FD3333333333333) (F.ofBits 0x3FB999999999999A) = true ∧   -- 0.3, 0.1
    floatMultipleOf (.fin 5 0) (.fin 2 0) = false := by
  decide +kernel

/-- Every finite value is accepted for a divisor of ±Inf (ε = +Inf, `math.Mod(x, ±Inf) = x`). -/
theorem float_multiple_inf_divisor (a : Int) (k : Nat) :
    floatMultipleOf (.fin a k) .pinf = true ∧ floatMultipleOf (.fin a k) .ninf = true := by
  have h6 : c1em6 = .fin 4722366482869645 72 := by decide
  constructor <;> simp [floatMultipleOf, F.isNaN, isZeroF, fabs, fmul, h6, fmax, c1em10_pos, F.cmp, fmod, flt]

example : floatMultipleOf (.fin 3 1) (.fin 1 1) = true ∧ (3 : Int) * 2 ^ 1 = 3 * (1 * 2 ^ 1) := by decide +kernel

end Gozod.C16F
