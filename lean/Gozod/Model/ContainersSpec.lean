/-
  The documented meaning of the composite schemas (C02) and of issue paths (C05), written
  independently of the validators in `Containers.lean`:

  a product container (slice, array, tuple, map, record, set, object, struct) is described by
  `shapeOf`: which (location, member, value) triples it must ask, and its own container-level
  conditions; it accepts iff the input has the shape, the own conditions hold and every asked
  member accepts.  A fault's ideal path is the location of the asked triple followed by the
  member's own path.

  Reading decisions (DESIGN §3.6): a typed nil slice/map of the container's kind has the
  container's shape (it is the empty container); untyped nil and nil pointers are accepted iff the
  container itself is optional/nilable; `WithCatchall` validates unknown keys in every mode but
  strict (docs/feature-mapping.md: "Validate unknown fields").
-/
import Gozod.Model.Containers
namespace Gozod.Cont.Spec
open Gozod.Cont

structure Shape where
  asked : List (List Seg × Mid × V)
  ownOK : Bool
  ownPaths : List (List Seg)
  size : Nat
  deriving Inhabited

def idxFrom : Nat → List V → List (Nat × V)
  | _, [] => []
  | i, x :: xs => (i, x) :: idxFrom (i + 1) xs

def seqElems (v : V) : Option (List V) :=
  match v with
  | .slice _ xs => some (xs.getD [])
  | .ptr _ (some (.slice _ xs)) => some (xs.getD [])
  | _ => none

def mapEntriesOf (v : V) : Option (List (V × V)) :=
  match v with
  | .map _ _ es => some (es.getD [])
  | .ptr _ (some (.map _ _ es)) => some (es.getD [])
  | _ => none

def allOf (t : Ty) (xs : List V) : Bool := xs.all (assertable t)

def sizeShape (cs : List SizeCk) (n : Nat) : Bool × List (List Seg) :=
  (sizeOK cs n, if sizeOK cs n then [] else [[]])

def positional (items : List Mid) (rest : Option Mid) (xs : List V) : List (List Seg × Mid × V) :=
  (idxFrom 0 xs).filterMap (fun (i, x) =>
    match items[i]? with
    | some m => some ([.idx i], m, x)
    | none => rest.map (fun r => ([.idx i], r, x)))

def has (es : List (V × V)) (id : Nat) : Bool := (lookupKey id es).isSome

def sliceSh (t : Ty) (v : V) : Option (List V) :=
  match v with
  | .slice et xs => if et = t || allOf t (xs.getD []) then some (xs.getD []) else none
  | .ptr (.sl et) (some (.slice _ xs)) =>     -- a pointer to a slice has the shape of the slice it points to
    if et = t || (xs.isSome && allOf t (xs.getD [])) || (xs.isNone && et = .any) then some (xs.getD []) else none
  | _ => none

def tupleSh (v : V) : Option (List V) :=
  match v with
  | .slice _ xs => some (xs.getD [])
  | _ => none

def mapSh (v : V) : Option (List (V × V)) :=
  match v with
  | .map _ _ es => some (es.getD [])
  | .ptr _ (some (.map _ _ es)) => some (es.getD [])      -- a pointer to a map of any type
  | _ => none

def recordSh (v : V) : Option (List (V × V)) :=
  match v with
  | .map _ _ es => if (es.getD []).all (fun e => isStrKey e.1) then some (es.getD []) else none
  | .ptr (.mp .str .any) (some (.map _ _ es)) => some (es.getD [])
  | _ => none

def setSh (t : Ty) (v : V) : Option (List V) :=
  match v with
  | .map k .unit es =>
    if k = t || allOf t ((es.getD []).map (·.1)) then some ((es.getD []).map (·.1)) else none
  | .slice et xs => if et = t || allOf t (xs.getD []) then some (xs.getD []) else none
  | .ptr (.mp k .unit) (some (.map _ _ es)) => if k = t then some ((es.getD []).map (·.1)) else none
  | _ => none

def objectSh (v : V) : Option (List (V × V)) :=
  match v with
  | .map .str .any es => some (es.getD [])
  | .ptr (.mp .str .any) (some (.map _ _ es)) => some (es.getD [])
  | _ => none

def structSh (sid : Nat) (v : V) : Option (List (Nat × V)) :=
  match v with
  | .strct s fs => if s = sid then some fs else none
  | .ptr (.st s) (some (.strct _ fs)) => if s = sid then some fs else none
  | _ => none

def ownP (ok : Bool) : List (List Seg) := if ok then [] else [[]]

def shapeOf (env : Env) : Node → V → Option Shape
  | .slice _ t e cs, v =>
    (sliceSh t v).map fun (xs : List V) =>
      { asked := (idxFrom 0 xs).map (fun (ix : Nat × V) => ([Seg.idx ix.1], e, ix.2)),
        ownOK := sizeOK cs xs.length, ownPaths := ownP (sizeOK cs xs.length), size := xs.length }
  | .array _ items rest cs, v =>
    (seqElems v).map fun (xs : List V) =>
      let lenOK := if rest.isSome then items.length ≤ xs.length else xs.length == items.length
      { asked := positional items rest xs, ownOK := sizeOK cs xs.length && lenOK,
        ownPaths := ownP (sizeOK cs xs.length && lenOK), size := xs.length }
  | .tuple _ items req rest cs, v =>
    (tupleSh v).map fun (xs : List V) =>
      let lenOK := req ≤ xs.length && (rest.isSome || xs.length ≤ items.length)
      { asked := positional items rest xs, ownOK := sizeOK cs xs.length && lenOK,
        ownPaths := ownP (sizeOK cs xs.length && lenOK), size := xs.length }
  | .map _ km vm cs, v =>
    (mapSh v).map fun (es : List (V × V)) =>
      { asked := es.flatMap (fun (kx : V × V) =>
          (match km with | some m => [([kx.1.seg], m, kx.1)] | none => [])
            ++ (match vm with | some m => [([kx.1.seg], m, kx.2)] | none => [])),
        ownOK := sizeOK cs es.length, ownPaths := ownP (sizeOK cs es.length), size := es.length }
  | .record _ ks vm loose isPartial cs, v =>
    (recordSh v).map fun (es : List (V × V)) =>
      let present := es.map (fun e => keyId e.1)
      let keyAsked : List (List Seg × Mid × V) := match ks with
        | .schema m => if loose then [] else es.map (fun (kx : V × V) => ([kx.1.seg], m, kx.1))
        | _ => []
      let valAsked : List (List Seg × Mid × V) := es.filterMap (fun (kx : V × V) =>
        match keyMember ks with
        | some m => if loose && !acc env m kx.1 then none else some ([kx.1.seg], vm, kx.2)
        | none => some ([kx.1.seg], vm, kx.2))
      let unknown : List Nat := match ks with
        | .enum allowed _ => present.filter (fun k => !allowed.contains k)
        | _ => []
      let missing : List Nat := match ks with
        | .enum allowed _ => if isPartial then [] else allowed.filter (fun k => !present.contains k)
        | _ => []
      { asked := keyAsked ++ valAsked,
        ownOK := sizeOK cs es.length && unknown.isEmpty && missing.isEmpty,
        ownPaths := ownP (sizeOK cs es.length) ++ ownP unknown.isEmpty
                      ++ missing.map (fun k => [Seg.key k]),
        size := es.length }
  | .set _ t e cs, v =>
    (setSh t v).map fun (xs : List V) =>
      { asked := xs.map (fun (x : V) => ([x.seg], e, x)),
        ownOK := sizeOK cs xs.length, ownPaths := ownP (sizeOK cs xs.length), size := xs.length }
  | .object _ shape mode catchall p cs, v =>
    (objectSh v).map fun (es : List (V × V)) =>
      let fieldAsked : List (List Seg × Mid × V) :=
        shape.filterMap (fun (f : Field) => (lookupKey f.name es).map (fun x => ([Seg.key f.name], f.m, x)))
      let missing := shape.filter (fun (f : Field) => !has es f.name && !fieldOptional p f)
      let explicitNil := shape.filter (fun (f : Field) =>
        f.exactOptional && (match lookupKey f.name es with
                            | some x => x.isNil | none => false))
      let unknown := es.filter (fun (e : V × V) => !isKnown shape e.1)
      let unkAsked : List (List Seg × Mid × V) := match mode, catchall with
        | .strict, _ => []
        | _, some c => unknown.map (fun (kx : V × V) => ([kx.1.seg], c, kx.2))
        | _, none => []
      let strictBad := mode == .strict && !unknown.isEmpty
      -- the size checks look at the keys kept in the result: accepted fields, and (passthrough) the
      -- unknown keys that pass the catchall
      let kept := (fieldAsked.filter (fun a => acc env a.2.1 a.2.2)).length
                    + (if mode == .passthrough then
                        (unknown.filter (fun (kx : V × V) => match catchall with
                                                             | some c => acc env c kx.2 | none => true)).length
                       else 0)
      { asked := fieldAsked ++ unkAsked,
        ownOK := missing.isEmpty && explicitNil.isEmpty && !strictBad && sizeOK cs kept,
        ownPaths := missing.map (fun (f : Field) => [Seg.key f.name])
                      ++ explicitNil.map (fun (f : Field) => [Seg.key f.name])
                      ++ ownP (!strictBad) ++ ownP (sizeOK cs kept),
        size := kept }
  | .struct _ _ sid shape, v =>
    (structSh sid v).map fun (fs : List (Nat × V)) =>
      let missing := shape.filter (fun (f : Field) => (lookupField f.name fs).isNone && !f.optional)
      { asked := shape.filterMap (fun (f : Field) =>
          (lookupField f.name fs).map (fun x => ([Seg.key f.name], f.m, x))),
        ownOK := missing.isEmpty, ownPaths := missing.map (fun (f : Field) => [Seg.key f.name]),
        size := fs.length }
  | _, _ => none

def modsOf : Node → Mods
  | .slice m .. | .array m .. | .tuple m .. | .map m .. | .record m .. | .set m .. | .object m ..
  | .union m .. | .xor m .. | .inter m .. | .du m .. | .lazy m .. => m
  | .struct m ptrC .. => structMods m ptrC

def isProduct : Node → Bool
  | .union .. | .xor .. | .inter .. | .du .. | .lazy .. => false
  | _ => true

/-- is `v` the typed nil of this container's own kind (the empty container)? -/
def typedNilOfKind : Node → V → Bool
  | .slice .., .slice _ none | .array .., .slice _ none | .tuple .., .slice _ none => true
  | .set .., .slice _ none | .set .., .map _ _ none => true
  | .map .., .map _ _ none | .record .., .map _ _ none | .object .., .map _ _ none => true
  | _, _ => false

def selectDU (disc : Nat) (dmap : List (Nat × Mid)) (v : V) : Option (Option Mid) :=
  match v with
  | .map .str .any es =>
    (lookupKey disc (es.getD [])).map (fun dv => lookupDisc dv dmap)
  | _ => none

/-! ### `Object.Required` as documented ("makes all fields required, or specific fields if provided")

  a field named by the call (every field for `Required()`) must be present — whatever its schema's own Optional flag
  and whatever an earlier `Partial` said; the fields not named keep their state. -/
def requiredDoc (r : Option ReqCall) (shape : List Field) (p : Partial) : List Field × Partial :=
  match r with
  | none => (shape, p)
  | some r =>
    let named (f : Field) : Bool := match r with
      | .all => true
      | .keys ks => ks.contains f.name
    let stillPartial := (shape.filter (fun f => fieldOptional p { f with optional := false } && !named f)).map (·.name)
    (shape.map (fun f => if named f then { f with optional := false } else f),
     if p.on then { on := true, exceptions := some ((shape.map (·.name)).filter (fun k => !stillPartial.contains k)) } else p)

/-! ### discriminated union over its option LIST (written without building an index)

  an option is SELECTED by a discriminator value iff it declares that value.  The option list is well-formed iff
  no value is declared twice and some value is declared; an ill-formed union accepts nothing.  A value that selects
  an option is decided by that option alone; a value that selects none (undeclared, of another Go type, not even
  hashable) is decided by the documented fallback: some option accepts. -/

def declaring (os : List DUOpt) (id : Nat) : List Mid := (os.filter (fun o => o.vals.contains id)).map (·.m)

def declaredVals (os : List DUOpt) : List Nat := os.flatMap (·.vals)

def nodupB : List Nat → Bool
  | [] => true
  | x :: xs => !xs.contains x && nodupB xs

def wellFormedDU (os : List DUOpt) : Bool := nodupB (declaredVals os) && !(declaredVals os).isEmpty

/-- the verdict on a `map[string]any` input `v` whose discriminator value is `dv`. -/
def decidedBy (env : Env) (os : List DUOpt) (v : V) (dv : V) : Bool :=
  match dv with
  | .atom _ id =>
    (match declaring os id with
     | [] => os.any (fun o => acc env o.m v)     -- selects no option: the fallback
     | t :: _ => acc env t v)                     -- the selected option alone
  | _ => os.any (fun o => acc env o.m v)         -- not even a scalar: selects no option

def acceptsDU (env : Env) (m : Mods) (disc : Nat) (os : List DUOpt) (v : V) : Bool :=
  wellFormedDU os &&
    ((duNil v && (m.optional || m.nilable)) ||     -- nil, or (since /repo a69d756) a nil pointer
     (match v with
      | .map .str .any es =>
        (match lookupKey disc (es.getD []) with
         | none => false
         | some dv => decidedBy env os v dv)
      | _ => false))

/-- C02: the right-hand side of the composition law. -/
def accepts (env : Env) (n : Node) (v : V) : Bool :=
  match n with
  | .union m opts => (v.isNilLike && nilOK m) || opts.any (fun o => acc env o v)
  | .xor m opts => (v.isNilLike && nilOK m) || countAcc env opts v == 1
  | .inter m l r => (v.isNilLike && nilOK m)
      || (acc env l v && acc env r v && mergeable (mresVal (env l v)) (mresVal (env r v)))
  | .du m disc dmap opts => (duNil v && (m.optional || m.nilable))
      || (match selectDU disc dmap v with
          | some (some t) => acc env t v
          | some none => opts.any (fun o => acc env o v)
          | none => false)
  | .lazy m _ t => (lazyNil v && nilOK m) || acc env t v
  | n =>
    -- (a refinement attached to the container speaks about container values: it does not see an accepted nil)
    (v.isNilLike && nilOK (modsOf n))
      || ((!v.isNilLike || typedNilOfKind n v) &&
          (match shapeOf env n v with
           | some s => s.ownOK && s.asked.all (fun (_, m, x) => acc env m x)
           | none => false))

/-- C05: the complete paths of the offending locations (when the input is rejected). -/
def paths (env : Env) (n : Node) (v : V) : List (List Seg) :=
  match n with
  | .union .. | .xor .. => [[]]
  | .inter _ l r => [] :: ((errs env l v).map (·.path) ++ (errs env r v).map (·.path))
  | .du _ disc dmap _ =>
    (match selectDU disc dmap v with
     | some (some t) => [] :: (errs env t v).map (·.path)
     | _ => [[]])
  | .lazy _ _ t => [] :: (errs env t v).map (·.path)
  | n =>
    if v.isNilLike && !typedNilOfKind n v then [[]]
    else match shapeOf env n v with
      | none => [[]]
      | some s => s.ownPaths ++ s.asked.flatMap (fun (loc, m, x) => (errs env m x).map (fun i => loc ++ i.path))

/-- Why today's code may differ from `accepts` on this case (failure-class key for known findings). -/
def reason0 (env : Env) (n : Node) (v : V) : String :=
  match n with
  | .union .. | .xor .. | .inter .. =>
    if v.isNilLike then "nil-like-input-never-reaches-members"
    else (match n with
          | .inter _ l r =>
            if ((errs env l v).any isUnrec || (errs env r v).any isUnrec) then "unrecognized-keys-merged" else "other"
          | _ => "other")
  | .lazy _ direct t =>
    if lazyNil v then "nil-input-never-reaches-target"
    else if !direct then "target-never-asked-result-type-unsupported"
    else if (errs env t v).any (fun x => x.code == .invalidType && x.expLazy) then "placeholder-error-swallowed"
    else "other"
  | .du .. => "other"
  | .object _ _ mode catchall _ _ =>
    if v.isNilLike && typedNilOfKind n v then "typed-nil-container-rejected"
    else if mode == .strip && catchall.isSome then "catchall-ignored-in-strip-mode"
    else "other"
  | n =>
    if v.isNilLike && typedNilOfKind n v then "typed-nil-container-rejected" else "other"

def reason (env : Env) (n : Node) (v : V) : String :=
  if v.isNilLike && nilOK (modsOf n) && (nodeChecks n).any (fun c => match c with | .custom _ => true | _ => false)
    then "refinement-runs-on-nil"
  else match reason0 env n v with
    | "other" =>
      if hasOverwrite (nodeChecks n) && !v.isNilLike && ptrPath n v then "overwrite-skips-validation" else "other"
    | r => r

end Gozod.Cont.Spec
