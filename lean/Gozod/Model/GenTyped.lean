/-
  C13, round 4 — "the file gozodgen writes type-checks against the library", as a judgement in the model.

  * `MethodTable`: what the library offers (REGENERATED as `Gozod.Gen.methodTable` by harness/cmd/c13/methods.go:
    reflection over the library the harness is linked against + go/ast for the inferability of type parameters):
    the constructors gozodgen names, and for every schema type they return — closed under the methods gozodgen
    can emit — ALL exported methods with parameter kinds, variadic flag and result type.
  * `wellTyped T chain`: the Go typing rules that matter for an emitted chain — the constructor exists and can be
    called the way it is written (explicit instantiation / inferable type parameters / argument count), every
    method exists on the type the previous call returned, the argument count fits, every argument is assignable
    to its parameter (untyped constants: representability in the parameter's basic kind).
    `none` = an argument outside the classified literals (an identifier, an expression): not judged.
  * `importsUsed`: every import gozodgen writes is used by some emitted expression (an unused import is a compile error).
-/
import Gozod.Model.GenEmit
namespace Gozod.GenTyped
open Gozod.GenEmit Gozod.TagParser

/-- parameter kinds (reflect.Kind of the parameter type; `*regexp.Regexp`; the empty interface; anything else) -/
inductive PK
  | basic (b : Basic) | regexp | any | other
  deriving DecidableEq, Repr

structure MethodSig where
  name : String
  params : List PK          -- the fixed parameters
  variadic : Bool           -- a final `...T` parameter (gozodgen never passes anything to it)
  result : Option Nat       -- index of the result type in the table
  deriving Repr

structure TypeEntry where
  goName : String
  zodTypeAny : Bool         -- implements core.ZodType[any]
  methods : List MethodSig
  deriving Repr

structure CtorSig where
  name : String
  typeParams : Nat
  inferable : Bool          -- every type parameter occurs in some parameter type
  params : List PK
  variadic : Bool
  result : Option Nat
  deriving Repr

structure MethodTable where
  emittedMethods : List String     -- `.Name(` literals of writer.go
  emittedCtors : List String       -- `gozod.Name(` / `gozod.Name[` literals of writer.go
  lazyGetterOK : Bool              -- core.ZodType[any] satisfies the constraint of gozod.Lazy's type parameter
  ctors : List CtorSig
  types : List TypeEntry
  deriving Repr

/-! ### classification of arguments -/

inductive ArgClass
  | intLit (n : Int)
  | floatLit (integral : Bool) (whole : Int)     -- `d+.d+`; integral: the fraction is all zeros
  | strLit | regexp | boolLit
  | other
  deriving DecidableEq, Repr

def isDigit (c : Nat) : Bool := 0x30 ≤ c && c ≤ 0x39

def natOfDigits (ds : Str) : Nat := ds.foldl (fun acc d => acc * 10 + (d - 0x30)) 0

/-- decimal integer literal without a leading zero (a leading zero makes it octal / invalid in Go) -/
def decLit (ds : Str) : Bool := !ds.isEmpty && ds.all isDigit && (ds.length = 1 || ds.head? ≠ some 0x30)

def classifyUnsigned (s : Str) : ArgClass :=
  if decLit s then .intLit (natOfDigits s)
  else
    let ip := s.takeWhile isDigit
    match s.drop ip.length with
    | 0x2E :: fr =>
      if decLit ip ∧ !fr.isEmpty ∧ fr.all isDigit then .floatLit (fr.all (· = 0x30)) (natOfDigits ip) else .other
    | _ => .other

def classifyRaw (s : Str) : ArgClass :=
  if s = asc "true" ∨ s = asc "false" then .boolLit
  else match s with
    | 0x2D :: rest =>
      match classifyUnsigned rest with
      | .intLit n => .intLit (-n)
      | .floatLit i w => .floatLit i (-w)
      | _ => .other
    | _ => classifyUnsigned s

def _root_.Gozod.GenEmit.Arg.cls : Arg → ArgClass
  | .raw t => classifyRaw t
  | .quoted _ => .strLit
  | .regexp _ => .regexp

/-- value range of the integer kinds (int / uint are 64 bits wide on the platforms the check runs on) -/
def intRange : Basic → Option (Int × Int)
  | .int | .int64 => some (-(2 ^ 63), 2 ^ 63 - 1)
  | .int8 => some (-128, 127) | .int16 => some (-32768, 32767) | .int32 => some (-(2 ^ 31), 2 ^ 31 - 1)
  | .uint | .uint64 => some (0, 2 ^ 64 - 1)
  | .uint8 => some (0, 255) | .uint16 => some (0, 65535) | .uint32 => some (0, 2 ^ 32 - 1)
  | _ => none

def isFloaty : Basic → Bool
  | .float32 | .float64 | .complex64 | .complex128 => true | _ => false

def intFits (n : Int) (b : Basic) : Bool :=
  match intRange b with
  | some (lo, hi) => decide (lo ≤ n) && decide (n ≤ hi)
  | none => isFloaty b

/-- assignability of an emitted argument to a parameter; `none`: not judged -/
def fits : ArgClass → PK → Option Bool
  | .other, _ => none
  | _, .any => some true
  | _, .other => some false
  | .intLit n, .basic b => some (intFits n b)
  | .floatLit integral w, .basic b => some (isFloaty b || (integral && intFits w b))
  | .strLit, .basic b => some (b == .string)
  | .boolLit, .basic b => some (b == .bool)
  | .regexp, .regexp => some true
  | .regexp, .basic _ => some false
  | _, .regexp => some false

def and3 : Option Bool → Option Bool → Option Bool
  | some false, _ => some false
  | _, some false => some false
  | some true, some true => some true
  | _, _ => none

def fitsAll : List ArgClass → List PK → Option Bool
  | [], [] => some true
  | a :: as, p :: ps => and3 (fits a p) (fitsAll as ps)
  | _, _ => some false                               -- argument count ≠ number of fixed parameters

def MethodTable.method? (T : MethodTable) (ty : Nat) (name : String) : Option MethodSig :=
  match T.types[ty]? with
  | some e => e.methods.find? (·.name == name)
  | none => none

/-- one method call on a value of table type `ty`: the result type, or why not -/
inductive Step | ok (ty : Nat) | illTyped | unjudged
  deriving DecidableEq, Repr

def stepCls (T : MethodTable) (ty : Nat) (name : String) (args : List ArgClass) : Step :=
  match T.method? ty name with
  | none => .illTyped                                   -- no such method
  | some m =>
    match fitsAll args m.params, m.result with
    | some false, _ => .illTyped
    | some true, some r => .ok r
    | some true, none => .unjudged                      -- the result is not a schema type of the table
    | none, _ => .unjudged

def step (T : MethodTable) (ty : Nat) (c : Call) : Step := stepCls T ty c.name (c.args.map Arg.cls)

def hasInfix (p : Str) : Str → Bool
  | [] => p.isEmpty
  | c :: rest => p.isPrefixOf (c :: rest) || hasInfix p rest

def MethodTable.ctor? (T : MethodTable) (name : String) : Option CtorSig := T.ctors.find? (·.name == name)

/-- a constructor called as `gozod.Name(<n arguments, none of a basic kind>)` without explicit instantiation -/
def callPlain (T : MethodTable) (name : String) (nargs : Nat) : Option Nat :=
  match T.ctor? name with
  | some c => if c.inferable ∧ (c.params.length = nargs) ∧ c.params.all (fun p => p == .any || p == .other) then c.result else none
  | none => none

/-- the type of a constructor expression (`none`: does not type-check) -/
def ctorType (T : MethodTable) : CExpr → Option Nat
  | .prim b => callPlain T b.ctorName 0
  | .any => callPlain T "Any" 0
  | .time => callPlain T "Time" 0
  | .uuid => callPlain T "UUID" 0
  | .enum vals =>
    -- gozod.Enum("a", "b"): the type parameter is inferred from the (variadic) arguments: there must be one
    match T.ctor? "Enum" with
    | some c => if c.params.isEmpty ∧ c.variadic ∧ (c.typeParams = 0 ∨ !vals.isEmpty) then c.result else none
    | none => none
  | .fromStruct t =>
    -- gozod.FromStruct[X](): explicit instantiation of the one type parameter, no arguments;
    -- X = `time.Time` (from `*time.Time`, `map[K]*time.Time` …) names a package the file never imports
    match T.ctor? "FromStruct" with
    | some c => if c.typeParams = 1 ∧ c.params.isEmpty ∧ !hasInfix (asc "time.") t then c.result else none
    | none => none
  | .lazyStruct _ =>
    -- gozod.Lazy(func() gozod.ZodType[any] { return gozod.FromStruct[N]() }): the returned *ZodStruct must
    -- implement core.ZodType[any], and ZodType[any] must satisfy Lazy's constraint
    match T.ctor? "FromStruct", T.ctor? "Lazy" with
    | some fs, some lz =>
      match fs.result with
      | some r =>
        match T.types[r]? with
        | some e => if e.zodTypeAny ∧ T.lazyGetterOK ∧ lz.inferable ∧ lz.params.length = 1 then lz.result else none
        | none => none
      | none => none
    | _, _ => none
  | .slice e =>
    match ctorType T e with
    | some _ => callPlain T "Slice" 1
    | none => none
  | .record e =>
    match ctorType T e with
    | some _ => callPlain T "Record" 1
    | none => none

def runCalls (T : MethodTable) : Nat → List Call → Step
  | ty, [] => .ok ty
  | ty, c :: cs =>
    match step T ty c with
    | .ok ty' => runCalls T ty' cs
    | s => s

/-- **the typing judgement**: `some true` the expression type-checks, `some false` it does not, `none` not judged -/
def wellTyped (T : MethodTable) (c : Chain) : Option Bool :=
  match ctorType T c.ctor with
  | none => some false
  | some ty =>
    match runCalls T ty c.calls with
    | .ok _ => some true
    | .illTyped => some false
    | .unjudged => none

/-! ### imports -/

def _root_.Gozod.GenEmit.Arg.usesRegexp : Arg → Bool
  | .regexp _ => true | _ => false

/-- packages an emitted expression refers to, beside gozod (`time` through `gozod.FromStruct[time.Time]()`) -/
def usesPkg (c : Chain) (pkg : String) : Bool :=
  (pkg == "regexp" && c.calls.any fun k => k.args.any Arg.usesRegexp)

/-- every import written for the struct is used by some field's expression -/
def importsUsed (rules : List (List Rule)) (chains : List Chain) : Bool :=
  (importsOf rules).all fun p => chains.any (usesPkg · p)

end Gozod.GenTyped
