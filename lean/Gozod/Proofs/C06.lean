/-
  C06 — struct tags enforce every documented rule on every supported field type; the tag parser
  terminates without panic and is whitespace-insensitive.

  Part A (tag parser, all inputs): theorems about `Gozod.TagParser`, the transcription of
  pkg/tagparser/parser.go with checked slicing.  Termination is Lean's structural-recursion check
  on `run`, `cutEq`, `fieldsAux`, `unescape`, `parseParts`.
  Part B (rule matrix, finite): `decide` over the whole regenerated `Gozod.Gen.tagTable`.
-/
import Gozod.Model.TagParser
import Gozod.Model.TagsKnown
import Gozod.Gen.TagTable
set_option linter.unusedSimpArgs false
set_option linter.unusedVariables false

namespace Gozod.C06
open Gozod.TagParser

/-- all runes of `ws` are `unicode.IsSpace` -/
def AllSpace (ws : Str) : Prop := ∀ c ∈ ws, isSpace c = true


def isPanic {α} : Except String α → Bool
  | .error _ => true
  | .ok _ => false

theorem c06_legacy_panics : isPanic (parseTag true [0x6D, 0x69, 0x6E, 0x3D, 0x27]) = true := by decide

theorem goSlice_ok (s : Str) (h : s.length ≥ 2) : ∃ r, goSlice s 1 ((s.length : Int) - 1) = .ok r := by
  unfold goSlice
  have : (0:Int) ≤ 1 ∧ (1:Int) ≤ (s.length : Int) - 1 ∧ (s.length : Int) - 1 ≤ (s.length : Int) := by omega
  rw [if_pos this]
  exact ⟨_, rfl⟩

theorem parseRule_ok (part : Str) : ∃ r, parseRule false part = .ok r := by
  unfold parseRule
  split
  · exact ⟨_, rfl⟩
  · simp only []
    split
    · exact ⟨_, rfl⟩
    · split
      · exact ⟨_, rfl⟩
      · split
        · next h =>
          simp only [Bool.false_or, Bool.and_eq_true, decide_eq_true_eq] at h
          obtain ⟨r, hr⟩ := goSlice_ok _ h.1.1
          rw [hr]
          exact ⟨_, rfl⟩
        · split <;> exact ⟨_, rfl⟩

theorem parseParts_ok (ps : List Str) : ∃ rs, parseParts false ps = .ok rs := by
  induction ps with
  | nil => exact ⟨_, rfl⟩
  | cons p ps ih =>
    obtain ⟨r, hr⟩ := parseRule_ok (trimSpace p)
    obtain ⟨rs, hrs⟩ := ih
    simp only [parseParts, hr, hrs]
    exact ⟨_, rfl⟩

theorem c06_no_panic (tag : Str) : ∃ rs, parseTag false tag = .ok rs := by
  unfold parseTag
  split
  · exact ⟨_, rfl⟩
  · exact parseParts_ok _



/-! #### trimming -/
theorem dropWhile_allSpace_append (ws p : Str) (h : AllSpace ws) : (ws ++ p).dropWhile isSpace = p.dropWhile isSpace := by
  induction ws with
  | nil => rfl
  | cons c ws ih =>
    have hc : isSpace c = true := h c (by simp)
    simp only [List.cons_append, List.dropWhile_cons, hc, if_true]
    exact ih (fun d hd => h d (by simp [hd]))

theorem dropWhile_allSpace (ws : Str) (h : AllSpace ws) : ws.dropWhile isSpace = [] := by
  have := dropWhile_allSpace_append ws [] h
  simpa using this

theorem trimLeft_pre (ws p : Str) (h : AllSpace ws) : trimLeft (ws ++ p) = trimLeft p :=
  dropWhile_allSpace_append ws p h

theorem allSpace_reverse (ws : Str) (h : AllSpace ws) : AllSpace ws.reverse :=
  fun c hc => h c (by simpa using hc)

theorem trimRight_suf (ws p : Str) (h : AllSpace ws) : trimRight (p ++ ws) = trimRight p := by
  unfold trimRight
  rw [List.reverse_append, dropWhile_allSpace_append _ _ (allSpace_reverse ws h)]

theorem trimRight_allSpace (ws : Str) (h : AllSpace ws) : trimRight ws = [] := by
  have := trimRight_suf ws [] h
  simpa [trimRight] using this

theorem dropWhile_append_cases (p ws : Str) (h : AllSpace ws) :
    (p ++ ws).dropWhile isSpace = [] ∧ p.dropWhile isSpace = [] ∨
    (p ++ ws).dropWhile isSpace = p.dropWhile isSpace ++ ws := by
  induction p with
  | nil => left; exact ⟨by simpa using dropWhile_allSpace ws h, rfl⟩
  | cons c p ih =>
    by_cases hc : isSpace c = true
    · simp only [List.cons_append, List.dropWhile_cons, hc, if_true]; exact ih
    · right; simp [List.dropWhile_cons, hc]

theorem trimSpace_suf (ws p : Str) (h : AllSpace ws) : trimSpace (p ++ ws) = trimSpace p := by
  unfold trimSpace trimLeft
  rcases dropWhile_append_cases p ws h with ⟨h1, h2⟩ | h1
  · rw [h1, h2]
  · rw [h1, trimRight_suf _ _ h]

theorem trimSpace_pre (ws p : Str) (h : AllSpace ws) : trimSpace (ws ++ p) = trimSpace p := by
  unfold trimSpace; rw [trimLeft_pre _ _ h]

theorem trimSpace_both (w₁ w₂ p : Str) (h₁ : AllSpace w₁) (h₂ : AllSpace w₂) :
    trimSpace (w₁ ++ p ++ w₂) = trimSpace p := by
  rw [trimSpace_suf _ _ h₂, trimSpace_pre _ _ h₁]



/-- `run` with the `more` flag of the last rune supplied from outside. -/
def runM (s : St) : Str → Bool → St
  | [], _ => s
  | ch :: rest, m => runM (step s ch (!rest.isEmpty || m)) rest m

theorem run_eq_runM (s : St) (l : Str) : run s l = runM s l false := by
  induction l generalizing s with
  | nil => rfl
  | cons c l ih => simp [run, runM, ih]

theorem runM_append (s : St) (a b : Str) (m : Bool) :
    runM s (a ++ b) m = runM (runM s a (!b.isEmpty || m)) b m := by
  induction a generalizing s with
  | nil => rfl
  | cons c a ih =>
    simp only [List.cons_append, runM, ih]
    congr 2
    cases a <;> cases b <;> simp

theorem space_not_special (c : Nat) (h : isSpace c = true) :
    c ≠ cBackslash ∧ c ≠ cDQuote ∧ c ≠ cSQuote ∧ c ≠ cLBracket ∧ c ≠ cRBracket ∧ c ≠ cLBrace ∧ c ≠ cRBrace ∧ c ≠ cComma := by
  refine ⟨?_, ?_, ?_, ?_, ?_, ?_, ?_, ?_⟩ <;> (intro hc; subst hc; revert h; decide)

theorem step_space (s : St) (c : Nat) (m : Bool) (h : isSpace c = true) :
    step s c m = { s with buf := s.buf ++ [c], escaped := false } := by
  obtain ⟨h1, h2, h3, h4, h5, h6, h7, h8⟩ := space_not_special c h
  unfold step
  by_cases he : s.escaped = true
  · simp [he]
  · have : s.escaped = false := by simpa using he
    simp [this, h1, h2, h3, h4, h5, h6, h7, h8]

theorem runM_space (s : St) (ws : Str) (m : Bool) (h : AllSpace ws) (hne : ws ≠ []) :
    runM s ws m = { s with buf := s.buf ++ ws, escaped := false } := by
  induction ws generalizing s with
  | nil => exact absurd rfl hne
  | cons c ws ih =>
    have hc : isSpace c = true := h c (by simp)
    have hws : AllSpace ws := fun d hd => h d (by simp [hd])
    simp only [runM, step_space _ _ _ hc]
    by_cases hn : ws = []
    · subst hn; simp [runM]
    · rw [ih _ hws hn]; simp

def outs (s : St) : List Str := s.parts ++ [s.buf]

theorem outs_runM_space (s : St) (ws : Str) (m : Bool) (h : AllSpace ws) :
    outs (runM s ws m) = s.parts ++ [s.buf ++ ws] := by
  by_cases hn : ws = []
  · subst hn; simp [runM, outs]
  · rw [runM_space _ _ _ h hn]; simp [outs]

/-- the last rune's `more` flag only influences `escaped` -/
theorem step_more (s : St) (c : Nat) (m m' : Bool) :
    (step s c m).parts = (step s c m').parts ∧ (step s c m).buf = (step s c m').buf := by
  by_cases he : s.escaped = true
  · simp [step, he]
  · by_cases hb : c = cBackslash
    · simp [step, he, hb]
    · simp [step, he, hb]

theorem runM_more (s : St) (l : Str) (m m' : Bool) :
    (runM s l m).parts = (runM s l m').parts ∧ (runM s l m).buf = (runM s l m').buf := by
  induction l generalizing s with
  | nil => exact ⟨rfl, rfl⟩
  | cons c l ih =>
    simp only [runM]
    cases l with
    | nil =>
      simp only [runM, List.isEmpty_nil, Bool.not_true, Bool.false_or]
      exact step_more s c m m'
    | cons d l => simpa using ih _


/-! #### leading whitespace: a prefix of the buffer travels with the first part -/
def prefixFirst (pre : Str) : List Str → List Str
  | [] => []
  | x :: xs => (pre ++ x) :: xs

def hat (pre : Str) (s : St) : St :=
  if s.parts = [] then { s with buf := pre ++ s.buf } else { s with parts := prefixFirst pre s.parts }

theorem prefixFirst_append (pre : Str) (a b : List Str) (h : a ≠ []) :
    prefixFirst pre (a ++ b) = prefixFirst pre a ++ b := by
  cases a with
  | nil => exact absurd rfl h
  | cons x xs => rfl

theorem outs_hat (pre : Str) (s : St) : outs (hat pre s) = prefixFirst pre (outs s) := by
  unfold hat outs
  by_cases hp : s.parts = []
  · simp [hp, prefixFirst]
  · simp [hp, prefixFirst_append _ _ _ hp]

theorem step_hat (pre : Str) (s : St) (c : Nat) (m : Bool) : hat pre (step s c m) = step (hat pre s) c m := by
  obtain ⟨parts, buf, br, bc, q, qt, esc⟩ := s
  by_cases h0 : esc = true
  · by_cases hp : parts = [] <;> simp (config := {decide := true}) [step, hat, h0, hp]
  by_cases h1 : c = cBackslash
  · by_cases hp : parts = [] <;> simp (config := {decide := true}) [step, hat, h0, h1, hp]
  by_cases h2 : c = cDQuote ∨ c = cSQuote
  · by_cases hqt : c = qt
    · subst hqt
      by_cases hq : q = true <;> by_cases hp : parts = [] <;> simp (config := {decide := true}) [step, hat, h0, h1, h2, hq, hp]
    · by_cases hq : q = true <;> by_cases hp : parts = [] <;> simp (config := {decide := true}) [step, hat, h0, h1, h2, hq, hqt, hp]
  by_cases h3 : c = cLBracket
  · by_cases hp : parts = [] <;> simp (config := {decide := true}) [step, hat, h0, h1, h2, h3, hp]
  by_cases h4 : c = cRBracket
  · by_cases hp : parts = [] <;> simp (config := {decide := true}) [step, hat, h0, h1, h2, h3, h4, hp]
  by_cases h5 : c = cLBrace
  · by_cases hp : parts = [] <;> simp (config := {decide := true}) [step, hat, h0, h1, h2, h3, h4, h5, hp]
  by_cases h6 : c = cRBrace
  · by_cases hp : parts = [] <;> simp (config := {decide := true}) [step, hat, h0, h1, h2, h3, h4, h5, h6, hp]
  by_cases h7 : c = cComma
  · subst h7
    by_cases hc : q = false ∧ br = 0 ∧ bc = 0
    · cases parts with
      | nil => simp (config := {decide := true}) [step, hat, h0, hc, prefixFirst]
      | cons x xs => simp (config := {decide := true}) [step, hat, h0, hc, prefixFirst]
    · cases parts with
      | nil => simp (config := {decide := true}) [step, hat, h0, hc, prefixFirst]
      | cons x xs => simp (config := {decide := true}) [step, hat, h0, hc, prefixFirst]
  · by_cases hp : parts = [] <;> simp (config := {decide := true}) [step, hat, h0, h1, h2, h3, h4, h5, h6, h7, hp]

theorem runM_hat (pre : Str) (s : St) (l : Str) (m : Bool) : runM (hat pre s) l m = hat pre (runM s l m) := by
  induction l generalizing s with
  | nil => rfl
  | cons c l ih => simp only [runM, ← step_hat, ih]

/-! #### ParseTagString as a function of the trimmed parts -/
def ruleOfPart (legacy : Bool) (p : Str) : Except String Rule := parseRule legacy (trimSpace p)

def combine : List (Except String Rule) → Except String (List Rule)
  | [] => .ok []
  | r :: rs =>
    match r with
    | .error e => .error e
    | .ok r =>
      match combine rs with
      | .error e => .error e
      | .ok rs => .ok (if r.name ≠ [] then r :: rs else rs)

theorem parseParts_eq (legacy : Bool) (ps : List Str) :
    parseParts legacy ps = combine (ps.map (ruleOfPart legacy)) := by
  induction ps with
  | nil => rfl
  | cons p ps ih =>
    simp only [parseParts, List.map_cons, combine, ruleOfPart, ih]
    cases parseRule legacy (trimSpace p) with
    | error e => rfl
    | ok r => cases combine (List.map (ruleOfPart legacy) ps) <;> rfl

theorem ruleOfPart_blank (legacy : Bool) (w : Str) (h : trimSpace w = []) : ruleOfPart legacy w = .ok ⟨[], none⟩ := by
  simp [ruleOfPart, h, parseRule]

theorem combine_snoc_blank (xs : List (Except String Rule)) : combine (xs ++ [.ok ⟨[], none⟩]) = combine xs := by
  induction xs with
  | nil => rfl
  | cons x xs ih => simp only [List.cons_append, combine, ih]

theorem parseTag_eq (legacy : Bool) (x : Str) :
    parseTag legacy x = combine ((outs (run {} x)).map (ruleOfPart legacy)) := by
  unfold parseTag
  by_cases hx : x = []
  · subst hx; simp [run, outs, ruleOfPart, trimSpace, trimLeft, trimRight, parseRule, combine]
  · rw [if_neg hx, parseParts_eq]
    unfold splitParts
    simp only []
    by_cases hb : (run {} x).buf ≠ []
    · rw [if_pos hb]; rfl
    · rw [if_neg hb]
      have hb' : (run {} x).buf = [] := by simpa using hb
      simp only [outs, hb', List.map_append, List.map_cons, List.map_nil]
      rw [ruleOfPart_blank legacy [] (by simp [trimSpace, trimLeft, trimRight]), combine_snoc_blank]

theorem ruleOfPart_pad (legacy : Bool) (w₁ w₂ p : Str) (h₁ : AllSpace w₁) (h₂ : AllSpace w₂) :
    ruleOfPart legacy (w₁ ++ p ++ w₂) = ruleOfPart legacy p := by
  unfold ruleOfPart; rw [trimSpace_both _ _ _ h₁ h₂]

theorem map_pad (legacy : Bool) (w₁ w₂ : Str) (h₁ : AllSpace w₁) (h₂ : AllSpace w₂) (P : List Str) (B : Str) :
    (prefixFirst w₁ (P ++ [B ++ w₂])).map (ruleOfPart legacy) = (P ++ [B]).map (ruleOfPart legacy) := by
  have hnil : AllSpace [] := fun c hc => by simp at hc
  cases P with
  | nil =>
    simp only [List.nil_append, prefixFirst, List.map_cons, List.map_nil]
    rw [← List.append_assoc, ruleOfPart_pad _ _ _ _ h₁ h₂]
  | cons x xs =>
    simp only [List.cons_append, prefixFirst, List.map_cons, List.map_append, List.map_nil]
    have e1 := ruleOfPart_pad legacy w₁ [] x h₁ hnil
    have e2 := ruleOfPart_pad legacy [] w₂ B hnil h₂
    simp only [List.append_nil, List.nil_append] at e1 e2
    rw [e1, e2]

theorem runM_space_init (w : Str) (m : Bool) (h : AllSpace w) : runM {} w m = hat w {} := by
  by_cases hn : w = []
  · subst hn; simp [runM, hat]
  · rw [runM_space _ _ _ h hn]; simp [hat]

/-- **Whitespace insensitivity (1)**: whitespace around the whole tag does not change the parsed
    rules (nor whether the pinned code panics). -/
theorem c06_parse_ws (legacy : Bool) (w₁ w₂ t : Str) (h₁ : AllSpace w₁) (h₂ : AllSpace w₂) :
    parseTag legacy (w₁ ++ t ++ w₂) = parseTag legacy t := by
  rw [parseTag_eq, parseTag_eq]
  congr 1
  have hR := runM_more {} t (!w₂.isEmpty || false) false
  rw [List.append_assoc, run_eq_runM, runM_append, runM_space_init _ _ h₁, runM_hat, outs_hat,
      runM_append, outs_runM_space _ _ _ h₂, hR.1, hR.2, run_eq_runM]
  exact map_pad legacy w₁ w₂ h₁ h₂ _ _

example : AllSpace [0x20, 0x09, 0xA0] := by intro c hc; simp at hc; rcases hc with h | h | h <;> subst h <;> decide

/-! #### whitespace around the `=` of one rule -/
theorem cutEq_spec (a b : Str) (h : ∀ c ∈ a, c ≠ cEq) : cutEq (a ++ cEq :: b) = (a, b, true) := by
  induction a with
  | nil => simp [cutEq]
  | cons c a ih =>
    have hc : c ≠ cEq := h c (by simp)
    have := ih (fun d hd => h d (by simp [hd]))
    simp [cutEq, hc, this]

theorem space_ne_eq (c : Nat) (h : isSpace c = true) : c ≠ cEq := by
  intro hc; subst hc; revert h; decide

/-- **Whitespace insensitivity (2)**: whitespace on either side of the `=` of a rule (and around
    the rule) does not change the parsed rule. -/
theorem c06_rule_ws (legacy : Bool) (n r w₁ w₂ : Str) (hn : ∀ c ∈ n, c ≠ cEq) (h₁ : AllSpace w₁) (h₂ : AllSpace w₂) :
    parseRule legacy ((n ++ w₁) ++ cEq :: (w₂ ++ r)) = parseRule legacy (n ++ cEq :: r) := by
  have hnw : ∀ c ∈ n ++ w₁, c ≠ cEq := by
    intro c hc
    rcases List.mem_append.mp hc with h | h
    · exact hn c h
    · exact space_ne_eq c (h₁ c h)
  have hnil : AllSpace [] := fun c hc => by simp at hc
  have e1 : trimSpace (n ++ w₁) = trimSpace n := trimSpace_suf _ _ h₁
  have e2 : trimSpace (w₂ ++ r) = trimSpace r := trimSpace_pre _ _ h₂
  unfold parseRule
  rw [cutEq_spec _ _ hnw, cutEq_spec _ _ hn]
  simp only [e1, e2]
  have ne1 : (n ++ w₁) ++ cEq :: (w₂ ++ r) ≠ [] := by simp
  have ne2 : n ++ cEq :: r ≠ [] := by simp
  rw [if_neg ne1, if_neg ne2]
  rfl


/-- whitespace around every part between top-level commas is irrelevant (parts level) -/
theorem c06_parts_ws (legacy : Bool) (ps : List Str) (pad : Str → Str)
    (hpad : ∀ p, ∃ w₁ w₂, AllSpace w₁ ∧ AllSpace w₂ ∧ pad p = w₁ ++ p ++ w₂) :
    parseParts legacy (ps.map pad) = parseParts legacy ps := by
  rw [parseParts_eq, parseParts_eq, List.map_map]
  congr 1
  apply List.map_congr_left
  intro p _
  obtain ⟨w₁, w₂, h₁, h₂, e⟩ := hpad p
  simp only [Function.comp, e, ruleOfPart_pad _ _ _ _ h₁ h₂]

/-! ## Part B — the rule matrix (regenerated table) -/
section Matrix
open Gozod.Tags Gozod.Gen

/-- the documented verdict of a two-rule tag is the conjunction of the single-rule verdicts, in either order -/
theorem accept_pair (r₁ r₂ : TRule) (p : Probe) :
    Spec.accept [r₁, r₂] p = (Spec.accept [r₁] p && Spec.accept [r₂] p) := by
  cases p <;> simp [Spec.accept, List.all_cons, List.contains_cons, Bool.and_assoc, Bool.and_comm, Bool.and_left_comm]
  all_goals (try cases (r₁ == TRule.required) <;> cases (r₂ == TRule.required) <;> simp)
  all_goals (try (rename_i ok; cases ok <;> simp))

theorem accept_comm (r₁ r₂ : TRule) (p : Probe) : Spec.accept [r₁, r₂] p = Spec.accept [r₂, r₁] p := by
  rw [accept_pair, accept_pair, Bool.and_comm]

def coversBlock (b : Block) : Bool :=
  decide (b.singles.map (·.1) = singleInstances b.fty.base) &&
  decide (b.pairs.map (fun p => (p.1, p.2.1)) = pairInstances b.fty.base.cls) &&
  b.singles.all (fun s => s.2.length == b.probes.length) &&
  b.pairs.all (fun p => p.2.2.1.length == b.probes.length && p.2.2.2.length == b.probes.length) &&
  (b.probes.contains .nil == b.fty.ptr)

def singlesOK (b : Block) : Bool :=
  b.singles.all fun s =>
    !documented s.1 b.fty.base.cls || knownSingle s.1 b.fty || s.2 == expected [s.1] b.probes

def pairKnown (b : Block) (p : TRule × TRule × List Bool × List Bool) : Bool :=
  knownSingle p.1 b.fty || knownSingle p.2.1 b.fty || knownPair p.1 p.2.1 b.fty

def pairsOK (b : Block) : Bool :=
  b.pairs.all fun p =>
    pairKnown b p || (p.2.2.1 == expected [p.1, p.2.1] b.probes && p.2.2.2 == expected [p.2.1, p.1] b.probes)

def orderOK (b : Block) : Bool :=
  b.pairs.all fun p => knownOrder p.1 p.2.1 b.fty || p.2.2.1 == p.2.2.2

/-- The regenerated table covers the whole matrix: every field type (30 bases and a pointer to
    each), for each exactly the documented rule instances of its class, every unordered pair of
    them in both orders, one observation per probe, and a nil probe exactly for pointer types. -/
theorem c06_table_covers_matrix :
    tagTable.map (·.fty) = allFtys ∧ ∀ b ∈ tagTable, coversBlock b = true := by
  refine ⟨by decide +kernel, ?_⟩
  have h : tagTable.all coversBlock = true := by decide +kernel
  exact fun b hb => List.all_eq_true.mp h b hb

/-- Full statement (false on the pinned tree, see `Gozod.C06W`): every documented (rule, field type)
    cell behaves as documented on every probe. -/
def c06_no_silent_noop_full : Prop :=
  ∀ b ∈ tagTable, ∀ s ∈ b.singles, documented s.1 b.fty.base.cls = true → s.2 = expected [s.1] b.probes

/-- **No silent no-op (single rule)**, outside the known-finding cells: the verdicts of the real
    schema equal the documented meaning on every probe. -/
theorem c06_no_silent_noop_partial :
    ∀ b ∈ tagTable, ∀ s ∈ b.singles, documented s.1 b.fty.base.cls = true → knownSingle s.1 b.fty = false →
      s.2 = expected [s.1] b.probes := by
  have h : tagTable.all singlesOK = true := by decide +kernel
  intro b hb s hs hd hk
  have := List.all_eq_true.mp (List.all_eq_true.mp h b hb) s hs
  simpa [hd, hk] using this

/-- Full statement for two-rule tags. -/
def c06_pairs_full : Prop :=
  ∀ b ∈ tagTable, ∀ p ∈ b.pairs,
    p.2.2.1 = expected [p.1, p.2.1] b.probes ∧ p.2.2.2 = expected [p.2.1, p.1] b.probes

/-- **Two rules, both orders**, outside the known-finding cells (neither rule is a known single-rule
    finding for the type and the pair is not a known interaction): both tags behave as documented. -/
theorem c06_pairs_partial :
    ∀ b ∈ tagTable, ∀ p ∈ b.pairs, pairKnown b p = false →
      p.2.2.1 = expected [p.1, p.2.1] b.probes ∧ p.2.2.2 = expected [p.2.1, p.1] b.probes := by
  have h : tagTable.all pairsOK = true := by decide +kernel
  intro b hb p hp hk
  have := List.all_eq_true.mp (List.all_eq_true.mp h b hb) p hp
  simpa [hk] using this

/-- Full statement: the order of two rules never matters. -/
def c06_order_independent_full : Prop := ∀ b ∈ tagTable, ∀ p ∈ b.pairs, p.2.2.1 = p.2.2.2

/-- **Order independence** over all ordered pairs of the table except two format rules on a string. -/
theorem c06_order_independent :
    ∀ b ∈ tagTable, ∀ p ∈ b.pairs, knownOrder p.1 p.2.1 b.fty = false → p.2.2.1 = p.2.2.2 := by
  have h : tagTable.all orderOK = true := by decide +kernel
  intro b hb p hp hk
  have := List.all_eq_true.mp (List.all_eq_true.mp h b hb) p hp
  simpa [hk] using this

/-! ### the known-finding region is empty (all seven repairs of the rule-application code have landed):
     the partial theorems are the full statements -/

theorem knownSingle_none (r : TRule) (t : FTy) : knownSingle r t = false := by
  unfold knownSingle knownSingleL
  cases t.base.cls <;> cases t.ptr <;> cases r <;> simp [landed] <;> split <;> simp

theorem knownPair_none (r₁ r₂ : TRule) (t : FTy) : knownPair r₁ r₂ t = false := by
  simp [knownPair, landed]

theorem knownOrder_none (r₁ r₂ : TRule) (t : FTy) : knownOrder r₁ r₂ t = false := by
  simp [knownOrder, landed]

/-- **No silent no-op (single rule) — full statement**: every documented (rule, field type) cell of the regenerated
    table gives the documented verdict on every probe. -/
theorem c06_no_silent_noop : c06_no_silent_noop_full :=
  fun b hb s hs hd => c06_no_silent_noop_partial b hb s hs hd (knownSingle_none _ _)

/-- **Two rules, both orders — full statement.** -/
theorem c06_pairs : c06_pairs_full := by
  intro b hb p hp
  exact c06_pairs_partial b hb p hp (by simp [pairKnown, knownSingle_none, knownPair_none])

/-- **Order independence — full statement**: the two orders of every pair of rules give identical verdicts. -/
theorem c06_order_independent_all : c06_order_independent_full :=
  fun b hb p hp => c06_order_independent b hb p hp (knownOrder_none _ _ _)

-- non-vacuity: the hypotheses are met by many cells
example : ∃ b ∈ tagTable, ∃ s ∈ b.singles, documented s.1 b.fty.base.cls = true ∧ knownSingle s.1 b.fty = false ∧
    s.1 = .min 3 ∧ b.fty = ⟨false, .int64⟩ := by decide +kernel
example : ∃ b ∈ tagTable, ∃ p ∈ b.pairs, pairKnown b p = false ∧ p.1 = .min 20 ∧ p.2.1 = .regex := by decide +kernel

end Matrix
end Gozod.C06
