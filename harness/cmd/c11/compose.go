package main

// Compositions of object schemas: allOf / anyOf / oneOf whose members are (mostly) object schemas over ONE small pool
// of property names, so that the same property is constrained by more than one member.  This is how allOf is used in
// the wild ("base + extension", "base + {required:[n]}"); a conjunction must keep EVERY member's constraint on a shared
// property, optional in one member and required in another, closed in one and open in the other.
//
// Instances for such a document are built jointly (jointObjectCands): a base object that satisfies every member (found
// with the independent validator over the members' own candidates), then one property at a time replaced by each
// candidate value of ANY member's schema for that property, removed, or set to null — so that an instance violates
// exactly one member's constraint on a property another member constrains differently.

import (
	lib "github.com/kaptinlin/jsonschema"

	"verifharness/hx"
)

// scalarPropDoc: a small typed sub-schema for a property (so that two members constrain the same value differently).
func (g *gen) scalarPropDoc() *D {
	switch g.r.Intn(5) {
	case 0, 1:
		return node(append([]KW{kwT("number")}, g.numberKws(false)...)...)
	case 2, 3:
		return node(append([]KW{kwT("string")}, g.stringKws()...)...)
	default:
		return g.doc(0)
	}
}

// objectMember: one object-ish member of a composition.
func (g *gen) objectMember(d int) *D {
	var ks []KW
	withType := g.r.Chance(80)
	if withType {
		ks = append(ks, kwT("object"))
	}
	var names []string
	if g.r.Chance(85) {
		var ps []Prop
		for _, k := range keys {
			if g.r.Chance(60) {
				ps = append(ps, Prop{k, g.scalarPropDoc()})
				names = append(names, k)
			}
		}
		if len(ps) > 0 {
			ks = append(ks, KW{Name: "properties", Props: ps})
		}
	}
	if g.r.Chance(75) {
		var req []string
		for _, k := range keys { // names of OTHER members' properties too: the "base + {required:[n]}" idiom
			in := false
			for _, n := range names {
				in = in || n == k
			}
			if (in && g.r.Chance(65)) || (!in && g.r.Chance(25)) {
				req = append(req, k)
			}
		}
		if len(req) > 0 {
			ks = append(ks, KW{Name: "required", Strs: req})
		}
	}
	switch g.r.Intn(10) {
	case 0:
		ks = append(ks, KW{Name: "additionalProperties", Sub: bschema(false)})
	case 1:
		ks = append(ks, KW{Name: "additionalProperties", Sub: bschema(true)})
	case 2:
		ks = append(ks, KW{Name: "additionalProperties", Sub: g.scalarPropDoc()})
	}
	if len(ks) == 0 || (len(ks) == 1 && withType && g.r.Bool()) {
		return node(kwT("object"))
	}
	_ = d
	return node(ks...)
}

// objectComposition: allOf (mostly) / anyOf / oneOf over object members.
func (g *gen) objectComposition(d int) *D {
	name := hx.Pick(g.r, []string{"allOf", "allOf", "allOf", "allOf", "anyOf", "oneOf"})
	n := 2 + g.r.Intn(2)
	var ms []*D
	for i := 0; i < n; i++ {
		if g.r.Chance(8) {
			ms = append(ms, g.doc(d-1))
		} else {
			ms = append(ms, g.objectMember(d))
		}
	}
	return node(KW{Name: name, Subs: ms})
}

func objectish(d *D) bool {
	return d != nil && d.Bool == nil && (d.get("properties") != nil || d.get("required") != nil || d.get("additionalProperties") != nil)
}

func compileDoc(text string) *lib.Schema {
	c := lib.NewCompiler()
	c.SetAssertFormat(true)
	s, err := c.Compile([]byte(text))
	if err != nil {
		return nil
	}
	return s
}

// jointObjectCands: instances for a composition whose members include >= 2 object-ish schemas.
func (g *gen) jointObjectCands(members []*D, depth int) []*J {
	var objs []*D
	for _, m := range members {
		if objectish(m) {
			objs = append(objs, m)
		}
	}
	if len(objs) < 2 {
		return nil
	}
	var names []string
	seen := map[string]bool{}
	add := func(k string) {
		if !seen[k] {
			seen[k] = true
			names = append(names, k)
		}
	}
	pool := map[string][]*J{}
	subs := map[string][]*D{}
	for _, m := range objs {
		if p := m.get("properties"); p != nil {
			for _, pr := range p.Props {
				add(pr.K)
				subs[pr.K] = append(subs[pr.K], pr.D)
				for j, c := range g.cands(pr.D, depth+1) {
					if j < subLimit(pr.D, 8) {
						pool[pr.K] = append(pool[pr.K], c)
					}
				}
			}
		}
		if r := m.get("required"); r != nil {
			for _, k := range r.Strs {
				add(k)
			}
		}
	}
	base := jObj()
	for _, k := range names {
		pool[k] = append(pool[k], jInt(1), jStr("m"))
		pick := pool[k][0]
		if ds := subs[k]; len(ds) > 0 { // a value every member's schema for this property accepts, if the pool has one
			text := `{"allOf":[`
			for i, sd := range ds {
				if i > 0 {
					text += ","
				}
				text += sd.Doc()
			}
			text += "]}"
			if sch := compileDoc(text); sch != nil {
				for _, c := range pool[k] {
					if sch.ValidateJSON([]byte(c.JSON())).IsValid() {
						pick = c
						break
					}
				}
			}
		}
		base = base.with(k, pick)
	}
	out := []*J{base, base.with("zz", jInt(1))}
	for _, k := range names {
		out = append(out, base.without(k), base.without(k).with(k, jNull()))
		dup := map[string]bool{base.get(k).String(): true}
		for _, c := range pool[k] {
			if !dup[c.String()] {
				dup[c.String()] = true
				out = append(out, base.without(k).with(k, c))
			}
		}
	}
	return out
}
