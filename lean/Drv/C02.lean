import Gozod.Drv.Loop
import Gozod.Drv.C02
def main : IO Unit := Gozod.Drv.runTokens Gozod.Drv.C02.handle
