package main

// Structured generators: mostly-valid schemas over the JSON-representable fragment, and for each
// schema instances at / one below / one above every constraint boundary, plus structural
// mutations (missing / extra / null members, wrong kinds, non-ASCII strings).

import (
	"fmt"
	"hash/fnv"
	"strings"

	"verifharness/hx"
)

type gen struct {
	r        *hx.Rng
	thorough bool
	// force: inside a union / xor / intersection every numeric leaf is of this one kind ("flt" or an
	// integer kind), so that the schema-directed embedding of a JSON number is unambiguous.
	force string
	// pool: the top-level schemas generated so far.  A later schema may embed one of them as a
	// child (the SAME AST node, hence — through the builder's memo — the same live instance), so
	// that a schema is converted on its own, then as part of a parent, then on its own again.
	pool []*Sch
	used []*Sch // pool nodes embedded in the schema being generated
}

// height / numeric kinds of a schema (for placing pool nodes where the depth budget and the
// "one numeric kind per union" rule allow).
func height(s *Sch) int {
	if s == nil {
		return 0
	}
	h := 0
	up := func(c *Sch) {
		if c != nil {
			if k := height(c); k > h {
				h = k
			}
		}
	}
	up(s.Elem)
	up(s.Key)
	up(s.Catch)
	up(s.Rest)
	for _, f := range s.Fields {
		up(f.S)
	}
	for _, it := range s.Items {
		up(it)
	}
	switch s.K {
	case "opt", "nul", "id", "lazy":
		return h
	}
	return h + 1
}

func numKinds(s *Sch, acc map[string]bool) {
	if s == nil {
		return
	}
	switch s.K {
	case "int":
		acc[s.Kind] = true
	case "flt":
		acc["flt"] = true
	case "lit":
		for _, l := range s.Lits {
			if l.T == "q" {
				acc["int"] = true
			}
		}
	}
	numKinds(s.Elem, acc)
	numKinds(s.Key, acc)
	numKinds(s.Catch, acc)
	numKinds(s.Rest, acc)
	for _, f := range s.Fields {
		numKinds(f.S, acc)
	}
	for _, it := range s.Items {
		numKinds(it, acc)
	}
}

// fromPool: an earlier top-level schema that fits here, or nil.
func (g *gen) fromPool(depth int) *Sch {
	if len(g.pool) == 0 {
		return nil
	}
	for try := 0; try < 4; try++ {
		c := g.pool[g.r.Intn(len(g.pool))]
		if c.K == "opt" || height(c) > depth+1 {
			continue
		}
		ks := map[string]bool{}
		numKinds(c, ks)
		ok := true
		if g.force != "" {
			for k := range ks {
				ok = ok && k == g.force
			}
		}
		if ok {
			g.used = append(g.used, c)
			return c
		}
	}
	return nil
}

// withID: S.Meta(GlobalMeta{ID}) — the ID is a function of the node's text, so equal IDs name equal schemas.
func (g *gen) withID(s *Sch) *Sch {
	switch s.K {
	case "int", "opt", "nul", "id", "lazy":
		return s // the integer types have no Meta method
	}
	h := fnv.New32a()
	h.Write([]byte(s.String()))
	return &Sch{K: "id", Name: fmt.Sprintf("d%08x", h.Sum32()), Elem: s}
}

var fieldNames = []string{"a", "b", "c", "d"}
var words = []string{"a", "b", "ab", "x.y", "zz", "A", "Q", "ba"}
var intKinds = []string{"int", "int", "int", "int", "i64", "i8", "u8", "i16", "u32", "uint", "i32", "u16", "u64"}

func (g *gen) small() int64 { return int64(g.r.Intn(6)) }

func (g *gen) strSchema() *Sch {
	s := &Sch{K: "str"}
	n := g.r.Intn(4)
	if g.r.Chance(30) {
		n = 0
	} else if g.r.Chance(12) {
		n = 4 + g.r.Intn(2) // long chains: several pattern-producing checks on one schema
	}
	for i := 0; i < n; i++ {
		switch g.r.Intn(14) {
		case 12, 13:
			s.Cks = append(s.Cks, Ck{Op: "re", S: hx.Pick(g.r, rxNames)})
		case 0, 1, 2:
			s.Cks = append(s.Cks, Ck{Op: "min", N: g.small()})
		case 3, 4, 5:
			s.Cks = append(s.Cks, Ck{Op: "max", N: 1 + g.small()})
		case 6:
			s.Cks = append(s.Cks, Ck{Op: "len", N: g.small()})
		case 7:
			s.Cks = append(s.Cks, Ck{Op: "sw", S: hx.Pick(g.r, words)})
		case 8:
			s.Cks = append(s.Cks, Ck{Op: "ew", S: hx.Pick(g.r, words)})
		case 9:
			s.Cks = append(s.Cks, Ck{Op: "inc", S: hx.Pick(g.r, words)})
		case 10:
			s.Cks = append(s.Cks, Ck{Op: hx.Pick(g.r, []string{"lower", "upper"})})
		case 11:
			if g.r.Chance(40) {
				s.Cks = append(s.Cks, Ck{Op: "trim"})
			} else {
				s.Cks = append(s.Cks, Ck{Op: "min", N: g.small()})
			}
		}
	}
	return s
}

func (g *gen) numCks(scale int64) []Ck {
	var cs []Ck
	n := g.r.Intn(3)
	if g.r.Chance(10) {
		n = 3
	}
	for i := 0; i < n; i++ {
		v := (int64(g.r.Intn(13)) - 4) * scale
		if scale > 1 && g.r.Chance(30) {
			v += int64(g.r.Intn(4))
		}
		switch g.r.Intn(11) {
		case 9:
			// two bounds on the SAME side, one inclusive and one exclusive, at DIFFERENT values, in either order
			// (what the Bag merge keeps / drops decides which keyword pair reaches the converter)
			d := (1 + int64(g.r.Intn(3))) * scale
			ops := []string{"lt", "lte"}
			if g.r.Bool() {
				ops = []string{"gt", "gte"}
			}
			if g.r.Bool() {
				ops[0], ops[1] = ops[1], ops[0]
			}
			if g.r.Bool() {
				cs = append(cs, Ck{Op: ops[0], N: v}, Ck{Op: ops[1], N: v + d})
			} else {
				cs = append(cs, Ck{Op: ops[0], N: v + d}, Ck{Op: ops[1], N: v})
			}
		case 10:
			cs = append(cs, Ck{Op: hx.Pick(g.r, []string{"gte", "lte", "gt", "lt"}), N: v})
		case 0, 1:
			cs = append(cs, Ck{Op: "gte", N: v})
		case 2, 3:
			cs = append(cs, Ck{Op: "lte", N: v + 3*scale})
		case 4:
			cs = append(cs, Ck{Op: "gt", N: v})
		case 5:
			cs = append(cs, Ck{Op: "lt", N: v + 3*scale})
		case 6:
			if scale == 1 {
				cs = append(cs, Ck{Op: "mul", N: int64(1 + g.r.Intn(4))})
			} else {
				cs = append(cs, Ck{Op: "mul", N: int64(1 + g.r.Intn(6))}) // quarter units: 0.25 … 1.5
			}
		case 7:
			// the same bound twice, inclusive and exclusive (merge logic)
			cs = append(cs, Ck{Op: hx.Pick(g.r, []string{"gt", "gte"}), N: v}, Ck{Op: hx.Pick(g.r, []string{"gt", "gte"}), N: v})
		case 8:
			cs = append(cs, Ck{Op: hx.Pick(g.r, []string{"lt", "lte"}), N: v}, Ck{Op: hx.Pick(g.r, []string{"lt", "lte"}), N: v})
		}
	}
	return cs
}

// objOps: 1–3 Partial / Required calls, without keys or with one or two keys (field names of the shape, now and then a
// name that is not in the shape).
func (g *gen) objOps(s *Sch) []ObjOp {
	n := 1 + g.r.Intn(3)
	if g.r.Chance(55) {
		n = 1
	}
	var ops []ObjOp
	for i := 0; i < n; i++ {
		op := ObjOp{Req: g.r.Bool()}
		if g.r.Chance(55) {
			nk := 1 + g.r.Intn(2)
			for j := 0; j < nk; j++ {
				k := s.Fields[g.r.Intn(len(s.Fields))].Name
				if g.r.Chance(8) {
					k = "nosuch"
				}
				dupKey := false
				for _, kk := range op.Keys {
					dupKey = dupKey || kk == k
				}
				if !dupKey {
					op.Keys = append(op.Keys, k)
				}
			}
		}
		ops = append(ops, op)
	}
	return ops
}

func (g *gen) sizeCks() []Ck {
	var cs []Ck
	if g.r.Chance(55) {
		return nil
	}
	n := 1 + g.r.Intn(2)
	for i := 0; i < n; i++ {
		switch g.r.Intn(5) {
		case 0, 1:
			cs = append(cs, Ck{Op: "min", N: int64(g.r.Intn(4))})
		case 2, 3:
			cs = append(cs, Ck{Op: "max", N: int64(1 + g.r.Intn(4))})
		case 4:
			cs = append(cs, Ck{Op: "len", N: int64(g.r.Intn(4))})
		}
	}
	return cs
}

func (g *gen) leaf() *Sch {
	switch g.r.Intn(20) {
	case 0, 1, 2, 3, 4, 5:
		return g.strSchema()
	case 6, 7, 8, 9, 10, 11, 12:
		k := hx.Pick(g.r, append([]string{"flt", "flt", "flt"}, intKinds...))
		if g.force != "" {
			k = g.force
		}
		if k == "flt" {
			return &Sch{K: "flt", Cks: g.numCks(4)}
		}
		return &Sch{K: "int", Kind: k, Cks: g.numCks(1)}
	case 13, 14:
		return &Sch{K: "bool"}
	case 15:
		return &Sch{K: hx.Pick(g.r, []string{"nil", "any", "never", "any"})}
	case 16, 17:
		n := 1 + g.r.Intn(3)
		s := &Sch{K: "enum"}
		for i := 0; i < n; i++ {
			w := hx.Pick(g.r, words)
			dup := false
			for _, x := range s.Strs {
				dup = dup || x == w
			}
			if !dup {
				s.Strs = append(s.Strs, w)
			}
		}
		return s
	default:
		s := &Sch{K: "lit"}
		n := 1 + g.r.Intn(2)
		kind := g.r.Intn(3)
		for i := 0; i < n; i++ {
			var l *J
			switch kind {
			case 0:
				l = jStr(hx.Pick(g.r, words))
			case 1:
				if g.force != "" && g.force != "int" {
					l = jStr(hx.Pick(g.r, words))
					kind = 0
				} else {
					l = jInt(int64(g.r.Intn(5)) - 1)
				}
			default:
				l = jBool(i == 0)
			}
			dup := false
			for _, x := range s.Lits {
				dup = dup || x.String() == l.String()
			}
			if !dup {
				s.Lits = append(s.Lits, l)
			}
		}
		return s
	}
}

func (g *gen) wrap(s *Sch, pctOpt, pctNul int) *Sch {
	if g.r.Chance(pctNul) && s.K != "nul" && s.K != "opt" {
		s = &Sch{K: "nul", Elem: s}
	}
	if g.r.Chance(pctOpt) && s.K != "opt" {
		s = &Sch{K: "opt", Elem: s}
	}
	return s
}

func (g *gen) members(depth, n int) []*Sch {
	var ms []*Sch
	saved := g.force
	if g.force == "" {
		g.force = hx.Pick(g.r, append([]string{"flt", "flt", "int", "int", "int"}, intKinds...))
	}
	for len(ms) < n {
		ms = append(ms, g.schema(depth-1, false))
	}
	g.force = saved
	// members that overlap on null (Nilable member, Nil(), Any()): what a Nilable()/Optional() wrapper AROUND the
	// union / xor adds is then no longer disjoint from what the members admit
	if g.r.Chance(25) {
		i := g.r.Intn(len(ms))
		switch g.r.Intn(4) {
		case 0:
			ms[i] = &Sch{K: "nil"}
		case 1:
			ms[i] = &Sch{K: "any"}
		default:
			if ms[i].K != "nul" && ms[i].K != "opt" {
				ms[i] = &Sch{K: "nul", Elem: ms[i]}
			}
		}
		if g.r.Chance(30) {
			j := g.r.Intn(len(ms))
			if ms[j].K != "nul" && ms[j].K != "opt" {
				ms[j] = &Sch{K: "nul", Elem: ms[j]}
			}
		}
	}
	return ms
}

// andMembers: intersection sides whose Parse results have the same Go type (mergeValues rejects
// differing result types, e.g. *string vs string — C02's business), i.e. no Optional/Nilable
// wrapper, no Trim, and containers whose result is the input value.
func (g *gen) andMembers(depth int) []*Sch {
	saved := g.force
	if g.force == "" {
		g.force = hx.Pick(g.r, append([]string{"flt", "flt", "int", "int", "int"}, intKinds...))
	}
	defer func() { g.force = saved }()
	noTrim := func(s *Sch) *Sch {
		var cs []Ck
		for _, c := range s.Cks {
			if c.Op != "trim" {
				cs = append(cs, c)
			}
		}
		s.Cks = cs
		return s
	}
	one := func(kind int) *Sch {
		switch kind {
		case 0:
			return noTrim(g.strSchema())
		case 1:
			if g.force == "flt" {
				return &Sch{K: "flt", Cks: g.numCks(4)}
			}
			return &Sch{K: "int", Kind: g.force, Cks: g.numCks(1)}
		case 2:
			// not strict: intersection merges `unrecognized_keys` issues of its sides (corpus case only)
			s := &Sch{K: "obj", Mode: hx.Pick(g.r, []string{"strip", "loose"})}
			n := g.r.Intn(3)
			for i := 0; i < n; i++ {
				s.Fields = append(s.Fields, Field{Name: fieldNames[g.r.Intn(3)], S: g.wrap(g.schema(depth-2, false), 30, 0)})
			}
			// distinct names
			seen := map[string]bool{}
			var fs []Field
			for _, f := range s.Fields {
				if !seen[f.Name] {
					seen[f.Name] = true
					fs = append(fs, f)
				}
			}
			s.Fields = fs
			return s
		default:
			return &Sch{K: "slice", Elem: g.schema(depth-2, false), Cks: g.sizeCks()}
		}
	}
	k := g.r.Intn(4)
	k2 := k
	if g.r.Chance(15) {
		k2 = g.r.Intn(4)
	}
	return []*Sch{one(k), one(k2)}
}

func (g *gen) schema(depth int, top bool) *Sch {
	if !top && g.r.Chance(14) {
		if c := g.fromPool(depth); c != nil {
			return c
		}
	}
	if depth <= 0 || g.r.Chance(30) {
		s := g.leaf()
		if g.r.Chance(7) {
			s = g.withID(s)
		}
		if top {
			return g.wrap(s, 6, 10)
		}
		return g.wrap(s, 0, 10)
	}
	var s *Sch
	unionLike := false
	switch g.r.Intn(14) {
	case 0, 1, 2, 3, 4:
		s = &Sch{K: "obj", Mode: hx.Pick(g.r, []string{"strip", "strip", "strict", "loose"})}
		n := g.r.Intn(4)
		for i := 0; i < n; i++ {
			f := g.schema(depth-1, false)
			f = g.wrap(f, 35, 0)
			if i > 0 && g.r.Chance(20) {
				f = s.Fields[g.r.Intn(i)].S // the same node (live instance) under two names
			}
			s.Fields = append(s.Fields, Field{Name: fieldNames[i], S: f})
		}
		if g.r.Chance(15) {
			s.Catch = g.schema(0, false)
		}
		if g.r.Chance(8) {
			s.Part = true
		}
		if g.r.Chance(12) {
			s.Cks = g.sizeCks()
		}
	case 5, 6:
		s = &Sch{K: "slice", Elem: g.schema(depth-1, false), Cks: g.sizeCks()}
	case 7:
		s = &Sch{K: "arr"}
		n := g.r.Intn(4)
		for i := 0; i < n; i++ {
			// positional items of mixed optionality (Optional, Optional∘Nilable), in any position: ZodArray.Parse
			// ignores the flag (exactly len(items) elements, or ≥ len(items) with a rest schema), ZodTuple does not
			it := g.schema(depth-1, false)
			if g.r.Chance(30) {
				it = g.wrap(it, 100, 0)
			}
			if i > 0 && g.r.Chance(20) {
				it = s.Items[g.r.Intn(i)] // one live instance at two positions
			}
			s.Items = append(s.Items, it)
		}
		if g.r.Chance(35) {
			s.Rest = g.schema(depth-1, false)
			if g.r.Chance(15) {
				s.Rest = g.wrap(s.Rest, 100, 0)
			}
		}
		if g.r.Chance(15) {
			s.Cks = g.sizeCks()
		}
	case 8:
		s = &Sch{K: "tup"}
		n := g.r.Intn(4)
		for i := 0; i < n; i++ {
			it := g.schema(depth-1, false)
			if g.r.Chance(25) {
				it = g.wrap(it, 100, 0)
			}
			if i > 0 && g.r.Chance(20) {
				it = s.Items[g.r.Intn(i)]
			}
			s.Items = append(s.Items, it)
		}
		if g.r.Chance(35) {
			s.Rest = g.schema(depth-1, false)
			if g.r.Chance(15) {
				s.Rest = g.wrap(s.Rest, 100, 0)
			}
		}
		if g.r.Chance(15) {
			s.Cks = g.sizeCks()
		}
	case 9:
		var key *Sch
		if g.r.Chance(30) {
			key = &Sch{K: "enum", Strs: []string{"a", "b"}}
		} else {
			key = g.strSchema()
		}
		s = &Sch{K: "rec", Key: key, Elem: g.schema(depth-1, false)}
		if g.r.Chance(20) {
			s.Cks = g.sizeCks()
		}
	case 10, 11:
		s = &Sch{K: "union", Items: g.members(depth, 2+g.r.Intn(2))}
		unionLike = true
	case 12:
		s = &Sch{K: "xor", Items: g.members(depth, 2+g.r.Intn(2))}
		unionLike = true
	default:
		s = &Sch{K: "and", Items: g.andMembers(depth)}
	}
	if g.r.Chance(9) {
		s = g.withID(s)
	}
	if unionLike && g.r.Chance(30) {
		// Nilable / Optional∘Nilable (Nullish) / Optional wrappers around a union-like schema
		switch g.r.Intn(4) {
		case 0:
			if top {
				return &Sch{K: "opt", Elem: s}
			}
			return &Sch{K: "nul", Elem: s}
		case 1:
			return &Sch{K: "opt", Elem: &Sch{K: "nul", Elem: s}}
		default:
			return &Sch{K: "nul", Elem: s}
		}
	}
	if top {
		return g.wrap(s, 5, 10)
	}
	return g.wrap(s, 0, 8)
}

// ---------------------------------------------------------------- instances

func pad(n int, c string) string {
	if n <= 0 {
		return ""
	}
	return strings.Repeat(c, n)
}

func (g *gen) strCands(s *Sch) []*J {
	pre, suf, inc := "", "", ""
	padc := "m"
	var lens []int64
	var rx []string
	trim := false
	for _, c := range s.Cks {
		switch c.Op {
		case "sw":
			pre = c.S
		case "ew":
			suf = c.S
		case "inc":
			inc = c.S
		case "upper":
			padc = "M"
		case "lower":
			padc = "m"
		case "min", "max", "len":
			lens = append(lens, c.N)
		case "trim":
			trim = true
		case "re":
			rx = append(rx, c.S)
			if c.S == "dg" || c.S == "hd" {
				padc = "1"
			}
		}
	}
	core := pre + inc + suf
	mk := func(n int64, c string) *J {
		k := int(n) - len(core)
		return jStr(pre + inc + pad(k, c) + suf)
	}
	var out []*J
	if len(lens) == 0 {
		out = append(out, mk(int64(len(core))+1, padc))
	}
	for _, n := range lens {
		out = append(out, mk(n, padc), mk(n-1, padc), mk(n+1, padc))
	}
	// non-ASCII: same code-point length as the first boundary, more bytes
	if len(lens) > 0 {
		n := lens[0]
		out = append(out, mk(n, "é"), mk(n+1, "é"), jStr(pad(int(n), "é")), jStr(pad(int((n+1)/2), "é")))
	}
	for _, name := range rx {
		// members and near-misses of the table's languages
		switch name {
		case "lw":
			out = append(out, jStr("abc"), jStr("abC"), jStr("ab1"), jStr("a"))
		case "dg":
			out = append(out, jStr("123"), jStr("12a"), jStr("1"))
		case "hd":
			out = append(out, jStr("a1b"), jStr("abc"), jStr("7"))
		case "ab":
			out = append(out, jStr("abc"), jStr("bcd"), jStr("cab"), jStr("b"))
		case "nx":
			out = append(out, jStr("abc"), jStr("axc"), jStr("x"))
		}
		for _, n := range lens {
			for _, fill := range []string{"a", "1", "x"} {
				out = append(out, mk(n, fill), mk(n+1, fill))
			}
		}
	}
	// the fixed parts kept, the filling varied over the character classes the pattern checks tell apart
	for _, c := range []string{"m", "M", "1", "x"} {
		out = append(out, mk(int64(len(core))+1, c), mk(int64(len(core))+2, c))
	}
	out = append(out, jStr(""), jStr(core), jStr("mm"), jStr("MM"))
	if pre != "" || suf != "" || inc != "" {
		out = append(out, jStr("q"+core), jStr(core+"q"), jStr(pre+suf), jStr("xay"))
	}
	// the fixed parts OVERLAPPING: a prefix check and a suffix check (an infix check likewise) hold independently, so a
	// value may satisfy both with fewer characters than the parts have together
	overlaps := func(a, b string) []*J {
		var r []*J
		for k := 1; k <= len(a) && k <= len(b); k++ {
			if a[len(a)-k:] == b[:k] {
				r = append(r, jStr(a+b[k:]))
			}
		}
		if strings.HasSuffix(a, b) {
			r = append(r, jStr(a))
		}
		if strings.HasPrefix(b, a) {
			r = append(r, jStr(b))
		}
		return r
	}
	if pre != "" && suf != "" {
		out = append(overlaps(pre, suf), out...)
	}
	if pre != "" && inc != "" {
		out = append(out, overlaps(pre, inc)...)
	}
	if inc != "" && suf != "" {
		out = append(out, overlaps(inc, suf)...)
	}
	if trim {
		out = append(out, jStr(" "+core+" "), jStr("  "), jStr(" mm "))
	}
	out = append(out, jInt(1), jNull())
	return out
}

func (g *gen) numCands(s *Sch, unit int64) []*J {
	var out []*J
	add := func(q int64) { out = append(out, jQ(q)) }
	for _, c := range s.Cks {
		b := c.N * unit
		step := unit
		if s.K == "flt" {
			b = c.N
			step = 1
		}
		switch c.Op {
		case "mul":
			add(b)
			add(2 * b)
			add(b + step)
			add(-b)
		default:
			add(b - step)
			add(b)
			add(b + step)
		}
	}
	add(0)
	add(4)
	add(-4)
	add(6) // 1.5
	if s.K == "int" {
		switch s.Kind {
		case "i8":
			add(4 * 127)
			add(4 * 128)
			add(-4 * 128)
			add(-4 * 129)
		case "u8":
			add(4 * 255)
			add(4 * 256)
		case "i16":
			add(4 * 32767)
			add(4 * 32768)
		case "u32":
			add(4 * 4294967295)
			add(4 * 4294967296)
		case "i32":
			add(4 * 2147483647)
			add(4 * 2147483648)
			add(-4 * 2147483648)
			add(-4 * 2147483649)
		case "u16":
			add(4 * 65535)
			add(4 * 65536)
		}
	}
	out = append(out, jStr("1"), jNull(), jBool(true))
	return out
}

func (g *gen) cands(s *Sch, depth int) []*J {
	switch s.K {
	case "str":
		return g.strCands(s)
	case "int":
		return g.numCands(s, 4)
	case "flt":
		return g.numCands(s, 4)
	case "bool":
		return []*J{jBool(true), jBool(false), jNull(), jInt(0), jStr("true")}
	case "nil":
		return []*J{jNull(), jInt(0), jStr("")}
	case "any":
		return []*J{jInt(1), jNull(), jStr("x"), jArr(), jObj()}
	case "never":
		return []*J{jNull(), jInt(1), jObj()}
	case "enum":
		var out []*J
		for _, v := range s.Strs {
			out = append(out, jStr(v))
		}
		return append(out, jStr("nope"), jStr(""), jInt(1), jNull())
	case "lit":
		out := append([]*J{}, s.Lits...)
		return append(out, jStr("nope"), jInt(7), jQ(2), jBool(false), jBool(true), jNull())
	case "opt", "nul":
		out := g.cands(s.Elem, depth)
		return append([]*J{out[0], jNull()}, out[1:]...)
	case "id":
		return g.cands(s.Elem, depth)
	case "recv":
		lc := g.cands(s.Elem, depth+1)
		good := lc[0]
		bad := jInt(7)
		if len(lc) > 1 {
			bad = lc[len(lc)-1]
		}
		vs := []*J{good, bad, jNull(), jArr(), jArr(good), jArr(good, jArr(good)), jArr(jArr(jArr())), jArr(bad), jArr(good, jNull()),
			jArr(jArr(good, bad)), jObj().with("val", good), jObj().with("val", jArr(good)), jArr(jObj().with("val", good)),
			jArr(jObj().with("val", jArr(good))), jArr(jArr(jArr(good)))}
		for i, c := range lc {
			if i > 0 && i < 6 {
				vs = append(vs, c, jArr(c))
			}
		}
		var out []*J
		switch s.Kind {
		case "root":
			out = vs
		case "field":
			for _, c := range vs {
				out = append(out, jObj().with("val", c))
			}
			out = append(out, jObj(), jObj().with("val", good).with("zz", jInt(1)), good, jArr(good), jNull())
		default:
			for _, c := range vs {
				out = append(out, jArr(c))
			}
			out = append(out, jArr(), jArr(good, jArr(good)), good, jObj().with("val", good), jNull())
		}
		return out
	case "lazy":
		// the inner schema's candidates, and values of every other JSON kind (a lazy schema whose inner schema is
		// never consulted accepts them all)
		out := append([]*J{}, g.cands(s.Elem, depth)...)
		if len(out) > 40 {
			out = out[:40]
		}
		return append(out, jNull(), jStr("zz"), jInt(3), jQ(6), jBool(true), jArr(), jArr(jInt(1)), jObj(), jObj().with("a", jInt(1)))
	case "obj":
		base := jObj()
		for _, f := range s.Fields {
			base = base.with(f.Name, g.cands(f.S, depth+1)[0])
		}
		out := []*J{base}
		for _, f := range s.Fields {
			out = append(out, base.without(f.Name))
			out = append(out, base.without(f.Name).with(f.Name, jNull()))
			cs := g.cands(f.S, depth+1)
			lim := 6
			if depth > 0 {
				lim = 3
			}
			for i, c := range cs {
				if i == 0 || i > lim {
					continue
				}
				out = append(out, base.without(f.Name).with(f.Name, c))
			}
		}
		out = append(out, base.with("zz", jInt(1)), base.with("zz", jStr("x")), base.with("zz", jNull()))
		if s.Catch != nil {
			for i, c := range g.cands(s.Catch, depth+1) {
				if i < 4 {
					out = append(out, base.with("zz", c))
				}
			}
		}
		// sizes
		big := base
		for _, k := range []string{"w", "x", "y", "z"} {
			big = big.with(k, jInt(1))
			out = append(out, big)
		}
		out = append(out, jObj(), jNull(), jArr(), jStr("o"))
		return out
	case "slice":
		ec := g.cands(s.Elem, depth+1)
		good := ec[0]
		var out []*J
		rep := func(n int) *J {
			xs := make([]*J, 0, n)
			for i := 0; i < n; i++ {
				xs = append(xs, good)
			}
			return jArr(xs...)
		}
		out = append(out, rep(1))
		for _, c := range s.Cks {
			out = append(out, rep(int(c.N)), rep(int(c.N)+1))
			if c.N > 0 {
				out = append(out, rep(int(c.N)-1))
			}
		}
		out = append(out, rep(0), rep(2))
		for i, c := range ec {
			if i > 0 && i <= 5 {
				out = append(out, jArr(good, c), jArr(c))
			}
		}
		return append(out, jNull(), jObj(), jStr("s"))
	case "arr", "tup":
		var base []*J
		for _, it := range s.Items {
			base = append(base, g.cands(it, depth+1)[0])
		}
		out := []*J{jArr(base...)}
		for n := 0; n < len(base); n++ {
			out = append(out, jArr(base[:n]...))
		}
		extra := jInt(1)
		if s.Rest != nil {
			extra = g.cands(s.Rest, depth+1)[0]
		}
		out = append(out, jArr(append(append([]*J{}, base...), extra)...), jArr(append(append([]*J{}, base...), extra, extra)...),
			jArr(append(append([]*J{}, base...), jStr("zz"))...), jArr(append(append([]*J{}, base...), jNull())...))
		for i, it := range s.Items {
			for k, c := range g.cands(it, depth+1) {
				if k == 0 || k > 4 {
					continue
				}
				m := append([]*J{}, base...)
				m[i] = c
				out = append(out, jArr(m...))
			}
		}
		if s.Rest != nil {
			for k, c := range g.cands(s.Rest, depth+1) {
				if k > 0 && k <= 3 {
					out = append(out, jArr(append(append([]*J{}, base...), c)...))
				}
			}
		}
		return append(out, jNull(), jObj(), jStr("s"))
	case "rec", "map":
		kc := g.cands(s.Key, depth+1)
		vc := g.cands(s.Elem, depth+1)
		var keys []string
		for _, k := range kc {
			if k.T == "s" {
				dup := false
				for _, x := range keys {
					dup = dup || x == k.S
				}
				if !dup {
					keys = append(keys, k.S)
				}
			}
		}
		out := []*J{jObj()}
		if len(keys) > 0 {
			out = append(out, jObj().with(keys[0], vc[0]))
		}
		all := jObj()
		for i, k := range keys {
			if i < 5 {
				out = append(out, jObj().with(k, vc[0]))
				all = all.with(k, vc[0])
				out = append(out, all)
			}
		}
		if s.Key.K == "enum" {
			full := jObj()
			for _, k := range s.Key.Strs {
				full = full.with(k, vc[0])
			}
			out = append(out, full, full.with("zz", vc[0]))
			for i, v := range vc {
				if i > 0 && i <= 4 {
					out = append(out, full.without(s.Key.Strs[0]).with(s.Key.Strs[0], v))
				}
			}
		}
		if len(keys) > 0 {
			for i, v := range vc {
				if i > 0 && i <= 4 {
					out = append(out, jObj().with(keys[0], v))
				}
			}
		}
		return append(out, jNull(), jArr(), jInt(1))
	case "union", "xor", "and":
		var out []*J
		if s.K == "and" {
			// an object carrying both sides' members
			a, b := g.cands(s.Items[0], depth+1)[0], g.cands(s.Items[1], depth+1)[0]
			if a.T == "o" && b.T == "o" {
				m := a
				for i, k := range b.Ks {
					if m.get(k) == nil {
						m = m.with(k, b.Vs[i])
					}
				}
				out = append(out, m, m.with("zz", jInt(1)))
			}
			if a.T == "a" && b.T == "a" {
				out = append(out, jArr()) // the one array two unrelated element schemas agree on
			}
		}
		for _, m := range s.Items {
			for i, c := range g.cands(m, depth+1) {
				if i < 7 {
					out = append(out, c)
				}
			}
		}
		return append(out, jNull(), jInt(1), jStr("u"), jBool(true))
	}
	panic("cands " + s.K)
}

func (g *gen) instances(s *Sch) []*J {
	cs := g.cands(s, 0)
	lim := 60
	if len(cs) > lim {
		cs = cs[:lim]
	}
	return cs
}

func (g *gen) countFeatures(out *hx.Out, s *Sch) {
	var walk func(s *Sch, d int)
	walk = func(s *Sch, d int) {
		if s == nil {
			return
		}
		out.Count("node:" + s.K)
		for _, c := range s.Cks {
			out.Count("check:" + s.K + "." + c.Op)
		}
		if s.K == "obj" {
			out.Count("objmode:" + s.Mode)
			if s.Part {
				out.Count("objops:partial-flag")
			}
			for _, op := range s.Ops {
				n := "partial"
				if op.Req {
					n = "required"
				}
				if len(op.Keys) > 0 {
					n += "(keys)"
				}
				out.Count("objops:" + n)
			}
		}
		walk(s.Elem, d+1)
		walk(s.Key, d+1)
		walk(s.Catch, d+1)
		walk(s.Rest, d+1)
		for _, f := range s.Fields {
			walk(f.S, d+1)
		}
		for _, it := range s.Items {
			walk(it, d+1)
		}
	}
	walk(s, 0)
}

// ---------------------------------------------------------------- corpus (DESIGN §5 C07 "Seen" classes first)

func str(cs ...Ck) *Sch            { return &Sch{K: "str", Cks: cs} }
func intS(k string, cs ...Ck) *Sch { return &Sch{K: "int", Kind: k, Cks: cs} }
func opt(s *Sch) *Sch              { return &Sch{K: "opt", Elem: s} }
func lazy(fl string, s *Sch) *Sch  { return &Sch{K: "lazy", Kind: fl, Elem: s} }
func nul(s *Sch) *Sch              { return &Sch{K: "nul", Elem: s} }
func obj(mode string, fs ...Field) *Sch {
	return &Sch{K: "obj", Mode: mode, Fields: fs}
}

func corpusSchemas() []*Sch {
	min2 := Ck{Op: "min", N: 2}
	return []*Sch{
		str(min2, Ck{Op: "max", N: 3}), // (a) bytes vs code points
		str(Ck{Op: "trim"}, min2),      // (b) overwrite before check
		opt(str()),                     // (c) top-level optional accepts null
		obj("strip", Field{"a", opt(str())}, Field{"b", intS("int")}),                               // (c) optional field given null
		&Sch{K: "obj", Mode: "strip", Fields: []Field{{"a", str()}, {"b", str()}}, Cks: []Ck{min2}}, // (d) Object.Min → minItems
		&Sch{K: "obj", Mode: "strip", Fields: []Field{{"a", str()}, {"b", str()}}, Part: true},      // (e) Partial keeps required
		// Partial / Required call histories: what Parse asks the object (isFieldOptional) the document must say too
		&Sch{K: "obj", Mode: "strip", Fields: []Field{{"a", str()}}, Ops: []ObjOp{{}}},
		&Sch{K: "obj", Mode: "strip", Fields: []Field{{"b", opt(str())}}, Ops: []ObjOp{{Req: true}}},
		&Sch{K: "obj", Mode: "strict", Fields: []Field{{"a", str()}, {"c", &Sch{K: "bool"}}}, Ops: []ObjOp{{Keys: []string{"a"}}}},
		&Sch{K: "obj", Mode: "loose", Fields: []Field{{"a", str()}, {"b", opt(str())}}, Ops: []ObjOp{{Req: true, Keys: []string{"b"}}}},
		&Sch{K: "obj", Mode: "strip", Fields: []Field{{"a", str()}, {"b", opt(str())}}, Ops: []ObjOp{{Req: true}, {Keys: []string{"a"}}}},
		&Sch{K: "obj", Mode: "strip", Fields: []Field{{"a", str()}, {"b", opt(str())}}, Ops: []ObjOp{{}, {Req: true, Keys: []string{"a"}}}},
		&Sch{K: "obj", Mode: "strict", Fields: []Field{{"a", str()}, {"b", nul(str())}}, Ops: []ObjOp{{Req: true, Keys: []string{"b"}}, {}, {Req: true, Keys: []string{"nosuch", "a"}}}},
		lazy("--", &Sch{K: "obj", Mode: "strip", Fields: []Field{{"b", opt(str())}}, Ops: []ObjOp{{Req: true}}}),
		// a prefix and a suffix check that can overlap in the value ("aba"): two independent conditions
		str(Ck{Op: "sw", S: "ab"}, Ck{Op: "ew", S: "ba"}),
		str(Ck{Op: "ew", S: "x"}, Ck{Op: "sw", S: "x"}),
		// recursive schemas: the Lazy's reference must name the schema it resolves to, which is the root only for "root"
		&Sch{K: "recv", Kind: "root", Elem: str()},
		&Sch{K: "recv", Kind: "field", Elem: str()},
		&Sch{K: "recv", Kind: "slice", Elem: str(min2)},
		&Sch{K: "recv", Kind: "field", Elem: &Sch{K: "bool"}},
		&Sch{K: "recv", Kind: "slice", Elem: &Sch{K: "enum", Strs: []string{"a", "b"}}},
		// Map: the key schema must reach the document (propertyNames)
		&Sch{K: "map", Key: str(Ck{Op: "min", N: 2}), Elem: intS("int")},
		&Sch{K: "map", Key: str(), Elem: intS("int"), Cks: []Ck{min2}},
		&Sch{K: "map", Key: str(Ck{Op: "re", S: "lw"}, Ck{Op: "max", N: 3}), Elem: nul(str())},
		&Sch{K: "arr", Items: []*Sch{str()}},                                              // (f) single-item Array
		&Sch{K: "rec", Key: &Sch{K: "enum", Strs: []string{"x", "y"}}, Elem: intS("int")}, // (g) exhaustive record
		&Sch{K: "union", Items: []*Sch{str(), {K: "nil"}}},                                // (h) union with Nil
		intS("int", Ck{Op: "gt", N: 5}, Ck{Op: "gte", N: 5}),                              // merge drops exclusive bound
		str(Ck{Op: "min", N: 5}, Ck{Op: "len", N: 3}),                                     // Length overwrites Min
		obj("strip", Field{"a", obj("strip", Field{"b", str()})}),                         // nested strip object
		obj("strict", Field{"a", intS("i8")}),                                             // nested sized int has no range
		&Sch{K: "tup", Items: []*Sch{str(), opt(intS("int"))}},
		&Sch{K: "slice", Elem: str(), Cks: []Ck{min2}},
		&Sch{K: "xor", Items: []*Sch{obj("strict", Field{"a", str()}), obj("strip", Field{"a", str()})}},
		&Sch{K: "and", Items: []*Sch{obj("strict", Field{"a", str()}), obj("strict", Field{"b", str()})}}, // unrecognized keys merged
		&Sch{K: "rec", Key: str(), Elem: nul(str())},                                                      // nil record value
		nul(opt(str())), opt(nul(str())),
		&Sch{K: "lit", Lits: []*J{jStr("a"), jInt(1)}},                                                    // type tag from the first literal only
		&Sch{K: "obj", Mode: "strip", Catch: intS("int"), Fields: []Field{{"a", str()}}, Cks: []Ck{min2}}, // size after strip
		&Sch{K: "arr", Rest: &Sch{K: "bool"}, Items: []*Sch{str()}},                                       // rest without minItems
		// positional containers with items of mixed optionality: Array demands exactly len(items) elements whatever
		// the flags, Tuple lets trailing optional items be omitted (RequiredCount) — both with and without a rest schema
		&Sch{K: "arr", Items: []*Sch{{K: "bool"}, opt(nul(str())), opt(nul(intS("int")))}},
		&Sch{K: "arr", Items: []*Sch{opt(nul(str())), {K: "bool"}}},
		&Sch{K: "arr", Items: []*Sch{opt(nul(str())), opt(nul(str()))}},
		&Sch{K: "tup", Items: []*Sch{{K: "bool"}, opt(nul(str())), opt(nul(intS("int")))}},
		&Sch{K: "tup", Items: []*Sch{opt(nul(str())), {K: "bool"}, opt(nul(str()))}},
		&Sch{K: "tup", Rest: &Sch{K: "bool"}, Items: []*Sch{opt(nul(str())), opt(nul(str()))}},
		&Sch{K: "arr", Rest: opt(nul(str())), Items: []*Sch{}},
		// wrappers around union-like schemas whose members overlap on null
		nul(&Sch{K: "xor", Items: []*Sch{nul(str()), {K: "bool"}}}),
		nul(&Sch{K: "xor", Items: []*Sch{{K: "nil"}, str()}}),
		nul(&Sch{K: "union", Items: []*Sch{nul(str()), {K: "bool"}}}),
		opt(nul(&Sch{K: "xor", Items: []*Sch{{K: "bool"}, {K: "any"}}})),
		nul(&Sch{K: "xor", Items: []*Sch{str(), {K: "bool"}}}),
		nul(&Sch{K: "union", Items: []*Sch{str(), {K: "nil"}, {K: "bool"}}}),
		// Lazy: the inner schema's document; Parse consults the inner schema only for eight Go result types
		lazy("--", obj("strict", Field{"a", str()})),
		lazy("--", intS("i8")),
		lazy("--", &Sch{K: "slice", Elem: &Sch{K: "bool"}}),
		lazy("--", str(Ck{Op: "min", N: 2})),
		lazy("-n", &Sch{K: "union", Items: []*Sch{str(), {K: "bool"}}}),
		lazy("--", lazy("--", str(Ck{Op: "min", N: 2}))),
		lazy("--", lazy("o-", str(Ck{Op: "min", N: 2}))),
		lazy("o-", str()),
		lazy("on", intS("int")),
		lazy("--", nul(str())),
		lazy("--", opt(nul(intS("int")))),
	}
}
