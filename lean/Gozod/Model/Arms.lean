/-
  Gozod.Model.Arms — a small expression / statement language for the bodies of
  `pkg/validate`'s `cmpInts`, `multipleOfInts` and `cmpFloats`, with Go's machine semantics
  (int64 / uint64 with two's-complement wrap-around on conversion, negation and addition;
  `%` = truncated remainder; untyped constants take the type of the other operand; IEEE
  comparisons false with a NaN).

  `harness/numgen` translates the go/ast of the three functions (every clause of the tagless
  switch: condition and statements) into terms of this language
  (`Gen.NumDispatch.cmpInts_ast` …, regenerated on every run); `Proofs/C16Arms.lean` proves that
  the interpreter below, run on the regenerated terms, computes the hand model's `cmpInts`,
  `multipleOfInts`, `F.cmp` for every operand pair — so an edit of a body (a dropped sign test, a
  changed conversion, `%` against the wrong operand) changes a proof obligation, and a harmless
  re-spelling does not.

  Core-only.
-/
import Gozod.Model.Dispatch
namespace Gozod.Arms
open Gozod Gozod.Dispatch

/-- A machine value. `c` is an untyped integer constant (`0`, `-1`, `math.MaxInt64`, `1<<63`). -/
inductive MV where
  | i64 (v : Int)
  | u64 (v : Int)
  | f (x : F)
  | c (n : Int)
  deriving Repr, Inhabited

/-- Integer / float expressions over the operands `a`, `b` (of type `num`) or `x`, `y` (float64). -/
inductive IE where
  | ai | au | bi | bu            -- a.i, a.u, b.i, b.u   (the field of the other kind holds 0)
  | x | y
  | var (name : String)          -- a local (`m`)
  | lit (n : Int)                -- a constant, evaluated by go/constant
  | u64 (e : IE)                 -- uint64(e)
  | i64 (e : IE)                 -- int64(e)
  | neg (e : IE)
  | add (e f : IE)
  | rem (e f : IE)               -- e % f
  | compare (e f : IE)           -- cmp.Compare(e, f) on integers
  | unknown (go : String)
  deriving Repr, Inhabited

inductive BE where
  | tt                           -- `default:`
  | rel (r : Rel) (e f : IE)
  | kindA (k : String)           -- a.kind == k
  | kindB (k : String)
  | isNaN (e : IE)               -- math.IsNaN(e)
  | and (p q : BE)
  | or (p q : BE)
  | not (p : BE)
  | unknown (go : String)
  deriving Repr, Inhabited

inductive St where
  | retI (e : IE)                -- return e
  | retB (c : BE)                -- return <boolean expression>
  | retPair (e : IE) (ok : Bool) -- return e, true|false
  | ite (c : BE) (s : St)        -- if c { s }      (no else, one statement)
  | set (name : String) (e : IE) -- name := e  /  name = e
  | unknown (go : String)
  deriving Repr, Inhabited

/-- Two's-complement reading of an integer as an int64. -/
def wrapI (v : Int) : Int := (v + 2 ^ 63) % 2 ^ 64 - 2 ^ 63

structure Env where
  a : Num
  b : Num
  x : F
  y : F
  locals : List (String × MV)

def fieldI : Num → Int
  | .i v => v
  | _ => 0
def fieldU : Num → Int
  | .u v => v
  | _ => 0

def lookup (n : String) : List (String × MV) → Option MV
  | [] => none
  | (k, v) :: rest => if k = n then some v else lookup n rest

/-- Bring a constant to the type of the other operand (it must be representable: Go rejects
    the program otherwise). -/
def unify : MV → MV → Option (MV × MV)
  | .i64 a, .i64 b => some (.i64 a, .i64 b)
  | .u64 a, .u64 b => some (.u64 a, .u64 b)
  | .f a, .f b => some (.f a, .f b)
  | .c a, .c b => some (.c a, .c b)
  | .i64 a, .c n => if -(2 ^ 63) ≤ n ∧ n < 2 ^ 63 then some (.i64 a, .i64 n) else none
  | .c n, .i64 a => if -(2 ^ 63) ≤ n ∧ n < 2 ^ 63 then some (.i64 n, .i64 a) else none
  | .u64 a, .c n => if 0 ≤ n ∧ n < 2 ^ 64 then some (.u64 a, .u64 n) else none
  | .c n, .u64 a => if 0 ≤ n ∧ n < 2 ^ 64 then some (.u64 n, .u64 a) else none
  | .f a, .c n => some (.f a, .f (.fin n 0))
  | .c n, .f a => some (.f (.fin n 0), .f a)
  | _, _ => none

def ordInt : Ordering → Int
  | .lt => -1 | .eq => 0 | .gt => 1

def IE.eval (env : Env) : IE → Option MV
  | .ai => some (.i64 (fieldI env.a))
  | .au => some (.u64 (fieldU env.a))
  | .bi => some (.i64 (fieldI env.b))
  | .bu => some (.u64 (fieldU env.b))
  | .x => some (.f env.x)
  | .y => some (.f env.y)
  | .var n => lookup n env.locals
  | .lit n => some (.c n)
  | .u64 e => match e.eval env with
    | some (.i64 v) => some (.u64 (castU64 v))
    | some (.u64 v) => some (.u64 v)
    | some (.c n) => if 0 ≤ n ∧ n < 2 ^ 64 then some (.u64 n) else none
    | _ => none
  | .i64 e => match e.eval env with
    | some (.u64 v) => some (.i64 (wrapI v))
    | some (.i64 v) => some (.i64 v)
    | some (.c n) => if -(2 ^ 63) ≤ n ∧ n < 2 ^ 63 then some (.i64 n) else none
    | _ => none
  | .neg e => match e.eval env with
    | some (.i64 v) => some (.i64 (wrapI (-v)))
    | some (.u64 v) => some (.u64 (castU64 (-v)))
    | some (.c n) => some (.c (-n))
    | _ => none
  | .add e f => match e.eval env, f.eval env with
    | some p, some q => match unify p q with
      | some (.i64 a, .i64 b) => some (.i64 (wrapI (a + b)))
      | some (.u64 a, .u64 b) => some (.u64 (castU64 (a + b)))
      | some (.c a, .c b) => some (.c (a + b))
      | _ => none
    | _, _ => none
  | .rem e f => match e.eval env, f.eval env with
    | some p, some q => match unify p q with
      | some (.i64 a, .i64 b) => if b = 0 then none else some (.i64 (Int.tmod a b))   -- never overflows: |a % b| < |b|
      | some (.u64 a, .u64 b) => if b = 0 then none else some (.u64 (a % b))
      | _ => none
    | _, _ => none
  | .compare e f => match e.eval env, f.eval env with
    | some p, some q => match unify p q with
      | some (.i64 a, .i64 b) => some (.i64 (ordInt (Ord.compare a b)))
      | some (.u64 a, .u64 b) => some (.i64 (ordInt (Ord.compare a b)))
      | _ => none
    | _, _ => none
  | .unknown _ => none

def kindIs (k : String) : Num → Option Bool
  | .i _ => if k = "numInt" then some true else if k = "numUint" ∨ k = "numFloat" then some false else none
  | .u _ => if k = "numUint" then some true else if k = "numInt" ∨ k = "numFloat" then some false else none
  | .f _ => if k = "numFloat" then some true else if k = "numInt" ∨ k = "numUint" then some false else none

def BE.eval (env : Env) : BE → Option Bool
  | .tt => some true
  | .rel r e f => match e.eval env, f.eval env with
    | some p, some q => match unify p q with
      | some (.i64 a, .i64 b) => some (r.holds (some (compare a b)))
      | some (.u64 a, .u64 b) => some (r.holds (some (compare a b)))
      | some (.c a, .c b) => some (r.holds (some (compare a b)))
      | some (.f a, .f b) => some (r.holds (F.cmp a b))
      | _ => none
    | _, _ => none
  | .kindA k => kindIs k env.a
  | .kindB k => kindIs k env.b
  | .isNaN e => match e.eval env with
    | some (.f x) => some x.isNaN
    | _ => none
  | .and p q => match p.eval env with
    | some true => q.eval env
    | some false => some false
    | none => none
  | .or p q => match p.eval env with
    | some true => some true
    | some false => q.eval env
    | none => none
  | .not p => (p.eval env).map (!·)
  | .unknown _ => none

/-- What a function returns. -/
inductive Ret where
  | int (v : Int)
  | bool (b : Bool)
  | pair (v : Int) (ok : Bool)
  deriving Repr, Inhabited, DecidableEq

inductive Outcome where
  | ret (r : Ret)
  | cont (locals : List (String × MV))
  | stuck
  deriving Repr, Inhabited

def asInt : MV → Option Int
  | .i64 v => some v
  | .c n => some n
  | _ => none

def St.exec (env : Env) : St → Outcome
  | .retI e => match (e.eval env).bind asInt with
    | some v => .ret (.int v)
    | none => .stuck
  | .retB c => match c.eval env with
    | some b => .ret (.bool b)
    | none => .stuck
  | .retPair e ok => match (e.eval env).bind asInt with
    | some v => .ret (.pair v ok)
    | none => .stuck
  | .ite c s => match c.eval env with
    | some true => s.exec env
    | some false => .cont env.locals
    | none => .stuck
  | .set n e => match e.eval env with
    | some v => .cont ((n, v) :: env.locals)
    | none => .stuck
  | .unknown _ => .stuck

def execList (env : Env) : List St → Option Ret
  | [] => none                                  -- fell off the end
  | s :: rest => match s.exec env with
    | .ret r => some r
    | .cont l => execList { env with locals := l } rest
    | .stuck => none

/-- A tagless `switch`: the first arm whose condition holds. -/
def runArms (env : Env) : List (BE × List St) → Option Ret
  | [] => none
  | (c, body) :: rest => match c.eval env with
    | some true => execList env body
    | some false => runArms env rest
    | none => none

end Gozod.Arms
