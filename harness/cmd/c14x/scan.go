package main

// Whole-library scan (round 4).
//
// Every non-test Go file of the library (all directories except examples/, docs/, testdata/, cmd/ and hidden ones) is
// parsed, per package.  Shared objects:
//
//   - EVERY package-level `var` (any type).  Sync kinds (sync.Mutex/RWMutex → a lock; sync/atomic values → `atomic`
//     accesses).  For the others every write outside `init` is a row: whole-variable assignment, element assignment
//     X[k] = v, field assignment X.f = v, *X = v, X++ / X op= v, delete(X, k), also from another package (pkg.X…).
//     Reads are listed for the variables that have at least one such write (a variable only written by its
//     initialiser or by init() has no conflicting pair).
//   - map / slice / pointer fields of a struct that carries a mutex; fields assigned inside a sync.Once closure.
//   - "<loc>.elem": a local value that was stored into a shared object (published) and is written afterwards through
//     the local name in the same function; readers of the shared object's elements read it with no lock in force
//     (they use the element after the lookup returned).
//
// Besides the access rows the scan yields, per function that takes a lock, the ordered lock events (acquire /
// release / call of a library function that may lock / call of a function-typed parameter or field) — the
// lock-order table (Gen/LockOrder.lean).

import (
	"fmt"
	"go/ast"
	"go/parser"
	"go/token"
	"os"
	"path/filepath"
	"sort"
	"strings"
)

type pkg struct {
	dir, name string
	files     []*ast.File
	rels      []string
	vars      map[string]string        // package-level var -> kind: map|slice|ptr|struct|func|atomic|mutex|scalar|value
	topSpecs  map[*ast.ValueSpec]bool  // the package-level ValueSpecs
	mutexes   map[string]bool          // package-level mutex vars and mutex fields
	fieldKind map[string]string        // shared struct field -> kind (map|slice|ptr) for structs with a mutex
	onceField map[string]bool          // field assigned inside a once.Do closure of a struct with sync.Once
	owner     map[string]string        // field -> struct
	funcs     map[string]*ast.FuncDecl // "Name" or "Recv.Name"
	refElem   map[string]bool          // shared map/slice whose elements are reference-like
	atomicField map[string]bool        // struct field of a sync/atomic type (round 4b)
	ty        *typed                   // go/types information (typed.go)
	clash     []string                 // two structs of the package with an equally named shared field
}

type lockEv struct {
	kind string // acq | rel | call | cb
	arg  string // mutex (pkg.m) | function | callback name
	mode string // R | W for acq
}

type fnLocks struct {
	fn  string
	evs []lockEv
}

type scanResult struct {
	rows      []access
	locks     []fnLocks
	nVars     int
	nWritten  int
	nFiles    int
	pkgs      []*pkg
	opaque    map[string]bool // method calls on package-level values of unknown type (not sync, not regexp)
	nCalls, nStatic, nDynamic, nValue, nForeign int // call sites by how go/types resolved the callee
	varsByKnd map[string]int
}

func skipDir(name string) bool {
	return name == "examples" || name == "docs" || name == "testdata" || name == "cmd" || strings.HasPrefix(name, ".") || strings.HasPrefix(name, "_")
}

func loadPackages(repo string) ([]*pkg, error) {
	byDir := map[string]*pkg{}
	var order []string
	err := filepath.Walk(repo, func(p string, fi os.FileInfo, err error) error {
		if err != nil {
			return err
		}
		if fi.IsDir() {
			if p != repo && skipDir(fi.Name()) {
				return filepath.SkipDir
			}
			return nil
		}
		if !strings.HasSuffix(p, ".go") || strings.HasSuffix(p, "_test.go") {
			return nil
		}
		fset := token.NewFileSet()
		f, err := parser.ParseFile(fset, p, nil, 0)
		if err != nil {
			return err
		}
		rel, _ := filepath.Rel(repo, p)
		dir := filepath.ToSlash(filepath.Dir(rel))
		pk := byDir[dir]
		if pk == nil {
			pk = &pkg{dir: dir, name: f.Name.Name, vars: map[string]string{}, topSpecs: map[*ast.ValueSpec]bool{},
				mutexes: map[string]bool{}, fieldKind: map[string]string{}, onceField: map[string]bool{}, owner: map[string]string{},
				funcs: map[string]*ast.FuncDecl{}, refElem: map[string]bool{}}
			byDir[dir] = pk
			order = append(order, dir)
		}
		pk.files = append(pk.files, f)
		pk.rels = append(pk.rels, filepath.ToSlash(rel))
		return nil
	})
	if err != nil {
		return nil, err
	}
	sort.Strings(order)
	var out []*pkg
	for _, d := range order {
		out = append(out, byDir[d])
	}
	return out, nil
}

func kindOfType(t ast.Expr, namedMaps map[string]bool) string {
	switch x := t.(type) {
	case *ast.MapType:
		return "map"
	case *ast.ArrayType:
		return "slice"
	case *ast.StarExpr:
		return "ptr"
	case *ast.StructType:
		return "struct"
	case *ast.FuncType:
		return "func"
	case *ast.InterfaceType:
		return "value"
	case *ast.IndexExpr, *ast.IndexListExpr, *ast.SelectorExpr, *ast.Ident:
		ts := typeStr(x)
		switch {
		case ts == "sync.Mutex" || ts == "sync.RWMutex":
			return "mutex"
		case strings.HasPrefix(ts, "atomic."):
			return "atomic"
		case ts == "sync.Once":
			return "once"
		case namedMaps[ts]:
			return "map"
		case ts == "string" || ts == "bool" || ts == "int" || ts == "int64" || ts == "uint64" || ts == "float64" || ts == "error":
			return "scalar"
		}
		return "value"
	}
	return "value"
}

func refLike(t ast.Expr) bool {
	switch x := t.(type) {
	case *ast.MapType, *ast.ArrayType, *ast.StarExpr, *ast.InterfaceType, *ast.FuncType:
		return true
	case *ast.Ident:
		switch x.Name {
		case "string", "bool", "int", "int8", "int16", "int32", "int64", "uint", "uint8", "uint16", "uint32", "uint64", "float32", "float64":
			return false
		}
		return true
	case *ast.SelectorExpr, *ast.IndexExpr, *ast.IndexListExpr:
		return true
	}
	return false
}

// declare fills the package's tables of shared objects from its declarations.
func (pk *pkg) declare() {
	namedMaps := map[string]bool{}
	namedMapElemRef := map[string]bool{}
	for _, f := range pk.files {
		for _, d := range f.Decls {
			if g, ok := d.(*ast.GenDecl); ok {
				for _, sp := range g.Specs {
					if ts, ok := sp.(*ast.TypeSpec); ok {
						if mt, isMap := ts.Type.(*ast.MapType); isMap {
							namedMaps[ts.Name.Name] = true
							namedMapElemRef[ts.Name.Name] = refLike(mt.Value)
						}
					}
				}
			}
		}
	}
	elemRefOf := func(t ast.Expr) bool {
		switch x := t.(type) {
		case *ast.MapType:
			return refLike(x.Value)
		case *ast.ArrayType:
			return refLike(x.Elt)
		}
		return namedMapElemRef[typeStr(t)]
	}
	for _, f := range pk.files {
		for _, d := range f.Decls {
			switch g := d.(type) {
			case *ast.FuncDecl:
				name := g.Name.Name
				if g.Recv != nil && len(g.Recv.List) > 0 {
					name = typeStr(g.Recv.List[0].Type) + "." + name
				}
				pk.funcs[name] = g
			case *ast.GenDecl:
				for _, sp := range g.Specs {
					switch s := sp.(type) {
					case *ast.ValueSpec:
						if g.Tok != token.VAR {
							continue
						}
						pk.topSpecs[s] = true
						for i, n := range s.Names {
							if n.Name == "_" {
								continue
							}
							kind := "value"
							var ty ast.Expr
							if s.Type != nil {
								ty = s.Type
							} else if i < len(s.Values) {
								switch v := s.Values[i].(type) {
								case *ast.CallExpr:
									if id, ok := v.Fun.(*ast.Ident); ok && (id.Name == "make" || id.Name == "new") && len(v.Args) > 0 {
										ty = v.Args[0]
										if id.Name == "new" {
											ty = &ast.StarExpr{X: v.Args[0]}
										}
									}
								case *ast.CompositeLit:
									ty = v.Type
								case *ast.UnaryExpr:
									if v.Op == token.AND {
										kind = "ptr"
									}
								case *ast.BasicLit:
									kind = "scalar"
								case *ast.FuncLit:
									kind = "func"
								case *ast.SelectorExpr, *ast.Ident:
									kind = "func" // alias of a function or of another value
								}
							}
							if ty != nil {
								kind = kindOfType(ty, namedMaps)
								if (kind == "map" || kind == "slice") && elemRefOf(ty) {
									pk.refElem[n.Name] = true
								}
								if _, isComposite := ty.(*ast.Ident); isComposite && kind == "value" {
									kind = "struct"
								}
							}
							pk.vars[n.Name] = kind
							if kind == "mutex" {
								pk.mutexes[n.Name] = true
							}
						}
					case *ast.TypeSpec:
						st, ok := s.Type.(*ast.StructType)
						if !ok {
							continue
						}
						hasMu, hasOnce := false, false
						for _, fl := range st.Fields.List {
							ts := typeStr(fl.Type)
							if ts == "sync.Mutex" || ts == "sync.RWMutex" {
								hasMu = true
								for _, n := range fl.Names {
									pk.mutexes[n.Name] = true
								}
							}
							if ts == "sync.Once" {
								hasOnce = true
							}
						}
						for _, fl := range st.Fields.List {
							k := kindOfType(fl.Type, namedMaps)
							for _, n := range fl.Names {
								shared := (hasMu && (k == "map" || k == "slice" || k == "ptr")) || (hasOnce && k != "once" && k != "mutex") || k == "atomic"
								if o := pk.owner[n.Name]; shared && o != "" && o != s.Name.Name {
									pk.clash = append(pk.clash, fmt.Sprintf("%s: field %s of %s and of %s", pk.dir, n.Name, o, s.Name.Name))
								}
								if k == "atomic" {
									pk.atomicField[n.Name] = true
									if pk.owner[n.Name] == "" {
										pk.owner[n.Name] = s.Name.Name
									}
								}
								if hasMu && (k == "map" || k == "slice" || k == "ptr") {
									pk.fieldKind[n.Name] = k
									pk.owner[n.Name] = s.Name.Name
									if elemRefOf(fl.Type) {
										pk.refElem[n.Name] = true
									}
								}
								if hasOnce && k != "once" && k != "mutex" {
									pk.onceField[n.Name] = true
									if pk.owner[n.Name] == "" {
										pk.owner[n.Name] = s.Name.Name
									}
								}
							}
						}
					}
				}
			}
		}
	}
	// only fields that some once.Do closure assigns are lazily written state
	assignedInOnce := map[string]bool{}
	for _, f := range pk.files {
		ast.Inspect(f, func(n ast.Node) bool {
			c, ok := n.(*ast.CallExpr)
			if !ok {
				return true
			}
			s, ok := c.Fun.(*ast.SelectorExpr)
			if !ok || s.Sel.Name != "Do" || !strings.Contains(strings.ToLower(typeStr(s.X)), "once") || len(c.Args) != 1 {
				return true
			}
			if fl, ok := c.Args[0].(*ast.FuncLit); ok {
				ast.Inspect(fl.Body, func(m ast.Node) bool {
					if a, ok := m.(*ast.AssignStmt); ok {
						for _, l := range a.Lhs {
							if se, ok := l.(*ast.SelectorExpr); ok {
								assignedInOnce[se.Sel.Name] = true
							}
						}
					}
					return true
				})
			}
			return true
		})
	}
	for k := range pk.onceField {
		if !assignedInOnce[k] {
			delete(pk.onceField, k)
			if pk.fieldKind[k] == "" && !pk.atomicField[k] {
				delete(pk.owner, k)
			}
		}
	}
}

func (pk *pkg) locName(n string) string {
	if o := pk.owner[n]; o != "" {
		return pk.name + "." + o + "." + n
	}
	return pk.name + "." + n
}

// isPkgVar: the identifier denotes the package-level variable of that name (not a local that shadows it).
func (pk *pkg) isPkgVar(id *ast.Ident) bool {
	if _, ok := pk.vars[id.Name]; !ok {
		return false
	}
	if pk.ty != nil {
		tp, ok := pk.typedPkgVar(id)
		return ok && tp == pk
	}
	if id.Obj == nil {
		return true // not resolved inside the file: declared in another file of the package
	}
	if vs, ok := id.Obj.Decl.(*ast.ValueSpec); ok && pk.topSpecs[vs] {
		return true
	}
	return false
}

func scanAll(repo string) (*scanResult, error) {
	pkgs, err := loadTypedPackages(repo)
	if err != nil {
		return nil, err
	}
	res := &scanResult{pkgs: pkgs, opaque: map[string]bool{}, varsByKnd: map[string]int{}}
	byImport := map[string]*pkg{} // import path suffix (dir) -> pkg
	for _, pk := range pkgs {
		pk.declare()
		byImport[pk.dir] = pk
		res.nFiles += len(pk.files)
		for _, k := range pk.vars {
			res.nVars++
			res.varsByKnd[k]++
		}
	}
	mod := modulePath(repo)
	// which functions may (transitively) take a lock: direct lockers first
	type fkey struct {
		pk   *pkg
		name string
	}
	var all []access
	lockEvs := map[string][]lockEv{}
	lockFnOrder := []string{}
	callsOf := map[string][]string{} // every function: callee names (for the may-lock closure)
	for _, pk := range pkgs {
		for fi, f := range pk.files {
			_ = fi
			imports := map[string]*pkg{}
			for _, im := range f.Imports {
				p := strings.Trim(im.Path.Value, `"`)
				if !strings.HasPrefix(p, mod) {
					continue
				}
				d := strings.TrimPrefix(strings.TrimPrefix(p, mod), "/")
				if d == "" {
					d = "."
				}
				tp := byImport[d]
				if tp == nil {
					continue
				}
				nm := tp.name
				if im.Name != nil {
					nm = im.Name.Name
				}
				imports[nm] = tp
			}
			for _, d := range f.Decls {
				fd, ok := d.(*ast.FuncDecl)
				if !ok || fd.Body == nil {
					continue
				}
				rows, evs, calls := pk.scanFunc(fd, imports, res)
				fn := pk.fnName(fd)
				callsOf[fn] = append(callsOf[fn], calls...)
				if fd.Name.Name != "init" || fd.Recv != nil {
					all = append(all, rows...)
				}
				hasAcq := false
				for _, e := range evs {
					hasAcq = hasAcq || e.kind == "acq"
				}
				if hasAcq {
					if _, dup := lockEvs[fn]; !dup {
						lockFnOrder = append(lockFnOrder, fn)
					}
					lockEvs[fn] = append(lockEvs[fn], evs...)
				}
			}
		}
	}
	// may-lock closure over the call graph (callee names as written: pkg.Func, pkg.Recv.Method or ".Method" for a
	// method call whose receiver type is unknown — matched against every method of that name)
	methodsNamed := map[string][]string{}
	for fn := range callsOf {
		if i := strings.LastIndex(fn, "."); i >= 0 {
			methodsNamed[fn[i:]] = append(methodsNamed[fn[i:]], fn)
		}
	}
	resolve := func(c string) []string {
		if strings.HasPrefix(c, ".") {
			return methodsNamed[c]
		}
		if _, ok := callsOf[c]; ok {
			return []string{c}
		}
		return nil
	}
	mayLock := map[string]bool{}
	for fn := range lockEvs {
		mayLock[fn] = true
	}
	for changed := true; changed; {
		changed = false
		for fn, cs := range callsOf {
			if mayLock[fn] {
				continue
			}
			for _, c := range cs {
				for _, t := range resolve(c) {
					if mayLock[t] && !mayLock[fn] {
						mayLock[fn] = true
						changed = true
					}
				}
			}
		}
	}
	sort.Strings(lockFnOrder)
	for _, fn := range lockFnOrder {
		var evs []lockEv
		for _, e := range lockEvs[fn] {
			if e.kind == "call" {
				ts := resolve(e.arg)
				kept := false
				for _, t := range ts {
					if mayLock[t] {
						// a call that may lock; functions that lock only through callees have no row of their own:
						// name the direct lockers they reach
						for _, dl := range directLockers(t, callsOf, lockEvs, resolve) {
							evs = append(evs, lockEv{kind: "call", arg: dl})
							kept = true
						}
					}
				}
				_ = kept
				continue
			}
			evs = append(evs, e)
		}
		res.locks = append(res.locks, fnLocks{fn: fn, evs: evs})
	}
	// keep: every write row; read rows of locations that are written somewhere (or are sync-typed: atomic, once, locked fields)
	written := map[string]bool{}
	for _, r := range all {
		if r.write {
			written[r.loc] = true
		}
	}
	for _, r := range all {
		if written[r.loc] || r.sync != "none" {
			res.rows = append(res.rows, r)
		}
	}
	res.nWritten = len(written)
	return res, nil
}

// directLockers: the functions with lock events reachable from fn through the call graph (fn itself if it locks).
func directLockers(fn string, callsOf map[string][]string, lockEvs map[string][]lockEv, resolve func(string) []string) []string {
	seen := map[string]bool{}
	var out []string
	var go_ func(string)
	go_ = func(f string) {
		if seen[f] {
			return
		}
		seen[f] = true
		if _, ok := lockEvs[f]; ok {
			out = append(out, f)
			return
		}
		for _, c := range callsOf[f] {
			for _, t := range resolve(c) {
				go_(t)
			}
		}
	}
	go_(fn)
	sort.Strings(out)
	return out
}

func (pk *pkg) fnName(fd *ast.FuncDecl) string {
	fn := pk.name + "." + fd.Name.Name
	if fd.Recv != nil && len(fd.Recv.List) > 0 {
		fn = pk.name + "." + typeStr(fd.Recv.List[0].Type) + "." + fd.Name.Name
	}
	return fn
}

func rootIdent(e ast.Expr) *ast.Ident {
	for {
		switch t := e.(type) {
		case *ast.Ident:
			return t
		case *ast.SelectorExpr:
			e = t.X
		case *ast.IndexExpr:
			e = t.X
		case *ast.StarExpr:
			e = t.X
		case *ast.ParenExpr:
			e = t.X
		default:
			return nil
		}
	}
}

// scanFunc lists the accesses of one function, its lock events and its callees.
func (pk *pkg) scanFunc(fd *ast.FuncDecl, imports map[string]*pkg, res *scanResult) ([]access, []lockEv, []string) {
	fn := pk.fnName(fd)
	var rows []access
	var evs []lockEv
	var calls []string
	var deferred []lockEv
	held := map[string]string{} // mutex -> R|W
	heldOrder := []string{}
	doneOn := map[string]string{} // receiver text -> identity of the Once whose Do it has been through
	curOnce := ""                 // identity of the Once whose Do closure is being walked
	// onceID: WHICH sync.Once (round 4b: two accesses are ordered only by the SAME Once): pkg.Struct.field for a field,
	// pkg.name for a package-level variable, the expression text otherwise
	onceID := func(e ast.Expr) string {
		if se, ok := e.(*ast.SelectorExpr); ok {
			if o, tp, isF := pk.fieldOwner(se); isF && tp != nil && o != "" {
				return tp.name + "." + o + "." + se.Sel.Name
			}
		}
		if id, ok := e.(*ast.Ident); ok {
			if tp, ok := pk.typedPkgVar(id); ok {
				return tp.name + "." + id.Name
			}
		}
		return pk.name + "." + typeStr(e)
	}
	funcParams := map[string]bool{}
	if fd.Type.Params != nil {
		for _, p := range fd.Type.Params.List {
			if _, ok := p.Type.(*ast.FuncType); ok {
				for _, n := range p.Names {
					funcParams[n.Name] = true
				}
			}
		}
	}
	syncNow := func() string {
		if len(heldOrder) > 0 {
			m := heldOrder[len(heldOrder)-1]
			return "mutex" + held[m] + ":" + pk.name + "." + m
		}
		return "none"
	}
	// struct types declared inside the function body may have fields named like a shared field: for those names only
	// selectors on the receiver / a parameter count as the shared field
	localFieldNames := map[string]bool{}
	ast.Inspect(fd.Body, func(n ast.Node) bool {
		if ts, ok := n.(*ast.TypeSpec); ok {
			if st, ok := ts.Type.(*ast.StructType); ok {
				for _, fl := range st.Fields.List {
					for _, nm := range fl.Names {
						localFieldNames[nm.Name] = true
					}
				}
			}
		}
		return true
	})
	_ = localFieldNames
	// (round 4b) the selector selects THE field recorded as shared: same field object owner, by go/types
	isSharedFieldSel := func(se *ast.SelectorExpr) bool { return pk.isOwnedField(se) }
	// pkgVarOf: the expression denotes a package-level variable (of this package, or pkg.X of an imported library
	// package): returns its location name and kind
	pkgVarOf := func(e ast.Expr) (string, string, *pkg, string) {
		switch t := e.(type) {
		case *ast.Ident:
			if pk.isPkgVar(t) {
				return pk.name + "." + t.Name, pk.vars[t.Name], pk, t.Name
			}
		case *ast.SelectorExpr:
			// a qualified identifier pkg.X (not a field selection) naming a package-level variable of a library package
			if _, isSel := pk.ty.info.Selections[t]; !isSel {
				if tp, ok := pk.typedPkgVar(t.Sel); ok {
					if k, ok := tp.vars[t.Sel.Name]; ok {
						return tp.name + "." + t.Sel.Name, k, tp, t.Sel.Name
					}
				}
			}
		}
		return "", "", nil, ""
	}
	// sharedOf: a shared object reached by the expression: package-level variable, or a shared field x.f
	sharedOf := func(e ast.Expr) (loc string, kind string, refElem bool) {
		if l, k, tp, nm := pkgVarOf(e); l != "" {
			return l, k, tp.refElem[nm]
		}
		if se, ok := e.(*ast.SelectorExpr); ok && isSharedFieldSel(se) {
			if k := pk.fieldKind[se.Sel.Name]; k != "" {
				return pk.locName(se.Sel.Name), k, pk.refElem[se.Sel.Name]
			}
		}
		return "", "", false
	}
	isSyncKind := func(k string) bool { return k == "mutex" || k == "atomic" || k == "once" }
	writes := map[ast.Node]bool{}
	published := map[string]struct {
		loc string
		pos token.Pos
	}{}
	localIdent := func(e ast.Expr) *ast.Ident {
		id, ok := e.(*ast.Ident)
		if !ok || id.Obj == nil || id.Name == "_" {
			return nil
		}
		if vs, ok := id.Obj.Decl.(*ast.ValueSpec); ok && pk.topSpecs[vs] {
			return nil
		}
		return id
	}
	publish := func(target ast.Expr, vals []ast.Expr, pos token.Pos) {
		loc, kind, _ := sharedOf(target)
		if loc == "" || isSyncKind(kind) {
			return
		}
		for _, v := range vals {
			if c, ok := v.(*ast.CallExpr); ok { // X = append(X, v)
				if id, ok := c.Fun.(*ast.Ident); ok && id.Name == "append" {
					for _, a := range c.Args[1:] {
						if l := localIdent(a); l != nil {
							published[l.Name] = struct {
								loc string
								pos token.Pos
							}{loc + ".elem", pos}
						}
					}
				}
				continue
			}
			if u, ok := v.(*ast.UnaryExpr); ok && u.Op == token.AND {
				v = u.X
			}
			if l := localIdent(v); l != nil {
				published[l.Name] = struct {
					loc string
					pos token.Pos
				}{loc + ".elem", pos}
			}
		}
	}
	aliasWrite := func(lhs ast.Expr, pos token.Pos) {
		var base ast.Expr
		switch t := lhs.(type) {
		case *ast.IndexExpr:
			base = t.X
		case *ast.SelectorExpr:
			base = t.X
		case *ast.StarExpr:
			base = t.X
		default:
			return
		}
		if l := localIdent(base); l != nil {
			if p, ok := published[l.Name]; ok && pos > p.pos {
				rows = append(rows, access{fn, p.loc, true, syncNow()})
			}
		}
	}
	var walk func(n ast.Node, inOnce bool, inDefer bool)
	lhsWrite := func(l ast.Expr, inOnce bool, pos token.Pos) {
		// the written object: strip one level of index / field / deref
		target := l
		switch t := l.(type) {
		case *ast.IndexExpr:
			target = t.X
		case *ast.StarExpr:
			target = t.X
		case *ast.SelectorExpr:
			if loc, _, _, _ := pkgVarOf(t); loc == "" {
				// x.f = v: a once-field, or a field of a package-level struct value
				if pk.onceField[t.Sel.Name] && pk.isOwnedField(t) && fd.Name.Name != "CloneFrom" {
					s := "none"
					if inOnce {
						s = "once:" + curOnce
					}
					rows = append(rows, access{fn, pk.locName(t.Sel.Name), true, s})
					writes[t] = true
					return
				}
				if pk.fieldKind[t.Sel.Name] != "" && pk.isOwnedField(t) {
					if _, isNew := t.X.(*ast.Ident); isNew && (strings.HasPrefix(fd.Name.Name, "New") || strings.HasPrefix(fd.Name.Name, "new")) {
						return // constructor initialising its own fresh value
					}
					rows = append(rows, access{fn, pk.locName(t.Sel.Name), true, syncNow()})
					writes[t] = true
					return
				}
				target = t.X
			}
		}
		if loc, kind, _ := sharedOf(target); loc != "" && !isSyncKind(kind) {
			rows = append(rows, access{fn, loc, true, syncNow()})
			writes[target] = true
			if target != l {
				writes[l] = true
			}
			return
		}
		aliasWrite(l, pos)
	}
	walk = func(n ast.Node, inOnce bool, inDefer bool) {
		ast.Inspect(n, func(x ast.Node) bool {
			switch t := x.(type) {
			case *ast.DeferStmt:
				walk(t.Call, inOnce, true)
				return false
			case *ast.AssignStmt:
				for i, l := range t.Lhs {
					if t.Tok == token.DEFINE {
						if id, ok := l.(*ast.Ident); ok {
							_ = id
							continue
						}
					}
					lhsWrite(l, inOnce, t.Pos())
					var vals []ast.Expr
					if len(t.Rhs) == len(t.Lhs) {
						vals = []ast.Expr{t.Rhs[i]}
					}
					switch lt := l.(type) {
					case *ast.IndexExpr:
						publish(lt.X, vals, t.Pos())
					default:
						publish(l, vals, t.Pos())
					}
				}
			case *ast.IncDecStmt:
				lhsWrite(t.X, inOnce, t.Pos())
			case *ast.UnaryExpr:
				if t.Op == token.AND {
					if loc, kind, _, _ := pkgVarOf(t.X); loc != "" && !isSyncKind(kind) && kind != "func" {
						res.opaque["&"+loc+" in "+fn] = true
					}
				}
			case *ast.CallExpr:
				if s, ok := t.Fun.(*ast.SelectorExpr); ok {
					recvName := lastName(s.X)
					_, _, rp, rn := pkgVarOf(s.X)
					sk := pk.syncKindOf(s.X) // by the TYPE of the receiver expression
					isMutexRecv := sk == "mutex"
					isAtomicRecv := false
					atomicLoc := ""
					if sk == "atomic" {
						if rp != nil {
							isAtomicRecv, atomicLoc = true, rp.name+"."+rn
						} else if fse, ok := s.X.(*ast.SelectorExpr); ok && pk.atomicField[fse.Sel.Name] && pk.isOwnedField(fse) {
							isAtomicRecv, atomicLoc = true, pk.locName(fse.Sel.Name)
						}
					}
					switch s.Sel.Name {
					case "Lock", "RLock":
						if isMutexRecv {
							mode := "W"
							if s.Sel.Name == "RLock" {
								mode = "R"
							}
							if !inDefer {
								if _, already := held[recvName]; !already {
									heldOrder = append(heldOrder, recvName)
								}
								held[recvName] = mode
								evs = append(evs, lockEv{"acq", pk.name + "." + recvName, mode})
							}
							return false
						}
					case "Unlock", "RUnlock":
						if isMutexRecv {
							if inDefer {
								deferred = append([]lockEv{{"rel", pk.name + "." + recvName, ""}}, deferred...)
							} else {
								delete(held, recvName)
								for i, m := range heldOrder {
									if m == recvName {
										heldOrder = append(heldOrder[:i], heldOrder[i+1:]...)
										break
									}
								}
								evs = append(evs, lockEv{"rel", pk.name + "." + recvName, ""})
							}
							return false
						}
					case "Load":
						if isAtomicRecv {
							rows = append(rows, access{fn, atomicLoc, false, "atomic"})
							return false
						}
					case "Store", "Add", "Swap", "CompareAndSwap", "And", "Or":
						if isAtomicRecv {
							rows = append(rows, access{fn, atomicLoc, true, "atomic"})
							for _, a := range t.Args {
								walk(a, inOnce, inDefer)
							}
							return false
						}
					case "Do":
						if sk == "once" {
							oid := onceID(s.X)
							if se, ok := s.X.(*ast.SelectorExpr); ok {
								doneOn[typeStr(se.X)] = oid
							}
							if len(t.Args) == 1 {
								if fl, ok := t.Args[0].(*ast.FuncLit); ok {
									saved := curOnce
									curOnce = oid
									// (round 4b) once.Do(f) runs f while every other caller of the same Do waits, and a
									// re-entrant Do never returns: for the lock-order table the Once is an exclusive,
									// non-re-entrant lock held for the length of f
									evs = append(evs, lockEv{"acq", oid, "W"})
									walk(fl.Body, true, inDefer)
									evs = append(evs, lockEv{"rel", oid, ""})
									curOnce = saved
									return false
								}
							}
						}
					}
					if loc, kind, _, _ := pkgVarOf(s.X); loc != "" && !isSyncKind(kind) && kind != "func" {
						res.opaque[loc+"."+s.Sel.Name] = true
					}
				}
				// (round 4b) the callee, resolved through go/types: one library function, the implementations of an interface
				// method, or a function VALUE (field / variable / parameter: code the library does not control → `cb`)
				{
					cr := pk.callee(t, res.pkgs)
					res.nCalls++
					switch {
					case cr.foreign:
						res.nForeign++
					case cr.value:
						res.nValue++
						name := ""
						switch f := ast.Unparen(t.Fun).(type) {
						case *ast.Ident:
							if funcParams[f.Name] && f.Obj != nil {
								name = "" // listed below (function-typed parameter)
							} else if pk.isPkgVarFunc(f) {
								name = f.Name
							}
						case *ast.SelectorExpr:
							name = f.Sel.Name
						}
						if name != "" {
							evs = append(evs, lockEv{"cb", name, ""})
						}
					default:
						if cr.dynamic {
							res.nDynamic++
						} else {
							res.nStatic++
						}
						for _, n := range cr.names {
							calls = append(calls, n)
							evs = append(evs, lockEv{"call", n, ""})
						}
					}
				}
				if id, ok := t.Fun.(*ast.Ident); ok {
					switch {
					case id.Name == "delete" && len(t.Args) > 0:
						if loc, kind, _ := sharedOf(t.Args[0]); loc != "" && !isSyncKind(kind) {
							rows = append(rows, access{fn, loc, true, syncNow()})
							writes[t.Args[0]] = true
						} else if l := localIdent(t.Args[0]); l != nil {
							if p, ok := published[l.Name]; ok && t.Pos() > p.pos {
								rows = append(rows, access{fn, p.loc, true, syncNow()})
							}
						}
					case funcParams[id.Name] && id.Obj != nil:
						evs = append(evs, lockEv{"cb", id.Name, ""})
					}
				}
			case *ast.IndexExpr:
				if loc, kind, ref := sharedOf(t.X); loc != "" && !isSyncKind(kind) && !writes[t] && !writes[t.X] {
					rows = append(rows, access{fn, loc, false, syncNow()})
					writes[t.X] = true // counted; do not list the bare identifier again
					if ref {
						rows = append(rows, access{fn, loc + ".elem", false, "none"})
					}
				}
			case *ast.RangeStmt:
				if loc, kind, ref := sharedOf(t.X); loc != "" && !isSyncKind(kind) {
					rows = append(rows, access{fn, loc, false, syncNow()})
					writes[t.X] = true
					if ref && t.Value != nil {
						rows = append(rows, access{fn, loc + ".elem", false, "none"})
					}
				}
			case *ast.SelectorExpr:
				if pk.onceField[t.Sel.Name] && pk.isOwnedField(t) && !writes[t] && !inOnce && fd.Name.Name != "CloneFrom" {
					if loc, _, _, _ := pkgVarOf(t); loc == "" {
						s := "none"
						if oid := doneOn[typeStr(t.X)]; oid != "" {
							s = "once:" + oid // read after <same object>.<once>.Do: ordered by that sync.Once
						}
						rows = append(rows, access{fn, pk.locName(t.Sel.Name), false, s})
					}
				}
				if k := pk.fieldKind[t.Sel.Name]; k != "" && !writes[t] && isSharedFieldSel(t) {
					if loc, _, _, _ := pkgVarOf(t); loc == "" {
						rows = append(rows, access{fn, pk.locName(t.Sel.Name), false, syncNow()})
						writes[t] = true
					}
				}
				if loc, kind, _, _ := pkgVarOf(t); loc != "" && !isSyncKind(kind) && !writes[t] {
					rows = append(rows, access{fn, loc, false, syncNow()})
					return false
				}
			case *ast.Ident:
				if !writes[t] && pk.isPkgVar(t) {
					if k := pk.vars[t.Name]; !isSyncKind(k) {
						rows = append(rows, access{fn, pk.name + "." + t.Name, false, syncNow()})
					}
				}
			}
			return true
		})
	}
	walk(fd.Body, false, false)
	evs = append(evs, deferred...)
	return rows, evs, calls
}

// leanLockOrder renders the lock-order table.
func leanLockOrder(locks []fnLocks) string {
	var b strings.Builder
	b.WriteString("/- REGENERATED by harness/cmd/c14x from the library sources on every run of ./check C14 — do not edit. -/\n")
	b.WriteString("import Gozod.Model.LockOrder\nnamespace Gozod.Gen.LockOrder\nopen Gozod.LockOrder\n\n")
	// mutexes in order of first appearance (the rank certificate is computed in Lean)
	b.WriteString("def table : List Fn := [\n")
	for i, f := range locks {
		var es []string
		for _, e := range f.evs {
			switch e.kind {
			case "acq":
				es = append(es, fmt.Sprintf(".acq %q %v", e.arg, e.mode == "W"))
			case "rel":
				es = append(es, fmt.Sprintf(".rel %q", e.arg))
			case "call":
				es = append(es, fmt.Sprintf(".call %q", e.arg))
			case "cb":
				es = append(es, fmt.Sprintf(".cb %q", e.arg))
			}
		}
		fmt.Fprintf(&b, "  ⟨%q, [%s]⟩", f.fn, strings.Join(es, ", "))
		if i+1 < len(locks) {
			b.WriteString(",")
		}
		b.WriteString("\n")
	}
	b.WriteString("]\n\nend Gozod.Gen.LockOrder\n")
	return b.String()
}

// constructorSource: the table of exported constructors for the first-use scenarios of the race harness
// (harness/cmd/c14/constructors_gen.go): every exported package-level function without type parameters of the
// packages types and coerce whose parameters can be generated (argFor) and whose first result is a pointer.
func constructorSource(repo string, pkgs []*pkg) string {
	mod := modulePath(repo)
	type c struct{ fn, call string }
	var cs []c
	imports := map[string]string{}
	for _, pk := range pkgs {
		if pk.dir != "types" && pk.dir != "coerce" {
			continue
		}
		alias := "lib" + pk.name
		for _, f := range pk.files {
			for _, d := range f.Decls {
				fd, ok := d.(*ast.FuncDecl)
				if !ok || fd.Recv != nil || !fd.Name.IsExported() || fd.Type.TypeParams != nil || fd.Type.Results == nil || len(fd.Type.Results.List) == 0 {
					continue
				}
				if _, ptr := fd.Type.Results.List[0].Type.(*ast.StarExpr); !ptr {
					continue
				}
				nres := 0
				for _, r := range fd.Type.Results.List {
					if len(r.Names) == 0 {
						nres++
					} else {
						nres += len(r.Names)
					}
				}
				var args []string
				callable := true
				for _, p := range fd.Type.Params.List {
					a, ok := argFor(p.Type)
					if !ok {
						callable = false
						break
					}
					k := len(p.Names)
					if k == 0 {
						k = 1
					}
					for i := 0; i < k; i++ {
						if a != "" {
							args = append(args, a)
						}
					}
				}
				if !callable {
					continue
				}
				imports[alias] = mod + "/" + pk.dir
				call := fmt.Sprintf("%s.%s(%s)", alias, fd.Name.Name, strings.Join(args, ", "))
				if nres == 1 {
					call = "return " + call
				} else {
					call = "v" + strings.Repeat(", _", nres-1) + " := " + call + "; return v"
				}
				cs = append(cs, c{pk.name + "." + fd.Name.Name, call})
			}
		}
	}
	sort.Slice(cs, func(i, j int) bool { return cs[i].fn < cs[j].fn })
	var b strings.Builder
	b.WriteString("// Code generated by harness/cmd/c14x from the library sources on every run of ./check C14; DO NOT EDIT.\n\npackage main\n\n")
	var als []string
	for a := range imports {
		als = append(als, a)
	}
	sort.Strings(als)
	if len(als) > 0 {
		b.WriteString("import (\n")
		for _, a := range als {
			fmt.Fprintf(&b, "\t%s %q\n", a, imports[a])
		}
		b.WriteString(")\n\n")
	}
	b.WriteString("func init() {\n\tconstructors = []ctor{\n")
	for _, x := range cs {
		fmt.Fprintf(&b, "\t\t{fn: %q, call: func(n int, s string) any { %s }},\n", x.fn, x.call)
	}
	b.WriteString("\t}\n}\n")
	return b.String()
}
