/-
  Model of gozod's error reports (C19): internal/issues/errors.go (FlattenErrorWithMapper,
  TreeifyErrorWithMapper / processIssueInTree, FormatErrorWithMapper, PrettifyErrorWithFormatter)
  and internal/utils/utils.go (ToDotPath, needsBracketNotation, isIdentChar).

  Transcribed AS THE CODE COMPUTES THEM at /repo HEAD, i.e. after the fix commits 34fe188
  (FormatError wrappers), ba66c69 (first segment quoted), c7ce73a (quoted keys escaped, empty key
  quoted) and cef00ff (reserved last segment keeps its message): `formatError`, `dotPathEsc`.  The code as it stood before each fix is kept as
  `formatLegacy` / `dotPathLegacy` (before ba66c69) / `dotPath` (before c7ce73a) for the witness theorems.

  Conventions
  * A path element is a string key or a non-negative int index (`Seg`).  `Seg.render` is
    `fmt.Sprintf("%v", el)`.
  * `Issue.msg` stands for `mapper(issue)`: the issue's own message when non-empty, else what the
    error's formatter returns for it (trusted to be total; C18 covers non-emptiness).
  * Go maps are modelled as association lists in first-insertion order with distinct keys; the
    driver sorts them for comparison (the Go side sorts too).
-/
namespace Gozod.Issues

/-! ## Issues -/

inductive Seg where
  | key (s : String)
  | idx (n : Nat)
  deriving DecidableEq, Repr, Inhabited

/-- `fmt.Sprintf("%v", pathEl)` for a string or an int. -/
def Seg.render : Seg → String
  | .key s => s
  | .idx n => toString n

/-- `core.IssueCode`: the seventeen constants of core/constants.go, or any other string. -/
inductive Code where
  | invalidType | invalidValue | invalidFormat | invalidUnion | invalidKey | invalidElement
  | tooBig | tooSmall | notMultipleOf | unrecognizedKeys | custom | invalidSchema
  | invalidDiscriminator | incompatibleTypes | missingRequired | typeConversion | nilPointer
  | other (s : String)
  deriving DecidableEq, Repr, Inhabited

/-- `core.ZodIssue`, reduced to what the formatters read: Code, Path, mapper(issue), Errors (union
    branches), Issues (sub-issues of invalid_key / invalid_element). -/
inductive Issue where
  | mk (code : Code) (path : List Seg) (msg : String) (errors : List (List Issue)) (issues : List Issue)
  deriving Repr, Inhabited

namespace Issue
def code : Issue → Code | mk c _ _ _ _ => c
def path : Issue → List Seg | mk _ p _ _ _ => p
def msg : Issue → String | mk _ _ m _ _ => m
def errors : Issue → List (List Issue) | mk _ _ _ e _ => e
def issues : Issue → List Issue | mk _ _ _ _ i => i
end Issue

/-! ## FlattenError  (errors.go FlattenErrorWithMapper) -/

structure Flat where
  form : List String
  fields : List (String × List String)
  deriving Repr, DecidableEq

/-- `FieldErrors[k] = append(FieldErrors[k], m)` -/
def addField (k m : String) : List (String × List String) → List (String × List String)
  | [] => [(k, [m])]
  | (k', ms) :: r => if k' = k then (k', ms ++ [m]) :: r else (k', ms) :: addField k m r

def flattenStep (f : Flat) (i : Issue) : Flat :=
  match i.path with
  | [] => { f with form := f.form ++ [i.msg] }
  | s :: _ => { f with fields := addField s.render i.msg f.fields }

def flatten (is : List Issue) : Flat := is.foldl flattenStep ⟨[], []⟩

def fieldAt (k : String) : List (String × List String) → List String
  | [] => []
  | (k', ms) :: r => if k' = k then ms else fieldAt k r

def fieldTotal : List (String × List String) → Nat
  | [] => 0
  | (_, ms) :: r => ms.length + fieldTotal r

def Flat.count (f : Flat) : Nat := f.form.length + fieldTotal f.fields

/-! ## TreeifyError  (errors.go TreeifyErrorWithMapper, processIssueInTree) -/

inductive Tree where
  | node (errors : List String) (props : List (String × Tree)) (items : List Tree)
  deriving Repr, Inhabited

namespace Tree
def empty : Tree := node [] [] []
def addErr (m : String) : Tree → Tree
  | node e p i => node (e ++ [m]) p i
end Tree

/-- `if current.Properties[k] == nil { … = &ZodErrorTree{} }; current = current.Properties[k]`,
    then `f` applied to that node. -/
def updProp (k : String) (f : Tree → Tree) : List (String × Tree) → List (String × Tree)
  | [] => [(k, f Tree.empty)]
  | (k', t) :: r => if k' = k then (k', f t) :: r else (k', t) :: updProp k f r

/-- `for len(current.Items) <= n { append(empty) }; current = current.Items[n]`, then `f`. -/
def updItem (f : Tree → Tree) : Nat → List Tree → List Tree
  | 0, [] => [f Tree.empty]
  | 0, t :: r => f t :: r
  | n + 1, [] => Tree.empty :: updItem f n []
  | n + 1, t :: r => t :: updItem f n r

def Tree.insert : List Seg → String → Tree → Tree
  | [], m, t => t.addErr m
  | .key k :: r, m, .node e p i => .node e (updProp k (Tree.insert r m) p) i
  | .idx n :: r, m, .node e p i => .node e p (updItem (Tree.insert r m) n i)

def treeify (is : List Issue) : Tree := is.foldl (fun t i => t.insert i.path i.msg) Tree.empty

mutual
def Tree.count : Tree → Nat
  | .node e p i => e.length + countProps p + countItems i
def countProps : List (String × Tree) → Nat
  | [] => 0
  | (_, t) :: r => t.count + countProps r
def countItems : List Tree → Nat
  | [] => 0
  | t :: r => t.count + countItems r
end

def propAt (k : String) : List (String × Tree) → Option Tree
  | [] => none
  | (k', t) :: r => if k' = k then some t else propAt k r

/-- messages filed at the node a typed path denotes (a node that does not exist holds none) -/
def Tree.at : List Seg → Tree → List String
  | [], .node e _ _ => e
  | .key k :: r, .node _ p _ => Tree.at r ((propAt k p).getD Tree.empty)
  | .idx n :: r, .node _ _ i => Tree.at r (i.getD n Tree.empty)

/-! ## FormatError  (errors.go FormatErrorWithMapper) -/

inductive Fmt where
  | node (errors : List String) (kids : List (String × Fmt))
  deriving Repr, Inhabited

namespace Fmt
def empty : Fmt := node [] []
def addErr (m : String) : Fmt → Fmt
  | node e k => node (e ++ [m]) k
end Fmt

def updKid (k : String) (f : Fmt → Fmt) : List (String × Fmt) → List (String × Fmt)
  | [] => [(k, f Fmt.empty)]
  | (k', t) :: r => if k' = k then (k', f t) :: r else (k', t) :: updKid k f r

/-- the reserved key under which every node keeps its own messages -/
def errorsKey : String := "_errors"

/-- The walk over the rendered path.  A segment equal to `"_errors"` finds the `[]string` stored
    under that key, the type assertion to a map fails: the segment is skipped, and when it is the
    last one the message is appended to the `_errors` of the node reached so far (`curr`). -/
def Fmt.fileAt : List String → String → Fmt → Fmt
  | [], m, t => t.addErr m
  | k :: r, m, .node e kids =>
    if k = errorsKey then Fmt.fileAt r m (.node e kids)
    else .node e (updKid k (Fmt.fileAt r m) kids)

/-- the walk before cef00ff: a reserved LAST segment made the loop `continue` without filing -/
def Fmt.fileAtLegacy : List String → String → Fmt → Fmt
  | [], m, t => t.addErr m
  | k :: r, m, .node e kids =>
    if k = errorsKey then
      match r with
      | [] => .node e kids
      | _ :: _ => Fmt.fileAtLegacy r m (.node e kids)
    else .node e (updKid k (Fmt.fileAtLegacy r m) kids)

/-- the position a rendered path denotes in the report: reserved segments cannot be represented -/
def stripReserved : List String → List String
  | [] => []
  | k :: r => if k = errorsKey then stripReserved r else k :: stripReserved r

def anyNonEmpty : List (List Issue) → Bool
  | [] => false
  | [] :: r => anyNonEmpty r
  | (_ :: _) :: _ => true

mutual
/-- one iteration of `processError`'s loop, `pre` = path prefix of the wrapping issues -/
def fmtIssue (pre : List Seg) : Issue → Fmt → Fmt
  | .mk code path msg errors issues, t =>
    match code with
    | .invalidUnion =>
      if anyNonEmpty errors then fmtBranches (pre ++ path) errors t
      else Fmt.fileAt ((pre ++ path).map Seg.render) msg t
    | .invalidKey =>
      match issues with
      | [] => Fmt.fileAt ((pre ++ path).map Seg.render) msg t
      | i :: r => fmtIssues (pre ++ path) (i :: r) t
    | .invalidElement =>
      match issues with
      | [] => Fmt.fileAt ((pre ++ path).map Seg.render) msg t
      | i :: r => fmtIssues (pre ++ path) (i :: r) t
    | _ => Fmt.fileAt ((pre ++ path).map Seg.render) msg t
def fmtIssues (pre : List Seg) : List Issue → Fmt → Fmt
  | [], t => t
  | i :: r, t => fmtIssues pre r (fmtIssue pre i t)
def fmtBranches (pre : List Seg) : List (List Issue) → Fmt → Fmt
  | [], t => t
  | b :: bs, t => fmtBranches pre bs (fmtIssues pre b t)
end

def formatError (is : List Issue) : Fmt := fmtIssues [] is Fmt.empty

mutual
def Fmt.count : Fmt → Nat
  | .node e k => e.length + countKids k
def countKids : List (String × Fmt) → Nat
  | [] => 0
  | (_, t) :: r => t.count + countKids r
end

def kidAt (k : String) : List (String × Fmt) → Option Fmt
  | [] => none
  | (k', t) :: r => if k' = k then some t else kidAt k r

/-- messages filed at the node a chain of keys denotes (a node that does not exist holds none) -/
def Fmt.at : List String → Fmt → List String
  | [], .node e _ => e
  | k :: r, .node _ kids => Fmt.at r ((kidAt k kids).getD Fmt.empty)

/-! ### The code before pending/C19-format-wrappers.diff (for the witness theorems) -/

/-- the codes listed in the third `case` of the old switch -/
def Code.inLegacySwitch : Code → Bool
  | .invalidUnion | .invalidKey | .invalidElement | .other _ => false
  | _ => true

mutual
def fmtIssueLegacy : Issue → Fmt → Fmt
  | .mk code path msg errors issues, t =>
    match code with
    | .invalidUnion => fmtBranchesLegacy errors t
    | .invalidKey => fmtIssuesLegacy issues t
    | .invalidElement => fmtIssuesLegacy issues t
    | .other _ => t
    | _ => Fmt.fileAt (path.map Seg.render) msg t
def fmtIssuesLegacy : List Issue → Fmt → Fmt
  | [], t => t
  | i :: r, t => fmtIssuesLegacy r (fmtIssueLegacy i t)
def fmtBranchesLegacy : List (List Issue) → Fmt → Fmt
  | [], t => t
  | b :: bs, t => fmtBranchesLegacy bs (fmtIssuesLegacy b t)
end

def formatLegacy (is : List Issue) : Fmt := fmtIssuesLegacy is Fmt.empty

/-! ## PrettifyError and ToDotPath -/

def isIdentChar (c : Char) : Bool :=
  ('a' ≤ c && c ≤ 'z') || ('A' ≤ c && c ≤ 'Z') || ('0' ≤ c && c ≤ '9') || c == '_'

def isDigitChar (c : Char) : Bool := '0' ≤ c && c ≤ '9'

/-- utils.needsBracketNotation on the characters of the key -/
def needsBracketChars : List Char → Bool
  | [] => false
  | c :: cs => isDigitChar c || (c :: cs).any (fun x => !isIdentChar x)

def needsBracket (s : String) : Bool := needsBracketChars s.toList

/-- one segment of utils.ToDotPath before c7ce73a (`first` = it is segment 0) -/
def segDot (first : Bool) : Seg → List Char
  | .idx n => '[' :: (toString n).toList ++ [']']
  | .key s =>
    if needsBracket s then '[' :: '"' :: s.toList ++ ['"', ']']
    else if first then s.toList
    else '.' :: s.toList

def dotRest : List Seg → List Char
  | [] => []
  | s :: r => segDot false s ++ dotRest r

def dotChars : List Seg → List Char
  | [] => []
  | s :: r => segDot true s ++ dotRest r

def dotPath (p : List Seg) : String := String.ofList (dotChars p)

/-- ToDotPath before pending/C19-dotpath-first-segment.diff: segment 0 was written raw. -/
def dotCharsLegacy : List Seg → List Char
  | [] => []
  | .key s :: r => s.toList ++ dotRest r
  | .idx n :: r => segDot true (.idx n) ++ dotRest r

def dotPathLegacy (p : List Seg) : String := String.ofList (dotCharsLegacy p)

/-! ### utils.ToDotPath AS IT STANDS (since c7ce73a): a quoted key is a string literal
    (`quotedKeyEscaper`: `\` → `\\`, `"` → `\"`), and the empty key is quoted too
    (`case v == "" || needsBracketNotation(v)`).  `segDot` / `dotPath` above are the code between
    ba66c69 and c7ce73a (quoted keys copied verbatim, empty key bare), kept for the witness theorems. -/

/-- `quotedKeyEscaper.Replace` on one character -/
def escChar (c : Char) : List Char :=
  if c = '"' ∨ c = '\\' then ['\\', c] else [c]

def escChars : List Char → List Char
  | [] => []
  | c :: r => escChar c ++ escChars r

/-- the key is written between `["` and `"]` -/
def quotedKey (s : String) : Bool := s.toList.isEmpty || needsBracket s

/-- one segment of utils.ToDotPath (`first` = it is segment 0) -/
def segDotEsc (first : Bool) : Seg → List Char
  | .idx n => '[' :: (toString n).toList ++ [']']
  | .key s =>
    if quotedKey s then '[' :: '"' :: escChars s.toList ++ ['"', ']']
    else if first then s.toList
    else '.' :: s.toList

def dotRestEsc : List Seg → List Char
  | [] => []
  | s :: r => segDotEsc false s ++ dotRestEsc r

def dotCharsEsc : List Seg → List Char
  | [] => []
  | s :: r => segDotEsc true s ++ dotRestEsc r

def dotPathEsc (p : List Seg) : String := String.ofList (dotCharsEsc p)

/-- one "path: message" segment of PrettifyErrorWithFormatter -/
def prettySeg (i : Issue) : String :=
  match i.path with
  | [] => i.msg
  | p => dotPathEsc p ++ ": " ++ i.msg

def prettySegs (is : List Issue) : List String :=
  match is with
  | [] => ["Validation failed"]
  | is => is.map prettySeg

def prettify (is : List Issue) : String := "; ".intercalate (prettySegs is)

end Gozod.Issues
