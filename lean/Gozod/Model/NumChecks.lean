/-
  Gozod.Model.NumChecks — the numeric checks of `internal/checks/numeric.go` as an `Env` for the
  generic check engine: a check holds iff `pkg/validate`'s comparison (the `Gozod.Model.Num`
  transcription) says so.
-/
import Gozod.Model.Checks
import Gozod.Model.Num
import Gozod.Model.FloatMul
namespace Gozod.NumChecks
open Gozod

inductive NPred where
  | cmp (op : CmpOp) (bound : Num)       -- Gt/Gte/Lt/Lte/Min/Max/Positive/Negative/NonNegative/NonPositive
  | mult (d : Num)                       -- MultipleOf / Step with integer operands
  | finite                               -- Float.Finite: neither NaN nor ±Inf
  | safe                                 -- Safe: within ±(2^53 − 1) (Gte then Lte; at most one of the two can fail)
  | multF (d : F)                        -- Float.MultipleOf / Step: the ε-rule of validate.MultipleOf's float branch
  | isInt                                -- Float.Int: val == math.Trunc(val)
  deriving Repr, Inhabited

def safeBound (v : Num) (n : Int) : Num :=
  match v with
  | .f _ => .f (F.ofInt n)     -- float schemas take float64 bounds
  | _ => .i n                  -- integer schemas take int64 bounds

def isFinite : Num → Bool
  | .f .nan | .f .pinf | .f .ninf => false
  | _ => true

def holds : NPred → Num → Bool
  | .cmp op b, v => implCmp op v b
  | .mult d, v => multipleOfInts v d
  | .finite, v => isFinite v
  | .safe, v => implCmp .gte v (safeBound v (-(2 ^ 53 - 1))) && implCmp .lte v (safeBound v (2 ^ 53 - 1))
  | .multF d, .f x => FloatMul.implMultF x d
  | .multF _, _ => false                 -- not reached: only float schemas take a float64 divisor
  | .isInt, .f x => FloatMul.isIntF x
  | .isInt, _ => false                   -- not reached: `Int` exists on float schemas only

/-- The documented meaning: the mathematical relation. -/
def specHolds : NPred → Num → Bool
  | .cmp op b, v => specCmp op v b
  | .mult d, v =>
    match v, d with
    | .f _, _ => false
    | _, .f _ => false
    | v, d =>
      let iv : Num → Int := fun n => match n with | .i x => x | .u x => x | .f _ => 0
      specMultipleOfInt (iv v) (iv d)
  | .finite, v => isFinite v
  | .safe, v => specCmp .gte v (safeBound v (-(2 ^ 53 - 1))) && specCmp .lte v (safeBound v (2 ^ 53 - 1))
  | .multF d, .f x => FloatMul.specMultF x d
  | .multF _, _ => false
  | .isInt, .f x => FloatMul.specIsIntF x
  | .isInt, _ => false

def env : Env NPred Unit Unit Num := ⟨holds, fun _ v => v, fun _ v => v⟩
def specEnv : Env NPred Unit Unit Num := ⟨specHolds, fun _ v => v, fun _ v => v⟩

end Gozod.NumChecks
