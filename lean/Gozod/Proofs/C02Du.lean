/-
  C02 — discriminated union over its OPTION LIST (round 4).

  `Cont.buildDiscMap` transcribes `buildDiscriminatorMap` (types/discriminated_union.go): the index is built from
  the discriminator values each option declares; `Cont.parseDUDecl` is `Parse` of the union so constructed
  (construction error → invalid_schema; index lookup; THEN the fallback loop over every option).
  The law `Spec.acceptsDU` is written without an index: an option is selected iff it declares the value.

  `c02_du_law` is the full law, for every environment, option list and input: no hypothesis on the input's shape.
-/
import Gozod.Model.Containers
import Gozod.Model.ContainersSpec

namespace Gozod.C02
open Gozod.Cont

/-- the (value, option) pairs in declaration order. -/
def entries (os : List DUOpt) : List (Nat × Mid) := os.flatMap (fun o => o.vals.map (fun v => (v, o.m)))

theorem keys_map' (m : Mid) (vs : List Nat) : vs.map ((fun x => x.1) ∘ fun v => ((v, m) : Nat × Mid)) = vs := by
  induction vs <;> simp_all

theorem keys_entries (os : List DUOpt) : (entries os).map (·.1) = Spec.declaredVals os := by
  induction os with
  | nil => rfl
  | cons o os ih =>
    simp only [entries, Spec.declaredVals, List.flatMap_cons, List.map_append, List.map_map] at ih ⊢
    rw [ih]; congr 1
    exact keys_map' o.m o.vals

theorem any_key (dm : List (Nat × Mid)) (v : Nat) :
    dm.any (fun e => e.1 == v) = true ↔ v ∈ dm.map (·.1) := by
  induction dm with
  | nil => simp
  | cons e dm ih =>
    rw [List.any_cons, Bool.or_eq_true, ih, List.map_cons, List.mem_cons, beq_iff_eq]
    constructor
    · intro h
      cases h with
      | inl h => exact Or.inl h.symm
      | inr h => exact Or.inr h
    · intro h
      cases h with
      | inl h => exact Or.inl h.symm
      | inr h => exact Or.inr h

/-- the inner loop succeeds exactly when the option's values are new and pairwise distinct; it appends them. -/
theorem discInsert_some (m : Mid) (vs : List Nat) (dm dm' : List (Nat × Mid)) :
    discInsert m vs dm = some dm' ↔
      (dm' = dm ++ vs.map (fun v => (v, m)) ∧ vs.Nodup ∧ ∀ v ∈ vs, v ∉ dm.map (·.1)) := by
  induction vs generalizing dm with
  | nil => simp [discInsert, eq_comm]
  | cons v vs ih =>
    unfold discInsert
    by_cases h : dm.any (fun e => e.1 == v) = true
    · have hm := (any_key dm v).1 h
      simp only [h, ↓reduceIte, reduceCtorEq, false_iff]
      intro ⟨_, _, h3⟩
      exact h3 v (List.mem_cons_self ..) hm
    · have hm : v ∉ dm.map (·.1) := fun c => h ((any_key dm v).2 c)
      simp only [h, Bool.false_eq_true, ↓reduceIte]
      rw [ih]
      have hkeys : (dm ++ [(v, m)]).map (·.1) = dm.map (·.1) ++ [v] := by simp
      have happ : dm ++ [(v, m)] ++ vs.map (fun v => (v, m)) = dm ++ (v :: vs).map (fun v => (v, m)) := by simp
      rw [hkeys, happ]
      constructor
      · intro ⟨h1, h2, h3⟩
        refine ⟨h1, List.nodup_cons.2 ⟨fun c => ?_, h2⟩, fun w hw => ?_⟩
        · exact h3 v c (List.mem_append_right _ (List.mem_singleton.2 rfl))
        · cases hw with
          | head => exact hm
          | tail _ hw => exact fun c => h3 w hw (List.mem_append_left _ c)
      · intro ⟨h1, h2, h3⟩
        have ⟨hv, hn⟩ := List.nodup_cons.1 h2
        refine ⟨h1, hn, fun w hw c => ?_⟩
        cases List.mem_append.1 c with
        | inl c => exact h3 w (List.mem_cons_of_mem _ hw) c
        | inr c => exact hv (List.mem_singleton.1 c ▸ hw)

theorem keys_map (m : Mid) (vs : List Nat) : (vs.map (fun v => (v, m))).map (·.1) = vs := by
  induction vs <;> simp_all

theorem find_map_mem (m : Mid) (vs : List Nat) (id : Nat) (h : id ∈ vs) :
    (vs.map (fun v => (v, m))).find? (fun e => e.1 == id) = some (id, m) := by
  induction vs with
  | nil => cases h
  | cons v vs ih =>
    rw [List.map_cons, List.find?_cons]
    by_cases hv : v = id
    · subst hv; simp
    · have hb : ((v, m).1 == id) = false := by simpa using hv
      simp only [hb]
      cases h with
      | head => exact absurd rfl hv
      | tail _ h => exact ih h

theorem find_map_not_mem (m : Mid) (vs : List Nat) (id : Nat) (h : id ∉ vs) :
    (vs.map (fun v => (v, m))).find? (fun e => e.1 == id) = none := by
  rw [List.find?_eq_none]
  intro e he
  obtain ⟨v, hv, rfl⟩ := List.mem_map.1 he
  simp only [beq_iff_eq]
  exact fun c => h (c ▸ hv)

theorem declaring_cons_mem (o : DUOpt) (os : List DUOpt) (id : Nat) (h : id ∈ o.vals) :
    Spec.declaring (o :: os) id = o.m :: Spec.declaring os id := by
  have : o.vals.contains id = true := by simpa using h
  unfold Spec.declaring
  rw [List.filter_cons, if_pos this, List.map_cons]

theorem declaring_cons_not_mem (o : DUOpt) (os : List DUOpt) (id : Nat) (h : id ∉ o.vals) :
    Spec.declaring (o :: os) id = Spec.declaring os id := by
  have : ¬ o.vals.contains id = true := by simpa using h
  unfold Spec.declaring
  rw [List.filter_cons, if_neg this]

theorem discBuildFrom_some (os : List DUOpt) (dm dm' : List (Nat × Mid)) :
    discBuildFrom os dm = some dm' ↔
      (dm' = dm ++ entries os ∧ (Spec.declaredVals os).Nodup ∧ ∀ v ∈ Spec.declaredVals os, v ∉ dm.map (·.1)) := by
  induction os generalizing dm with
  | nil => simp [discBuildFrom, entries, Spec.declaredVals, eq_comm]
  | cons o os ih =>
    unfold discBuildFrom
    have hent : entries (o :: os) = o.vals.map (fun v => (v, o.m)) ++ entries os := by simp [entries]
    have hdv : Spec.declaredVals (o :: os) = o.vals ++ Spec.declaredVals os := by simp [Spec.declaredVals]
    rw [hent, hdv]
    cases h : discInsert o.m o.vals dm with
    | none =>
      simp only [reduceCtorEq, false_iff]
      intro ⟨_, h2, h3⟩
      have : discInsert o.m o.vals dm = some (dm ++ o.vals.map (fun v => (v, o.m))) :=
        (discInsert_some ..).2 ⟨rfl, (List.nodup_append.1 h2).1, fun v hv => h3 v (List.mem_append_left _ hv)⟩
      rw [h] at this; cases this
    | some d =>
      obtain ⟨hd, hn, hdis⟩ := (discInsert_some ..).1 h
      subst hd
      simp only [ih, List.append_assoc, List.map_append, List.map_map, List.mem_append, not_or]
      have hk : (o.vals.map ((fun x => x.1) ∘ fun v => (v, o.m))) = o.vals := keys_map' o.m o.vals
      rw [hk, List.nodup_append]
      constructor
      · intro ⟨h1, h2, h3⟩
        refine ⟨h1, ⟨hn, h2, fun a ha b hb hab => (h3 b hb).2 (hab ▸ ha)⟩, fun v hv => ?_⟩
        cases hv with
        | inl hv => exact hdis v hv
        | inr hv => exact (h3 v hv).1
      · intro ⟨h1, ⟨_, h2, h3⟩, h4⟩
        exact ⟨h1, h2, fun v hv => ⟨h4 v (Or.inr hv), fun c => h3 v c v hv rfl⟩⟩

/-- **the index is the declaration list**: construction succeeds iff no value is declared twice and some value is
    declared, and then the index holds exactly the declared (value, option) pairs. -/
theorem buildDiscMap_some (os : List DUOpt) (dm : List (Nat × Mid)) :
    buildDiscMap os = some dm ↔
      (dm = entries os ∧ (Spec.declaredVals os).Nodup ∧ Spec.declaredVals os ≠ []) := by
  unfold buildDiscMap
  have key := discBuildFrom_some os []
  have hk := keys_entries os
  cases h : discBuildFrom os [] with
  | none =>
    simp only [reduceCtorEq, false_iff]
    intro ⟨_, h2, _⟩
    have := (key (entries os)).2 ⟨by simp, h2, by simp⟩
    rw [h] at this; cases this
  | some d =>
    obtain ⟨hd, hn, _⟩ := (key d).1 h
    simp only [List.nil_append] at hd
    subst hd
    cases he : entries os with
    | nil =>
      rw [he] at hk; simp only [List.map_nil] at hk
      simp [← hk]
    | cons e es =>
      rw [he] at hk
      have : Spec.declaredVals os ≠ [] := by rw [← hk]; simp
      simp only [Option.some.injEq]
      constructor
      · intro h'; exact ⟨h'.symm, hn, this⟩
      · intro ⟨h', _, _⟩; exact h'.symm

theorem nodupB_iff (l : List Nat) : Spec.nodupB l = true ↔ l.Nodup := by
  induction l with
  | nil => simp [Spec.nodupB]
  | cons x xs ih => simp [Spec.nodupB, ih, List.nodup_cons]

theorem buildDiscMap_none (os : List DUOpt) : buildDiscMap os = none ↔ Spec.wellFormedDU os = false := by
  constructor
  · intro h
    cases hw : Spec.wellFormedDU os with
    | false => rfl
    | true =>
      simp only [Spec.wellFormedDU, Bool.and_eq_true, nodupB_iff, Bool.not_eq_true', List.isEmpty_eq_false_iff] at hw
      have := (buildDiscMap_some os (entries os)).2 ⟨rfl, hw.1, hw.2⟩
      rw [h] at this; cases this
  · intro h
    cases hb : buildDiscMap os with
    | none => rfl
    | some dm =>
      obtain ⟨_, h2, h3⟩ := (buildDiscMap_some os dm).1 hb
      have : Spec.wellFormedDU os = true := by
        simp only [Spec.wellFormedDU, Bool.and_eq_true, nodupB_iff, Bool.not_eq_true', List.isEmpty_eq_false_iff]
        exact ⟨h2, h3⟩
      rw [h] at this; cases this

/-- **index lookup = "the first option that declares the value"**, whatever the option list. -/
theorem lookup_entries (os : List DUOpt) (id : Nat) :
    ((entries os).find? (fun e => e.1 == id)).map (·.2) = (Spec.declaring os id).head? := by
  induction os with
  | nil => rfl
  | cons o os ih =>
    have hent : entries (o :: os) = o.vals.map (fun v => (v, o.m)) ++ entries os := by simp [entries]
    rw [hent, List.find?_append]
    by_cases hmem : id ∈ o.vals
    · rw [find_map_mem o.m o.vals id hmem, declaring_cons_mem o os id hmem]; rfl
    · rw [find_map_not_mem o.m o.vals id hmem, declaring_cons_not_mem o os id hmem, Option.none_or]
      exact ih

theorem lookupDisc_entries (os : List DUOpt) (ty : Ty) (id : Nat) :
    lookupDisc (.atom ty id) (entries os) = (Spec.declaring os id).head? := lookup_entries os id

theorem firstAcc_map (env : Env) (os : List DUOpt) (v : V) :
    firstAcc env (os.map (·.m)) v = os.any (fun o => acc env o.m v) := by
  simp [firstAcc, List.any_map, Function.comp_def]

/-- **discriminated union, the full law** (every member environment, every option list — indexed, catch-all,
    without the discriminator field, ill-formed — and EVERY input): the union built from the option list accepts
    iff the list is well-formed and the input is an accepted nil, or a `map[string]any` carrying the discriminator
    whose value either selects an option that accepts, or selects none while some option accepts. -/
theorem c02_du_law (env : Env) (m : Mods) (disc : Nat) (os : List DUOpt) (v : V) :
    (parseDUDecl env m disc os v).isOk = Spec.acceptsDU env m disc os v := by
  unfold parseDUDecl Spec.acceptsDU
  cases hb : buildDiscMap os with
  | none => simp [(buildDiscMap_none os).1 hb, Res.isOk]
  | some dm =>
    have hw : Spec.wellFormedDU os = true := by
      cases h : Spec.wellFormedDU os with
      | true => rfl
      | false => rw [(buildDiscMap_none os).2 h] at hb; cases hb
    obtain ⟨rfl, _, _⟩ := (buildDiscMap_some os dm).1 hb
    simp only [hw, Bool.true_and]
    unfold parseDU
    by_cases hn : (duNil v && (m.nilable || m.optional)) = true
    · have hn' : (duNil v && (m.optional || m.nilable)) = true := by rw [Bool.or_comm]; exact hn
      simp [hn, hn', Res.isOk]
    · have hn' : (duNil v && (m.optional || m.nilable)) = false := by
        rw [Bool.or_comm]; simpa using hn
      simp only [hn, Bool.false_eq_true, ↓reduceIte, hn', Bool.false_or]
      split
      · rename_i es
        cases hl : lookupKey disc (es.getD []) with
        | none => simp [hl, Res.isOk]
        | some dv =>
          simp only [hl, Spec.decidedBy]
          cases dv with
          | atom ty id =>
            simp only [lookupDisc_entries]
            cases hd : Spec.declaring os id with
            | nil =>
              simp only [List.head?_nil, firstAcc_map]
              cases os.any (fun o => acc env o.m (.map .str .any es)) <;> simp [Res.isOk]
            | cons t ts =>
              simp only [List.head?_cons, acc]
              cases env t (.map .str .any es) <;> simp [Res.isOk]
          | nil | slice _ _ | map _ _ _ | strct _ _ | ptr _ _ =>
            simp only [lookupDisc, firstAcc_map]
            cases os.any (fun o => acc env o.m (.map .str .any es)) <;> simp [Res.isOk]
      · rename_i hne
        split
        · rename_i es; exact absurd rfl (hne es)
        · simp [Res.isOk]

/-- the union over a well-formed list is the model's `run` on the node the index was built for
    (what `c02_du`, the C05 path theorems and the C04 well-formedness theorems speak about). -/
theorem parseDUDecl_run (cfg : Cfg) (env : Env) (m : Mods) (disc : Nat) (os : List DUOpt) (dm : List (Nat × Mid))
    (v : V) (h : buildDiscMap os = some dm) :
    parseDUDecl env m disc os v = run cfg env (.du m disc dm (os.map (·.m))) v := by
  simp [parseDUDecl, h, run]

/-- an ill-formed option list (a value declared twice, or none declared) rejects EVERY input — also nil on a nilable
    union: the construction error is answered before anything else. -/
theorem c02_du_illformed (env : Env) (m : Mods) (disc : Nat) (os : List DUOpt) (v : V)
    (h : Spec.wellFormedDU os = false) : (parseDUDecl env m disc os v).isOk = false := by
  rw [c02_du_law]; simp [Spec.acceptsDU, h]

/-- two different options cannot both be selected in a well-formed union. -/
theorem c02_du_selects_one (os : List DUOpt) (id : Nat) (h : Spec.wellFormedDU os = true) :
    (Spec.declaring os id).length ≤ 1 := by
  simp only [Spec.wellFormedDU, Bool.and_eq_true, nodupB_iff] at h
  have hn := h.1
  clear h
  induction os with
  | nil => simp [Spec.declaring]
  | cons o os ih =>
    have hdv : Spec.declaredVals (o :: os) = o.vals ++ Spec.declaredVals os := by simp [Spec.declaredVals]
    rw [hdv, List.nodup_append] at hn
    obtain ⟨_, h2, h3⟩ := hn
    by_cases hmem : id ∈ o.vals
    · have : Spec.declaring os id = [] := by
        simp only [Spec.declaring, List.map_eq_nil_iff, List.filter_eq_nil_iff]
        intro o' ho' hc'
        have hm' : id ∈ o'.vals := by simpa using hc'
        have : id ∈ Spec.declaredVals os := by
          simp only [Spec.declaredVals, List.mem_flatMap]; exact ⟨o', ho', hm'⟩
        exact h3 id hmem id this rfl
      rw [declaring_cons_mem o os id hmem, this]; simp
    · rw [declaring_cons_not_mem o os id hmem]; exact ih h2

/-- the hypotheses are inhabited: a catch-all option behind an indexed one is reached through the fallback, and only
    for values the indexed options do not declare. -/
example :
    let env : Env := fun m v => if m = 1 then .ok v else .err (mk .invalidValue []) []
    let os : List DUOpt := [{ m := 0, vals := [7] }, { m := 1, vals := [] }]
    (parseDUDecl env {} 5 os (.map .str .any (some [(.atom .str 5, .atom .str 8)]))).isOk = true
      ∧ (parseDUDecl env {} 5 os (.map .str .any (some [(.atom .str 5, .atom .str 7)]))).isOk = false := by
  decide

end Gozod.C02
