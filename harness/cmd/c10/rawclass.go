// Behavioural translator for lean/Gozod/Gen/RawClass.lean (C10, round 4b): what each kind of check of each schema
// type does with the RAW POINTER payload in validatePointer's pass over the pointer (vac | issue | run), and what an
// overwrite does with it (skip | stay | cook). Probed through the public API only, on an input every check accepts:
//
//	schema = [C, Refine(true, When: guard), Overwrite(identity)]   parsed on a pointer to a conforming value
//
// the regular pass calls every callback once; the pass over the pointer (it runs because an overwrite is attached and
// the regular pass accepted) calls C's callback again iff C is `run`, and the guard again iff no issue was recorded
// before it, i.e. iff C was not `issue`. For the overwrite class: [Overwrite(id), C', Refine(true, When: guard)] with
// C' an `issue`- or `vac`-class check: the overwrite's callback is called again iff it applies (not `skip`), and C'
// behaves as in the regular pass afterwards iff the payload was cooked.
package main

import (
	"fmt"
	"sort"
	"strings"

	"github.com/kaptinlin/gozod"
	"github.com/kaptinlin/gozod/core"
)

type rawProbe struct {
	kind  string // s sp i ip l o
	check string // builtin ref refany chk
	class string
}

type counters struct{ c, g, o int }

func guardParams(n *counters) core.CustomParams {
	return core.CustomParams{Error: "g", When: func(*core.ParsePayload) bool { n.g++; return true }}
}

func classify(n counters, hasCallback bool) string {
	switch {
	case hasCallback && n.c >= 2:
		return "run"
	case n.g >= 2:
		return "vac"
	}
	return "issue"
}

// probeRaw returns the class of one (schema type, check kind); "n/a" when the type has no such method.
func probeRaw(kind, check string) string {
	var n counters
	cb := func() bool { n.c++; return true }
	tru := func() bool { return true }
	switch kind {
	case "s", "sp":
		v := "abc"
		if kind == "s" {
			s := gozod.String()
			switch check {
			case "builtin":
				s = s.Min(1, "b")
			case "ref":
				s = s.Refine(func(string) bool { return cb() }, "r")
			case "chk":
				s = s.Check(func(string, *core.ParsePayload) { n.c++ })
			default:
				return "n/a"
			}
			s = s.Refine(func(string) bool { return tru() }, guardParams(&n)).Overwrite(func(x string) string { n.o++; return x })
			if _, err := s.Parse(&v); err != nil {
				return "?rejected"
			}
		} else {
			s := gozod.StringPtr()
			switch check {
			case "builtin":
				s = s.Min(1, "b")
			case "ref":
				s = s.Refine(func(*string) bool { return cb() }, "r")
			case "chk":
				s = s.Check(func(*string, *core.ParsePayload) { n.c++ })
			default:
				return "n/a"
			}
			s = s.Refine(func(*string) bool { return tru() }, guardParams(&n)).Overwrite(func(x *string) *string { n.o++; return x })
			if _, err := s.Parse(&v); err != nil {
				return "?rejected"
			}
		}
	case "i":
		v := 5
		s := gozod.Int()
		switch check {
		case "builtin":
			s = s.Gte(1, "b")
		case "ref":
			s = s.Refine(func(int) bool { return cb() }, "r")
		case "refany":
			s = s.RefineAny(func(any) bool { return cb() }, "r")
		case "chk":
			s = s.Check(func(int, *core.ParsePayload) { n.c++ })
		}
		s = s.RefineAny(func(any) bool { return tru() }, guardParams(&n)).Overwrite(func(x int) int { n.o++; return x })
		if _, err := s.Parse(&v); err != nil {
			return "?rejected"
		}
	case "ip":
		v := 5
		s := gozod.IntPtr()
		switch check {
		case "builtin":
			s = s.Gte(1, "b")
		case "ref":
			s = s.Refine(func(int) bool { return cb() }, "r")
		case "refany":
			s = s.RefineAny(func(any) bool { return cb() }, "r")
		case "chk":
			s = s.Check(func(*int, *core.ParsePayload) { n.c++ })
		}
		s = s.RefineAny(func(any) bool { return tru() }, guardParams(&n)).Overwrite(func(x int) int { n.o++; return x })
		if _, err := s.Parse(&v); err != nil {
			return "?rejected"
		}
	case "l":
		v := []int{1, 2}
		s := gozod.Slice[int](gozod.Int())
		switch check {
		case "builtin":
			s = s.Min(1, "b")
		case "ref":
			s = s.Refine(func([]int) bool { return cb() }, "r")
		case "chk":
			s = s.Check(func([]int, *core.ParsePayload) { n.c++ })
		default:
			return "n/a"
		}
		s = s.Refine(func([]int) bool { return tru() }, guardParams(&n)).Overwrite(func(x []int) []int { n.o++; return x })
		if _, err := s.Parse(&v); err != nil {
			return "?rejected"
		}
	case "o":
		v := map[string]any{"a": 1, "b": 2}
		s := gozod.Object(core.ObjectSchema{"a": gozod.Int(), "b": gozod.Int()})
		switch check {
		case "ref":
			s = s.Refine(func(map[string]any) bool { return cb() }, "r")
		case "chk":
			s = s.Check(func(map[string]any, *core.ParsePayload) { n.c++ })
		default:
			return "n/a"
		}
		s = s.Refine(func(map[string]any) bool { return tru() }, guardParams(&n)).Overwrite(func(x map[string]any) map[string]any { n.o++; return x })
		if _, err := s.Parse(&v); err != nil {
			return "?rejected"
		}
	}
	if n.o < 1 || n.g < 1 {
		return fmt.Sprintf("?counts(c=%d,g=%d,o=%d)", n.c, n.g, n.o)
	}
	return classify(n, check != "builtin")
}

// probeOw: skip (the overwrite's callback is not called again), stay (called again; a following check still meets the
// raw pointer) or cook (called again; a following check behaves as in the regular pass).
func probeOw(kind string) string {
	var n counters
	var err error
	switch kind {
	case "s":
		v := "abc"
		_, err = gozod.String().Overwrite(func(x string) string { n.o++; return x }).Min(1, "b").
			Refine(func(string) bool { return true }, guardParams(&n)).Parse(&v)
	case "sp":
		v := "abc"
		_, err = gozod.StringPtr().Overwrite(func(x *string) *string { n.o++; return x }).Min(1, "b").
			Refine(func(*string) bool { return true }, guardParams(&n)).Parse(&v)
	case "i":
		v := 5
		_, err = gozod.Int().Overwrite(func(x int) int { n.o++; return x }).Gte(1, "b").
			RefineAny(func(any) bool { return true }, guardParams(&n)).Parse(&v)
	case "ip":
		v := 5
		_, err = gozod.IntPtr().Overwrite(func(x int) int { n.o++; return x }).Gte(1, "b").
			RefineAny(func(any) bool { return true }, guardParams(&n)).Parse(&v)
	case "l":
		v := []int{1, 2}
		_, err = gozod.Slice[int](gozod.Int()).Overwrite(func(x []int) []int { n.o++; return x }).
			Check(func([]int, *core.ParsePayload) { n.c++ }).Parse(&v)
	case "o":
		v := map[string]any{"a": 1, "b": 2}
		_, err = gozod.Object(core.ObjectSchema{"a": gozod.Int(), "b": gozod.Int()}).Overwrite(func(x map[string]any) map[string]any { n.o++; return x }).
			Check(func(map[string]any, *core.ParsePayload) { n.c++ }).Parse(&v)
	}
	if err != nil {
		return "?rejected"
	}
	switch {
	case n.o == 1:
		return "skip"
	case n.o != 2:
		return fmt.Sprintf("?counts(o=%d)", n.o)
	case kind == "l" || kind == "o":
		// the Check(fn) after the overwrite is vacuous on a raw payload: called twice iff the payload was cooked
		if n.c >= 2 {
			return "cook"
		}
		return "stay"
	}
	// the built-in after the overwrite reports an issue on a raw payload: the guard after it is called twice iff cooked
	if n.g >= 2 {
		return "cook"
	}
	return "stay"
}

func genRawClass() string {
	var rows []rawProbe
	for _, k := range []string{"s", "sp", "i", "ip", "l", "o"} {
		for _, c := range []string{"builtin", "ref", "refany", "chk"} {
			cl := probeRaw(k, c)
			if cl == "n/a" {
				continue
			}
			rows = append(rows, rawProbe{k, c, cl})
		}
	}
	sort.SliceStable(rows, func(i, j int) bool {
		if rows[i].kind != rows[j].kind {
			return rows[i].kind < rows[j].kind
		}
		return rows[i].check < rows[j].check
	})
	var b strings.Builder
	b.WriteString("-- REGENERATED by harness/cmd/c10 -gen-rawclass (behavioural probes through the public API of the current tree). DO NOT EDIT.\n")
	b.WriteString("namespace Gozod.Gen\n\n")
	b.WriteString("/-- (schema type, check kind, what the check does with the raw pointer payload of validatePointer's pass over the pointer) -/\n")
	b.WriteString("def rawClass : List (String × String × String) := [\n")
	for i, r := range rows {
		sep := ","
		if i == len(rows)-1 {
			sep = ""
		}
		fmt.Fprintf(&b, "  (%q, %q, %q)%s\n", r.kind, r.check, r.class, sep)
	}
	b.WriteString("]\n\n/-- (schema type, what an overwrite does with the raw pointer payload) -/\n")
	b.WriteString("def owClass : List (String × String) := [\n")
	kinds := []string{"i", "ip", "l", "o", "s", "sp"}
	for i, k := range kinds {
		sep := ","
		if i == len(kinds)-1 {
			sep = ""
		}
		fmt.Fprintf(&b, "  (%q, %q)%s\n", k, probeOw(k), sep)
	}
	b.WriteString("]\n\nend Gozod.Gen\n")
	return b.String()
}
