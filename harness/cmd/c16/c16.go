package main

// C16 — numeric bounds and multiples are exact.
//
// Emits `c16 cmp <op> <kind> <val> <kind> <val>` and `c16 mul <kind> <val> <kind> <val>`
// lines; the implementation's observation is 1/0 (check holds / does not hold).  Cases are
// run (a) directly against pkg/validate (every kind pair, including mixed int/float) and
// (b) through real schemas: Int8()…Uint64(), Float32/64, value and pointer constructors,
// with the check attached by its public method (Gt/Gte/Lt/Lte/Min/Max/Positive/…/MultipleOf)
// and the verdict taken from Parse.

import (
	"flag"
	"fmt"
	"math"
	"math/big"
	"os"
	"path/filepath"
	"reflect"
	"strconv"
	"strings"

	"github.com/kaptinlin/gozod"
	"github.com/kaptinlin/gozod/pkg/validate"

	"verifharness/hx"
	"verifharness/numgen"
)

// -gen DIR -repo TREE: run the translator (harness/numgen) over TREE and write DIR/NumDispatch.lean
// (only when its content changes), then exit.
var (
	genDir  = flag.String("gen", "", "translator mode: write the dispatch table into this directory and exit")
	genRepo = flag.String("repo", "/repo", "library working tree read by the translator")
)

func main() {
	cfg := hx.ParseFlags()
	if *genDir != "" {
		src, err := numgen.GenNum(*genRepo)
		if err != nil {
			fmt.Fprintln(os.Stderr, "translator:", err)
			os.Exit(4)
		}
		changed, err := numgen.WriteIfChanged(filepath.Join(*genDir, "NumDispatch.lean"), src)
		if err != nil {
			fmt.Fprintln(os.Stderr, "translator:", err)
			os.Exit(4)
		}
		fmt.Println("changed:", changed)
		return
	}
	if err := runC16(cfg); err != nil {
		fmt.Fprintln(os.Stderr, "harness error:", err)
		os.Exit(3)
	}
}

type numKind struct {
	name   string
	signed bool
	bits   int
	float  bool
}

var intKinds = []numKind{
	{"i8", true, 8, false}, {"i16", true, 16, false}, {"i32", true, 32, false}, {"i64", true, 64, false}, {"int", true, 64, false},
	{"u8", false, 8, false}, {"u16", false, 16, false}, {"u32", false, 32, false}, {"u64", false, 64, false}, {"uint", false, 64, false},
}
var floatKinds = []numKind{{"f32", true, 32, true}, {"f64", true, 64, true}}

// uintptr: the thirteenth clause of toNum (held in the uint64 payload).
var uptrKind = numKind{"uptr", false, 64, false}

// Named numeric types, complex numbers and big integers: numeric values that toNum does not hold.
// compareNumeric / MultipleOf send them through coerce.ToFloat64 (named types: not numeric at
// all, every check answers false).  The model for these operands is Drv/C16.lean `xval`.
type (
	myInt     int
	myUint8   uint8
	myInt64   int64
	myFloat64 float64
	myUintptr uintptr
)

type extOp struct {
	tok string
	val any
}

func extOperands() []extOp {
	var out []extOp
	named := func(v any) { out = append(out, extOp{"nx 0", v}) }
	named(myInt(5))
	named(myInt(-5))
	named(myUint8(200))
	named(myInt64(math.MaxInt64))
	named(myFloat64(1.5))
	named(myUintptr(7))
	for _, c := range []complex128{complex(3, 4), complex(-3, 0), complex(0, 0), complex(1<<53+2, 0), complex(0, -2.5), complex(1e308, 1e308), complex(math.NaN(), 0), complex(math.Inf(1), 0), complex(0.1, 0)} {
		mag := math.Sqrt(real(c)*real(c) + imag(c)*imag(c))
		out = append(out, extOp{"cx " + strconv.FormatUint(math.Float64bits(mag), 10), c})
		c64 := complex64(c)
		c2 := complex128(c64)
		mag2 := math.Sqrt(real(c2)*real(c2) + imag(c2)*imag(c2))
		out = append(out, extOp{"cx " + strconv.FormatUint(math.Float64bits(mag2), 10), c64})
	}
	for _, s := range []string{"0", "5", "-5", "9007199254740993", "18446744073709551616", "-18446744073709551617", "340282366920938463463374607431768211456"} {
		n, _ := new(big.Int).SetString(s, 10)
		out = append(out, extOp{"big " + s, n})
	}
	huge := new(big.Int).Lsh(big.NewInt(1), 1024)
	out = append(out, extOp{"big " + huge.String(), huge})
	return out
}

// numVal is a number of a given kind: integers as (neg, magnitude), floats as float64 (widened).
type numVal struct {
	k numKind
	i int64
	u uint64
	f float64
}

func (v numVal) goValue() any {
	switch v.k.name {
	case "i8":
		return int8(v.i)
	case "i16":
		return int16(v.i)
	case "i32":
		return int32(v.i)
	case "i64":
		return v.i
	case "int":
		return int(v.i)
	case "u8":
		return uint8(v.u)
	case "u16":
		return uint16(v.u)
	case "u32":
		return uint32(v.u)
	case "u64":
		return v.u
	case "uint":
		return uint(v.u)
	case "uptr":
		return uintptr(v.u)
	case "f32":
		return float32(v.f)
	case "f64":
		return v.f
	}
	panic("kind")
}

func (v numVal) asFloat() float64 {
	if v.k.float {
		return v.f
	}
	if v.k.signed {
		return float64(v.i)
	}
	return float64(v.u)
}

func (v numVal) token() string {
	if v.k.float {
		return v.k.name + " " + strconv.FormatUint(math.Float64bits(v.f), 10)
	}
	if v.k.signed {
		return v.k.name + " " + strconv.FormatInt(v.i, 10)
	}
	return v.k.name + " " + strconv.FormatUint(v.u, 10)
}

// gridFor returns the boundary grid of a kind: 0, ±1, ±2^k, ±2^k±1, type limits and neighbours.
func gridFor(k numKind) []numVal {
	var out []numVal
	if k.float {
		fs := []float64{0, math.Copysign(0, -1), 1, -1, 0.5, -0.5, 1.5, -1.5, math.Inf(1), math.Inf(-1), math.NaN(),
			math.MaxFloat64, -math.MaxFloat64, math.SmallestNonzeroFloat64, -math.SmallestNonzeroFloat64,
			math.MaxFloat32, -math.MaxFloat32, math.SmallestNonzeroFloat32, 0.1, -0.1, 1e-7, 3.3, 255.5, -128.5, 127.0000001}
		for _, e := range []int{7, 8, 15, 16, 24, 31, 32, 52, 53, 54, 62, 63, 64, 65, 100} {
			p := math.Ldexp(1, e)
			for _, s := range []float64{1, -1} {
				fs = append(fs, s*p, s*math.Nextafter(p, 0), s*math.Nextafter(p, math.Inf(1)), s*(p+1), s*(p-1), s*(p+0.5), s*(p-0.5))
			}
		}
		seen := map[uint64]bool{}
		for _, f := range fs {
			if k.bits == 32 {
				f = float64(float32(f))
			}
			b := math.Float64bits(f)
			if seen[b] {
				continue
			}
			seen[b] = true
			out = append(out, numVal{k: k, f: f})
		}
		return out
	}
	if k.signed {
		lo, hi := int64(-1)<<(k.bits-1), int64(1)<<(k.bits-1)-1
		seen := map[int64]bool{}
		add := func(x int64) {
			if x < lo || x > hi || seen[x] {
				return
			}
			seen[x] = true
			out = append(out, numVal{k: k, i: x})
		}
		for _, x := range []int64{0, 1, -1, 2, -2, 3, -3, 5, 7, 10, -10, 100, lo, lo + 1, lo + 2, hi, hi - 1, hi - 2, 10000000, 10000005, -10000005} {
			add(x)
		}
		for e := 1; e < 63; e++ {
			p := int64(1) << e
			for _, d := range []int64{-1, 0, 1} {
				add(p + d)
				add(-p + d)
			}
		}
		add(math.MinInt64)
		return out
	}
	hi := uint64(math.MaxUint64)
	if k.bits < 64 {
		hi = uint64(1)<<k.bits - 1
	}
	seen := map[uint64]bool{}
	add := func(x uint64) {
		if x > hi || seen[x] {
			return
		}
		seen[x] = true
		out = append(out, numVal{k: k, u: x})
	}
	for _, x := range []uint64{0, 1, 2, 3, 5, 7, 10, 100, hi, hi - 1, hi - 2, 10000000, 10000005} {
		add(x)
	}
	for e := 1; e < 64; e++ {
		p := uint64(1) << e
		add(p - 1)
		add(p)
		add(p + 1)
	}
	return out
}

var cmpOps = []string{"lt", "lte", "gt", "gte"}

func directCmp(op string, a, b any) bool {
	switch op {
	case "lt":
		return validate.Lt(a, b)
	case "lte":
		return validate.Lte(a, b)
	case "gt":
		return validate.Gt(a, b)
	default:
		return validate.Gte(a, b)
	}
}

// numeric schema constructors, value and pointer variants, by kind name.
var numSchemas = map[string][]func() any{
	"i8":   {func() any { return gozod.Int8() }, func() any { return gozod.Int8Ptr() }},
	"i16":  {func() any { return gozod.Int16() }, func() any { return gozod.Int16Ptr() }},
	"i32":  {func() any { return gozod.Int32() }, func() any { return gozod.Int32Ptr() }},
	"i64":  {func() any { return gozod.Int64() }, func() any { return gozod.Int64Ptr() }},
	"int":  {func() any { return gozod.Int() }, func() any { return gozod.IntPtr() }},
	"u8":   {func() any { return gozod.Uint8() }, func() any { return gozod.Uint8Ptr() }},
	"u16":  {func() any { return gozod.Uint16() }, func() any { return gozod.Uint16Ptr() }},
	"u32":  {func() any { return gozod.Uint32() }, func() any { return gozod.Uint32Ptr() }},
	"u64":  {func() any { return gozod.Uint64() }, func() any { return gozod.Uint64Ptr() }},
	"uint": {func() any { return gozod.Uint() }, func() any { return gozod.UintPtr() }},
	"f32":  {func() any { return gozod.Float32() }, func() any { return gozod.Float32Ptr() }},
	"f64":  {func() any { return gozod.Float64() }, func() any { return gozod.Float64Ptr() }},
}

// schema method names realising each comparison operator.
var opMethods = map[string][]string{
	"lt": {"Lt"}, "lte": {"Lte", "Max"}, "gt": {"Gt"}, "gte": {"Gte", "Min"},
}
var signMethods = map[string]string{"lt": "Negative", "lte": "NonPositive", "gt": "Positive", "gte": "NonNegative"}

// schemaVerdict attaches `method(bound)` to a fresh schema of v's kind (variant 0 = value
// constructor, 1 = pointer constructor) and reports whether Parse accepts v.
func schemaVerdict(v numVal, variant int, method string, bound any, ptrInput bool) (accepted bool, panicMsg string) {
	panicMsg = hx.Safely(func() {
		s := reflect.ValueOf(numSchemas[v.k.name][variant]())
		m := s.MethodByName(method)
		var args []reflect.Value
		if bound != nil {
			args = append(args, reflect.ValueOf(bound))
		}
		s2 := m.Call(args)[0]
		in := reflect.ValueOf(v.goValue())
		if ptrInput {
			p := reflect.New(in.Type())
			p.Elem().Set(in)
			in = p
		}
		res := s2.MethodByName("Parse").Call([]reflect.Value{in})
		accepted = res[1].IsNil()
	})
	return
}

func runC16(c hx.Config) error {
	o, err := hx.NewOut(c.OutDir)
	if err != nil {
		return err
	}
	r := hx.NewRng(c.Seed)
	thorough := c.Thorough()
	all := append(append(append([]numKind{}, intKinds...), floatKinds...), uptrKind)
	grids := map[string][]numVal{}
	for _, k := range all {
		grids[k.name] = gridFor(k)
	}
	i64 := intKinds[3]
	f64 := floatKinds[1]

	emitCmp := func(op string, a, b numVal, how string, verdict bool) {
		o.Emit(fmt.Sprintf("c16 cmp %s %s %s #%s", op, a.token(), b.token(), how), hx.B01(verdict))
		o.Count("cmp:" + how[:1] + ":" + a.k.name + ":" + b.k.name)
		o.Count("verdict:" + hx.B01(verdict))
	}
	emitMul := func(a, b numVal, how string, verdict bool) {
		o.Emit(fmt.Sprintf("c16 mul %s %s #%s", a.token(), b.token(), how), hx.B01(verdict))
		o.Count("mul:" + how[:1] + ":" + a.k.name + ":" + b.k.name)
		o.Count("verdict:" + hx.B01(verdict))
	}

	// (1) exhaustive 8-bit inputs × every int64 bound in [-130, 260], all four operators, directly.
	for _, k := range []numKind{intKinds[0], intKinds[5]} {
		for x := -128; x <= 255; x++ {
			if (k.signed && x > 127) || (!k.signed && x < 0) {
				continue
			}
			a := numVal{k: k, i: int64(x), u: uint64(x)}
			for b := int64(-130); b <= 260; b++ {
				bv := numVal{k: i64, i: b}
				for _, op := range cmpOps {
					emitCmp(op, a, bv, "direct", directCmp(op, a.goValue(), bv.goValue()))
				}
			}
			for d := int64(-17); d <= 17; d++ {
				dv := numVal{k: i64, i: d}
				emitMul(a, dv, "direct", validate.MultipleOf(a.goValue(), dv.goValue()))
			}
		}
	}
	// (1b) thorough: exhaustive 16-bit inputs × grid bounds.
	if thorough {
		for _, k := range []numKind{intKinds[1], intKinds[6]} {
			bounds := gridFor(numKind{"i64", true, 64, false})
			var bs []numVal
			for _, b := range bounds {
				if b.i >= -70000 && b.i <= 70000 {
					bs = append(bs, b)
				}
			}
			for x := -32768; x <= 65535; x++ {
				if (k.signed && x > 32767) || (!k.signed && x < 0) {
					continue
				}
				a := numVal{k: k, i: int64(x), u: uint64(x)}
				for _, bv := range bs {
					op := cmpOps[(x+int(bv.i))&3]
					emitCmp(op, a, bv, "direct", directCmp(op, a.goValue(), bv.goValue()))
				}
			}
		}
	}
	// (2) grid × grid over every kind pair, directly (sampled in quick, wider in thorough).
	n2 := 150000
	if thorough {
		n2 = 3000000
	}
	for i := 0; i < n2; i++ {
		ka, kb := hx.Pick(r, all), hx.Pick(r, all)
		a, b := hx.Pick(r, grids[ka.name]), hx.Pick(r, grids[kb.name])
		// concentrate on neighbours: with some probability take b next to a
		if !ka.float && !kb.float && r.Chance(30) {
			b = neighbourInt(r, a, kb)
		}
		op := hx.Pick(r, cmpOps)
		emitCmp(op, a, b, "direct", directCmp(op, a.goValue(), b.goValue()))
		if !ka.float && !kb.float && r.Chance(40) {
			emitMul(a, b, "direct", validate.MultipleOf(a.goValue(), b.goValue()))
		}
		// a float operand: the documented ε-rule (modelled exactly in Model/NumFloat.lean)
		if (ka.float || kb.float) && r.Chance(40) {
			if r.Chance(50) { // small everyday steps and values next to their multiples
				b = numVal{k: kb, i: int64(r.Intn(9) + 1), u: uint64(r.Intn(9) + 1), f: hx.Pick(r, []float64{0.1, 0.01, 0.5, 1e-10, 1e-7, 3, 2.5, 1e7, 1e-300, 1e300})}
				if kb.bits == 32 && kb.float {
					b.f = float64(float32(b.f))
				}
				if ka.float {
					m := float64(r.Intn(2001) - 1000)
					a = numVal{k: ka, f: m * b.asFloat() * hx.Pick(r, []float64{1, 1, 1 + 1e-7, 1 - 1e-7, 1 + 1e-5, 1.5})}
					if ka.bits == 32 {
						a.f = float64(float32(a.f))
					}
				}
			}
			v := validate.MultipleOf(a.goValue(), b.goValue())
			o.Emit(fmt.Sprintf("c16 fmul %s %s #direct", a.token(), b.token()), hx.B01(v))
			o.Count("fmul:d:" + ka.name + ":" + kb.name)
			o.Count("verdict:" + hx.B01(v))
		}
	}
	// (2b) type-extreme DIVISORS, deterministic: for every pair of integer kinds (uintptr included) the divisor runs over
	// its kind's min, min+1, min+2, max, max-1, 0, +-1, +-2, +-2^(bits-2) and the value over every such extreme of ANY
	// kind (and its negation) that the value's kind can hold — so a value that is +-1 times the divisor's minimum
	// (MinInt64 % MinInt64, uint64(1<<63) against MinInt64, MinInt8 against int16(128), ...) is always among the cases.
	intAll := append(append([]numKind{}, intKinds...), uptrKind)
	for _, ka := range intAll {
		vals := extremeValues(ka, intAll)
		for _, kb := range intAll {
			for _, d := range extremesOf(kb) {
				for _, a := range vals {
					emitMul(a, d, "direct:extreme", validate.MultipleOf(a.goValue(), d.goValue()))
				}
			}
		}
	}
	// ... and through real schemas: MultipleOf / Step take an int64, so every signed extreme (MinInt64 included) is expressible.
	for _, k := range intKinds {
		vals := extremeValues(k, intAll)
		for di, d := range extremeValues(i64, intAll) {
			for vi, a := range vals {
				variant, ptrIn := (vi+di)&1, (vi+di)&2 != 0
				how := fmt.Sprintf("schema:%d:%v:", variant, ptrIn)
				for _, mm := range []string{"MultipleOf", "Step"} {
					acc, pm := schemaVerdict(a, variant, mm, d.goValue(), ptrIn)
					if pm != "" {
						o.Emit(fmt.Sprintf("c16 mul %s %s #%s", a.token(), d.token(), how+mm+":extreme"), "panic "+pm)
						continue
					}
					emitMul(a, d, how+mm+":extreme", acc)
				}
			}
		}
	}
	// (3) through real schemas: value/pointer constructors, value/pointer inputs, every method.
	n3 := 40000
	if thorough {
		n3 = 600000
	}
	for i := 0; i < n3; i++ {
		k := hx.Pick(r, all[:len(all)-1]) // no schema type holds a uintptr
		a := hx.Pick(r, grids[k.name])
		variant := r.Intn(2)
		ptrIn := r.Chance(30)
		op := hx.Pick(r, cmpOps)
		var b numVal
		if k.float {
			b = hx.Pick(r, grids["f64"])
			b.k = f64
			if math.IsNaN(b.f) {
				continue // a NaN bound is a configuration the statement does not speak about
			}
		} else {
			b = hx.Pick(r, grids["i64"])
			if r.Chance(40) {
				b = neighbourInt(r, a, i64)
			}
		}
		how := fmt.Sprintf("schema:%d:%v:", variant, ptrIn)
		if r.Chance(15) {
			// sign shorthand: bound is the untyped constant 0 (an int)
			zero := numVal{k: intKinds[4], i: 0}
			m := signMethods[op]
			acc, pm := schemaVerdict(a, variant, m, nil, ptrIn)
			if pm != "" {
				o.Emit(fmt.Sprintf("c16 cmp %s %s %s #%s", op, a.token(), zero.token(), how+m), "panic "+pm)
				continue
			}
			emitCmp(op, a, zero, how+m, acc)
			continue
		}
		m := hx.Pick(r, opMethods[op])
		var bound any = b.goValue()
		acc, pm := schemaVerdict(a, variant, m, bound, ptrIn)
		if pm != "" {
			o.Emit(fmt.Sprintf("c16 cmp %s %s %s #%s", op, a.token(), b.token(), how+m), "panic "+pm)
			continue
		}
		emitCmp(op, a, b, how+m, acc)
		if !k.float && r.Chance(40) {
			d := hx.Pick(r, grids["i64"])
			if r.Chance(50) {
				d = numVal{k: i64, i: int64(r.Intn(41) - 20)}
			}
			mm := hx.Pick(r, []string{"MultipleOf", "Step"})
			acc, pm := schemaVerdict(a, variant, mm, d.goValue(), ptrIn)
			if pm != "" {
				o.Emit(fmt.Sprintf("c16 mul %s %s #%s", a.token(), d.token(), how+mm), "panic "+pm)
				continue
			}
			emitMul(a, d, how+mm, acc)
		}
	}
	// (4) operands toNum does not hold (named types, complex, big.Int) against every built-in kind,
	// both orders, every operator and MultipleOf: the coerce.ToFloat64 path of compareNumeric.
	exts := extOperands()
	n4 := 6
	if thorough {
		n4 = 60
	}
	for _, e := range exts {
		for _, k := range all {
			for j := 0; j < n4; j++ {
				p := hx.Pick(r, grids[k.name])
				if r.Chance(30) {
					p = numVal{k: k, i: int64(r.Intn(11) - 5), u: uint64(r.Intn(6)), f: float64(r.Intn(11)-5) / 2}
					if !k.signed && !k.float {
						p.i = 0
					}
				}
				op := hx.Pick(r, cmpOps)
				v1 := directCmp(op, e.val, p.goValue())
				o.Emit(fmt.Sprintf("c16 xcmp %s %s %s #direct", op, e.tok, p.token()), hx.B01(v1))
				v2 := directCmp(op, p.goValue(), e.val)
				o.Emit(fmt.Sprintf("c16 xcmp %s %s %s #direct", op, p.token(), e.tok), hx.B01(v2))
				v3 := validate.MultipleOf(p.goValue(), e.val)
				o.Emit(fmt.Sprintf("c16 xmul %s %s #direct", p.token(), e.tok), hx.B01(v3))
				v4 := validate.MultipleOf(e.val, p.goValue())
				o.Emit(fmt.Sprintf("c16 xmul %s %s #direct", e.tok, p.token()), hx.B01(v4))
				o.Count("xcmp:d:" + strings.SplitN(e.tok, " ", 2)[0] + ":" + k.name)
			}
		}
		for _, e2 := range exts {
			op := hx.Pick(r, cmpOps)
			o.Emit(fmt.Sprintf("c16 xcmp %s %s %s #direct", op, e.tok, e2.tok), hx.B01(directCmp(op, e.val, e2.val)))
			o.Emit(fmt.Sprintf("c16 xmul %s %s #direct", e.tok, e2.tok), hx.B01(validate.MultipleOf(e.val, e2.val)))
		}
	}
	// (5) the BigInt schema: every comparison method, the sign shorthands and MultipleOf, with a
	// *big.Int bound next to the value; judged against the comparison / divisibility of the integers.
	var bigVals []*big.Int
	for _, e := range []uint{0, 1, 7, 31, 52, 53, 54, 62, 63, 64, 65, 100, 127, 128, 1023, 1024, 1025, 2000} {
		p := new(big.Int).Lsh(big.NewInt(1), e)
		for d := int64(-2); d <= 2; d++ {
			v := new(big.Int).Add(p, big.NewInt(d))
			bigVals = append(bigVals, v, new(big.Int).Neg(v))
		}
	}
	for _, t := range []string{"0", "10000005", "10000000", "1000000000000000000000000000000", "999999999999999999999999999999", "18446744073709551615", "9007199254740993"} {
		v, _ := new(big.Int).SetString(t, 10)
		bigVals = append(bigVals, v, new(big.Int).Neg(v))
	}
	bigSchemas := []func() any{func() any { return gozod.BigInt() }, func() any { return gozod.BigIntPtr() }}
	runBig := func(variant int, method string, bound *big.Int, v *big.Int) (bool, string) {
		var acc bool
		pm := hx.Safely(func() {
			sc := reflect.ValueOf(bigSchemas[variant]())
			var args []reflect.Value
			if bound != nil {
				args = append(args, reflect.ValueOf(new(big.Int).Set(bound)))
			}
			s2 := sc.MethodByName(method).Call(args)[0]
			res := s2.MethodByName("Parse").Call([]reflect.Value{reflect.ValueOf(new(big.Int).Set(v))})
			acc = res[1].IsNil()
		})
		return acc, pm
	}
	n5 := 3
	if thorough {
		n5 = 40
	}
	for _, v := range bigVals {
		for j := 0; j < n5; j++ {
			b := new(big.Int).Add(v, big.NewInt(int64(r.Intn(5)-2)))
			if r.Chance(30) {
				b = hx.Pick(r, bigVals)
			}
			op := hx.Pick(r, cmpOps)
			variant := r.Intn(2)
			m := hx.Pick(r, opMethods[op])
			how := fmt.Sprintf("schema:%d:false:", variant)
			acc, pm := runBig(variant, m, b, v)
			ob := hx.B01(acc)
			if pm != "" {
				ob = "panic " + pm
			}
			o.Emit(fmt.Sprintf("c16 xcmp %s big %s big %s #%s", op, v.String(), b.String(), how+m), ob)
			o.Count("xcmp:s:big:big")
			// directly, and against every built-in integer kind that holds the bound
			o.Emit(fmt.Sprintf("c16 xcmp %s big %s big %s #direct", op, v.String(), b.String()), hx.B01(directCmp(op, v, b)))
			// sign shorthand
			sm := signMethods[op]
			acc, pm = runBig(variant, sm, nil, v)
			ob = hx.B01(acc)
			if pm != "" {
				ob = "panic " + pm
			}
			o.Emit(fmt.Sprintf("c16 xcmp %s big %s big 0 #%s", op, v.String(), how+sm), ob)
			// MultipleOf
			d := hx.Pick(r, []*big.Int{big.NewInt(2), big.NewInt(3), big.NewInt(-2), big.NewInt(10), big.NewInt(0), big.NewInt(1), big.NewInt(10000000), new(big.Int).Lsh(big.NewInt(1), 53), new(big.Int).Lsh(big.NewInt(1), 64), new(big.Int).Set(v)})
			acc, pm = runBig(variant, "MultipleOf", d, v)
			ob = hx.B01(acc)
			if pm != "" {
				ob = "panic " + pm
			}
			o.Emit(fmt.Sprintf("c16 xmul big %s big %s #%s", v.String(), d.String(), how+"MultipleOf"), ob)
			o.Count("xmul:s:big:big")
			// a big value against a built-in bound and the other way round (validate, directly)
			k := hx.Pick(r, all)
			pv := hx.Pick(r, grids[k.name])
			o.Emit(fmt.Sprintf("c16 xcmp %s big %s %s #direct", op, v.String(), pv.token()), hx.B01(directCmp(op, v, pv.goValue())))
			o.Emit(fmt.Sprintf("c16 xcmp %s %s big %s #direct", op, pv.token(), v.String()), hx.B01(directCmp(op, pv.goValue(), v)))
			if !k.float {
				o.Emit(fmt.Sprintf("c16 xmul big %s %s #direct", v.String(), pv.token()), hx.B01(validate.MultipleOf(v, pv.goValue())))
				o.Emit(fmt.Sprintf("c16 xmul %s big %s #direct", pv.token(), v.String()), hx.B01(validate.MultipleOf(pv.goValue(), v)))
			}
		}
	}
	return o.Close(map[string]any{"seed": c.Seed, "tier": c.Tier})
}

// extremesOf: the type-extreme values of an integer kind: min, min+1, min+2, max, max-1, 0, +-1, +-2, +-2^(bits-2), 2^(bits-1) (unsigned).
func extremesOf(k numKind) []numVal {
	var out []numVal
	if k.signed {
		lo, hi := int64(-1)<<(k.bits-1), int64(1)<<(k.bits-1)-1
		q := int64(1) << (k.bits - 2)
		for _, x := range []int64{lo, lo + 1, lo + 2, hi, hi - 1, 0, 1, -1, 2, -2, q, -q} {
			out = append(out, numVal{k: k, i: x})
		}
		return out
	}
	hi := uint64(math.MaxUint64)
	if k.bits < 64 {
		hi = uint64(1)<<k.bits - 1
	}
	h := uint64(1) << (k.bits - 1)
	for _, x := range []uint64{0, 1, 2, hi, hi - 1, h, h - 1, h + 1, h >> 1} {
		out = append(out, numVal{k: k, u: x})
	}
	return out
}

// extremeValues: every extreme of every kind in `kinds`, and its negation, that kind k can hold (no duplicates).
func extremeValues(k numKind, kinds []numKind) []numVal {
	type sm struct {
		neg bool
		mag uint64
	}
	seen := map[sm]bool{}
	var out []numVal
	add := func(neg bool, mag uint64) {
		if mag == 0 {
			neg = false
		}
		if seen[sm{neg, mag}] {
			return
		}
		var v numVal
		if k.signed {
			lim := uint64(1) << (k.bits - 1) // |min|
			if (neg && mag > lim) || (!neg && mag > lim-1) {
				return
			}
			v = numVal{k: k, i: int64(mag)}
			if neg {
				v.i = int64(-mag) // two's complement: -(1<<63) = MinInt64
			}
		} else {
			if neg || (k.bits < 64 && mag > uint64(1)<<k.bits-1) {
				return
			}
			v = numVal{k: k, u: mag}
		}
		seen[sm{neg, mag}] = true
		out = append(out, v)
	}
	for _, kk := range kinds {
		for _, e := range extremesOf(kk) {
			mag, neg := e.u, false
			if kk.signed {
				neg = e.i < 0
				mag = uint64(e.i)
				if neg {
					mag = -uint64(e.i)
				}
			}
			add(neg, mag)
			add(!neg, mag)
		}
	}
	return out
}

// neighbourInt returns a value of kind kb at distance ≤ 1 from a (when representable).
func neighbourInt(r *hx.Rng, a numVal, kb numKind) numVal {
	d := int64(r.Intn(3) - 1)
	if a.k.signed {
		x := a.i
		if (d > 0 && x == math.MaxInt64) || (d < 0 && x == math.MinInt64) {
			d = 0
		}
		x += d
		if kb.signed {
			return clampSigned(kb, x)
		}
		if x < 0 {
			return numVal{k: kb, u: 0}
		}
		return clampUnsigned(kb, uint64(x))
	}
	x := a.u
	if (d > 0 && x == math.MaxUint64) || (d < 0 && x == 0) {
		d = 0
	}
	x = uint64(int64(x) + d)
	if kb.signed {
		if x > math.MaxInt64 {
			return clampSigned(kb, math.MaxInt64)
		}
		return clampSigned(kb, int64(x))
	}
	return clampUnsigned(kb, x)
}

func clampSigned(k numKind, x int64) numVal {
	lo, hi := int64(-1)<<(k.bits-1), int64(1)<<(k.bits-1)-1
	if x < lo {
		x = lo
	}
	if x > hi {
		x = hi
	}
	return numVal{k: k, i: x}
}

func clampUnsigned(k numKind, x uint64) numVal {
	if k.bits < 64 {
		if hi := uint64(1)<<k.bits - 1; x > hi {
			x = hi
		}
	}
	return numVal{k: k, u: x}
}
