"""C03 — nil handling follows Default > Prefault > NonOptional > Optional/Nilable."""
import re
from . import common as C

MANIFEST = dict(
   technique="Lean 4 proof by induction over modifier histories (internals = abstraction of the history; processModifiersCore transcribed) + exhaustive short / random longer histories applied by reflection to real schemas of 21 types, judged by the history-only specification",
   text="c03_history_partial proves for every history (any length, any order) of Optional/Nilable/Nullish/NonOptional/Default/DefaultFunc/Prefault/PrefaultFunc that the engine's nil outcome is the documented one (default unchecked > prefault validated > nonoptional error > nil > type error); c03_witness_* prove the full statement false where an overwrite or a refinement is attached (known findings). The model is tied to /repo by applying every history up to length 2 (thorough: 3) plus random longer ones to real schemas through reflection and classifying Parse(nil)/Parse(typed nil) by sentinel default/prefault values; non-nil inputs are compared with the unmodified base schema in the harness itself.",
   note="Trusted: Lean kernel; axioms propext/Classical.choice/Quot.sound at most; harness + comparer. Values are abstracted to valid/invalid w.r.t. the schema's own check. When both a value default and a function default are set the spec accepts either (lenient reading). Types with their own nil path (discriminated union, lazy) and Record's pointer variants deviate and are listed as known findings by failure class; transform/pipe/struct/set/map/tuple/xor/bigint/time are not in the harness table yet.",
   design="DESIGN.md §5 C03")

MODULES = ["Gozod.Proofs.C03"]
THEOREMS = ["Gozod.C03." + t for t in [
    "dv_applyAll", "df_applyAll", "pv_applyAll", "pf_applyAll", "nonOptional_applyAll", "optnil_applyAll",
    "overwrite_applyAll", "c03_history_partial", "c03_outcome_reads_only_modifiers",
    "c03_witness_default_checked", "c03_witness_refine_on_nil", "c03_witness_refine_on_nil_int"]]

def cls(s):
    s = s.strip()
    for a, b in (("default", "default"), ("prefault", "prefault"), ("err:checks", "checks-error"), ("err:nonoptional", "nonoptional"),
                 ("err:type", "type-error"), ("err:custom", "custom-error"), ("nil", "nil")):
        if s.startswith(a): return b
    return re.sub(r"[^A-Za-z0-9:._-]+", "_", s)[:40]

def key(op, impl, M, S):
    body = C.op_body(op).split(" ")
    ty = C.op_comment(op).split(" ")[0]
    ops = body[5:] if body[1] == 'nil' else body[2:]
    if impl.startswith("panic"): return "%s:panic" % ty
    if body[1] == "val":
        return "%s:nonnil-input-%s" % (ty, impl.split(" ")[0].replace(":", "-"))
    exp = (S or "")[len("spec-rejects:expected "):] if (S or "").startswith("spec-rejects:expected ") else (S or "?")
    if ty == "record" and any(o in ("Optional", "Nilable", "Nullish") for o in ops):
        return "record:pointer-variant-conversion"
    if impl == M and impl == "err:checks" and "Overwrite" in ops and exp.startswith("default"):
        return "%s:default-checked-when-overwrite-attached" % ty
    if impl == M and impl == "err:custom" and "Refine" in ops:
        return "%s:refinement-runs-on-nil" % ty
    return "%s:%s-instead-of-%s" % (ty, cls(impl), cls(exp.split("|")[0]))

def describe(op):
    return "harness/cmd/c03: schema type after '#'; ops applied left to right by reflection (':v'/':i' = argument that does / does not satisfy the schema's check); in=nil|nilptr"

def run(res):
    ok, detail = C.prove(res, MODULES, THEOREMS)
    if not ok:
        C.tie_broken(res, "proof Gozod.Proofs.C03", detail)
    data, err = C.correspond(res, "C03", feed_impl=True)
    if data is None:
        C.tie_broken(res, "correspondence C03/processModifiersCore", err)
        return res.finish()
    C.decide(res, "C03", data, key, "C03/processModifiersCore+modifier-methods", describe=describe)
    res.coverage["rule"] = ("every history of length <=2 (thorough <=3) over 14 ops (4 flags, Default/DefaultFunc/Prefault/PrefaultFunc x valid/invalid argument, "
        "identity Overwrite, always-true Refine) plus random histories up to length 5, x 30 schema types (string, stringptr, int, int8, int64ptr, uint16, float64, float32, bool, "
        "slice, object, record, array, enum, literal, any, unknown, union, intersection, discriminated union, lazy) x inputs {nil, typed nil pointer, valid, invalid}. distinct = distinct op lines.")
    res.assumptions += ["sentinel default/prefault values identify the source of a returned value", "lenient reading when both default kinds are set"]
    return res.finish()
