/-
  C17 — coercion preserves the value exactly or fails; it never wraps or truncates.

  Property theorems about `Gozod.Model.Coerce` (the code of `pkg/coerce` after
  `pending/C17-coerce-guards.diff`), plus witness theorems showing that the float branches of
  the pinned commit (`Coerce.Legacy`) violate the property.

  What a string denotes is a parameter (`StrSem`): the theorems assume that
  `strconv.ParseInt` / `big.Int.SetString` return the integer the text denotes and that the
  blank string denotes 0 (the library's convention), and conclude that the code around those
  calls neither changes that value nor lets it leave the target's range.
-/
import Gozod.Model.Coerce
import Gozod.Proofs.C16

namespace Gozod.C17
open Gozod Gozod.Coerce

deriving instance DecidableEq for Except
deriving instance DecidableEq for Val

/-! ## what a source denotes -/

/-- The parameter "the value the source string denotes" for integer readings, with the
    assumptions made about the library calls whose results the model receives. -/
structure StrSem where
  denInt : StrInfo → Int → Prop
  parseInt_sound : ∀ s i, s.pInt = some i → denInt s i ∧ IntTy.i64.inRange i
  big10_sound : ∀ s i, s.pBig10 = some i → denInt s i
  big16_sound : ∀ s i, s.hexPrefix = true → s.pBig16 = some i → denInt s i
  blank_zero : ∀ s, s.blank = true → denInt s 0

/-- The assumptions of `StrSem` are consistent: reading "denotes" as "one of the library calls
    returned it" (with ParseInt's results being int64s) satisfies them. -/
example (hInt : ∀ (s : StrInfo) i, s.pInt = some i → IntTy.i64.inRange i) : StrSem :=
  { denInt := fun s n => (s.blank = true ∧ n = 0) ∨ s.pInt = some n ∨ s.pBig10 = some n ∨
      (s.hexPrefix = true ∧ s.pBig16 = some n)
    parseInt_sound := fun s i h => ⟨Or.inr (Or.inl h), hInt s i h⟩
    big10_sound := fun _ _ h => Or.inr (Or.inr (Or.inl h))
    big16_sound := fun _ _ hx h => Or.inr (Or.inr (Or.inr ⟨hx, h⟩))
    blank_zero := fun _ h => Or.inl ⟨h, rfl⟩ }

/-- `denotesInt sem s n`: the source `s` denotes exactly the integer `n`.
    A finite float `a / 2^k` denotes `n` iff `a = n · 2^k`; NaN, ±Inf, nil and non-numeric
    values denote no integer. -/
def denotesInt (sem : StrSem) : Src → Int → Prop
  | .int _ v, n => v = n
  | .big v, n => v = n
  | .f32 (.fin a k), n => a = n * 2 ^ k
  | .f64 (.fin a k), n => a = n * 2 ^ k
  | .bool b, n => boolInt b = n
  | .str s, n => sem.denInt s n
  | _, _ => False

/-- Well-formed sources: an integer source holds a value of its Go type. -/
def wf : Src → Prop
  | .int t v => t.inRange v
  | _ => True

instance (s : Src) : Decidable (wf s) := by
  cases s <;> simp only [wf] <;> exact inferInstance

/-- the text "7" as the harness would describe it -/
def seven : StrInfo :=
  { bytes := [55], blank := false, norm := "7", pInt := some 7, pFloat := none, pFloat32 := none,
    pBig10 := some 7, hexPrefix := false, pBig16 := none }

theorem i64_range (n : Int) : IntTy.i64.inRange n ↔ -(2 ^ 63) ≤ n ∧ n ≤ 2 ^ 63 - 1 := by
  simp [IntTy.inRange, IntTy.lo, IntTy.hi, IntTy.signed, IntTy.bits]

theorem inRange_i64_of (t : IntTy) (v : Int) (h : t.inRange v) (hs : t ≠ .u64) (hu : t ≠ .uint) :
    IntTy.i64.inRange v := by
  cases t <;> simp_all [IntTy.inRange, IntTy.lo, IntTy.hi, IntTy.signed, IntTy.bits] <;> omega

/-! ## ToInt64 -/

theorem floatToInt64_fin (a : Int) (k : Nat) :
    floatToInt64 (.fin a k) =
      if isWhole a k = true then
        (if F.truncInt a k < -(2 ^ 63) ∨ F.truncInt a k ≥ 2 ^ 63 then .error .overflow
         else .ok (cvtI64 (.fin a k)))
      else .error .notWhole := rfl

theorem cvtI64_fin (a : Int) (k : Nat) :
    cvtI64 (.fin a k) =
      if -(2 ^ 63) ≤ F.truncInt a k ∧ F.truncInt a k < 2 ^ 63 then F.truncInt a k else -(2 ^ 63) := rfl

theorem floatToInt64_sound (x : F) (n : Int) (h : floatToInt64 x = .ok n) :
    ∃ a k, x = .fin a k ∧ a = n * 2 ^ k ∧ IntTy.i64.inRange n := by
  cases x with
  | nan => simp [floatToInt64] at h
  | pinf => simp [floatToInt64] at h
  | ninf => simp [floatToInt64] at h
  | fin a k =>
    refine ⟨a, k, rfl, ?_⟩
    rw [floatToInt64_fin] at h
    by_cases hw : isWhole a k = true
    · rw [if_pos hw] at h
      by_cases hr : F.truncInt a k < -(2 ^ 63) ∨ F.truncInt a k ≥ 2 ^ 63
      · rw [if_pos hr] at h; cases h
      · rw [if_neg hr] at h
        have hc : cvtI64 (.fin a k) = F.truncInt a k := by
          rw [cvtI64_fin, if_pos]
          omega
        rw [hc] at h
        injection h with h
        subst h
        constructor
        · simp [isWhole] at hw; omega
        · rw [i64_range]; omega
    · rw [if_neg hw] at h; cases h

/-- The fixed float branch does not fail spuriously: a float that denotes an integer in the
    int64 range converts to exactly that integer. -/
theorem floatToInt64_complete (a : Int) (k : Nat) (n : Int) (h : a = n * 2 ^ k)
    (hr : IntTy.i64.inRange n) : floatToInt64 (.fin a k) = .ok n := by
  have hp : (0 : Int) < 2 ^ k := Int.pow_pos (by decide)
  have ht : F.truncInt a k = n := by
    unfold F.truncInt; subst h
    exact Int.mul_tdiv_cancel n (Int.ne_of_gt hp)
  rw [i64_range] at hr
  have hw : isWhole a k = true := by
    simp only [isWhole, beq_iff_eq]; rw [ht]; exact h.symm
  rw [floatToInt64_fin, if_pos hw, cvtI64_fin, ht, if_neg (by omega), if_pos (by omega)]

theorem toInt64_sound (sem : StrSem) (s : Src) (n : Int) (hwf : wf s) (h : toInt64 s = .ok n) :
    denotesInt sem s n ∧ IntTy.i64.inRange n := by
  cases s with
  | int t v =>
    simp only [wf] at hwf
    simp only [toInt64, intToInt64] at h
    cases t <;> simp only [] at h <;>
      first
        | (injection h with h; subst h
           exact ⟨rfl, inRange_i64_of _ _ hwf (by decide) (by decide)⟩)
        | (split at h
           · cases h
           · injection h with h; subst h
             refine ⟨rfl, ?_⟩
             rw [i64_range]
             simp [IntTy.inRange, IntTy.lo, IntTy.hi, IntTy.signed, IntTy.bits] at hwf
             omega)
  | f32 x =>
    obtain ⟨a, k, rfl, ha, hr⟩ := floatToInt64_sound x n h
    exact ⟨ha, hr⟩
  | f64 x =>
    obtain ⟨a, k, rfl, ha, hr⟩ := floatToInt64_sound x n h
    exact ⟨ha, hr⟩
  | bool b =>
    simp only [toInt64] at h
    injection h with h; subst h
    refine ⟨rfl, ?_⟩
    rw [i64_range]; cases b <;> simp [boolInt]
  | str i =>
    simp only [toInt64, stringToInt64] at h
    by_cases hb : i.blank = true
    · rw [if_pos hb] at h
      injection h with h; subst h
      exact ⟨sem.blank_zero i hb, by rw [i64_range]; omega⟩
    · rw [if_neg hb] at h
      cases hp : i.pInt with
      | none => rw [hp] at h; cases h
      | some j =>
        rw [hp] at h
        injection h with h; subst h
        exact sem.parseInt_sound i j hp
  | big v => simp [toInt64] at h
  | cplx re im mag => simp [toInt64] at h
  | nilptr => simp [toInt64] at h
  | other => simp [toInt64] at h

/-- **C17 (int64).** Whenever `ToInt64` succeeds the result is exactly the integer the source
    denotes, and it is an int64. -/
theorem c17_int64_sound (sem : StrSem) (s : Src) (n : Int) (hwf : wf s) (h : toInt64 s = .ok n) :
    denotesInt sem s n ∧ IntTy.i64.inRange n := toInt64_sound sem s n hwf h

example : wf (.int .u64 (2 ^ 63 - 1)) ∧ toInt64 (.int .u64 (2 ^ 63 - 1)) = .ok (2 ^ 63 - 1) ∧
    toInt64 (.f64 (.fin (-(2 ^ 63)) 0)) = .ok (-(2 ^ 63)) ∧ toInt64 (.f32 (.fin 24 3)) = .ok 3 := by decide

/-- **C17 (int64, errors).** A source that denotes no integer of the int64 range — NaN, ±Inf,
    a fraction, a magnitude of 2^63 or more, nil, a non-number — is an error. -/
theorem c17_int64_err (sem : StrSem) (s : Src) (hwf : wf s)
    (hno : ¬ ∃ n, denotesInt sem s n ∧ IntTy.i64.inRange n) : ∃ e, toInt64 s = .error e := by
  cases h : toInt64 s with
  | error e => exact ⟨e, rfl⟩
  | ok n => exact absurd ⟨n, toInt64_sound sem s n hwf h⟩ hno

example : toInt64 (.f64 (.fin (2 ^ 63) 0)) = .error .overflow ∧ toInt64 (.f64 (.fin 3 1)) = .error .notWhole ∧
    toInt64 (.int .u64 (2 ^ 63)) = .error .overflow := by decide

/-- Instances of `c17_int64_err` with the hypotheses spelled out. -/
theorem c17_int64_err_nan : (∃ e, toInt64 (.f64 .nan) = .error e) ∧ (∃ e, toInt64 (.f32 .nan) = .error e) :=
  ⟨⟨_, rfl⟩, ⟨_, rfl⟩⟩

theorem c17_int64_err_inf :
    (∃ e, toInt64 (.f64 .pinf) = .error e) ∧ (∃ e, toInt64 (.f64 .ninf) = .error e) ∧
    (∃ e, toInt64 (.f32 .pinf) = .error e) ∧ (∃ e, toInt64 (.f32 .ninf) = .error e) :=
  ⟨⟨_, rfl⟩, ⟨_, rfl⟩, ⟨_, rfl⟩, ⟨_, rfl⟩⟩

theorem mul_pow_inj (n m : Int) (k : Nat) (h : n * 2 ^ k = m * 2 ^ k) : n = m := by
  have hp : (0 : Int) < 2 ^ k := Int.pow_pos (by decide)
  exact Int.eq_of_mul_eq_mul_right (Int.ne_of_gt hp) h

/-- A fractional float (`2^k ∤ a`) is an error, for float64 and float32 sources alike. -/
theorem c17_int64_err_fractional (a : Int) (k : Nat) (hfrac : ¬ (2 : Int) ^ k ∣ a) :
    (∃ e, toInt64 (.f64 (.fin a k)) = .error e) ∧ (∃ e, toInt64 (.f32 (.fin a k)) = .error e) := by
  have key : ∃ e, floatToInt64 (.fin a k) = .error e := by
    cases h : floatToInt64 (.fin a k) with
    | error e => exact ⟨e, rfl⟩
    | ok n =>
      obtain ⟨a', k', he, ha, _⟩ := floatToInt64_sound _ n h
      injection he with h1 h2; subst h1; subst h2
      exact absurd ⟨n, by rw [ha, Int.mul_comm]⟩ hfrac
  exact ⟨key, key⟩

/-- A whole float outside [-2^63, 2^63) is an error — in particular 2^63 itself. -/
theorem c17_int64_err_range (a : Int) (k : Nat) (n : Int) (ha : a = n * 2 ^ k)
    (hout : n < -(2 ^ 63) ∨ n ≥ 2 ^ 63) :
    (∃ e, toInt64 (.f64 (.fin a k)) = .error e) ∧ (∃ e, toInt64 (.f32 (.fin a k)) = .error e) := by
  have key : ∃ e, floatToInt64 (.fin a k) = .error e := by
    cases h : floatToInt64 (.fin a k) with
    | error e => exact ⟨e, rfl⟩
    | ok m =>
      obtain ⟨a', k', he, ha', hr⟩ := floatToInt64_sound _ m h
      injection he with h1 h2; subst h1; subst h2
      have : n = m := mul_pow_inj n m k (by rw [← ha, ← ha'])
      subst this
      rw [i64_range] at hr; omega
  exact ⟨key, key⟩

/-! ## ToInteger[T] -/

theorem checkBounds_sound (t : IntTy) (v n : Int) (hv : IntTy.i64.inRange v)
    (h : checkBounds t v = .ok n) : n = v ∧ t.inRange n := by
  rw [i64_range] at hv
  cases t <;> simp only [checkBounds, IntTy.lo, IntTy.hi, IntTy.signed, IntTy.bits,
      Bool.false_eq_true, ↓reduceIte] at h <;>
    (repeat' split at h) <;> first
      | (cases h; done)
      | (injection h with h; subst h
         refine ⟨rfl, ?_⟩
         simp [IntTy.inRange, IntTy.lo, IntTy.hi, IntTy.signed, IntTy.bits] at *
         omega)

theorem toInteger_nonbool (t : IntTy) (s : Src) (hb : ∀ b, s ≠ .bool b) :
    toInteger t s = toInt64 s >>= checkBounds t := by
  cases s <;> first | rfl | exact absurd rfl (hb _)

theorem bool_inRange (t : IntTy) (b : Bool) : t.inRange (boolInt b) := by
  cases t <;> cases b <;> simp [IntTy.inRange, IntTy.lo, IntTy.hi, IntTy.signed, IntTy.bits, boolInt]

/-- **C17 (every integer target).** Whenever `ToInteger[T]` succeeds, for each of the ten Go
    integer types, the result is exactly the integer the source denotes and a value of `T`:
    no wrap-around, no truncation. -/
theorem c17_integer_sound (sem : StrSem) (t : IntTy) (s : Src) (n : Int) (hwf : wf s)
    (h : toInteger t s = .ok n) : denotesInt sem s n ∧ t.inRange n := by
  by_cases hb : ∃ b, s = .bool b
  · obtain ⟨b, rfl⟩ := hb
    simp only [toInteger] at h
    injection h with h; subst h
    exact ⟨rfl, bool_inRange t b⟩
  · have hb' : ∀ b, s ≠ .bool b := fun b hs => hb ⟨b, hs⟩
    rw [toInteger_nonbool t s hb'] at h
    cases h64 : toInt64 s with
    | error e => rw [h64] at h; cases h
    | ok v =>
      rw [h64] at h
      have ⟨hd, hr⟩ := toInt64_sound sem s v hwf h64
      have ⟨he, ht⟩ := checkBounds_sound t v n hr h
      subst he
      exact ⟨hd, ht⟩

/-- **C17 (every integer target, errors).** A source that denotes no value of `T` — out of
    range, negative for an unsigned `T`, fractional, NaN, ±Inf, nil, a non-number — is an error. -/
theorem c17_integer_err (sem : StrSem) (t : IntTy) (s : Src) (hwf : wf s)
    (hno : ¬ ∃ n, denotesInt sem s n ∧ t.inRange n) : ∃ e, toInteger t s = .error e := by
  cases h : toInteger t s with
  | error e => exact ⟨e, rfl⟩
  | ok n => exact absurd ⟨n, c17_integer_sound sem t s n hwf h⟩ hno

/-- Negative integers never reach an unsigned target. -/
theorem c17_integer_err_negative (sem : StrSem) (t t' : IntTy) (v : Int) (hv : t'.inRange v)
    (hneg : v < 0) (hu : t.signed = false) : ∃ e, toInteger t (.int t' v) = .error e := by
  apply c17_integer_err sem t _ (show wf (.int t' v) from hv)
  rintro ⟨n, hd, hr⟩
  simp only [denotesInt] at hd
  subst hd
  cases t <;> simp_all [IntTy.inRange, IntTy.lo, IntTy.hi, IntTy.signed, IntTy.bits] <;> omega

/-- After the fix `ToInteger[int64]` and `ToInt64` are the same function (so `To[int64]`,
    which dispatches to `ToInt64`, agrees with the other integer targets). -/
theorem c17_integer_i64_eq (s : Src) : toInteger .i64 s = toInt64 s := by
  by_cases hb : ∃ b, s = .bool b
  · obtain ⟨b, rfl⟩ := hb; rfl
  · rw [toInteger_nonbool _ s (fun b hs => hb ⟨b, hs⟩)]
    cases toInt64 s <;> rfl

example : wf (.int .u64 (2 ^ 64 - 1)) ∧ toInteger .u64 (.f64 (.fin (2 ^ 62) 0)) = .ok (2 ^ 62) ∧
    toInteger .i8 (.f32 (.fin (-256) 1)) = .ok (-128) ∧ toInt64 (.int .u64 (2 ^ 63 - 1)) = .ok (2 ^ 63 - 1) := by
  decide

/-! ## float targets: rounding lemmas -/

theorem toFloat64_int (t : IntTy) (v : Int) : toFloat64 (.int t v) = .ok (.fin (toF64Int v) 0) := rfl
theorem toFloat64_bool (b : Bool) : toFloat64 (.bool b) = .ok (.fin (boolInt b) 0) := rfl
theorem toFloat64_f64 (x : F) : toFloat64 (.f64 x) = if x.isNaN then .error .format else .ok x := rfl
theorem toFloat64_f32 (x : F) : toFloat64 (.f32 x) = if x.isNaN then .error .format else .ok x := rfl
theorem toFloat64_str (i : StrInfo) : toFloat64 (.str i) = stringToFloat i.blank i.pFloat := rfl
theorem toFloat64_big (v : Int) : toFloat64 (.big v) = finOrOverflow (bigToF64 v) := rfl
theorem toFloat32_int (t : IntTy) (v : Int) : toFloat32 (.int t v) = .ok (.fin (toF32Int v) 0) := rfl
theorem toFloat32_f32 (x : F) : toFloat32 (.f32 x) = if x.isNaN then .error .format else .ok x := rfl
theorem toFloat32_str (i : StrInfo) : toFloat32 (.str i) = stringToFloat i.blank i.pFloat32 := rfl
theorem toFloat32_big (v : Int) : toFloat32 (.big v) = finOrOverflow (bigToF32 v) := rfl

theorem finOrOverflow_ok (x r : F) (h : finOrOverflow x = .ok r) : r = x ∧ ∃ a k, r = .fin a k := by
  cases x <;> simp [finOrOverflow] at h
  subst h; exact ⟨rfl, _, _, rfl⟩
theorem toFloat32_f64 (x : F) : toFloat32 (.f64 x) =
    (toFloat64 (.f64 x) >>= fun f => if absGtMaxF32 f then .error .overflow else .ok (roundF32 f)) := rfl
theorem toFloat32_bool (b : Bool) : toFloat32 (.bool b) =
    (toFloat64 (.bool b) >>= fun f => if absGtMaxF32 f then .error .overflow else .ok (roundF32 f)) := rfl




theorem excessBits_spec (p : Nat) : ∀ (fuel n : Nat), n < 2 ^ (p + fuel) →
    n < 2 ^ (p + excessBits p fuel n) ∧
    (0 < excessBits p fuel n → 2 ^ (p + excessBits p fuel n - 1) ≤ n) := by
  intro fuel
  induction fuel with
  | zero => intro n hn; simp [excessBits]; simpa using hn
  | succ fuel ih =>
    intro n hn
    unfold excessBits
    by_cases hlt : n < 2 ^ p
    · rw [if_pos hlt]; simpa using hlt
    · rw [if_neg hlt]
      have hpow : 2 ^ (p + (fuel + 1)) = 2 * 2 ^ (p + fuel) := by
        rw [← Nat.add_assoc, Nat.pow_succ, Nat.mul_comm]
      have hn2 : n / 2 < 2 ^ (p + fuel) := by omega
      have ⟨h1, h2⟩ := ih (n / 2) hn2
      generalize excessBits p fuel (n / 2) = sh at *
      have e1 : p + (1 + sh) = (p + sh) + 1 := by omega
      constructor
      · rw [e1, Nat.pow_succ]; omega
      · intro _
        have e2 : p + (1 + sh) - 1 = p + sh := by omega
        rw [e2]
        by_cases hs : sh = 0
        · subst hs; simpa using Nat.le_of_not_lt hlt
        · have h3 := h2 (by omega)
          have e3 : p + sh = (p + sh - 1) + 1 := by omega
          rw [e3, Nat.pow_succ]; omega

/-- Rounding `n` to a multiple of `2^sh` by `roundTo`'s rule: within half a unit, ties to even. -/
theorem rne_core (n sh : Nat) (hs : 0 < sh) (q' : Nat)
    (hq : q' = if n % 2 ^ sh > 2 ^ (sh - 1) ∨ (n % 2 ^ sh = 2 ^ (sh - 1) ∧ n / 2 ^ sh % 2 = 1)
               then n / 2 ^ sh + 1 else n / 2 ^ sh) :
    2 * (q' * 2 ^ sh) ≤ 2 * n + 2 ^ sh ∧ 2 * n ≤ 2 * (q' * 2 ^ sh) + 2 ^ sh ∧
    ((2 * (q' * 2 ^ sh) = 2 * n + 2 ^ sh ∨ 2 * n = 2 * (q' * 2 ^ sh) + 2 ^ sh) → q' % 2 = 0) := by
  have hP : 2 ^ sh = 2 * 2 ^ (sh - 1) := by
    have : sh = (sh - 1) + 1 := by omega
    rw [this, Nat.pow_succ, Nat.mul_comm]; simp
  have hdm : 2 ^ sh * (n / 2 ^ sh) + n % 2 ^ sh = n := Nat.div_add_mod n (2 ^ sh)
  have hr : n % 2 ^ sh < 2 ^ sh := Nat.mod_lt _ (Nat.pow_pos (by decide))
  generalize n / 2 ^ sh = q at *
  generalize n % 2 ^ sh = r at *
  generalize 2 ^ (sh - 1) = H at *
  generalize 2 ^ sh = P at *
  by_cases hc : r > H ∨ (r = H ∧ q % 2 = 1)
  · rw [if_pos hc] at hq
    have e : q' * P = P * q + P := by rw [hq, Nat.add_mul, Nat.mul_comm, Nat.one_mul]
    rw [e]; omega
  · rw [if_neg hc] at hq
    have e : q' * P = P * q := by rw [hq, Nat.mul_comm]
    rw [e]; omega

/-- `r` is `n` correctly rounded to `p` significant bits, round-to-nearest-even: with `2^sh`
    the unit in the last place of `n`'s binade `[2^(p+sh-1), 2^(p+sh))`, `r` is a multiple of
    the unit, at most half a unit away from `n`, and an even multiple when exactly half a unit
    away; when `n` fits in `p` bits (`sh = 0`) it is `n` itself. -/
def CorrectlyRounded (p n r : Nat) : Prop :=
  ∃ sh, n < 2 ^ (p + sh) ∧ (0 < sh → 2 ^ (p + sh - 1) ≤ n) ∧ (sh = 0 → r = n) ∧
    2 ^ sh ∣ r ∧ 2 * r ≤ 2 * n + 2 ^ sh ∧ 2 * n ≤ 2 * r + 2 ^ sh ∧
    ((2 * r = 2 * n + 2 ^ sh ∨ 2 * n = 2 * r + 2 ^ sh) → r / 2 ^ sh % 2 = 0)

theorem roundTo_correct (p n : Nat) (hn : n < 2 ^ (p + 64)) : CorrectlyRounded p n (roundTo p n) := by
  have ⟨h1, h2⟩ := excessBits_spec p 64 n hn
  refine ⟨excessBits p 64 n, h1, h2, ?_⟩
  by_cases hs : excessBits p 64 n = 0
  · have hr : roundTo p n = n := by unfold roundTo; simp [hs]
    rw [hr, hs]
    simp
  · have hP : 0 < 2 ^ excessBits p 64 n := Nat.pow_pos (by decide)
    have hr : roundTo p n =
        (if n % 2 ^ excessBits p 64 n > 2 ^ (excessBits p 64 n - 1) ∨
            (n % 2 ^ excessBits p 64 n = 2 ^ (excessBits p 64 n - 1) ∧ n / 2 ^ excessBits p 64 n % 2 = 1)
         then n / 2 ^ excessBits p 64 n + 1 else n / 2 ^ excessBits p 64 n) * 2 ^ excessBits p 64 n := by
      unfold roundTo; simp only [hs, ↓reduceIte]
    have ⟨c1, c2, c3⟩ := rne_core n (excessBits p 64 n) (by omega) _ rfl
    rw [hr]
    refine ⟨fun h => absurd h hs, Nat.dvd_mul_left _ _, c1, c2, ?_⟩
    intro h
    rw [Nat.mul_div_cancel _ hP]
    exact c3 h

theorem roundTo_exact (p n : Nat) (h : n < 2 ^ p) : roundTo p n = n := by
  have : excessBits p 64 n = 0 := by
    show excessBits p (63 + 1) n = 0
    unfold excessBits; rw [if_pos h]
  unfold roundTo; simp [this]

/-- **C17 (int → float64, exact part).** An integer of magnitude at most 2^53 converts to
    the float64 holding exactly that integer. -/
theorem c17_int_to_f64_exact (t : IntTy) (v : Int) (h : v.natAbs ≤ 2 ^ 53) :
    toFloat64 (.int t v) = .ok (.fin v 0) := by
  have hr : round53 v.natAbs = v.natAbs := by
    by_cases he : v.natAbs = 2 ^ 53
    · rw [he]; decide
    · exact roundTo_exact 53 _ (by omega)
  rw [toFloat64_int]
  simp only [toF64Int, hr]
  congr 2
  split <;> omega

/-- **C17 (int → float64, every 64-bit integer).** `ToFloat64` of an integer succeeds with a
    float of the same sign whose magnitude is the source's magnitude correctly rounded to 53
    bits (nearest, ties to even). -/
theorem c17_int_to_f64_nearest (t : IntTy) (v : Int) (hv : t.inRange v) :
    ∃ r : Int, toFloat64 (.int t v) = .ok (.fin r 0) ∧ (0 ≤ v → 0 ≤ r) ∧ (v ≤ 0 → r ≤ 0) ∧
      CorrectlyRounded 53 v.natAbs r.natAbs := by
  have hb : v.natAbs < 2 ^ (53 + 64) := by
    have : v.natAbs < 2 ^ 64 := by
      cases t <;> simp [IntTy.inRange, IntTy.lo, IntTy.hi, IntTy.signed, IntTy.bits] at hv <;> omega
    exact Nat.lt_trans this (Nat.pow_lt_pow_right (by decide) (by decide))
  have hc := roundTo_correct 53 v.natAbs hb
  refine ⟨toF64Int v, rfl, ?_, ?_, ?_⟩
  · intro h; unfold toF64Int; split <;> omega
  · intro h; unfold toF64Int; split
    · omega
    · have : v = 0 := by omega
      subst this; decide
  · have : (toF64Int v).natAbs = round53 v.natAbs := by
      unfold toF64Int; split <;> omega
    rw [this]; exact hc

example : IntTy.i64.inRange (2 ^ 53 + 1) ∧ toFloat64 (.int .i64 (2 ^ 53 + 1)) = .ok (.fin (2 ^ 53) 0) ∧
    toFloat64 (.int .i64 (2 ^ 53 + 3)) = .ok (.fin (2 ^ 53 + 4) 0) ∧
    toFloat64 (.int .u64 (2 ^ 64 - 1)) = .ok (.fin (2 ^ 64) 0) := by decide

/-! ## float targets: value preservation, NaN, no new infinities -/

theorem rneDiv_le (n s c : Nat) (h : n ≤ c * 2 ^ s) : rneDiv n s ≤ c := by
  unfold rneDiv
  by_cases hs : s = 0
  · rw [if_pos hs]; subst hs; simpa using h
  · rw [if_neg hs]
    have hP : 0 < 2 ^ s := Nat.pow_pos (by decide)
    have hH : 0 < 2 ^ (s - 1) := Nat.pow_pos (by decide)
    have hq : n / 2 ^ s ≤ c := by
      apply Nat.div_le_of_le_mul; rw [Nat.mul_comm]; exact h
    have hdm : 2 ^ s * (n / 2 ^ s) + n % 2 ^ s = n := Nat.div_add_mod n (2 ^ s)
    simp only []
    by_cases hqc : n / 2 ^ s = c
    · rw [hqc] at hdm ⊢
      rw [Nat.mul_comm] at hdm
      have hr0 : n % 2 ^ s = 0 := by omega
      rw [hr0, if_neg (by omega)]; exact Nat.le_refl c
    · split <;> omega

theorem roundMag_lt (n k : Nat) (h : n ≤ (2 ^ 24 - 1) * 2 ^ 104 * 2 ^ k) :
    (roundMag 24 149 n k).1 < 2 ^ 128 * 2 ^ (roundMag 24 149 n k).2 := by
  have hM : (2 ^ 24 - 1) * 2 ^ 104 < 2 ^ 128 := by decide
  have hk : 0 < 2 ^ k := Nat.pow_pos (by decide)
  have hlt : n < 2 ^ 128 * 2 ^ k := Nat.lt_of_le_of_lt h (Nat.mul_lt_mul_of_pos_right hM hk)
  unfold roundMag
  by_cases hn0 : n = 0
  · rw [if_pos hn0]; simp
  · rw [if_neg hn0]
    have hlog : n.log2 < 128 + k := by
      rw [Nat.log2_lt hn0, Nat.pow_add]; exact hlt
    simp only []
    generalize hu : max (((n.log2 : Int) + 1) - 1 - (k : Int) - (((24 : Nat) : Int) - 1)) (-((149 : Nat) : Int)) = u
    have hu104 : u ≤ 104 := by omega
    by_cases hs : (k : Int) + u ≤ 0
    · rw [if_pos hs]; exact hlt
    · rw [if_neg hs]
      -- c = (2^24 - 1) * 2^(104 - u)
      have hc : n ≤ ((2 ^ 24 - 1) * 2 ^ (104 - u).toNat) * 2 ^ ((k : Int) + u).toNat := by
        rw [Nat.mul_assoc, ← Nat.pow_add]
        have : (104 - u).toNat + ((k : Int) + u).toNat = 104 + k := by omega
        rw [this, Nat.pow_add, ← Nat.mul_assoc]; exact h
      have hq := rneDiv_le n ((k : Int) + u).toNat _ hc
      generalize rneDiv n ((k : Int) + u).toNat = q at *
      by_cases hu0 : u ≥ 0
      · rw [if_pos hu0]
        simp only [Nat.pow_zero, Nat.mul_one]
        calc q * 2 ^ u.toNat ≤ ((2 ^ 24 - 1) * 2 ^ (104 - u).toNat) * 2 ^ u.toNat :=
              Nat.mul_le_mul_right _ hq
          _ = (2 ^ 24 - 1) * 2 ^ 104 := by
              rw [Nat.mul_assoc, ← Nat.pow_add]
              have : (104 - u).toNat + u.toNat = 104 := by omega
              rw [this]
          _ < 2 ^ 128 := hM
      · rw [if_neg hu0]
        simp only []
        calc q ≤ (2 ^ 24 - 1) * 2 ^ (104 - u).toNat := hq
          _ = (2 ^ 24 - 1) * 2 ^ 104 * 2 ^ (-u).toNat := by
              have : (104 - u).toNat = 104 + (-u).toNat := by omega
              rw [this, Nat.pow_add, Nat.mul_assoc]
          _ < 2 ^ 128 * 2 ^ (-u).toNat := Nat.mul_lt_mul_of_pos_right hM (Nat.pow_pos (by decide))

/-- `rneDiv n s` is `n / 2^s` rounded to nearest, ties to even. -/
theorem rneDiv_nearest (n s : Nat) (hs : 0 < s) :
    2 * (rneDiv n s * 2 ^ s) ≤ 2 * n + 2 ^ s ∧ 2 * n ≤ 2 * (rneDiv n s * 2 ^ s) + 2 ^ s ∧
    ((2 * (rneDiv n s * 2 ^ s) = 2 * n + 2 ^ s ∨ 2 * n = 2 * (rneDiv n s * 2 ^ s) + 2 ^ s) →
      rneDiv n s % 2 = 0) := by
  have h : rneDiv n s = if n % 2 ^ s > 2 ^ (s - 1) ∨ (n % 2 ^ s = 2 ^ (s - 1) ∧ n / 2 ^ s % 2 = 1)
      then n / 2 ^ s + 1 else n / 2 ^ s := by
    unfold rneDiv; rw [if_neg (by omega)]
  exact rne_core n s hs _ h

/-- **Correct rounding of `roundMag`** (Go's `float32(float64)`, `big.Int.Float64`,
    `big.Float.Float32`): with `bits` the bit length of `n` (so `n / 2^k ∈ [2^(bits-1-k), 2^(bits-k))`)
    and `2^u` the format's unit in the last place there (`u = max (bits-1-k-(p-1)) (-emin)`:
    `p` significant bits, never finer than the smallest subnormal `2^-emin`), the result denotes
    `q · 2^u` where `q` is `n / 2^(k+u)` rounded to nearest, ties to even; when `n / 2^k` is
    already a multiple of `2^u` (`k + u ≤ 0`) it is returned unchanged. -/
theorem roundMag_correct (p emin n k : Nat) (hn : n ≠ 0) :
    (2 ^ n.log2 ≤ n ∧ n < 2 ^ (n.log2 + 1)) ∧
    ∀ u : Int, u = max (((n.log2 : Int) + 1) - 1 - (k : Int) - ((p : Int) - 1)) (-(emin : Int)) →
      ((k : Int) + u ≤ 0 → roundMag p emin n k = (n, k)) ∧
      (0 < (k : Int) + u →
        (roundMag p emin n k).1 * 2 ^ k =
          rneDiv n ((k : Int) + u).toNat * 2 ^ ((k : Int) + u).toNat * 2 ^ (roundMag p emin n k).2) := by
  refine ⟨⟨Nat.log2_self_le hn, Nat.lt_log2_self⟩, ?_⟩
  intro u hu
  constructor
  · intro hs
    unfold roundMag
    rw [if_neg hn]
    simp only []
    rw [← hu, if_pos hs]
  · intro hs
    unfold roundMag
    rw [if_neg hn]
    simp only []
    rw [← hu, if_neg (by omega)]
    by_cases hu0 : u ≥ 0
    · rw [if_pos hu0]
      simp only [Nat.pow_zero, Nat.mul_one]
      have : ((k : Int) + u).toNat = u.toNat + k := by omega
      rw [this, Nat.pow_add, Nat.mul_assoc]
    · rw [if_neg hu0]
      simp only []
      have e : ((k : Int) + u).toNat + (-u).toNat = k := by omega
      rw [Nat.mul_assoc, ← Nat.pow_add, e]

/-- `float32(float64)` on ties and at the subnormal edge (the cases the harness also runs):
    1+2^-24 → 1 (tie to even), 1+3·2^-24 → 1+2^-22, 2^-150 → 0 (tie to even), 3·2^-150 → 2^-148,
    2^128−2^103 (the overflow tie) → +Inf. -/
example : roundF32 (.fin (2 ^ 24 + 1) 24) = .fin (2 ^ 23) 23 ∧ roundF32 (.fin (2 ^ 24 + 3) 24) = .fin (2 ^ 23 + 2) 23 ∧
    roundF32 (.fin 1 150) = .fin 0 149 ∧ roundF32 (.fin 3 150) = .fin 2 149 ∧
    roundF32 (.fin (2 ^ 128 - 2 ^ 103) 0) = .pinf ∧ roundF32 (.fin (2 ^ 128 - 2 ^ 103 - 1) 0) = .fin ((2 ^ 24 - 1) * 2 ^ 104) 0 := by
  decide

def F.finite : F → Prop
  | .fin _ _ => True
  | _ => False

theorem roundFin_f32_finite (a : Int) (k : Nat) (h : absGtMaxF32 (.fin a k) = false) :
    F.finite (roundFin 24 149 128 a k) := by
  have hle : a.natAbs ≤ (2 ^ 24 - 1) * 2 ^ 104 * 2 ^ k := by
    simp only [absGtMaxF32, decide_eq_false_iff_not, Int.not_lt] at h
    have e : maxF32 * 2 ^ k = (((2 ^ 24 - 1) * 2 ^ 104 * 2 ^ k : Nat) : Int) := by
      have e0 : maxF32 = (((2 ^ 24 - 1) * 2 ^ 104 : Nat) : Int) := by decide
      rw [e0, Int.natCast_mul ((2 ^ 24 - 1) * 2 ^ 104) (2 ^ k), Int.natCast_pow]; rfl
    rw [e] at h
    exact Int.ofNat_le.mp h
  have hlt := roundMag_lt a.natAbs k hle
  unfold roundFin
  rcases hrm : roundMag 24 149 a.natAbs k with ⟨m, k'⟩
  rw [hrm] at hlt
  simp only [] at hlt ⊢
  rw [if_neg (by omega)]
  trivial

/-- The source denotes a finite number: not an infinite float, not text that reads as infinity. -/
def finiteSrc : Src → Prop
  | .f32 x => x ≠ .pinf ∧ x ≠ .ninf
  | .f64 x => x ≠ .pinf ∧ x ≠ .ninf
  | .str s => s.pFloat ≠ some .pinf ∧ s.pFloat ≠ some .ninf ∧ s.pFloat32 ≠ some .pinf ∧ s.pFloat32 ≠ some .ninf
  | .cplx _ _ _ => False     -- complex sources are the known finding `complex-magnitude` (see below)
  | _ => True

theorem stringToFloat_finite (b : Bool) (p : Option F) (r : F) (h : stringToFloat b p = .ok r)
    (hp : p ≠ some .pinf ∧ p ≠ some .ninf) : F.finite r := by
  cases b with
  | true => simp [stringToFloat] at h; subst h; trivial
  | false =>
    cases p with
    | none => simp [stringToFloat] at h
    | some f =>
      cases f with
      | nan => simp [stringToFloat, F.isNaN] at h
      | pinf => exact absurd rfl hp.1
      | ninf => exact absurd rfl hp.2
      | fin a k => simp [stringToFloat, F.isNaN] at h; subst h; trivial

/-- **C17 (float64 target): a finite source never becomes ±Inf**, and NaN never comes out. -/
theorem c17_float64_finite (s : Src) (r : F) (hfin : finiteSrc s) (h : toFloat64 s = .ok r) :
    F.finite r := by
  cases s with
  | int t v => rw [toFloat64_int] at h; injection h with h; subst h; trivial
  | bool b => rw [toFloat64_bool] at h; injection h with h; subst h; trivial
  | f32 x =>
    rw [toFloat64_f32] at h
    cases x <;> simp_all [F.finite, F.isNaN, finiteSrc]
    subst h; trivial
  | f64 x =>
    rw [toFloat64_f64] at h
    cases x <;> simp_all [F.finite, F.isNaN, finiteSrc]
    subst h; trivial
  | str i => rw [toFloat64_str] at h; exact stringToFloat_finite _ _ r h ⟨hfin.1, hfin.2.1⟩
  | big v =>
    rw [toFloat64_big] at h
    obtain ⟨_, a, k, rfl⟩ := finOrOverflow_ok _ _ h
    trivial
  | cplx re im mag => exact absurd hfin id
  | nilptr => cases h
  | other => cases h

/-- **C17 (float32 target): overflow is an error, never ±Inf.** Whatever finite source
    `ToFloat[float32]` accepts, the result is a finite float32 (in particular a float64 beyond
    MaxFloat32, or an integer / big integer / text beyond it, is an error). -/
theorem c17_f32_no_inf (s : Src) (r : F) (hfin : finiteSrc s) (h : toFloat32 s = .ok r) :
    F.finite r := by
  cases s with
  | int t v => rw [toFloat32_int] at h; injection h with h; subst h; trivial
  | f32 x =>
    rw [toFloat32_f32] at h
    cases x <;> simp_all [F.finite, F.isNaN, finiteSrc]
    subst h; trivial
  | str i => rw [toFloat32_str] at h; exact stringToFloat_finite _ _ r h ⟨hfin.2.2.1, hfin.2.2.2⟩
  | big v =>
    rw [toFloat32_big] at h
    obtain ⟨_, a, k, rfl⟩ := finOrOverflow_ok _ _ h
    trivial
  | f64 x =>
    rw [toFloat32_f64, toFloat64_f64] at h
    cases x with
    | nan => simp [F.isNaN, bind, Except.bind] at h
    | pinf => simp [F.isNaN, bind, Except.bind, absGtMaxF32] at h
    | ninf => simp [F.isNaN, bind, Except.bind, absGtMaxF32] at h
    | fin a k =>
      simp only [F.isNaN, bind, Except.bind, Bool.false_eq_true, ↓reduceIte] at h
      by_cases hg : absGtMaxF32 (.fin a k) = true
      · rw [if_pos hg] at h; cases h
      · rw [if_neg hg] at h
        injection h with h; subst h
        exact roundFin_f32_finite a k (by simpa using hg)
  | bool b =>
    rw [toFloat32_bool, toFloat64_bool] at h
    simp only [bind, Except.bind] at h
    by_cases hg : absGtMaxF32 (.fin (boolInt b) 0) = true
    · rw [if_pos hg] at h; cases h
    · rw [if_neg hg] at h
      injection h with h; subst h
      exact roundFin_f32_finite _ 0 (by simpa using hg)
  | cplx re im mag => exact absurd hfin id
  | nilptr => cases h
  | other => cases h

/-- What a successful `ToFloat64` must have returned, source kind by source kind. -/
def float64Post (r : F) : Src → Prop
  | .f64 x => r = x ∧ x ≠ .nan
  | .f32 x => r = x ∧ x ≠ .nan
  | .int _ v => r = .fin (toF64Int v) 0
  | .bool b => r = .fin (boolInt b) 0
  | .str i => (i.blank = true ∧ r = .fin 0 0) ∨ (i.pFloat = some r ∧ r ≠ .nan)
  | .big v => r = bigToF64 v
  | .cplx _ _ mag => r = mag      -- the magnitude: the known finding, not a value-preserving result
  | _ => False

example : finiteSrc (.f64 (.fin 1 1)) ∧ toFloat32 (.f64 (.fin 1 1)) = .ok (.fin 1 1) ∧
    finiteSrc (.f64 (.fin (2 ^ 128) 0)) ∧ toFloat32 (.f64 (.fin (2 ^ 128) 0)) = .error .overflow ∧
    toFloat32 (.int .i64 (2 ^ 60 + 2 ^ 36 + 1)) = .ok (.fin (2 ^ 60 + 2 ^ 37) 0) := by
  refine ⟨by simp [finiteSrc], by decide, by simp [finiteSrc], by decide, by decide⟩

/-- **C17 (float targets, value).** What a successful `ToFloat64` returns: a float is returned
    unchanged (and is not NaN), a bool is 0 or 1, an integer is `toF64Int` (correctly rounded:
    `c17_int_to_f64_nearest`), text is what `ParseFloat` read (not NaN) or 0 for blank text, a
    big integer its (finite: `c17_float64_finite`) nearest float64. -/
theorem c17_float64_sound (s : Src) (r : F) (h : toFloat64 s = .ok r) : float64Post r s := by
  cases s with
  | int t v => rw [toFloat64_int] at h; injection h with h; exact h.symm
  | bool b => rw [toFloat64_bool] at h; injection h with h; exact h.symm
  | f32 x =>
    rw [toFloat64_f32] at h
    cases x <;> simp [F.isNaN] at h <;> subst h <;> simp [float64Post]
  | f64 x =>
    rw [toFloat64_f64] at h
    cases x <;> simp [F.isNaN] at h <;> subst h <;> simp [float64Post]
  | str i =>
    rw [toFloat64_str] at h
    simp only [float64Post]
    cases hb : i.blank with
    | true => rw [hb] at h; simp [stringToFloat] at h; left; exact ⟨rfl, h.symm⟩
    | false =>
      rw [hb] at h
      cases hp : i.pFloat with
      | none => rw [hp] at h; simp [stringToFloat] at h
      | some f =>
        rw [hp] at h
        cases f <;> simp [stringToFloat, F.isNaN] at h <;> subst h <;> simp
  | big v =>
    rw [toFloat64_big] at h
    exact (finOrOverflow_ok _ _ h).1
  | cplx re im mag => injection h with h; exact h.symm
  | nilptr => cases h
  | other => cases h

/-- **C17 (NaN).** A NaN source is an error on every path: as a float64 or float32 value into
    every float helper, into the integer helpers and ToBool, and as text ("NaN" — `ParseFloat`
    returning NaN) into the float helpers. -/
theorem c17_float64_nan_err :
    (∃ e, toFloat64 (.f64 .nan) = .error e) ∧ (∃ e, toFloat64 (.f32 .nan) = .error e) ∧
    (∃ e, toFloatF64 (.f64 .nan) = .error e) ∧ (∃ e, toFloatF64 (.f32 .nan) = .error e) ∧
    (∃ e, toFloat32 (.f32 .nan) = .error e) ∧ (∃ e, toFloat32 (.f64 .nan) = .error e) ∧
    (∃ e, Coerce.toBool (Src.f64 .nan) = .error e) ∧ (∃ e, Coerce.toBool (Src.f32 .nan) = .error e) ∧
    (∀ t, ∃ e, toInteger t (.f64 .nan) = .error e) ∧ (∀ t, ∃ e, toInteger t (.f32 .nan) = .error e) ∧
    (∃ e, toBigInt (.f64 .nan) = .error e) ∧ (∃ e, toBigInt (.f32 .nan) = .error e) ∧
    (∀ i : StrInfo, i.blank = false → i.pFloat = some .nan → ∃ e, toFloat64 (.str i) = .error e) ∧
    (∀ i : StrInfo, i.blank = false → i.pFloat32 = some .nan → ∃ e, toFloat32 (.str i) = .error e) := by
  refine ⟨⟨_, rfl⟩, ⟨_, rfl⟩, ⟨_, rfl⟩, ⟨_, rfl⟩, ⟨_, rfl⟩, ⟨_, rfl⟩, ⟨_, rfl⟩, ⟨_, rfl⟩,
    fun t => ⟨_, rfl⟩, fun t => ⟨_, rfl⟩, ⟨_, rfl⟩, ⟨_, rfl⟩, ?_, ?_⟩
  · intro i hb hp
    refine ⟨.format, ?_⟩
    rw [toFloat64_str]; simp [stringToFloat, hb, hp, F.isNaN]
  · intro i hb hp
    refine ⟨.format, ?_⟩
    rw [toFloat32_str]; simp [stringToFloat, hb, hp, F.isNaN]

/-! ## ToBigInt -/

theorem floatToBig_sound (back : Int → Int) (hback : back (-(2 ^ 63)) = -(2 ^ 63)) (x : F) (n : Int)
    (h : floatToBig back x = .ok n) : ∃ a k, x = .fin a k ∧ a = n * 2 ^ k := by
  unfold floatToBig at h
  cases x with
  | nan => simp [F.cmp] at h
  | pinf => simp [F.cmp] at h
  | ninf => simp [F.cmp] at h
  | fin a k =>
    refine ⟨a, k, rfl, ?_⟩
    have hp : (0 : Int) < 2 ^ k := Int.pow_pos (by decide)
    simp only [F.cmp, Int.pow_zero, Int.mul_one] at h
    split at h
    · rename_i heq
      injection h with h
      injection heq with heq
      rw [Int.compare_eq_eq] at heq
      -- heq : back (cvtI64 x) * 2^k = a ; h : cvtI64 x = n
      generalize hB : back (cvtI64 (.fin a k)) = B at heq
      have ht : F.truncInt a k = B := by
        unfold F.truncInt; rw [← heq]
        exact Int.mul_tdiv_cancel _ (Int.ne_of_gt hp)
      rw [cvtI64_fin] at h hB
      by_cases hr : -(2 ^ 63) ≤ F.truncInt a k ∧ F.truncInt a k < 2 ^ 63
      · rw [if_pos hr] at h
        rw [← heq, ← ht, h]
      · rw [if_neg hr] at hB
        rw [hback] at hB
        omega
    · cases h

theorem toF64Int_min : toF64Int (-(2 ^ 63)) = -(2 ^ 63) := by decide
theorem toF32Int_min : toF32Int (-(2 ^ 63)) = -(2 ^ 63) := by decide

/-- **C17 (big integer).** Whenever `ToBigInt` succeeds the result is exactly the integer the
    source denotes (floats: whole values only; text: what `SetString` read, base 10 or `0x`). -/
theorem c17_bigint_sound (sem : StrSem) (s : Src) (n : Int) (h : toBigInt s = .ok n) :
    denotesInt sem s n := by
  cases s with
  | int t v => simp only [toBigInt] at h; injection h
  | bool b => simp only [toBigInt] at h; injection h
  | f32 x =>
    obtain ⟨a, k, rfl, ha⟩ := floatToBig_sound toF32Int toF32Int_min x n h
    exact ha
  | f64 x =>
    obtain ⟨a, k, rfl, ha⟩ := floatToBig_sound toF64Int toF64Int_min x n h
    exact ha
  | str i =>
    simp only [toBigInt, stringToBig] at h
    by_cases hb : i.blank = true
    · rw [if_pos hb] at h; injection h with h; subst h; exact sem.blank_zero i hb
    · rw [if_neg hb] at h
      cases h10 : i.pBig10 with
      | some j => rw [h10] at h; injection h with h; subst h; exact sem.big10_sound i j h10
      | none =>
        rw [h10] at h
        simp only [] at h
        by_cases hx : i.hexPrefix = true
        · rw [if_pos hx] at h
          cases h16 : i.pBig16 with
          | some j => rw [h16] at h; injection h with h; subst h; exact sem.big16_sound i j hx h16
          | none => rw [h16] at h; cases h
        · rw [if_neg hx] at h; cases h
  | big v => cases h
  | cplx re im mag => cases h
  | nilptr => cases h
  | other => cases h

example : toBigInt (.f64 (.fin (-(2 ^ 63)) 0)) = .ok (-(2 ^ 63)) ∧ toBigInt (.f32 (.fin 12 2)) = .ok 3 ∧
    toBigInt (.f64 (.fin (2 ^ 63) 0)) = .error .notWhole ∧ toBigInt (.f64 (.fin 3 1)) = .error .notWhole ∧
    toBigInt (.int .u64 (2 ^ 64 - 1)) = .ok (2 ^ 64 - 1) := by decide

/-! ## ToBool -/

/-- **C17 (bool): the documented truthy table** for text (after trimming and lowering). -/
theorem c17_bool_table :
    boolTable "true" = some true ∧ boolTable "1" = some true ∧ boolTable "yes" = some true ∧
    boolTable "on" = some true ∧ boolTable "y" = some true ∧
    boolTable "false" = some false ∧ boolTable "0" = some false ∧ boolTable "no" = some false ∧
    boolTable "off" = some false ∧ boolTable "n" = some false ∧ boolTable "" = some false ∧
    boolTable "2" = none ∧ boolTable "t" = none ∧ boolTable "truee" = none := by decide

/-- What a successful `ToBool` must have returned. -/
def boolPost (b : Bool) : Src → Prop
  | .bool b' => b = b'
  | .int _ v => (b = true ↔ v ≠ 0)
  | .f32 (.fin a _) => (b = true ↔ a ≠ 0)
  | .f64 (.fin a _) => (b = true ↔ a ≠ 0)
  | .f32 .pinf | .f32 .ninf | .f64 .pinf | .f64 .ninf => b = true
  | .str i => boolTable i.norm = some b
  | _ => False

/-- **C17 (bool).** A bool is returned unchanged; a number is true exactly when it is not zero
    (NaN is an error); text goes through the table. -/
theorem c17_bool_sound (s : Src) (b : Bool) (h : Coerce.toBool s = .ok b) : boolPost b s := by
  cases s with
  | bool b' => simp only [Coerce.toBool] at h; injection h with h; exact h.symm
  | int t v => simp only [Coerce.toBool] at h; injection h with h; subst h; simp [boolPost]
  | f32 x => cases x <;> cases b <;> simp_all [Coerce.toBool, F.isNaN, isZero, boolPost]
  | f64 x => cases x <;> cases b <;> simp_all [Coerce.toBool, F.isNaN, isZero, boolPost]
  | str i =>
    simp only [Coerce.toBool] at h
    simp only [boolPost]
    cases hb : boolTable i.norm with
    | none => rw [hb] at h; cases h
    | some b' => rw [hb] at h; injection h with h; subst h; rfl
  | big v => cases h
  | cplx re im mag => cases h
  | nilptr => cases h
  | other => cases h

example : Coerce.toBool (.int .i8 (-2)) = .ok true ∧ Coerce.toBool (.f64 (.fin 0 1074)) = .ok false ∧
    Coerce.toBool (.f32 .ninf) = .ok true ∧ Coerce.toBool (.str { seven with norm := "yes" }) = .ok true ∧
    Coerce.toBool (.str seven) = .error .format := by decide

/-! ## coercing schemas: `Proofs/C17Schema.lean` (over `Model/CoerceSchema.lean`, round 4c) -/

theorem to_int (f g : F → List Nat) (ty : IntTy) (s : Src) :
    to f g (.int ty) s = Val.int <$> toInteger ty s := by
  cases ty <;> first | rfl | (rw [c17_integer_i64_eq]; rfl)

/-- Integer sources into integer targets: the conversion succeeds exactly when the value is in
    the target's range — except that `uint`/`uint64` values above MaxInt64 always fail (the
    intermediate is an int64): the only spurious failures for integer sources. -/
theorem toInteger_int_iff (t t' : IntTy) (v : Int) (hv : t'.inRange v) :
    toInteger t (.int t' v) = .ok v ↔ (t.inRange v ∧ v ≤ 2 ^ 63 - 1) := by
  have h64 : toInt64 (.int t' v) = if v ≤ 2 ^ 63 - 1 then .ok v else .error .overflow := by
    by_cases hle : v ≤ 2 ^ 63 - 1
    · rw [if_pos hle]
      cases t' <;> simp only [toInt64, intToInt64] <;> rw [if_neg (by omega)]
    · rw [if_neg hle]
      cases t' <;> simp [IntTy.inRange, IntTy.lo, IntTy.hi, IntTy.signed, IntTy.bits] at hv <;>
        first | omega | (simp only [toInt64, intToInt64]; rw [if_pos (by omega)])
  have hlo : -(2 ^ 63) ≤ v := by
    cases t' <;> simp [IntTy.inRange, IntTy.lo, IntTy.hi, IntTy.signed, IntTy.bits] at hv <;> omega
  clear hv
  rw [toInteger_nonbool t _ (by intro b h; cases h), h64]
  by_cases hle : v ≤ 2 ^ 63 - 1
  · rw [if_pos hle]
    simp only [bind, Except.bind]
    cases t <;> simp only [checkBounds, IntTy.inRange, IntTy.lo, IntTy.hi, IntTy.signed, IntTy.bits,
        Bool.false_eq_true, ↓reduceIte] <;>
      (repeat' split) <;> simp <;> omega
  · rw [if_neg hle]
    simp only [bind, Except.bind]
    constructor
    · intro h; cases h
    · intro ⟨_, h⟩; exact absurd h hle

/-! ## known finding `complex-magnitude` (full statement, partial theorem, witness) -/

/-- The full statement for float targets: a successful `ToFloat64` of a source that denotes a
    real number `x` returns `x` itself (for integers: correctly rounded — stated separately). -/
def c17_float64_full : Prop :=
  ∀ (s : Src) (x r : F), (s = .f64 x ∨ s = .f32 x ∨ ∃ im mag k, s = .cplx x (.fin 0 k) mag ∧ im = F.fin 0 k) →
    toFloat64 s = .ok r → r = x

/-- Partial: true for every float source (the excluded region is exactly the complex sources). -/
theorem c17_float64_partial (x r : F) :
    (toFloat64 (.f64 x) = .ok r → r = x) ∧ (toFloat64 (.f32 x) = .ok r → r = x) :=
  ⟨fun h => (c17_float64_sound _ r h).1, fun h => (c17_float64_sound _ r h).1⟩

/-- Witness: the full statement is false on complex sources — `complex(-3, 0)` (the code computes
    `math.Sqrt(9 + 0) = 3`) comes out as `3`. -/
theorem complex_magnitude_witness : ¬ c17_float64_full := by
  intro h
  have := h (.cplx (.fin (-3) 0) (.fin 0 0) (.fin 3 0)) (.fin (-3) 0) (.fin 3 0)
    (Or.inr (Or.inr ⟨.fin 0 0, .fin 3 0, 0, rfl, rfl⟩)) rfl
  revert this; decide

/-! ## the pinned commit violates the property (witnesses) -/

/-- Pinned `ToInt64(float64(1<<63))`: passes `x > math.MaxInt64` (the constant rounds to 2^63)
    and wraps to MinInt64; the fixed code reports overflow. -/
theorem legacy_int64_wraps_f64 :
    Legacy.toInt64F64 (.fin (2 ^ 63) 0) = .ok (-(2 ^ 63)) ∧
    toInt64 (.f64 (.fin (2 ^ 63) 0)) = .error .overflow := by decide

/-- Pinned `ToInt64(float32)` has no range test: 2^100 and +Inf become MinInt64. -/
theorem legacy_int64_wraps_f32 :
    Legacy.toInt64F32 (.fin (2 ^ 100) 0) = .ok (-(2 ^ 63)) ∧ Legacy.toInt64F32 .pinf = .ok (-(2 ^ 63)) ∧
    toInt64 (.f32 (.fin (2 ^ 100) 0)) = .error .overflow ∧ toInt64 (.f32 .pinf) = .error .overflow := by
  decide

/-- Pinned `ToInteger[T](float32)` has no wholeness test: 1.5 → 1, and −0.5 → 0 into uint8. -/
theorem legacy_integer_truncates :
    Legacy.toIntegerF32 .i32 (.fin 3 1) = .ok 1 ∧ Legacy.toIntegerF32 .u8 (.fin (-1) 1) = .ok 0 ∧
    toInteger .i32 (.f32 (.fin 3 1)) = .error .notWhole ∧
    toInteger .u8 (.f32 (.fin (-1) 1)) = .error .notWhole := by decide

/-- Pinned `ToInteger[int64]`: a float32 NaN and float64 2^63 become MinInt64. -/
theorem legacy_integer_nan :
    Legacy.toIntegerF32 .i64 .nan = .ok (-(2 ^ 63)) ∧
    Legacy.toIntegerF64 .i64 (.fin (2 ^ 63) 0) = .ok (-(2 ^ 63)) ∧
    toInteger .i64 (.f32 .nan) = .error .notWhole := by decide

/-- So the soundness statement proved above for the fixed code is false for the pinned code. -/
theorem legacy_not_sound :
    ¬ ∀ x n, Legacy.toInt64F64 x = .ok n → ∃ a k, x = .fin a k ∧ a = n * 2 ^ k := by
  intro h
  obtain ⟨a, k, he, ha⟩ := h (.fin (2 ^ 63) 0) (-(2 ^ 63)) (by decide)
  injection he with h1 h2
  subst h1; subst h2
  revert ha; decide

end Gozod.C17
