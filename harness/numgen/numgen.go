// Package numgen is the translator of the C16/C17 checks: a go/ast pass over
// pkg/validate/validate.go, internal/checks/numeric.go, types/integer.go, types/float.go and
// pkg/coerce/coerce.go of the library's *working tree* that writes the dispatch tables
// lean/Gozod/Gen/NumDispatch.lean and lean/Gozod/Gen/CoerceDispatch.lean (terms of the language
// defined in lean/Gozod/Model/Dispatch.lean).
//
// Per function it extracts the ordered clauses of the type switch (Go source types), the guards
// of each clause with every constant evaluated by go/constant, and what the clause returns
// (conversion, helper, library call with its literal arguments).  What it cannot express in the
// structured language is emitted as `.raw "<canonical Go text>"` — the Lean side gives meaning
// to the texts it knows and a proof obligation fails on any other.
package numgen

import (
	"bytes"
	"fmt"
	"go/ast"
	"go/constant"
	"go/parser"
	"go/printer"
	"go/token"
	"math"
	"math/big"
	"os"
	"path/filepath"
	"regexp"
	"sort"
	"strconv"
	"strings"
)

// ---------------------------------------------------------------------------------------------
// generic helpers

type file struct {
	fset *token.FileSet
	f    *ast.File
	path string
}

func parse(repo, rel string) (*file, error) {
	fset := token.NewFileSet()
	p := filepath.Join(repo, rel)
	f, err := parser.ParseFile(fset, p, nil, parser.SkipObjectResolution)
	if err != nil {
		return nil, err
	}
	return &file{fset, f, rel}, nil
}

func (f *file) fn(name string) (*ast.FuncDecl, error) {
	for _, d := range f.f.Decls {
		if fd, ok := d.(*ast.FuncDecl); ok && fd.Recv == nil && fd.Name.Name == name {
			return fd, nil
		}
	}
	return nil, fmt.Errorf("%s: func %s not found", f.path, name)
}

// methods returns the methods of receiver type recv (by base type name), in source order.
func (f *file) methods(recv string) []*ast.FuncDecl {
	var out []*ast.FuncDecl
	for _, d := range f.f.Decls {
		fd, ok := d.(*ast.FuncDecl)
		if !ok || fd.Recv == nil || len(fd.Recv.List) != 1 {
			continue
		}
		t := fd.Recv.List[0].Type
		if s, ok := t.(*ast.StarExpr); ok {
			t = s.X
		}
		switch x := t.(type) {
		case *ast.IndexListExpr:
			t = x.X
		case *ast.IndexExpr:
			t = x.X
		}
		if id, ok := t.(*ast.Ident); ok && id.Name == recv {
			out = append(out, fd)
		}
	}
	return out
}

var wsRe = regexp.MustCompile(`\s+`)

// text prints a node canonically: go/printer, all white space collapsed to one blank.
func (f *file) text(n any) string {
	var b bytes.Buffer
	switch x := n.(type) {
	case []ast.Stmt:
		parts := make([]string, 0, len(x))
		for _, s := range x {
			parts = append(parts, f.text(s))
		}
		return strings.Join(parts, "; ")
	default:
		_ = printer.Fprint(&b, token.NewFileSet(), n)
	}
	return strings.TrimSpace(wsRe.ReplaceAllString(b.String(), " "))
}

func leanStr(s string) string {
	s = strings.ReplaceAll(s, `\`, `\\`)
	s = strings.ReplaceAll(s, `"`, `\"`)
	return `"` + s + `"`
}

func leanStrs(xs []string) string {
	q := make([]string, len(xs))
	for i, x := range xs {
		q[i] = leanStr(x)
	}
	return "[" + strings.Join(q, ", ") + "]"
}

func leanInt(n *big.Int) string {
	if n.Sign() < 0 {
		return "(" + n.String() + ")"
	}
	return n.String()
}

// WriteIfChanged rewrites path only when the content differs.
func WriteIfChanged(path, content string) (bool, error) {
	old, err := os.ReadFile(path)
	if err == nil && string(old) == content {
		return false, nil
	}
	tmp := path + ".tmp"
	if err := os.WriteFile(tmp, []byte(content), 0o644); err != nil {
		return false, err
	}
	return true, os.Rename(tmp, path)
}

// ---------------------------------------------------------------------------------------------
// constants

var mathConsts = map[string]constant.Value{
	"MaxInt8": constant.MakeInt64(math.MaxInt8), "MinInt8": constant.MakeInt64(math.MinInt8),
	"MaxInt16": constant.MakeInt64(math.MaxInt16), "MinInt16": constant.MakeInt64(math.MinInt16),
	"MaxInt32": constant.MakeInt64(math.MaxInt32), "MinInt32": constant.MakeInt64(math.MinInt32),
	"MaxInt64": constant.MakeInt64(math.MaxInt64), "MinInt64": constant.MakeInt64(math.MinInt64),
	"MaxInt": constant.MakeInt64(math.MaxInt64), "MinInt": constant.MakeInt64(math.MinInt64),
	"MaxUint8": constant.MakeUint64(math.MaxUint8), "MaxUint16": constant.MakeUint64(math.MaxUint16),
	"MaxUint32": constant.MakeUint64(math.MaxUint32), "MaxUint64": constant.MakeUint64(math.MaxUint64),
	"MaxUint":    constant.MakeUint64(math.MaxUint64),
	"MaxFloat32": constant.MakeFromLiteral("0x1p127 * (1 + (1 - 0x1p-23))", token.FLOAT, 0),
	"MaxFloat64": constant.MakeFromLiteral("0x1p1023 * (1 + (1 - 0x1p-52))", token.FLOAT, 0),
}

func init() {
	// the two float limits, exactly
	m32 := new(big.Float).SetFloat64(math.MaxFloat32)
	m64 := new(big.Float).SetFloat64(math.MaxFloat64)
	mathConsts["MaxFloat32"] = constant.Make(m32)
	mathConsts["MaxFloat64"] = constant.Make(m64)
}

type ctx struct {
	f        *file
	consts   map[string]constant.Value // local constants (const decls and := of constant expressions)
	alias    map[string]string         // local names that stand for a term over the scrutinee ("self", "trunc", …)
	retFloat bool                      // the function returns a float: integer constants it returns are floats
	class    string                    // class of the scrutinee in this clause: int | uint | float32 | float64 | float | bool | string | big | other
}

func (c *ctx) clone() *ctx {
	n := &ctx{f: c.f, consts: map[string]constant.Value{}, alias: map[string]string{}, class: c.class, retFloat: c.retFloat}
	for k, v := range c.consts {
		n.consts[k] = v
	}
	for k, v := range c.alias {
		n.alias[k] = v
	}
	return n
}

func isConv(name string) bool {
	switch name {
	case "int", "int8", "int16", "int32", "int64", "uint", "uint8", "uint16", "uint32", "uint64", "uintptr", "float32", "float64":
		return true
	}
	return false
}

// constVal evaluates a constant expression (amd64: int/uint are 64 bits).
func (c *ctx) constVal(e ast.Expr) (constant.Value, bool) {
	switch x := e.(type) {
	case *ast.ParenExpr:
		return c.constVal(x.X)
	case *ast.BasicLit:
		if x.Kind == token.INT || x.Kind == token.FLOAT {
			v := constant.MakeFromLiteral(x.Value, x.Kind, 0)
			return v, v.Kind() != constant.Unknown
		}
	case *ast.Ident:
		v, ok := c.consts[x.Name]
		return v, ok
	case *ast.SelectorExpr:
		if id, ok := x.X.(*ast.Ident); ok && id.Name == "math" {
			v, ok := mathConsts[x.Sel.Name]
			return v, ok
		}
	case *ast.UnaryExpr:
		v, ok := c.constVal(x.X)
		if !ok {
			return nil, false
		}
		switch x.Op {
		case token.SUB:
			return constant.UnaryOp(token.SUB, v, 0), true
		case token.XOR:
			// ^uint(0): the operand's type decides the width; only the 64-bit unsigned form is used
			if call, ok := x.X.(*ast.CallExpr); ok {
				if id, ok := call.Fun.(*ast.Ident); ok && (id.Name == "uint" || id.Name == "uint64") {
					return constant.UnaryOp(token.XOR, v, 64), true
				}
			}
		}
	case *ast.BinaryExpr:
		a, ok1 := c.constVal(x.X)
		b, ok2 := c.constVal(x.Y)
		if !ok1 || !ok2 {
			return nil, false
		}
		switch x.Op {
		case token.SHL, token.SHR:
			n, ok := constant.Uint64Val(constant.ToInt(b))
			if !ok {
				return nil, false
			}
			return constant.Shift(constant.ToInt(a), x.Op, uint(n)), true
		case token.ADD, token.SUB, token.MUL:
			return constant.BinaryOp(a, x.Op, b), true
		}
	case *ast.CallExpr:
		if id, ok := x.Fun.(*ast.Ident); ok && isConv(id.Name) && len(x.Args) == 1 {
			return c.constVal(x.Args[0])
		}
	}
	return nil, false
}

// dyadic renders a constant as `a k` (the rational a / 2^k); a float constant that is not dyadic
// is first rounded to float64 (that is what Go does when the constant meets a float64 operand).
func dyadic(v constant.Value) (string, bool) {
	if i := constant.ToInt(v); i.Kind() == constant.Int {
		n, ok := new(big.Int).SetString(i.ExactString(), 10)
		if !ok {
			return "", false
		}
		return leanInt(n) + " 0", true
	}
	f, _ := constant.Float64Val(v)
	if math.IsInf(f, 0) || math.IsNaN(f) {
		return "", false
	}
	r := new(big.Rat).SetFloat64(f)
	k := r.Denom().BitLen() - 1
	return leanInt(r.Num()) + " " + strconv.Itoa(k), true
}

// ---------------------------------------------------------------------------------------------
// terms, conditions, results

func unparen(e ast.Expr) ast.Expr {
	for {
		p, ok := e.(*ast.ParenExpr)
		if !ok {
			return e
		}
		e = p.X
	}
}

// reflectGet recognises reflect.ValueOf(A).Int() / .Uint() / .Float() and returns A.
func reflectGet(e ast.Expr) (ast.Expr, bool) {
	call, ok := e.(*ast.CallExpr)
	if !ok || len(call.Args) != 0 {
		return nil, false
	}
	sel, ok := call.Fun.(*ast.SelectorExpr)
	if !ok || (sel.Sel.Name != "Int" && sel.Sel.Name != "Uint" && sel.Sel.Name != "Float") {
		return nil, false
	}
	in, ok := sel.X.(*ast.CallExpr)
	if !ok || len(in.Args) != 1 {
		return nil, false
	}
	s2, ok := in.Fun.(*ast.SelectorExpr)
	if !ok || s2.Sel.Name != "ValueOf" {
		return nil, false
	}
	if id, ok := s2.X.(*ast.Ident); !ok || id.Name != "reflect" {
		return nil, false
	}
	return in.Args[0], true
}

func pkgCall(e ast.Expr, pkg, name string) ([]ast.Expr, bool) {
	call, ok := e.(*ast.CallExpr)
	if !ok {
		return nil, false
	}
	sel, ok := call.Fun.(*ast.SelectorExpr)
	if !ok || sel.Sel.Name != name {
		return nil, false
	}
	if id, ok := sel.X.(*ast.Ident); !ok || id.Name != pkg {
		return nil, false
	}
	return call.Args, true
}

func convCall(e ast.Expr) (string, ast.Expr, bool) {
	call, ok := e.(*ast.CallExpr)
	if !ok || len(call.Args) != 1 {
		return "", nil, false
	}
	id, ok := call.Fun.(*ast.Ident)
	if !ok || !isConv(id.Name) {
		return "", nil, false
	}
	return id.Name, call.Args[0], true
}

// isSelf: does e denote the scrutinee's value without changing it?
func (c *ctx) isSelf(e ast.Expr) bool {
	e = unparen(e)
	if id, ok := e.(*ast.Ident); ok {
		return c.alias[id.Name] == "self"
	}
	if a, ok := reflectGet(e); ok {
		return c.isSelf(a)
	}
	if u, ok := e.(*ast.UnaryExpr); ok && u.Op == token.AND { // &x handed to a *big.Int parameter
		return c.isSelf(u.X)
	}
	if t, a, ok := convCall(e); ok && c.isSelf(a) {
		switch {
		case t == "float64" && strings.HasPrefix(c.class, "float"): // widening is exact
			return true
		case (t == "uint64" || t == "uint") && (c.class == "uint" || c.class == "int64nonneg"):
			return true
		case t == "int64" && c.class == "int":
			return true
		}
	}
	return false
}

func (c *ctx) term(e ast.Expr) string {
	e = unparen(e)
	if v, ok := c.constVal(e); ok {
		if d, ok := dyadic(v); ok {
			return "(.c " + d + ")"
		}
	}
	if id, ok := e.(*ast.Ident); ok {
		if a, ok := c.alias[id.Name]; ok {
			return "." + a
		}
	}
	if c.isSelf(e) {
		return ".self"
	}
	if args, ok := pkgCall(e, "math", "Trunc"); ok && len(args) == 1 && c.isSelf(args[0]) {
		return ".trunc"
	}
	if args, ok := pkgCall(e, "math", "Abs"); ok && len(args) == 1 && c.isSelf(args[0]) {
		return ".abs"
	}
	if t, a, ok := convCall(e); ok && (t == "float64" || t == "float32") {
		if t2, a2, ok := convCall(unparen(a)); ok && t2 == "int64" && c.isSelf(a2) {
			if t == "float64" {
				return "(.back 53)"
			}
			return "(.back 24)"
		}
	}
	return "(.unknown " + leanStr(c.f.text(e)) + ")"
}

var relOf = map[token.Token]string{token.LSS: ".lt", token.LEQ: ".le", token.GTR: ".gt", token.GEQ: ".ge", token.EQL: ".eq", token.NEQ: ".ne"}

func (c *ctx) cond(e ast.Expr) string {
	e = unparen(e)
	switch x := e.(type) {
	case *ast.BinaryExpr:
		switch x.Op {
		case token.LOR:
			return "(.or " + c.cond(x.X) + " " + c.cond(x.Y) + ")"
		case token.LAND:
			return "(.and " + c.cond(x.X) + " " + c.cond(x.Y) + ")"
		}
		if r, ok := relOf[x.Op]; ok {
			if x.Op == token.EQL && isNil(x.Y) && c.isSelf(x.X) {
				return ".isNil"
			}
			if lit, ok := unparen(x.Y).(*ast.BasicLit); ok && lit.Kind == token.STRING && lit.Value == `""` && x.Op == token.EQL {
				if id, ok := unparen(x.X).(*ast.Ident); ok && c.alias[id.Name] == "trimmed" {
					return ".isBlank"
				}
			}
			return "(.rel " + r + " " + c.term(x.X) + " " + c.term(x.Y) + ")"
		}
	case *ast.UnaryExpr:
		if x.Op == token.NOT {
			return "(.not " + c.cond(x.X) + ")"
		}
	case *ast.CallExpr:
		if args, ok := pkgCall(x, "math", "IsNaN"); ok && len(args) == 1 && c.isSelf(args[0]) {
			return ".isNaN"
		}
		if args, ok := pkgCall(x, "math", "IsInf"); ok && len(args) == 2 && c.isSelf(args[0]) {
			if v, ok := c.constVal(args[1]); ok {
				switch constant.Sign(v) {
				case 0:
					return ".isInf"
				case 1:
					return ".isPInf"
				default:
					return ".isNInf"
				}
			}
		}
	case *ast.Ident:
		if c.alias[x.Name] == "self" && c.class == "bool" {
			return ".isTrue"
		}
	}
	return "(.unknown " + leanStr(c.f.text(e)) + ")"
}

var errClass = map[string]string{
	"NewOverflowError": ".overflow", "NewNotWholeError": ".notWhole", "NewFormatError": ".format",
	"NewUnsupportedError": ".unsupported", "NewNegativeError": ".negative", "NewNilPointerError": ".nilPtr",
	"NewEmptyInputError": ".format",
}

// errOf classifies the error expression of a failing return.
func (c *ctx) errOf(e ast.Expr) (string, bool) {
	call, ok := unparen(e).(*ast.CallExpr)
	if !ok {
		return "", false
	}
	if id, ok := call.Fun.(*ast.Ident); ok {
		cl, ok := errClass[id.Name]
		return cl, ok
	}
	if _, ok := pkgCall(call, "fmt", "Errorf"); ok && strings.Contains(c.f.text(call), "ErrNilPointer") {
		return ".nilPtr", true
	}
	return "", false
}

func isNil(e ast.Expr) bool {
	id, ok := unparen(e).(*ast.Ident)
	return ok && id.Name == "nil"
}

// value translates the value expression of a successful return.
func (c *ctx) value(e ast.Expr) string {
	e = unparen(e)
	if v, ok := c.constVal(e); ok {
		if i := constant.ToInt(v); i.Kind() == constant.Int {
			n, _ := new(big.Int).SetString(i.ExactString(), 10)
			if c.retFloat {
				return "(.litF " + leanInt(n) + ")"
			}
			return "(.lit " + leanInt(n) + ")"
		}
	}
	if c.isSelf(e) {
		return ".self"
	}
	isF := strings.HasPrefix(c.class, "float")
	isI := c.class == "int" || c.class == "uint"
	if t, a, ok := convCall(e); ok && c.isSelf(a) {
		switch {
		case t == "int64" && isF:
			return ".toI64"
		case t == "int64" && c.class == "uint": // after the MaxInt64 guard (or a narrow unsigned type)
			return ".self"
		case t == "float64" && isI:
			return "(.toF 53)"
		case t == "float32" && isI:
			return "(.toF 24)"
		case t == "float32" && isF:
			return ".narrow32"
		}
	}
	if b, ok := e.(*ast.BinaryExpr); ok && b.Op == token.NEQ && c.isSelf(b.X) {
		if v, ok := c.constVal(b.Y); ok && constant.Sign(v) == 0 {
			return ".ne0"
		}
	}
	// *big.Int constructors
	if args, ok := pkgCall(e, "big", "NewInt"); ok && len(args) == 1 {
		return c.value(args[0])
	}
	if call, ok := e.(*ast.CallExpr); ok && len(call.Args) == 1 {
		if sel, ok := call.Fun.(*ast.SelectorExpr); ok && (sel.Sel.Name == "SetUint64" || sel.Sel.Name == "Set") && c.f.text(sel.X) == "new(big.Int)" && c.isSelf(call.Args[0]) {
			return ".self"
		}
	}
	// library formatting calls with literal arguments
	if call, ok := e.(*ast.CallExpr); ok {
		name := c.f.text(call.Fun)
		if strings.HasPrefix(name, "strconv.Format") || name == "strconv.Itoa" || name == "x.String" {
			var lits []string
			self := len(call.Args) == 0
			for i, a := range call.Args {
				if i == 0 && c.isSelf(a) {
					self = true
					continue
				}
				if v, ok := c.constVal(a); ok {
					lits = append(lits, constant.ToInt(v).ExactString())
				} else if bl, ok := unparen(a).(*ast.BasicLit); ok && bl.Kind == token.CHAR {
					r, _, _, _ := strconv.UnquoteChar(bl.Value[1:len(bl.Value)-1], '\'')
					lits = append(lits, strconv.Itoa(int(r)))
				} else {
					self = false
				}
			}
			if self {
				return "(.fmt " + leanStr(name) + " [" + strings.Join(lits, ", ") + "])"
			}
		}
	}
	return "(.unknown " + leanStr(c.f.text(e)) + ")"
}

// helperCall recognises `fn(x)`, `fn(float64(x))`, `fn(&x)`, `fn(x, 32)` and returns the helper's name
// (with literal extra arguments appended as "/32").
func (c *ctx) helperCall(e ast.Expr) (string, bool) {
	call, ok := unparen(e).(*ast.CallExpr)
	if !ok || len(call.Args) == 0 {
		return "", false
	}
	id, ok := call.Fun.(*ast.Ident)
	if !ok || isConv(id.Name) || !c.isSelf(call.Args[0]) {
		return "", false
	}
	name := id.Name
	for _, a := range call.Args[1:] {
		v, ok := c.constVal(a)
		if !ok {
			return "", false
		}
		name += "/" + constant.ToInt(v).ExactString()
	}
	return name, true
}

// libParse recognises `r, err := pkg.Fn(trimmed, lits…); if err != nil [|| math.IsNaN(r)] { return 0, NewFormatError(…) }; return r, nil`.
func (c *ctx) libParse(stmts []ast.Stmt) (string, bool) {
	if len(stmts) != 3 {
		return "", false
	}
	as, ok := stmts[0].(*ast.AssignStmt)
	if !ok || as.Tok != token.DEFINE || len(as.Lhs) != 2 || len(as.Rhs) != 1 || c.f.text(as.Lhs[1]) != "err" {
		return "", false
	}
	r := c.f.text(as.Lhs[0])
	call, ok := as.Rhs[0].(*ast.CallExpr)
	if !ok || len(call.Args) == 0 {
		return "", false
	}
	if id, ok := unparen(call.Args[0]).(*ast.Ident); !ok || c.alias[id.Name] != "trimmed" {
		return "", false
	}
	var lits []string
	for _, a := range call.Args[1:] {
		v, ok := c.constVal(a)
		if !ok {
			return "", false
		}
		lits = append(lits, constant.ToInt(v).ExactString())
	}
	ifs, ok := stmts[1].(*ast.IfStmt)
	if !ok || ifs.Init != nil || ifs.Else != nil || len(ifs.Body.List) != 1 {
		return "", false
	}
	ret, ok := ifs.Body.List[0].(*ast.ReturnStmt)
	if !ok || len(ret.Results) != 2 {
		return "", false
	}
	if e, ok := c.errOf(ret.Results[1]); !ok || e != ".format" {
		return "", false
	}
	name := c.f.text(call.Fun)
	switch c.f.text(ifs.Cond) {
	case "err != nil":
	case "err != nil || math.IsNaN(" + r + ")":
		name += "!NaN"
	default:
		return "", false
	}
	last, ok := stmts[2].(*ast.ReturnStmt)
	if !ok || len(last.Results) != 2 || c.f.text(last.Results[0]) != r || !isNil(last.Results[1]) {
		return "", false
	}
	return "(.lib " + leanStr(name) + " [" + strings.Join(lits, ", ") + "])", true
}

type branch struct {
	types  []string
	guards []string
	res    string
	after  string
}

func (b branch) lean() string {
	s := "{ types := " + leanStrs(b.types) + ", guards := [" + strings.Join(b.guards, ", ") + "], res := " + b.res
	if b.after != "" {
		s += ", after := " + leanStr(b.after)
	}
	return s + " }"
}

// clause translates the statements of one case clause. `after` is the function the value goes
// on to when the clause does not end in a return.
func (c *ctx) clause(stmts []ast.Stmt, after string) (guards []string, res string, aft string) {
	i := 0
	raw := func() ([]string, string, string) { // the guards translated so far are kept; the rest is text
		return guards, "(.raw " + leanStr(c.f.text(stmts[i:])) + ")", ""
	}
	for ; i < len(stmts); i++ {
		last := i == len(stmts)-1
		switch s := stmts[i].(type) {
		case *ast.ReturnStmt:
			if !last {
				return raw()
			}
			switch len(s.Results) {
			case 1:
				if h, ok := c.helperCall(s.Results[0]); ok {
					return guards, "(.call " + leanStr(h) + ")", ""
				}
			case 2:
				if isNil(s.Results[1]) {
					v := c.value(s.Results[0])
					if strings.HasPrefix(v, "(.unknown ") {
						return raw()
					}
					return guards, v, ""
				}
				if e, ok := c.errOf(s.Results[1]); ok {
					return guards, "(.fail " + e + ")", ""
				}
			}
			return raw()
		case *ast.IfStmt:
			if s.Init != nil || s.Else != nil || len(s.Body.List) != 1 {
				return raw()
			}
			ret, ok := s.Body.List[0].(*ast.ReturnStmt)
			if !ok {
				return raw()
			}
			if len(ret.Results) == 1 { // checkIntegerTypeBounds: `return NewOverflowError(…)`
				e, ok := c.errOf(ret.Results[0])
				if !ok {
					return raw()
				}
				guards = append(guards, "{ cond := "+c.cond(s.Cond)+", out := .fail "+e+" }")
				continue
			}
			if len(ret.Results) != 2 {
				return raw()
			}
			// if x { return 1, nil }; return 0, nil
			if c.cond(s.Cond) == ".isTrue" && isNil(ret.Results[1]) && i+1 == len(stmts)-1 {
				if r2, ok := stmts[i+1].(*ast.ReturnStmt); ok && len(r2.Results) == 2 && isNil(r2.Results[1]) {
					a, b := c.value(ret.Results[0]), c.value(r2.Results[0])
					if strings.HasPrefix(a, "(.lit ") && strings.HasPrefix(b, "(.lit ") {
						return guards, "(.ifTrue " + a[6:len(a)-1] + " " + b[6:len(b)-1] + ")", ""
					}
					if strings.HasPrefix(a, "(.litF ") && strings.HasPrefix(b, "(.litF ") {
						return guards, "(.ifTrueF " + a[7:len(a)-1] + " " + b[7:len(b)-1] + ")", ""
					}
				}
				return raw()
			}
			// `if err != nil { return zero, err }` after a helper call: error propagation, implicit in `.call`
			if c.f.text(s.Cond) == "err != nil" && c.f.text(ret.Results[1]) == "err" {
				continue
			}
			if isNil(ret.Results[1]) { // an early successful return: `if trimmed == "" { return 0, nil }`
				v := c.value(ret.Results[0])
				if strings.HasPrefix(v, "(.unknown ") {
					return raw()
				}
				guards = append(guards, "{ cond := "+c.cond(s.Cond)+", out := "+v+" }")
				continue
			}
			e, ok := c.errOf(ret.Results[1])
			if !ok {
				return raw()
			}
			guards = append(guards, "{ cond := "+c.cond(s.Cond)+", out := .fail "+e+" }")
		case *ast.AssignStmt:
			// i, err := strconv.ParseInt(trimmed, 10, 64); if err != nil [|| math.IsNaN(f)] { return 0, NewFormatError(…) }; return i, nil
			if lib, ok := c.libParse(stmts[i:]); ok {
				return guards, lib, ""
			}
			if len(s.Lhs) == 1 && len(s.Rhs) == 1 {
				name := c.f.text(s.Lhs[0])
				if v, ok := c.constVal(s.Rhs[0]); ok && s.Tok == token.DEFINE {
					c.consts[name] = v
					continue
				}
				if s.Tok == token.DEFINE && c.isSelf(s.Rhs[0]) {
					c.alias[name] = "self"
					continue
				}
				if s.Tok == token.DEFINE {
					if t := c.term(s.Rhs[0]); t == ".trunc" {
						c.alias[name] = "trunc"
						continue
					}
				}
				if s.Tok == token.ASSIGN && name == "val" && last {
					return guards, c.value(s.Rhs[0]), after
				}
			}
			// val, err = helper(x)   (followed by the error propagation)
			if len(s.Lhs) == 2 && len(s.Rhs) == 1 && c.f.text(s.Lhs[0]) == "val" && c.f.text(s.Lhs[1]) == "err" {
				if h, ok := c.helperCall(s.Rhs[0]); ok && i+1 == len(stmts)-1 {
					if ifs, ok := stmts[i+1].(*ast.IfStmt); ok && c.f.text(ifs.Cond) == "err != nil" {
						return guards, "(.call " + leanStr(h) + ")", after
					}
				}
			}
			return raw()
		default:
			return raw()
		}
	}
	// no return: the value of the scrutinee goes on
	return guards, ".self", after
}

func classOf(types []string) string {
	cl := ""
	for _, t := range types {
		var k string
		switch t {
		case "int", "int8", "int16", "int32", "int64":
			k = "int"
		case "uint", "uint8", "uint16", "uint32", "uint64", "uintptr":
			k = "uint"
		case "float32", "float64":
			k = "float"
		case "bool":
			k = "bool"
		case "string":
			k = "string"
		case "big.Int", "*big.Int":
			k = "big"
		default:
			k = "other"
		}
		if cl == "" {
			cl = k
		} else if cl != k {
			return "other"
		}
	}
	return cl
}

type table struct {
	name     string
	deref    bool
	branches []branch
	dflt     branch
	frame    string // the function's text with the switch replaced by «switch»
}

func (t table) lean() string {
	var b strings.Builder
	fmt.Fprintf(&b, "def %s : Table :=\n  { name := %s, deref := %v,\n    branches := [\n", t.name, leanStr(t.name), t.deref)
	for i, br := range t.branches {
		sep := ","
		if i == len(t.branches)-1 {
			sep = ""
		}
		fmt.Fprintf(&b, "      %s%s\n", br.lean(), sep)
	}
	fmt.Fprintf(&b, "    ],\n    dflt := %s }\n\n", t.dflt.lean())
	fmt.Fprintf(&b, "/-- `%s` outside its type switch. -/\ndef %s_frame : String :=\n  %s\n\n", t.name, t.name, leanStr(t.frame))
	return b.String()
}

// typeSwitchTable translates `func name(v any) …` whose body is: Deref preamble, one type switch over
// the dereferenced value, optionally a tail.
func typeSwitchTable(f *file, name, after string) (table, error) {
	fd, err := f.fn(name)
	if err != nil {
		return table{}, err
	}
	t := table{name: name}
	var frame []string
	found := false
	base := &ctx{f: f, consts: map[string]constant.Value{}, alias: map[string]string{}, retFloat: returnsFloat(f, fd)}
	for _, d := range fd.Body.List { // function-level constants
		if ds, ok := d.(*ast.DeclStmt); ok {
			collectConsts(base, ds)
		}
	}
	for _, st := range fd.Body.List {
		ts, ok := st.(*ast.TypeSwitchStmt)
		if !ok || found {
			txt := f.text(st)
			if strings.Contains(txt, "reflectx.Deref(v)") {
				t.deref = true
			}
			frame = append(frame, txt)
			continue
		}
		found = true
		frame = append(frame, "«switch "+f.text(ts.Assign)+"»")
		bound := ""
		if as, ok := ts.Assign.(*ast.AssignStmt); ok && len(as.Lhs) == 1 {
			bound = f.text(as.Lhs[0])
		}
		for _, cc := range ts.Body.List {
			cl := cc.(*ast.CaseClause)
			var types []string
			for _, e := range cl.List {
				types = append(types, f.text(e))
			}
			c := base.clone()
			c.class = classOf(types)
			if len(types) == 1 && (types[0] == "float32" || types[0] == "float64") {
				c.class = types[0]
			}
			if bound != "" {
				c.alias[bound] = "self"
			}
			g, r, a := c.clause(cl.Body, after)
			br := branch{types: types, guards: g, res: r, after: a}
			if cl.List == nil {
				t.dflt = br
			} else {
				t.branches = append(t.branches, br)
			}
		}
	}
	if !found {
		return t, fmt.Errorf("%s: no type switch in %s", f.path, name)
	}
	if t.dflt.res == "" { // no default clause: control falls out of the switch
		t.dflt = branch{res: ".fall", after: after}
	}
	t.frame = strings.Join(frame, "; ")
	return t, nil
}

func returnsFloat(f *file, fd *ast.FuncDecl) bool {
	if fd.Type.Results == nil || len(fd.Type.Results.List) == 0 {
		return false
	}
	t := f.text(fd.Type.Results.List[0].Type)
	return t == "float64" || t == "float32"
}

func collectConsts(c *ctx, ds *ast.DeclStmt) {
	gd, ok := ds.Decl.(*ast.GenDecl)
	if !ok || gd.Tok != token.CONST {
		return
	}
	for _, sp := range gd.Specs {
		vs := sp.(*ast.ValueSpec)
		for i, n := range vs.Names {
			if i < len(vs.Values) {
				if v, ok := c.constVal(vs.Values[i]); ok {
					c.consts[n.Name] = v
				}
			}
		}
	}
}

// guardFn translates a helper whose body is straight-line guards over its first parameter.
func guardFn(f *file, name, class string, trimmed bool, params map[string]int64) (table, error) {
	fd, err := f.fn(name)
	if err != nil {
		return table{}, err
	}
	c := &ctx{f: f, consts: map[string]constant.Value{}, alias: map[string]string{}, class: class, retFloat: returnsFloat(f, fd)}
	for k, v := range params { // instantiate an integer parameter (stringToFloat's bitSize)
		c.consts[k] = constant.MakeInt64(v)
	}
	p := fd.Type.Params.List[0].Names[0].Name
	c.alias[p] = "self"
	stmts := fd.Body.List
	var frame []string
	if trimmed && len(stmts) > 0 {
		// trimmed := strings.TrimSpace(s)
		txt := f.text(stmts[0])
		if as, ok := stmts[0].(*ast.AssignStmt); ok && len(as.Rhs) == 1 {
			if args, ok := pkgCall(as.Rhs[0], "strings", "TrimSpace"); ok && len(args) == 1 && c.isSelf(args[0]) {
				c.alias[f.text(as.Lhs[0])] = "trimmed"
				frame = append(frame, txt)
				stmts = stmts[1:]
			}
		}
	}
	g, r, _ := c.clause(stmts, "")
	return table{name: name, branches: nil, dflt: branch{guards: g, res: r}, frame: strings.Join(frame, "; ")}, nil
}

func paramNote(p map[string]int64) string {
	s := ""
	for k, v := range p {
		s += fmt.Sprintf(" with %s = %d", k, v)
	}
	return s
}

// ---------------------------------------------------------------------------------------------
// pkg/coerce

const header = `/-
  GENERATED by harness/numgen from %s of the library's working tree — do not edit.
  Regenerated on every run of ./check %s (rewritten only when the content changes).
-/
import Gozod.Model.Dispatch
namespace Gozod.Gen.%s
open Gozod.Dispatch Gozod.Coerce

`

// stringParse translates stringToInt64 / stringToFloat / stringToBigInt: trim, blank guard, then
// library calls on the trimmed text with literal arguments.
func stringParse(f *file, name string) (string, error) {
	fd, err := f.fn(name)
	if err != nil {
		return "", err
	}
	var steps []string
	for _, st := range fd.Body.List {
		ast.Inspect(st, func(n ast.Node) bool {
			call, ok := n.(*ast.CallExpr)
			if !ok {
				return true
			}
			fn := f.text(call.Fun)
			switch fn {
			case "strings.TrimSpace", "strconv.ParseInt", "strconv.ParseFloat", "n.SetString", "strings.HasPrefix", "big.NewInt", "math.IsNaN":
				var args []string
				for _, a := range call.Args {
					args = append(args, f.text(a))
				}
				steps = append(steps, fn+"("+strings.Join(args, ", ")+")")
			}
			return true
		})
	}
	var b strings.Builder
	fmt.Fprintf(&b, "/-- `%s`: the library calls it makes, in order, with their arguments; and its whole text. -/\n", name)
	fmt.Fprintf(&b, "def %s_calls : List String :=\n  %s\n\n", name, leanStrs(steps))
	fmt.Fprintf(&b, "def %s_text : String :=\n  %s\n\n", name, leanStr(f.text(fd.Body.List)))
	return b.String(), nil
}

// GenCoerce produces Gen/CoerceDispatch.lean.
func GenCoerce(repo string) (string, error) {
	f, err := parse(repo, "pkg/coerce/coerce.go")
	if err != nil {
		return "", err
	}
	var b strings.Builder
	fmt.Fprintf(&b, header, "pkg/coerce/coerce.go", "C17", "CoerceDispatch")
	for _, spec := range []struct{ name, after string }{
		{"ToBool", ""}, {"ToString", ""}, {"ToInt64", ""}, {"ToFloat64", ""}, {"ToBigInt", ""},
		{"ToInteger", "checkIntegerTypeBounds"}, {"toFloat32", "ToFloat64+narrow"},
	} {
		t, err := typeSwitchTable(f, spec.name, spec.after)
		if err != nil {
			return "", err
		}
		b.WriteString(t.lean())
	}
	for _, spec := range []struct {
		name, def, class string
		trimmed          bool
		params           map[string]int64
	}{{"floatToInt64", "floatToInt64", "float64", false, nil}, {"bigIntToFloat64", "bigIntToFloat64", "big", false, nil},
		{"stringToInt64", "stringToInt64", "string", true, nil},
		{"stringToFloat", "stringToFloat_32", "string", true, map[string]int64{"bitSize": 32}},
		{"stringToFloat", "stringToFloat_64", "string", true, map[string]int64{"bitSize": 64}},
		{"stringToFloat64", "stringToFloat64", "string", false, nil}} {
		t, err := guardFn(f, spec.name, spec.class, spec.trimmed, spec.params)
		if err != nil {
			return "", err
		}
		fmt.Fprintf(&b, "/-- `%s`%s (preamble: %s). -/\ndef %s : Branch :=\n  %s\n\n", spec.name, paramNote(spec.params), t.frame, spec.def, t.dflt.lean())
	}
	// toFloat32's tail: `fval, err := ToFloat64(d); if err != nil { return 0, err }; <guards over fval>; return float32(fval), nil`
	{
		fd, err := f.fn("toFloat32")
		if err != nil {
			return "", err
		}
		var tail []ast.Stmt
		for i, st := range fd.Body.List {
			if f.text(st) == "fval, err := ToFloat64(d)" && i+2 <= len(fd.Body.List) && strings.HasPrefix(f.text(fd.Body.List[i+1]), "if err != nil") {
				tail = fd.Body.List[i+2:]
			}
		}
		if tail == nil {
			return "", fmt.Errorf("toFloat32: tail `fval, err := ToFloat64(d); if err != nil …` not found")
		}
		c := &ctx{f: f, consts: map[string]constant.Value{}, alias: map[string]string{"fval": "self"}, class: "float64", retFloat: true}
		g, r, _ := c.clause(tail, "")
		fmt.Fprintf(&b, "/-- `toFloat32` after `fval, err := ToFloat64(d)` succeeded: guards over `fval`, then the narrowing. -/\ndef toFloat32_tail : Branch :=\n  %s\n\n", branch{guards: g, res: r}.lean())
	}
	for _, n := range []string{"stringToInt64", "stringToFloat", "stringToBigInt"} {
		s, err := stringParse(f, n)
		if err != nil {
			return "", err
		}
		b.WriteString(s)
	}
	// ToFloat[T] has no type switch: its whole text is the fingerprint
	fd, err := f.fn("ToFloat")
	if err != nil {
		return "", err
	}
	fmt.Fprintf(&b, "def ToFloat_text : String :=\n  %s\n\n", leanStr(f.text(fd.Body.List)))

	// checkIntegerTypeBounds
	fd, err = f.fn("checkIntegerTypeBounds")
	if err != nil {
		return "", err
	}
	var bounds []string
	for _, st := range fd.Body.List {
		ts, ok := st.(*ast.TypeSwitchStmt)
		if !ok {
			continue
		}
		for _, cc := range ts.Body.List {
			cl := cc.(*ast.CaseClause)
			for _, te := range cl.List {
				c := &ctx{f: f, consts: map[string]constant.Value{}, alias: map[string]string{"v": "self"}, class: "int64nonneg"}
				g, r, _ := c.clause(cl.Body, "")
				if r != ".self" {
					g = append(g, "{ cond := .unknown "+leanStr(f.text(cl.Body))+", out := .fail .overflow }")
				}
				bounds = append(bounds, "{ ty := "+leanStr(f.text(te))+", guards := ["+strings.Join(g, ", ")+"] }")
			}
		}
	}
	if len(bounds) == 0 {
		return "", fmt.Errorf("checkIntegerTypeBounds: no clauses found")
	}
	fmt.Fprintf(&b, "/-- `checkIntegerTypeBounds`: per target type, the guards over the int64 `v`. A type without a clause is unchecked. -/\ndef checkIntegerTypeBounds : List Bounds := [\n  %s\n]\n\n", strings.Join(bounds, ",\n  "))

	// To[T]
	fd, err = f.fn("To")
	if err != nil {
		return "", err
	}
	var routes []string
	for _, st := range fd.Body.List {
		ts, ok := st.(*ast.TypeSwitchStmt)
		if !ok {
			continue
		}
		for _, cc := range ts.Body.List {
			cl := cc.(*ast.CaseClause)
			var types []string
			for _, e := range cl.List {
				types = append(types, f.text(e))
			}
			helper := ""
			ast.Inspect(cl, func(n ast.Node) bool {
				if call, ok := n.(*ast.CallExpr); ok && helper == "" && len(call.Args) == 1 && f.text(call.Args[0]) == "v" {
					helper = f.text(call.Fun)
				}
				return true
			})
			if cl.List == nil {
				types = []string{"default"}
			}
			routes = append(routes, "{ types := "+leanStrs(types)+", helper := "+leanStr(helper)+" }")
		}
	}
	if len(routes) == 0 {
		return "", fmt.Errorf("To: no clauses found")
	}
	fmt.Fprintf(&b, "/-- `coerce.To[T]`: target type → the helper applied to `v`. -/\ndef To : List Route := [\n  %s\n]\n\n", strings.Join(routes, ",\n  "))

	// stringToBool word table
	fd, err = f.fn("stringToBool")
	if err != nil {
		return "", err
	}
	var words, pre []string
	for _, st := range fd.Body.List {
		sw, ok := st.(*ast.SwitchStmt)
		if !ok {
			pre = append(pre, f.text(st))
			continue
		}
		pre = append(pre, "switch "+f.text(sw.Tag))
		for _, cc := range sw.Body.List {
			cl := cc.(*ast.CaseClause)
			if len(cl.Body) != 1 {
				return "", fmt.Errorf("stringToBool: clause with %d statements", len(cl.Body))
			}
			ret, ok := cl.Body[0].(*ast.ReturnStmt)
			if !ok || len(ret.Results) != 2 {
				return "", fmt.Errorf("stringToBool: unexpected clause %s", f.text(cl.Body))
			}
			for _, w := range cl.List {
				lit, ok := w.(*ast.BasicLit)
				if !ok || lit.Kind != token.STRING {
					return "", fmt.Errorf("stringToBool: non-literal case %s", f.text(w))
				}
				s, _ := strconv.Unquote(lit.Value)
				if !isNil(ret.Results[1]) {
					return "", fmt.Errorf("stringToBool: case %q fails", s)
				}
				words = append(words, "("+leanStr(s)+", "+f.text(ret.Results[0])+")")
			}
			if cl.List == nil && isNil(ret.Results[1]) {
				return "", fmt.Errorf("stringToBool: default succeeds")
			}
		}
	}
	fmt.Fprintf(&b, "/-- `stringToBool`: the words of its switch (every other text is an error) and what precedes them. -/\ndef boolWords : List (String × Bool) := [\n  %s\n]\n\ndef boolPre : List String :=\n  %s\n\n", strings.Join(words, ", "), leanStrs(pre))

	// the schema constructors of the coercing package: which types.Coerced* each forwards to
	cf, err := parse(repo, "coerce/coerce.go")
	if err != nil {
		return "", err
	}
	var ctors []string
	for _, d := range cf.f.Decls {
		fd, ok := d.(*ast.FuncDecl)
		if !ok || fd.Recv != nil || len(fd.Body.List) != 1 {
			continue
		}
		ret, ok := fd.Body.List[0].(*ast.ReturnStmt)
		if !ok || len(ret.Results) != 1 {
			continue
		}
		if call, ok := ret.Results[0].(*ast.CallExpr); ok {
			ctors = append(ctors, "("+leanStr(fd.Name.Name)+", "+leanStr(cf.text(call.Fun))+")")
		}
	}
	sort.Strings(ctors)
	fmt.Fprintf(&b, "/-- `gozod/coerce`: constructor → the `types` constructor it forwards to. -/\ndef schemaCtors : List (String × String) := [\n  %s\n]\n\n", strings.Join(ctors, ",\n  "))

	// the Coerce methods of the integer and float schemas: schema element type → helper
	for _, spec := range []struct{ file, recv, def string }{{"types/integer.go", "ZodIntegerTyped", "integerCoerce"}, {"types/float.go", "ZodFloatTyped", "floatCoerce"}} {
		tf, err := parse(repo, spec.file)
		if err != nil {
			return "", err
		}
		var rs []string
		for _, m := range tf.methods(spec.recv) {
			if m.Name.Name != "Coerce" {
				continue
			}
			ast.Inspect(m.Body, func(n ast.Node) bool {
				cl, ok := n.(*ast.CaseClause)
				if !ok {
					return true
				}
				var types []string
				for _, e := range cl.List {
					types = append(types, tf.text(e))
				}
				if cl.List == nil {
					types = []string{"default"}
				}
				helper := ""
				ast.Inspect(cl, func(n ast.Node) bool {
					if call, ok := n.(*ast.CallExpr); ok && helper == "" && len(call.Args) == 1 && tf.text(call.Args[0]) == "input" {
						helper = tf.text(call.Fun)
					}
					return true
				})
				rs = append(rs, "{ types := "+leanStrs(types)+", helper := "+leanStr(helper)+" }")
				return false
			})
		}
		if len(rs) == 0 {
			return "", fmt.Errorf("%s: no Coerce method clauses", spec.file)
		}
		fmt.Fprintf(&b, "/-- `%s.Coerce`: element type → the helper applied to the input. -/\ndef %s : List Route := [\n  %s\n]\n\n", spec.recv, spec.def, strings.Join(rs, ",\n  "))
	}
	// --- internal/engine/parser.go: parsePrimitiveValue — the order of its tests and the coercion branch -------
	// (round 4c, audit M5: "parsePrimitiveValue is not translated; Bool/String/BigInt schema routing tied by the run only")
	pf, err := parse(repo, "internal/engine/parser.go")
	if err != nil {
		return "", err
	}
	ppv, err := pf.fn("parsePrimitiveValue")
	if err != nil {
		return "", err
	}
	var steps []string
	coerceStep := ""
	for _, st := range ppv.Body.List {
		ifs, ok := st.(*ast.IfStmt)
		if !ok {
			steps = append(steps, "("+leanStr("")+", "+leanStr(pf.text(st))+")")
			continue
		}
		test := pf.text(ifs.Cond)
		if ifs.Init != nil {
			test = pf.text(ifs.Init) + "; " + test
		}
		if ifs.Else != nil {
			test += " «else»"
		}
		var body []string
		for _, x := range ifs.Body.List {
			body = append(body, pf.text(x))
		}
		steps = append(steps, "("+leanStr(test)+", "+leanStr(strings.Join(body, "; "))+")")
		// the coercion branch: `if internals.Coerce { if v, err := H(ARGS); err == nil { return CALL } }`
		if strings.Contains(test, "Coerce") {
			if len(ifs.Body.List) != 1 {
				return "", fmt.Errorf("parsePrimitiveValue: the Coerce branch holds %d statements", len(ifs.Body.List))
			}
			inner, ok := ifs.Body.List[0].(*ast.IfStmt)
			if !ok || inner.Init == nil || inner.Else != nil || len(inner.Body.List) != 1 {
				return "", fmt.Errorf("parsePrimitiveValue: unexpected Coerce branch %s", pf.text(ifs.Body))
			}
			as, ok := inner.Init.(*ast.AssignStmt)
			if !ok || len(as.Lhs) != 2 || len(as.Rhs) != 1 {
				return "", fmt.Errorf("parsePrimitiveValue: unexpected coercion call %s", pf.text(inner.Init))
			}
			call, ok := as.Rhs[0].(*ast.CallExpr)
			if !ok {
				return "", fmt.Errorf("parsePrimitiveValue: coercion is not a call: %s", pf.text(as.Rhs[0]))
			}
			cc := &ctx{f: pf, consts: map[string]constant.Value{}, alias: map[string]string{}}
			ret, ok := inner.Body.List[0].(*ast.ReturnStmt)
			if !ok || len(ret.Results) != 1 {
				return "", fmt.Errorf("parsePrimitiveValue: the Coerce branch does not return one call: %s", pf.text(inner.Body))
			}
			rcall, ok := ret.Results[0].(*ast.CallExpr)
			if !ok {
				return "", fmt.Errorf("parsePrimitiveValue: the Coerce branch returns %s", pf.text(ret.Results[0]))
			}
			var rargs []string
			for _, a := range rcall.Args {
				rargs = append(rargs, leanStr(pf.text(a)))
			}
			coerceStep = "{ guard := " + leanStr(pf.text(ifs.Cond)) + ", helper := " + leanStr(pf.text(call.Fun)) +
				", args := [" + strings.Join(argList(pf, cc, ppv, call), ", ") + "], bound := " + leanStr(pf.text(as.Lhs[0])) +
				", success := " + leanStr(pf.text(inner.Cond)) + ", validate := " + leanStr(pf.text(rcall.Fun)) + ", validateArgs := [" + strings.Join(rargs, ", ") + "] }"
		}
	}
	if coerceStep == "" {
		return "", fmt.Errorf("parsePrimitiveValue: no `if internals.Coerce` branch found")
	}
	fmt.Fprintf(&b, "/-- `engine.parsePrimitiveValue`: its top-level statements in order — (test, what runs under it); a statement that is no `if` has the empty test. -/\ndef parsePrimitiveValue_steps : List (String × String) := [\n  %s\n]\n\n", strings.Join(steps, ",\n  "))
	fmt.Fprintf(&b, "/-- The coercion branch of `parsePrimitiveValue`: `if GUARD { if BOUND, err := HELPER(ARGS); SUCCESS { return VALIDATE(VALIDATEARGS) } }`;\n    ARGS as expressions over parsePrimitiveValue's parameters (`.param 0` = `input`, unchanged). -/\ndef parsePrimitiveValue_coerce : CoerceStep :=\n  %s\n\n", coerceStep)

	// --- the Parse method of each primitive schema: which `engine.ParsePrimitive` instance (base type T) it calls ----
	var pps []string
	for _, spec := range []struct{ file, recv string }{{"types/integer.go", "ZodIntegerTyped"}, {"types/float.go", "ZodFloatTyped"}, {"types/bool.go", "ZodBool"}, {"types/string.go", "ZodString"}, {"types/bigint.go", "ZodBigInt"}} {
		tf, err := parse(repo, spec.file)
		if err != nil {
			return "", err
		}
		found := false
		for _, m := range tf.methods(spec.recv) {
			if m.Name.Name != "Parse" {
				continue
			}
			var calls []*ast.CallExpr
			ast.Inspect(m.Body, func(n ast.Node) bool {
				if call, ok := n.(*ast.CallExpr); ok && strings.HasPrefix(tf.text(call.Fun), "engine.ParsePrimitive") {
					calls = append(calls, call)
				}
				return true
			})
			if len(calls) != 1 || len(calls[0].Args) < 5 {
				return "", fmt.Errorf("%s: %s.Parse makes %d engine.ParsePrimitive calls", spec.file, spec.recv, len(calls))
			}
			call := calls[0]
			fn := tf.text(call.Fun)
			if i := strings.IndexByte(fn, '['); i >= 0 {
				fn = fn[:i]
			}
			// the base type T is the type argument of the validator `engine.ApplyChecks[T]`
			val := tf.text(call.Args[3])
			base := ""
			if strings.HasPrefix(val, "engine.ApplyChecks[") && strings.HasSuffix(val, "]") {
				base = val[len("engine.ApplyChecks[") : len(val)-1]
			}
			// what the method does before that call (a reassignment of `input` would show here)
			pre := ""
			if n := len(m.Body.List); n > 1 {
				pre = tf.text(m.Body.List[:n-1])
			}
			pps = append(pps, "{ recv := "+leanStr(spec.recv)+", entry := "+leanStr(fn)+", input := "+argOf(tf, &ctx{f: tf, consts: map[string]constant.Value{}, alias: map[string]string{}}, m, call.Args[0])+
				", validator := "+leanStr(val)+", base := "+leanStr(base)+", pre := "+leanStr(pre)+" }")
			found = true
		}
		if !found {
			return "", fmt.Errorf("%s: no %s.Parse method", spec.file, spec.recv)
		}
	}
	fmt.Fprintf(&b, "/-- The `Parse` method of each primitive schema type: the engine entry point, the input it hands on, the validator and the base type `T` (= the `T` of `coerce.To[T]` in `parsePrimitiveValue`). -/\ndef primitiveParse : List ParseRoute := [\n  %s\n]\n\n", strings.Join(pps, ",\n  "))

	b.WriteString("end Gozod.Gen.CoerceDispatch\n")
	return b.String(), nil
}
