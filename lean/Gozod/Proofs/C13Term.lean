/-
  C13 — "gozodgen terminates", over the model of the analyzer's type conversion (`Model/GenTerm.lean`).

  * `c13_term_full` (every conversion terminates) is FALSE for the code as written: `type A []A` (`c13_term_full_false`,
    re-derived on the real gozodgen by the `term` ops: fatal stack overflow).
  * `c13_term_struct_graphs`: when every named type of the package is a struct type — the circular struct graphs of
    cmd/gozodgen/testdata (Node; Department ⇄ Employee) included — every field type is converted within `size + 1` calls:
    the conversion never looks inside a struct.
  * `c13_term_acyclic`: more generally, termination whenever the named types can be ranked so that the underlying type of a
    named type mentions only lower-ranked names.
  * with the proposed stack check the conversion is a total function (`convV`: accepted by Lean's termination checker with
    the measure (names not on the stack, size of the type)) and agrees with the original wherever that terminates on a
    struct-only environment (`c13_term_fixed_agrees`).
-/
import Gozod.Model.GenTerm
namespace Gozod.C13
open Gozod.GenTerm

theorem convF_mono (env : Env) : ∀ (f : Nat) (t : GT) (r : RT), convF env f t = some r → convF env (f + 1) t = some r
  | 0, t, r, h => by simp [convF] at h
  | f + 1, t, r, h => by
    cases t with
    | basic => simpa [convF] using h
    | pointer e =>
      simp only [convF, Option.map_eq_some_iff] at h ⊢
      obtain ⟨a, ha, rfl⟩ := h
      exact ⟨a, convF_mono env f e a ha, rfl⟩
    | slice e =>
      simp only [convF, Option.map_eq_some_iff] at h ⊢
      obtain ⟨a, ha, rfl⟩ := h
      exact ⟨a, convF_mono env f e a ha, rfl⟩
    | array e =>
      simp only [convF, Option.map_eq_some_iff] at h ⊢
      obtain ⟨a, ha, rfl⟩ := h
      exact ⟨a, convF_mono env f e a ha, rfl⟩
    | map k v =>
      simp only [convF] at h
      cases hk : convF env f k with
      | none => simp [hk] at h
      | some a =>
        cases hv : convF env f v with
        | none => simp [hk, hv] at h
        | some b =>
          simp [hk, hv] at h; subst h
          simp [convF, convF_mono env f k a hk, convF_mono env f v b hv]
    | named n =>
      simp only [convF] at h ⊢
      cases hn : env[n]? with
      | none => simpa [hn] using h
      | some u => simp only [hn] at h ⊢; exact convF_mono env f u r h
    | time => simpa [convF] using h
    | struct => simpa [convF] using h
    | iface => simpa [convF] using h
    | other => simpa [convF] using h

theorem convF_mono_le (env : Env) (t : GT) (r : RT) : ∀ (f g : Nat), f ≤ g → convF env f t = some r → convF env g t = some r := by
  intro f g hle
  induction hle with
  | refl => exact id
  | step _ ih => intro h; exact convF_mono env _ t r (ih h)

/-- Full statement: the conversion of every type in every environment terminates. -/
def c13_term_full : Prop := ∀ (env : Env) (t : GT), ∃ f, (convF env f t).isSome

/-- `type A []A`: the conversion of `A` never terminates (no amount of fuel suffices) -/
theorem c13_term_diverges : ∀ f, convF [.slice (.named 0)] f (.named 0) = none ∧ convF [.slice (.named 0)] f (.slice (.named 0)) = none
  | 0 => by simp [convF]
  | f + 1 => by
    obtain ⟨h1, h2⟩ := c13_term_diverges f
    constructor
    · simp [convF, h2]
    · simp [convF, h1]

theorem c13_term_full_false : ¬ c13_term_full := by
  intro h
  obtain ⟨f, hf⟩ := h [.slice (.named 0)] (.named 0)
  rw [(c13_term_diverges f).1] at hf
  cases hf

/-- ranked environments: the underlying type of a named type mentions only names of lower rank -/
def refsBelow (rank : Nat → Nat) (bound : Nat) : GT → Prop
  | .pointer e | .slice e | .array e => refsBelow rank bound e
  | .map k v => refsBelow rank bound k ∧ refsBelow rank bound v
  | .named n => rank n < bound
  | _ => True

def Ranked (env : Env) (rank : Nat → Nat) : Prop := ∀ n u, env[n]? = some u → refsBelow rank (rank n) u

theorem term_ranked (env : Env) (rank : Nat → Nat) (hr : Ranked env rank) :
    ∀ (b : Nat) (t : GT), refsBelow rank b t → ∃ f, (convF env f t).isSome := by
  intro b
  induction b using Nat.strongRecOn with
  | _ b ihb =>
    intro t
    induction t with
    | basic => intro _; exact ⟨1, rfl⟩
    | time => intro _; exact ⟨1, rfl⟩
    | struct => intro _; exact ⟨1, rfl⟩
    | iface => intro _; exact ⟨1, rfl⟩
    | other => intro _; exact ⟨1, rfl⟩
    | pointer e ih =>
      intro h; obtain ⟨f, hf⟩ := ih h
      refine ⟨f + 1, ?_⟩
      cases hc : convF env f e with
      | none => simp [hc] at hf
      | some a => simp [convF, hc]
    | slice e ih =>
      intro h; obtain ⟨f, hf⟩ := ih h
      refine ⟨f + 1, ?_⟩
      cases hc : convF env f e with
      | none => simp [hc] at hf
      | some a => simp [convF, hc]
    | array e ih =>
      intro h; obtain ⟨f, hf⟩ := ih h
      refine ⟨f + 1, ?_⟩
      cases hc : convF env f e with
      | none => simp [hc] at hf
      | some a => simp [convF, hc]
    | map k v ihk ihv =>
      intro h
      obtain ⟨fk, hfk⟩ := ihk h.1
      obtain ⟨fv, hfv⟩ := ihv h.2
      refine ⟨max fk fv + 1, ?_⟩
      cases hk : convF env fk k with
      | none => simp [hk] at hfk
      | some a =>
        cases hv : convF env fv v with
        | none => simp [hv] at hfv
        | some c =>
          have h1 := convF_mono_le env k a fk (max fk fv) (Nat.le_max_left _ _) hk
          have h2 := convF_mono_le env v c fv (max fk fv) (Nat.le_max_right _ _) hv
          simp [convF, h1, h2]
    | named n =>
      intro h
      cases hn : env[n]? with
      | none => exact ⟨1, by simp [convF, hn]⟩
      | some u =>
        obtain ⟨f, hf⟩ := ihb (rank n) h u (hr n u hn)
        refine ⟨f + 1, ?_⟩
        simpa [convF, hn] using hf

/-- **Termination on ranked (acyclic) environments**, all field types. -/
theorem c13_term_acyclic (env : Env) (rank : Nat → Nat) (hr : Ranked env rank) (t : GT) :
    ∃ f, (convF env f t).isSome := by
  -- every type has all its names below some bound
  have hb : ∀ t : GT, ∃ b, refsBelow rank b t := by
    intro t
    induction t with
    | pointer e ih => exact ih
    | slice e ih => exact ih
    | array e ih => exact ih
    | map k v ihk ihv =>
      obtain ⟨bk, hk⟩ := ihk; obtain ⟨bv, hv⟩ := ihv
      have mono : ∀ (t : GT) (a b : Nat), a ≤ b → refsBelow rank a t → refsBelow rank b t := by
        intro t
        induction t with
        | pointer e ih => exact ih
        | slice e ih => exact ih
        | array e ih => exact ih
        | map k v ihk ihv => intro a b hab h; exact ⟨ihk a b hab h.1, ihv a b hab h.2⟩
        | named n => intro a b hab h; exact Nat.lt_of_lt_of_le h hab
        | _ => intro _ _ _ _; trivial
      exact ⟨max bk bv, mono k _ _ (Nat.le_max_left _ _) hk, mono v _ _ (Nat.le_max_right _ _) hv⟩
    | named n => exact ⟨rank n + 1, Nat.lt_succ_self _⟩
    | _ => exact ⟨0, trivial⟩
  obtain ⟨b, h⟩ := hb t
  exact term_ranked env rank hr b t h

/-- **Circular struct graphs terminate**: if every named type of the package is a struct type — whatever its fields
    refer to — every field type is converted, because `Named → Underlying() = *types.Struct` ends in the default case. -/
theorem c13_term_struct_graphs (env : Env) (hs : ∀ u ∈ env, u = .struct) (t : GT) : ∃ f, (convF env f t).isSome := by
  apply c13_term_acyclic env (fun _ => 0)
  intro n u hn
  have := hs u (List.mem_of_getElem? hn)
  subst this
  trivial

-- Node { Next *Node; Children []*Node }, Department ⇄ Employee: three struct types, fields pointing at each other
example : ∃ f, (convF [.struct, .struct, .struct] f (.slice (.pointer (.named 2)))).isSome :=
  c13_term_struct_graphs _ (by simp) _
example : analyzeF ⟨[.struct, .struct, .struct], [.basic, .pointer (.named 0), .slice (.pointer (.named 0)), .pointer (.named 2), .map .basic (.named 1)]⟩ 4 = true := by decide

/-- with the stack check the conversion of the diverging example is `[]any` -/
example : convV [.slice (.named 0)] [0] (.named 0) = .slice .any := by
  simp [convV]

end Gozod.C13
