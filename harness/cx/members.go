package cx

// Member schemas of every KIND a container constructor type-checks, beyond the built-in schema types:
//
//	position typed `any`            Slice elem, Array items/rest, Map key/value, Record key/value, Set elem, Lazy target
//	position typed core.ZodSchema   Tuple items/rest, Object / Struct shape (and Union/Xor/Intersection/DU options:
//	                                typed `any`, but the constructor panics on anything that is not a core.ZodSchema)
//
//	kind        what it is                                              is a core.ZodSchema?   has Parse?
//	transform   X.Transform(fn)         *core.ZodTransform              yes                    yes
//	pipe        X.Pipe(Y)               *core.ZodPipe                   yes since ff6dceb      yes   (before: no ParseAny)
//	refine      X.Refine(fn)            built-in type, custom check     yes                    yes
//	overwrite   X.Trim()/ToLowerCase()  built-in type, value rewritten  yes                    yes
//	coerce      CoercedString()/Int()   built-in type, input converted  yes                    yes
//	parseonly   harness type with ONLY  Parse(any, ...*ParseContext) (any, error)   NO         yes
//	schemaonly  harness type with EXACTLY core.ZodSchema (ParseAny + Internals)     yes        NO
//	typeany     harness type with EXACTLY core.ZodType[any] (what a pipe offers)    NO         yes
//
// The three harness types wrap any schema (leaf or generated composite); a member's OWN verdict is whatever its
// own entry point (ParseAny, else Parse) answers.

import (
	"reflect"
	"strings"

	"github.com/kaptinlin/gozod"
	"github.com/kaptinlin/gozod/core"
	"github.com/kaptinlin/gozod/types"

	"verifharness/hx"
)

// ParseOnly offers nothing but Parse.
type ParseOnly struct{ inner core.ZodSchema }

func (p *ParseOnly) Parse(input any, ctx ...*core.ParseContext) (any, error) {
	return p.inner.ParseAny(input, ctx...)
}

// SchemaOnly is exactly a core.ZodSchema.
type SchemaOnly struct{ inner core.ZodSchema }

func (p *SchemaOnly) ParseAny(input any, ctx ...*core.ParseContext) (any, error) {
	return p.inner.ParseAny(input, ctx...)
}
func (p *SchemaOnly) Internals() *core.ZodTypeInternals { return p.inner.Internals() }

// TypeAny is exactly a core.ZodType[any] (no ParseAny), the interface a pipe satisfies.
type TypeAny struct{ inner core.ZodSchema }

func (p *TypeAny) Parse(input any, ctx ...*core.ParseContext) (any, error) {
	return p.inner.ParseAny(input, ctx...)
}
func (p *TypeAny) MustParse(input any, ctx ...*core.ParseContext) any {
	v, err := p.Parse(input, ctx...)
	if err != nil {
		panic(err)
	}
	return v
}
func (p *TypeAny) Internals() *core.ZodTypeInternals { return p.inner.Internals() }
func (p *TypeAny) IsOptional() bool                  { return p.inner.Internals().Optional }
func (p *TypeAny) IsNilable() bool                   { return p.inner.Internals().Nilable }

var (
	_ core.ZodSchema    = (*SchemaOnly)(nil)
	_ core.ZodType[any] = (*TypeAny)(nil)
)

// Arg is what is handed to the container constructor for this member.
func (s *Sch) Arg() any {
	if s.Z != nil {
		return s.Z
	}
	return s.Raw
}

// Own is the member's own verdict: ParseAny when it has one, else Parse.
func (s *Sch) Own(x any) (any, error) {
	if s.Z != nil {
		return s.Z.ParseAny(x)
	}
	return s.RawParse(x)
}

// MemberKind names the kind of member schema (histogram key).
func (s *Sch) MemberKind() string {
	switch {
	case s.Exotic != "" && s.Kind == "wrap":
		return s.Exotic + "-around-composite"
	case s.Exotic != "":
		return s.Exotic
	case s.Kind == "leaf":
		return "builtin-leaf"
	}
	return "builtin-composite"
}

// Intern returns the member's Internals (nil when it exposes none).
func (s *Sch) Intern() *core.ZodTypeInternals {
	if i, ok := s.Arg().(interface{ Internals() *core.ZodTypeInternals }); ok {
		return i.Internals()
	}
	return nil
}

func exoticLeaf(kind, name string, arg any, goT string, valids, invT, invAny []any) *Sch {
	s := &Sch{Kind: "leaf", Name: name, GoT: goT, Valids: valids, InvalidsT: invT, InvalidsAny: invAny, Exotic: kind}
	setArg(s, arg)
	return s
}

func setArg(s *Sch, arg any) {
	if z, ok := arg.(core.ZodSchema); ok {
		s.Z = z
		return
	}
	s.Raw = arg
	p, ok := arg.(interface {
		Parse(any, ...*core.ParseContext) (any, error)
	})
	if !ok {
		panic("member kind without ParseAny and without Parse(any) (any, error): " + s.Name)
	}
	s.RawParse = func(x any) (any, error) { return p.Parse(x) }
}

func upper(s string, _ *core.RefinementContext) (any, error) { return strings.ToUpper(s), nil }

// ExoticLeaves lists one leaf member of every kind; schemaPos = the position needs a core.ZodSchema.
func ExoticLeaves(want string, schemaPos bool) []*Sch {
	ab := gozod.Union([]any{gozod.Literal("a"), gozod.Literal("b")})
	nonNeg := gozod.Any().RefineAny(func(v any) bool { n, ok := v.(int); return ok && n >= 0 })
	all := []*Sch{
		exoticLeaf("transform", "String().Min(2).Transform(upper)", gozod.String().Min(2).Transform(upper), "str",
			[]any{"ab", "hello"}, []any{"", "x"}, []any{7, nil}),
		exoticLeaf("pipe", "String().Pipe(Union([Literal(\"a\"),Literal(\"b\")]))", gozod.String().Pipe(ab), "str",
			[]any{"a", "b"}, []any{"c", ""}, []any{1, nil}),
		exoticLeaf("pipe", "Int().Pipe(Any().RefineAny(>=0))", gozod.Int().Pipe(nonNeg), "int",
			[]any{0, 4}, []any{-2}, []any{"0", nil}),
		exoticLeaf("refine", "String().Refine(len>=2)", gozod.String().Refine(func(s string) bool { return len(s) >= 2 }), "str",
			[]any{"ok", "fine"}, []any{"", "q"}, []any{2.5, nil}),
		exoticLeaf("refine", "Int().Refine(even)", gozod.Int().Refine(func(n int) bool { return n%2 == 0 }), "int",
			[]any{2, -4}, []any{3}, []any{"2", nil}),
		exoticLeaf("overwrite", "String().Trim().Min(2)", gozod.String().Trim().Min(2), "str",
			[]any{"ab", " ab "}, []any{" a ", ""}, []any{false, nil}),
		exoticLeaf("overwrite", "String().ToLowerCase().Max(3)", gozod.String().ToLowerCase().Max(3), "str",
			[]any{"ABC", ""}, []any{"ABCD"}, []any{1, nil}),
		exoticLeaf("coerce", "CoercedString().Min(2)", types.CoercedString().Min(2), "",
			[]any{"ab", 42, true}, []any{"x"}, []any{7, []any{}}),
		exoticLeaf("coerce", "CoercedInt().Min(0)", types.CoercedInt().Min(0), "",
			[]any{3, "5"}, []any{-1}, []any{"-1", "abc", []any{}}),
		exoticLeaf("parseonly", "ParseOnly{String().Min(2)}", &ParseOnly{gozod.String().Min(2)}, "str",
			[]any{"ab", "hello"}, []any{"", "x"}, []any{7, nil}),
		exoticLeaf("parseonly", "ParseOnly{Int().Min(0)}", &ParseOnly{gozod.Int().Min(0)}, "int",
			[]any{0, 5}, []any{-1}, []any{"0", nil}),
		exoticLeaf("schemaonly", "SchemaOnly{String().Min(2)}", &SchemaOnly{gozod.String().Min(2)}, "str",
			[]any{"ab", "hello"}, []any{"", "x"}, []any{7, nil}),
		exoticLeaf("schemaonly", "SchemaOnly{Int().Max(9)}", &SchemaOnly{gozod.Int().Max(9)}, "int",
			[]any{9, -3}, []any{10}, []any{1.5, nil}),
		exoticLeaf("typeany", "TypeAny{String().Max(3)}", &TypeAny{gozod.String().Max(3)}, "str",
			[]any{"", "abc"}, []any{"abcd"}, []any{3.5, nil}),
		exoticLeaf("typeany", "TypeAny{String().Optional()}", &TypeAny{gozod.String().Optional()}, "",
			[]any{"o", nil}, nil, []any{1}),
	}
	var out []*Sch
	for _, s := range all {
		if schemaPos && s.Z == nil {
			continue
		}
		if want != "" && s.GoT != want {
			continue
		}
		out = append(out, s)
	}
	return out
}

// Wrap puts a generated schema behind one of the three harness member kinds; instances, children and
// fault locations are the inner schema's (the wrappers do not touch values or paths).
func Wrap(r *hx.Rng, inner *Sch, schemaPos bool) *Sch {
	if inner.Z == nil {
		return inner
	}
	kinds := []string{"schemaonly", "parseonly", "typeany"}
	if schemaPos {
		kinds = kinds[:1]
	}
	s := &Sch{Kind: "wrap", GoT: inner.GoT, Members: []*Sch{inner}, Rest: -1, KeyM: -1, ValM: -1, Catchall: -1}
	s.Exotic = hx.Pick(r, kinds)
	switch s.Exotic {
	case "schemaonly":
		setArg(s, &SchemaOnly{inner.Z})
		s.Name = "SchemaOnly{" + inner.Name + "}"
	case "parseonly":
		setArg(s, &ParseOnly{inner.Z})
		s.Name = "ParseOnly{" + inner.Name + "}"
	default:
		setArg(s, &TypeAny{inner.Z})
		s.Name = "TypeAny{" + inner.Name + "}"
	}
	return s
}

// ExoticPct is the share of member positions filled with a non-built-in member kind.
var ExoticPct = 22

// forced, when set, is handed out by the next value-position GenMember call (GenOver).
var forced *Sch

// GenMember generates the schema for a member position. schemaPos: the position only takes a
// core.ZodSchema; otherwise it is typed `any` and every member kind is generated.
func GenMember(r *hx.Rng, d int, want string, schemaPos bool) *Sch {
	if forced != nil {
		f := forced
		forced = nil
		return f
	}
	if r.Chance(ExoticPct) {
		if d > 0 && want != "str" && want != "int" && r.Chance(40) {
			return Wrap(r, Gen(r, d, want), schemaPos)
		}
		if ls := ExoticLeaves(leafWant(want), schemaPos); len(ls) > 0 && (want == "" || want == "str" || want == "int") {
			return hx.Pick(r, ls)
		}
	}
	return Gen(r, d, want)
}

func leafWant(want string) string {
	if want == "str" || want == "int" {
		return want
	}
	return ""
}

// GenOver builds a composite of the given kind whose (first) value member is `child`.
func GenOver(r *hx.Rng, depth int, kind string, child *Sch) *Sch {
	if kind == "set" && !(child.Kind == "leaf" && child.GoT == "str") {
		return nil
	}
	switch kind {
	case "tuple", "object", "struct", "union", "xor", "inter", "du":
		if child.Z == nil {
			return nil
		}
	}
	forced = child
	s := GenKind(r, depth, kind)
	if forced != nil { // the kind has no position that takes this child
		forced = nil
		return nil
	}
	return s
}

// ---- which members the container's own code can ask at all (mirrors of the type assertions /
// reflective look-ups in types/*.go; a member that is not askable is silently never validated) ----

func hasMethod(a any, name string, minIn, nOut int) bool {
	if a == nil {
		return false
	}
	m := reflect.ValueOf(a).MethodByName(name)
	if !m.IsValid() {
		return false
	}
	t := m.Type()
	return t.NumIn() >= minIn && (nOut < 0 || t.NumOut() == nOut)
}

// Asked reports whether the container `s` can call member i (as the code stands).
func (s *Sch) Asked(i int) bool {
	a := s.Members[i].Arg()
	switch s.Kind {
	case "slice", "array": // `Element.(core.ZodSchema)` (types/slice.go:457), `item.(core.ZodSchema)` (types/array.go:666,675)
		_, ok := a.(core.ZodSchema)
		return ok
	case "map", "set": // validateDirect: MethodByName("Parse") (types/map.go:501, types/set.go:470)
		return hasMethod(a, "Parse", 1, -1)
	case "record":
		if i == s.KeyM { // parseSchemaValueAny: core.ZodType[any], else ParseAny, else Parse (types/record.go:893-906)
			if _, ok := a.(core.ZodType[any]); ok {
				return true
			}
			return hasMethod(a, "ParseAny", 1, -1) || hasMethod(a, "Parse", 1, -1)
		}
		return hasMethod(a, "Parse", 1, -1) // validateValue (types/record.go:960)
	case "struct": // parseFieldWithSchema: MethodByName("Parse") with two results (types/struct.go:840-856)
		return hasMethod(a, "Parse", 1, 2)
	}
	return true
}
