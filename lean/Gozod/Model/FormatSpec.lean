/-
  Gozod.Model.FormatSpec — the documented definition of each string format of C20, written
  independently of `pkg/regex` as a small step automaton (`Spec`, Model/Bisim.lean):
  a state, what one more byte does to it, and which states accept.

  Bytes: '0'..'9' = 48..57, 'A'..'F' = 65..70, 'a'..'f' = 97..102, '+' 43, '-' 45, '.' 46, '/' 47,
  ':' 58, '=' 61, 'T' 84, 'Z' 90, '_' 95.

  Core-only.
-/
import Gozod.Model.Bisim
namespace Gozod
namespace Fmt

def isDigit (c : Nat) : Bool := Nat.ble 48 c && Nat.ble c 57
def isUpperHex (c : Nat) : Bool := Nat.ble 65 c && Nat.ble c 70
def isLowerHex (c : Nat) : Bool := Nat.ble 97 c && Nat.ble c 102
def isHex (c : Nat) : Bool := isDigit c || isUpperHex c || isLowerHex c
def isUpper (c : Nat) : Bool := Nat.ble 65 c && Nat.ble c 90
def isLower (c : Nat) : Bool := Nat.ble 97 c && Nat.ble c 122

def digits : List Nat := [48, 49, 50, 51, 52, 53, 54, 55, 56, 57]
def hexDigits : List Nat := digits ++ [65, 66, 67, 68, 69, 70, 97, 98, 99, 100, 101, 102]
def uppers : List Nat := (List.range 26).map (· + 65)
def lowers : List Nat := (List.range 26).map (· + 97)

/-! ### IPv4: four decimal octets 0–255 without leading zeros, separated by '.'
    CIDRv4: an IPv4 address, '/', a prefix length 0–32 without leading zeros -/

structure DotSt where
  /-- separators seen ('.' three times, then '/') -/
  k : Nat
  /-- digits of the current number -/
  n : Nat
  /-- value of the current number -/
  v : Nat
  deriving DecidableEq, Repr

/-- one more digit `d` of a decimal number that must stay ≤ `max` and have no leading zero -/
def DotSt.digit (q : DotSt) (d max : Nat) : Option DotSt :=
  if q.n = 0 then some ⟨q.k, 1, d⟩
  else if q.v = 0 then none
  else if q.v * 10 + d ≤ max then some ⟨q.k, q.n + 1, q.v * 10 + d⟩
  else none

def ipv4Step (q : DotSt) (c : Nat) : Option DotSt :=
  if c = 46 then (if q.n ≥ 1 ∧ q.k < 3 then some ⟨q.k + 1, 0, 0⟩ else none)
  else q.digit (c - 48) 255

def DotSt.beq (a b : DotSt) : Bool := Nat.beq a.k b.k && Nat.beq a.n b.n && Nat.beq a.v b.v
theorem DotSt.beq_eq (a b : DotSt) (h : a.beq b = true) : a = b := by
  cases a; cases b; simp [DotSt.beq] at h; simp [h]

def DotSt.pp (q : DotSt) : String := s!"(Fmt.DotSt.mk {q.k} {q.n} {q.v})"

def ipv4 : Spec where
  State := DotSt
  beq := DotSt.beq
  beq_eq := DotSt.beq_eq
  init := ⟨0, 0, 0⟩
  support := 46 :: digits
  step := ipv4Step
  acc := fun q => q.k = 3 ∧ q.n ≥ 1
  code := fun q => (q.k * 4 + q.n) * 256 + q.v
  pp := DotSt.pp

def cidrv4Step (q : DotSt) (c : Nat) : Option DotSt :=
  if c = 46 then (if q.n ≥ 1 ∧ q.k < 3 then some ⟨q.k + 1, 0, 0⟩ else none)
  else if c = 47 then (if q.n ≥ 1 ∧ q.k = 3 then some ⟨4, 0, 0⟩ else none)
  else if q.k = 4 then q.digit (c - 48) 32
  else q.digit (c - 48) 255

def cidrv4 : Spec where
  State := DotSt
  beq := DotSt.beq
  beq_eq := DotSt.beq_eq
  init := ⟨0, 0, 0⟩
  support := 46 :: 47 :: digits
  step := cidrv4Step
  acc := fun q => q.k = 4 ∧ q.n ≥ 1
  code := fun q => (q.k * 4 + q.n) * 256 + q.v
  pp := DotSt.pp

/-! ### Hex: any number of hexadecimal digits (including none) -/

def hex : Spec where
  State := Unit
  beq := fun _ _ => true
  beq_eq := fun _ _ _ => rfl
  init := ()
  support := hexDigits
  step := fun _ _ => some ()
  acc := fun _ => true
  code := fun _ => 0
  pp := fun _ => "()"

/-! ### E.164: '+', a first digit 1–9, 7 to 15 digits in all -/

structure CountSt where
  /-- 0 = nothing read, 1 = '+' read, k+1 = k digits read -/
  n : Nat
  deriving DecidableEq, Repr

def CountSt.beq (a b : CountSt) : Bool := Nat.beq a.n b.n
theorem CountSt.beq_eq (a b : CountSt) (h : a.beq b = true) : a = b := by
  cases a; cases b; simp [CountSt.beq] at h; simp [h]

def e164Step (q : CountSt) (c : Nat) : Option CountSt :=
  if q.n = 0 then (if c = 43 then some ⟨1⟩ else none)
  else if c = 43 then none
  else if q.n = 1 then (if c = 48 then none else some ⟨2⟩)
  else if q.n < 16 then some ⟨q.n + 1⟩
  else none

def e164 : Spec where
  State := CountSt
  beq := CountSt.beq
  beq_eq := CountSt.beq_eq
  init := ⟨0⟩
  support := 43 :: digits
  step := e164Step
  acc := fun q => 8 ≤ q.n ∧ q.n ≤ 16
  code := fun q => q.n
  pp := fun q => s!"(Fmt.CountSt.mk {q.n})"

/-! ### MAC: six pairs of hex digits separated by the delimiter; letters all upper or all lower case -/

structure MacSt where
  /-- bytes read (0..17) -/
  pos : Nat
  /-- 0 = no letter yet, 1 = upper case, 2 = lower case -/
  cas : Nat
  deriving DecidableEq, Repr

def MacSt.beq (a b : MacSt) : Bool := Nat.beq a.pos b.pos && Nat.beq a.cas b.cas
theorem MacSt.beq_eq (a b : MacSt) (h : a.beq b = true) : a = b := by
  cases a; cases b; simp [MacSt.beq] at h; simp [h]

def macStep (delim : Nat) (q : MacSt) (c : Nat) : Option MacSt :=
  if q.pos ≥ 17 then none
  else if q.pos % 3 = 2 then (if c = delim then some ⟨q.pos + 1, q.cas⟩ else none)
  else if isDigit c then some ⟨q.pos + 1, q.cas⟩
  else if isUpperHex c then (if q.cas = 2 then none else some ⟨q.pos + 1, 1⟩)
  else if isLowerHex c then (if q.cas = 1 then none else some ⟨q.pos + 1, 2⟩)
  else none

def mac (delim : Nat) : Spec where
  State := MacSt
  beq := MacSt.beq
  beq_eq := MacSt.beq_eq
  init := ⟨0, 0⟩
  support := delim :: hexDigits
  step := macStep delim
  acc := fun q => q.pos = 17
  code := fun q => q.pos * 3 + q.cas
  pp := fun q => s!"(Fmt.MacSt.mk {q.pos} {q.cas})"

/-! ### Base64 (RFC 4648 §4): groups of four symbols; the last group may end in '=' or '=='.
    Base64URL (RFC 4648 §5): the URL-safe alphabet; padding may be omitted altogether. -/

structure B64St where
  /-- symbols (data or pad) in the current group of four -/
  n : Nat
  /-- pad characters seen -/
  p : Nat
  deriving DecidableEq, Repr

def B64St.beq (a b : B64St) : Bool := Nat.beq a.n b.n && Nat.beq a.p b.p
theorem B64St.beq_eq (a b : B64St) (h : a.beq b = true) : a = b := by
  cases a; cases b; simp [B64St.beq] at h; simp [h]

def b64Step (q : B64St) (c : Nat) : Option B64St :=
  if c = 61 then
    (if q.n = 2 ∧ q.p = 0 then some ⟨3, 1⟩
     else if q.n = 3 then some ⟨0, q.p + 1⟩
     else none)
  else if q.p = 0 then some ⟨(q.n + 1) % 4, 0⟩
  else none

def B64St.pp (q : B64St) : String := s!"(Fmt.B64St.mk {q.n} {q.p})"

def base64 : Spec where
  State := B64St
  beq := B64St.beq
  beq_eq := B64St.beq_eq
  init := ⟨0, 0⟩
  support := 61 :: 43 :: 47 :: (digits ++ uppers ++ lowers)
  step := b64Step
  acc := fun q => q.n = 0
  code := fun q => q.n * 4 + q.p
  pp := B64St.pp

def base64url : Spec where
  State := B64St
  beq := B64St.beq
  beq_eq := B64St.beq_eq
  init := ⟨0, 0⟩
  support := 61 :: 45 :: 95 :: (digits ++ uppers ++ lowers)
  step := b64Step
  acc := fun q => if q.p = 0 then q.n ≠ 1 else q.n = 0
  code := fun q => q.n * 4 + q.p
  pp := B64St.pp

/-! ### UUID: 8-4-4-4-12 hex digits; version nibble (first of group 3) and variant nibble
    (first of group 4, one of 8 9 a b); the generic format takes versions 1–8 and the nil UUID -/

structure UuidSt where
  pos : Nat
  /-- every hex digit so far is '0' -/
  zero : Bool
  /-- version and variant nibbles seen so far are the required ones -/
  ok : Bool
  deriving DecidableEq, Repr

def UuidSt.beq (a b : UuidSt) : Bool := Nat.beq a.pos b.pos && (a.zero == b.zero) && (a.ok == b.ok)
theorem UuidSt.beq_eq (a b : UuidSt) (h : a.beq b = true) : a = b := by
  cases a; cases b; simp [UuidSt.beq] at h; simp [h]

def isVariant (c : Nat) : Bool := c = 56 || c = 57 || c = 65 || c = 66 || c = 97 || c = 98

/-- `ver = none`: any version 1–8, or the nil UUID; `ver = some v`: exactly version `v` -/
def uuidStep (ver : Option Nat) (q : UuidSt) (c : Nat) : Option UuidSt :=
  if q.pos ≥ 36 then none
  else if q.pos = 8 ∨ q.pos = 13 ∨ q.pos = 18 ∨ q.pos = 23 then
    (if c = 45 then some ⟨q.pos + 1, q.zero, q.ok⟩ else none)
  else if c = 45 then none
  else
    let verOk : Bool := match ver with
      | none => Nat.ble 49 c && Nat.ble c 56
      | some v => c = 48 + v
    let ok := q.ok && (q.pos != 14 || verOk) && (q.pos != 19 || isVariant c)
    some ⟨q.pos + 1, q.zero && c = 48, ok⟩

def uuid (ver : Option Nat) : Spec where
  State := UuidSt
  beq := UuidSt.beq
  beq_eq := UuidSt.beq_eq
  init := ⟨0, true, true⟩
  support := 45 :: hexDigits
  step := uuidStep ver
  acc := fun q => q.pos = 36 && (q.ok || (ver.isNone && q.zero))
  code := fun q => q.pos * 4 + (if q.zero then 2 else 0) + (if q.ok then 1 else 0)
  pp := fun q => s!"(Fmt.UuidSt.mk {q.pos} {q.zero} {q.ok})"

/-- GUID: the 8-4-4-4-12 layout alone -/
def guid : Spec where
  State := CountSt
  beq := CountSt.beq
  beq_eq := CountSt.beq_eq
  init := ⟨0⟩
  support := 45 :: hexDigits
  step := fun q c =>
    if q.n ≥ 36 then none
    else if q.n = 8 ∨ q.n = 13 ∨ q.n = 18 ∨ q.n = 23 then (if c = 45 then some ⟨q.n + 1⟩ else none)
    else if c = 45 then none else some ⟨q.n + 1⟩
  acc := fun q => q.n = 36
  code := fun q => q.n
  pp := fun q => s!"(Fmt.CountSt.mk {q.n})"

/-! ### ISO 8601 calendar date YYYY-MM-DD (proleptic Gregorian; year 0000–9999)
    and RFC 3339 date-time  date 'T' hh ':' mm ':' ss ['.' digits] ('Z' | ('+'|'-') hh ':' mm) -/

def isLeap (y : Nat) : Bool := y % 4 = 0 && (y % 100 != 0 || y % 400 = 0)

def daysIn (leap : Bool) (m : Nat) : Nat :=
  if m = 2 then (if leap then 29 else 28)
  else if m = 4 ∨ m = 6 ∨ m = 9 ∨ m = 11 then 30
  else 31

/-- the arithmetic meaning of a date -/
def validDate (y m d : Nat) : Bool := 1 ≤ m && m ≤ 12 && 1 ≤ d && d ≤ daysIn (isLeap y) m

structure DateSt where
  /-- bytes read -/
  pos : Nat
  /-- year read so far (positions 0–4); afterwards 1 if it is a leap year, else 0 -/
  y : Nat
  m : Nat
  d : Nat
  /-- time part: number just being read -/
  t : Nat
  deriving DecidableEq, Repr

def DateSt.beq (a b : DateSt) : Bool :=
  Nat.beq a.pos b.pos && Nat.beq a.y b.y && Nat.beq a.m b.m && Nat.beq a.d b.d && Nat.beq a.t b.t
theorem DateSt.beq_eq (a b : DateSt) (h : a.beq b = true) : a = b := by
  cases a; cases b; simp [DateSt.beq] at h; simp [h]

def DateSt.pp (q : DateSt) : String := s!"(Fmt.DateSt.mk {q.pos} {q.y} {q.m} {q.d} {q.t})"
def DateSt.code (q : DateSt) : Nat := (((q.pos * 10000 + q.y) * 16 + q.m) * 32 + q.d) * 64 + q.t

/-- positions 0..9 of a date; `ymod` bounds the year accumulator (10000 = keep it all) -/
def dateStep (ymod : Nat) (q : DateSt) (c : Nat) : Option DateSt :=
  let d := c - 48
  if q.pos < 4 then (if isDigit c then some { q with pos := q.pos + 1, y := (q.y * 10 + d) % ymod } else none)
  else if q.pos = 4 then (if c = 45 then some { q with pos := 5, y := if isLeap q.y then 1 else 0 } else none)
  else if q.pos = 5 then (if isDigit c then some { q with pos := 6, m := d } else none)
  else if q.pos = 6 then
    (if isDigit c ∧ 1 ≤ q.m * 10 + d ∧ q.m * 10 + d ≤ 12 then some { q with pos := 7, m := q.m * 10 + d } else none)
  else if q.pos = 7 then (if c = 45 then some { q with pos := 8 } else none)
  else if q.pos = 8 then (if isDigit c then some { q with pos := 9, d := d } else none)
  else if q.pos = 9 then
    (if isDigit c ∧ 1 ≤ q.d * 10 + d ∧ q.d * 10 + d ≤ daysIn (q.y = 1) q.m then some ⟨10, 0, 0, 0, 0⟩ else none)
  else none

/-- the readable definition: the year is read in full -/
def isoDate : Spec where
  State := DateSt
  beq := DateSt.beq
  beq_eq := DateSt.beq_eq
  init := ⟨0, 0, 0, 0, 0⟩
  support := 45 :: digits
  step := dateStep 10000
  acc := fun q => q.pos = 10
  code := DateSt.code
  pp := DateSt.pp

/-- the same automaton with the year kept modulo 400 (leap years repeat every 400 years);
    `C20.isoDate_quot` proves it accepts the same strings.  Certificates are checked against this one. -/
def isoDateQ : Spec := { isoDate with step := dateStep 400 }

/-- Time part.  Positions after the date (pos ≥ 10):
    10 'T' | 11,12 hh | 13 ':' | 14,15 mm | 16 ':' (or, if `optSec`, the zone) | 17,18 ss |
    19 '.' or zone | 20 first fraction digit | 21 more fraction digits or zone |
    22,23 offset hh | 24 ':' | 25,26 offset mm | 27 end -/
def timeStep (optSec : Bool) (q : DateSt) (c : Nat) : Option DateSt :=
  let d := c - 48
  let two (max : Nat) : Option DateSt :=   -- second digit of a two-digit field ≤ max
    if isDigit c ∧ q.t * 10 + d ≤ max then some { q with pos := q.pos + 1, t := 0 } else none
  let one : Option DateSt := if isDigit c then some { q with pos := q.pos + 1, t := d } else none
  let zone : Option DateSt :=
    if c = 90 then some { q with pos := 27, t := 0 }
    else if c = 43 ∨ c = 45 then some { q with pos := 22, t := 0 }
    else none
  if q.pos = 10 then (if c = 84 then some { q with pos := 11 } else none)
  else if q.pos = 11 then one
  else if q.pos = 12 then two 23
  else if q.pos = 13 then (if c = 58 then some { q with pos := 14 } else none)
  else if q.pos = 14 then one
  else if q.pos = 15 then two 59
  else if q.pos = 16 then
    (if c = 58 then some { q with pos := 17 }
     else if optSec then zone.map (fun q' => { q' with y := 1 })   -- y = 1 from here on: the seconds were omitted
     else none)
  else if q.pos = 17 then one
  else if q.pos = 18 then two 59
  else if q.pos = 19 then (if c = 46 then some { q with pos := 20 } else zone)
  else if q.pos = 20 then (if isDigit c then some { q with pos := 21 } else none)
  else if q.pos = 21 then (if isDigit c then some q else zone)
  else if q.pos = 22 then one
  else if q.pos = 23 then two 23
  else if q.pos = 24 then (if c = 58 then some { q with pos := 25 } else none)
  else if q.pos = 25 then one
  else if q.pos = 26 then (if isDigit c ∧ q.t * 10 + d ≤ 59 then some { q with pos := 27, t := 0 } else none)
  else none

def dateTimeStep (ymod : Nat) (optSec : Bool) (q : DateSt) (c : Nat) : Option DateSt :=
  if q.pos < 10 then dateStep ymod q c else timeStep optSec q c

/-- RFC 3339 date-time (`optSec = false`); `optSec = true` also takes hh:mm without seconds -/
def isoDateTime (optSec : Bool) : Spec where
  State := DateSt
  beq := DateSt.beq
  beq_eq := DateSt.beq_eq
  init := ⟨0, 0, 0, 0, 0⟩
  support := 43 :: 45 :: 46 :: 58 :: 84 :: 90 :: digits
  step := dateTimeStep 10000 optSec
  acc := fun q => q.pos = 27
  code := DateSt.code
  pp := DateSt.pp

def isoDateTimeQ (optSec : Bool) : Spec := { isoDateTime optSec with step := dateTimeStep 400 optSec }

/-! ### option-taking constructors: IsoDateTime(IsoDatetimeOptions{Precision, Offset, Local}), IsoTime(IsoTimeOptions{Precision})

  Precision nil  = seconds optional, any number (≥ 1) of fraction digits optional   (`Prec.any`)
  Precision -1   = hh:mm only                                                       (`Prec.minute`)
  Precision 0    = hh:mm:ss, no fraction                                            (`Prec.digits 0`)
  Precision n>0  = hh:mm:ss '.' exactly n digits                                    (`Prec.digits n`)
  Offset: a numeric offset ±hh:mm may stand for the zone; Local: the zone may be omitted. -/

inductive Prec where
  | any | minute | digits (n : Nat)

def Prec.secondsAllowed : Prec → Bool
  | .minute => false
  | _ => true

def Prec.fractionAllowed : Prec → Bool
  | .any => true
  | .digits (_ + 1) => true
  | _ => false

/-- how many fraction digits are counted (0 = not counted) -/
def Prec.exact : Prec → Nat
  | .digits n => n
  | _ => 0

structure TOpt where
  prec : Prec
  /-- 0 = no zone (time of day only), 1 = zone required, 2 = zone optional (Local) -/
  zone : Nat
  offset : Bool

/-- the time of day is complete in state `q` (positions as in `timeStep`; `q.d` counts fraction digits) -/
def timeDone (o : TOpt) (q : DateSt) : Bool :=
  match o.prec with
  | .any => q.pos = 16 || q.pos = 19 || q.pos = 21
  | .minute => q.pos = 16
  | .digits 0 => q.pos = 19
  | .digits (n + 1) => q.pos = 21 && q.d = n + 1

def timeStepO (o : TOpt) (q : DateSt) (c : Nat) : Option DateSt :=
  let d := c - 48
  let two (max : Nat) : Option DateSt :=
    if isDigit c ∧ q.t * 10 + d ≤ max then some { q with pos := q.pos + 1, t := 0 } else none
  let one : Option DateSt := if isDigit c then some { q with pos := q.pos + 1, t := d } else none
  let zone : Option DateSt :=   -- after a complete time of day
    if !timeDone o q ∨ o.zone = 0 then none
    else if c = 90 then some ⟨27, 0, 0, 0, 0⟩
    else if (c = 43 ∨ c = 45) ∧ o.offset then some ⟨22, 0, 0, 0, 0⟩
    else none
  if q.pos = 11 then one
  else if q.pos = 12 then two 23
  else if q.pos = 13 then (if c = 58 then some { q with pos := 14 } else none)
  else if q.pos = 14 then one
  else if q.pos = 15 then two 59
  else if q.pos = 16 then (if c = 58 then (if o.prec.secondsAllowed then some { q with pos := 17 } else none) else zone)
  else if q.pos = 17 then one
  else if q.pos = 18 then two 59
  else if q.pos = 19 then (if c = 46 then (if o.prec.fractionAllowed then some { q with pos := 20 } else none) else zone)
  else if q.pos = 20 then (if isDigit c then some { q with pos := 21, d := if o.prec.exact = 0 then 0 else 1 } else none)
  else if q.pos = 21 then
    (if isDigit c then (if o.prec.exact = 0 then some q else if q.d < o.prec.exact then some { q with d := q.d + 1 } else none)
     else zone)
  else if q.pos = 22 then one
  else if q.pos = 23 then two 23
  else if q.pos = 24 then (if c = 58 then some { q with pos := 25 } else none)
  else if q.pos = 25 then one
  else if q.pos = 26 then (if isDigit c ∧ q.t * 10 + d ≤ 59 then some ⟨27, 0, 0, 0, 0⟩ else none)
  else none

def timeAccO (o : TOpt) (q : DateSt) : Bool := q.pos = 27 || (timeDone o q && o.zone != 1)

/-- IsoTime(IsoTimeOptions{Precision}) : a time of day, no zone -/
def isoTimeOpt (p : Prec) : Spec where
  State := DateSt
  beq := DateSt.beq
  beq_eq := DateSt.beq_eq
  init := ⟨11, 0, 0, 0, 0⟩
  support := 46 :: 58 :: digits
  step := timeStepO ⟨p, 0, false⟩
  acc := timeAccO ⟨p, 0, false⟩
  code := DateSt.code
  pp := DateSt.pp

/-- IsoDateTime(IsoDatetimeOptions{Precision, Offset, Local}) -/
def isoDateTimeOpt (p : Prec) (offset loc : Bool) : Spec :=
  let o : TOpt := ⟨p, if loc then 2 else 1, offset⟩
  { State := DateSt
    beq := DateSt.beq
    beq_eq := DateSt.beq_eq
    init := ⟨0, 0, 0, 0, 0⟩
    support := 43 :: 45 :: 46 :: 58 :: 84 :: 90 :: digits
    step := fun q c =>
      if q.pos < 10 then dateStep 10000 q c
      else if q.pos = 10 then (if c = 84 then some { q with pos := 11 } else none)
      else timeStepO o q c
    acc := timeAccO o
    code := DateSt.code
    pp := DateSt.pp }

/-! ### excluded regions of the `_partial` theorems (Proofs/C20.lean) -/

/-- strings the exported Base64URL pattern takes although they break the RFC 4648 length rule:
    alphabet symbols, then at most two '=', with a length that no encoder produces -/
def base64urlBadLen : Spec where
  State := B64St
  beq := B64St.beq
  beq_eq := B64St.beq_eq
  init := ⟨0, 0⟩
  support := base64url.support
  step := fun q c =>
    if c = 61 then (if q.p < 2 then some ⟨q.n, q.p + 1⟩ else none)
    else if q.p = 0 then some ⟨(q.n + 1) % 4, 0⟩ else none
  acc := fun q => if q.p = 0 then q.n = 1 else (q.n + q.p) % 4 ≠ 0
  code := fun q => q.n * 4 + q.p
  pp := B64St.pp

/-- date-times written without the seconds field (`hh:mm` then the zone) -/
def isoDateTimeNoSecQ : Spec := { isoDateTimeQ true with acc := fun q => q.pos = 27 && q.y = 1 }

end Fmt
end Gozod
