/-
  Model of message resolution (C18): internal/issues/finalize.go FinalizeIssue /
  ExtractConfigLevelError, the check-level message applied by internal/engine/checker.go
  executeChecks, and the *wiring* of an issue site: which of the message sources the code that
  raises the issue hands to FinalizeIssue.

  Transcribed after the proposed patches pending/C18-finalize-config-fallback.diff (a nil config
  falls back to the global configuration), pending/C18-element-parse-context.diff and
  pending/C18-reflect-variadic-context.diff (the per-parse context reaches nested schemas).
-/
namespace Gozod.Msg

/-- the five configurable message sources, in the priority order of the property statement
    (the sixth, the built-in English text, is always there) -/
inductive Source where
  | check    -- the failing check's own message          String().Min(5, "…")
  | schema   -- the raising schema's own message          String("…")
  | parse    -- the per-parse error map                   Parse(v, &ParseContext{Error: …})
  | custom   -- the global custom error map               SetConfig(&ZodConfig{CustomError: …})
  | locale   -- the global locale                         SetConfig(locales.De())
  deriving DecidableEq, Repr, Inhabited

def Source.all : List Source := [.check, .schema, .parse, .custom, .locale]

/-! ## FinalizeIssue

  `ρ` is the raw issue; an error map is a function `ρ → String`; a source that is not configured
  is `none` (nil map / nil ctx / nil Inst). -/

abbrev ErrMap (ρ : Type) := ρ → String

structure Sources (ρ : Type) where
  /-- `iss.Message` on entry: the check's own message (executeChecks overwrites it with
      `(*ci.Def.Error)(iss)` when the check has one) or a text preset by the raising code -/
  rawMsg : String
  /-- ExtractSchemaLevelError: the error map reachable from `iss.Inst` -/
  inst : Option (ErrMap ρ)
  /-- `ctx.Error` -/
  parse : Option (ErrMap ρ)
  /-- `config.CustomError`, `config.LocaleError` (config = argument, or core.Config() when nil) -/
  custom : Option (ErrMap ρ)
  locale : Option (ErrMap ρ)
  /-- GenerateDefaultMessage -/
  dflt : ErrMap ρ

def app {ρ : Type} (m : Option (ErrMap ρ)) (iss : ρ) : String :=
  match m with
  | some f => f iss
  | none => ""

/-- ExtractConfigLevelError -/
def configLevel {ρ : Type} (custom locale : Option (ErrMap ρ)) (iss : ρ) : String :=
  let c := app custom iss
  if c ≠ "" then c else
  let l := app locale iss
  if l ≠ "" then l else ""

/-- FinalizeIssue's message, statement by statement -/
def finalize {ρ : Type} (s : Sources ρ) (iss : ρ) : String :=
  let message := s.rawMsg
  if message ≠ "" then message else
  let message := app s.inst iss
  let message := if message = "" then app s.parse iss else message
  let message := if message = "" then configLevel s.custom s.locale iss else message
  if message = "" then s.dflt iss else message

/-- the first non-empty string of a list, else the default -/
def firstNonEmpty : List String → String → String
  | [], d => d
  | m :: r, d => if m ≠ "" then m else firstNonEmpty r d

/-! ## Sites -/

/-- a set of sources -/
structure SrcSet where
  check : Bool
  schema : Bool
  parse : Bool
  custom : Bool
  locale : Bool
  deriving DecidableEq, Repr, Inhabited

def SrcSet.has (s : SrcSet) : Source → Bool
  | .check => s.check | .schema => s.schema | .parse => s.parse | .custom => s.custom | .locale => s.locale

def SrcSet.inter (a b : SrcSet) : SrcSet :=
  ⟨a.check && b.check, a.schema && b.schema, a.parse && b.parse, a.custom && b.custom, a.locale && b.locale⟩

def SrcSet.diff (a b : SrcSet) : SrcSet :=
  ⟨a.check && !b.check, a.schema && !b.schema, a.parse && !b.parse, a.custom && !b.custom, a.locale && !b.locale⟩

def SrcSet.subset (a b : SrcSet) : Bool :=
  (!a.check || b.check) && (!a.schema || b.schema) && (!a.parse || b.parse) && (!a.custom || b.custom) && (!a.locale || b.locale)

def SrcSet.empty : SrcSet := ⟨false, false, false, false, false⟩

/-- "cspgl" letters, as in the harness -/
def SrcSet.ofString (s : String) : SrcSet :=
  let cs := s.toList
  ⟨cs.contains 'c', cs.contains 's', cs.contains 'p', cs.contains 'g', cs.contains 'l'⟩

/-- an issue site: a leaf (issue kind raised by a schema type) below a wrapper, with the sources
    that can be configured for it and the sources its code hands to FinalizeIssue -/
structure Site where
  leaf : String
  wrapper : String
  kind : String
  applicable : SrcSet
  passes : SrcSet
  /-- what the message is when nothing is configured: "d" built-in text, "e" empty -/
  base : String
  /-- the sources that reach FinalizeIssue when the failing check has a message *function* that
      answers "" for the issue.  Equal to `passes` without `check` at every site except `Refine`:
      a refinement without a message presets the text "Invalid input" (nothing is consulted), one
      with a message function does not, so a declining function lets the lower sources through. -/
  passesSilentCheck : SrcSet
  deriving Repr, DecidableEq

/-- the winner the property demands: the first configured source in priority order, else the
    built-in text ("c" "s" "p" "g" "l" "d") -/
def firstConfigured (cfg : SrcSet) : String :=
  if cfg.check then "c" else if cfg.schema then "s" else if cfg.parse then "p"
  else if cfg.custom then "g" else if cfg.locale then "l" else "d"

/-- sentinel error maps: a configured source answers with its own tag -/
def sentinel (on : Bool) (tag : String) : Option (ErrMap Unit) := if on then some (fun _ => tag) else none

/-- the message a site produces under sentinel maps: FinalizeIssue applied to the sources that are
    both configured and passed by the site -/
def siteMessage (passes cfg : SrcSet) : String :=
  let on := passes.inter cfg
  finalize
    { rawMsg := if on.check then "c" else ""
      inst := sentinel on.schema "s"
      parse := sentinel on.parse "p"
      custom := sentinel on.custom "g"
      locale := sentinel on.locale "l"
      dflt := fun _ => "d" } ()

def Site.winner (s : Site) (cfg : SrcSet) : String :=
  let w := siteMessage s.passes cfg
  if w = "d" then s.base else w

/-- the winner when the sources in `silent ⊆ cfg` are message functions that answer "" -/
def Site.winnerSilent (s : Site) (cfg silent : SrcSet) : String :=
  let eff := cfg.diff silent
  let w := siteMessage (if silent.check then s.passesSilentCheck else s.passes) eff
  if w = "d" then s.base else w

end Gozod.Msg
