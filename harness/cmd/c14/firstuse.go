package main

// First-use scenarios (round 4).
//
// Lazily built process-wide state (caches keyed by type, by pattern, by delimiter, sync.Once cells) races only the
// first time an entry point is reached for a given key.  A first-use scenario is a list of entries, each an entry point
// of the library applied to something the process has never seen (a struct type of its own, a JSON-Schema document
// of its own, a constructor not called before).  For every entry, in order, g goroutines are released by a spin
// barrier and all make that call at once; each renders what it got (verdicts on probe values + the JSON Schema of
// the schema obtained) and the rendering is compared with the one the same entry gives in a process of its own
// where it runs alone (`-alone`, a second cold process).  Every type is cold only once per process, so the
// scenario is repeated in several cold processes (`procs`).

import (
	"bufio"
	"fmt"
	"os"
	"os/exec"
	"runtime"
	"strings"
	"sync"
	"sync/atomic"
	"time"

	"github.com/kaptinlin/gozod/coerce"
	"github.com/kaptinlin/gozod/core"
	gjs "github.com/kaptinlin/gozod/jsonschema"
	"github.com/kaptinlin/gozod/types"
	lib "github.com/kaptinlin/jsonschema"

	"verifharness/hx"
	"verifharness/storex"
)

type fuEntry struct {
	name string
	op   func() string
}

// ctor is one exported constructor of the library (package-level, no type parameters, callable with generated
// arguments); the table (constructors_gen.go) is regenerated from the library sources by harness/cmd/c14x.
type ctor struct {
	fn   string
	call func(n int, s string) any
}

var constructors []ctor

func renderSchema(v any) string {
	if v == nil {
		return "nil"
	}
	var out string
	if p := hx.Safely(func() { out = storex.Verdicts(v) + "|" + storex.JS(v) }); p != "" {
		return "PANIC"
	}
	return out
}

// ---- struct types nobody else in the process uses -------------------------------------------------------------

type fuAcct struct {
	Name  string `json:"name" gozod:"required,min=3"`
	Email string `json:"email" gozod:"required,email"`
	Age   int    `json:"age" gozod:"required,min=18"`
}
type fuStrs struct {
	A string `gozod:"min=2,max=10"`
	B string `gozod:"length=5"`
	C string `gozod:"regex=^[A-Z][a-z]*$"`
	D string `gozod:"startswith=pre"`
	E string `gozod:"uuid"`
	F string `gozod:"url"`
}
type fuNums struct {
	A int     `gozod:"min=10"`
	B int     `gozod:"max=100"`
	C float64 `gozod:"gt=0.0"`
	D float64 `gozod:"lte=99.9"`
	E int     `gozod:"positive"`
	F int     `gozod:"required,min=1,max=5"`
}
type fuMods struct {
	R string  `gozod:"required,min=3"`
	O string  `gozod:"optional,max=10"`
	N *string `gozod:"nilable,email"`
	M string  `gozod:"required,min=2,max=20,includes=test"`
}
type fuInner struct {
	Street string `gozod:"required,min=4"`
	Zip    string `gozod:"required,regex=^[0-9]{5}$"`
}
type fuOuter struct {
	Who   string    `gozod:"required,min=2"`
	Addr  fuInner   `gozod:"required"`
	Extra []fuInner `gozod:"max=3"`
}
type fuNode struct {
	Val  int     `gozod:"required,min=1"`
	Next *fuNode `gozod:"optional"`
}
type fuPtrA struct {
	Name string `gozod:"required,min=3"`
	Mail string `gozod:"required,email"`
}
type fuPtrB struct {
	Host string `gozod:"required,min=3,max=30"`
	Port int    `gozod:"required,min=1,max=65535"`
	Tags []string
}
type fuWide struct {
	F0 string  `gozod:"required,min=1"`
	F1 string  `gozod:"required,min=2"`
	F2 string  `gozod:"required,email"`
	F3 int     `gozod:"required,min=3"`
	F4 int     `gozod:"required,max=4"`
	F5 float64 `gozod:"required,gt=5"`
	F6 string  `gozod:"required,regex=^f6"`
	F7 string  `gozod:"required,uuid"`
	F8 string  `gozod:"required,min=8"`
	F9 string  `gozod:"required,max=9"`
}
type fuEmbedUser struct {
	Acct  fuPtrA2 `gozod:"required"`
	Level int     `gozod:"required,min=1,max=9"`
}
type fuPtrA2 struct {
	Name string `gozod:"required,min=3"`
	Mail string `gozod:"required,email"`
}
type fuPlain struct { // no gozod tags at all
	X string
	Y int
}

// probes are built by every call: Parse writes through a pointer it is given (engine.validatePointer stores the
// validated value back into *input), so inputs must not be shared between goroutines.
func structEntry[T any](name string, mk func() any, probesOf func() []T) fuEntry {
	return fuEntry{name, func() string {
		var s any
		if p := hx.Safely(func() { s = mk() }); p != "" {
			return "PANIC-build"
		}
		var parts []string
		for _, pr := range probesOf() {
			parts = append(parts, verdict(s, pr))
		}
		var zero T
		parts = append(parts, verdict(s, zero))
		if !strings.Contains(name, "fuNode") {
			// ToJSONSchema of a schema built from a self-referential struct type recurses without bound (fatal stack
			// overflow, also when run alone; not this property's matter) — the recursive type is only parsed with
			parts = append(parts, storex.JS(s))
		}
		return strings.Join(parts, "|")
	}}
}

func strp(s string) *string { return &s }

func fromStructEntries() []fuEntry {
	return []fuEntry{
		structEntry("FromStruct[fuAcct]", func() any { return types.FromStruct[fuAcct]() },
			func() []fuAcct {
				return []fuAcct{fuAcct{"alice", "alice@example.com", 30}, fuAcct{"x", "not-an-email", 3}}
			}),
		structEntry("FromStruct[fuStrs]", func() any { return types.FromStruct[fuStrs]() },
			func() []fuStrs {
				return []fuStrs{fuStrs{"ab", "12345", "Abc", "prefix", "550e8400-e29b-41d4-a716-446655440000", "https://a.b"}, fuStrs{"a", "1", "abc", "x", "u", "::"}}
			}),
		structEntry("FromStruct[fuNums]", func() any { return types.FromStruct[fuNums]() },
			func() []fuNums { return []fuNums{fuNums{10, 100, 0.5, 99.9, 1, 3}, fuNums{9, 101, 0, 100, -1, 6}} }),
		structEntry("FromStruct[fuMods]", func() any { return types.FromStruct[fuMods]() },
			func() []fuMods {
				return []fuMods{fuMods{"abc", "", strp("a@b.co"), "a test"}, fuMods{"a", "01234567890", strp("not-an-email"), "x"}}
			}),
		structEntry("FromStruct[fuOuter]", func() any { return types.FromStruct[fuOuter]() },
			func() []fuOuter {
				return []fuOuter{fuOuter{"me", fuInner{"Main St", "12345"}, nil}, fuOuter{"m", fuInner{"M", "1"}, []fuInner{{"a", "b"}}}}
			}),
		structEntry("FromStruct[fuNode]", func() any { return types.FromStruct[fuNode]() },
			func() []fuNode { return []fuNode{fuNode{1, &fuNode{2, nil}}, fuNode{0, &fuNode{0, nil}}} }),
		structEntry("FromStructPtr[fuPtrA]", func() any { return types.FromStructPtr[fuPtrA]() },
			func() []*fuPtrA { return []*fuPtrA{&fuPtrA{"alice", "a@b.co"}, &fuPtrA{"x", "no"}} }),
		structEntry("FromStructPtr[fuPtrB]", func() any { return types.FromStructPtr[fuPtrB]() },
			func() []*fuPtrB { return []*fuPtrB{&fuPtrB{"host", 80, []string{"a"}}, &fuPtrB{"h", 0, nil}} }),
		structEntry("FromStruct[fuWide]", func() any { return types.FromStruct[fuWide]() },
			func() []fuWide {
				return []fuWide{fuWide{"a", "ab", "a@b.co", 3, 4, 6, "f6x", "550e8400-e29b-41d4-a716-446655440000", "12345678", "123456789"}, fuWide{}}
			}),
		structEntry("FromStruct[fuEmbedUser]", func() any { return types.FromStruct[fuEmbedUser]() },
			func() []fuEmbedUser {
				return []fuEmbedUser{fuEmbedUser{fuPtrA2{"alice", "a@b.co"}, 3}, fuEmbedUser{fuPtrA2{"x", "no"}, 0}}
			}),
		structEntry("FromStruct[fuPlain]", func() any { return types.FromStruct[fuPlain]() },
			func() []fuPlain { return []fuPlain{fuPlain{"x", 1}} }),
		structEntry("Struct[fuPlain]", func() any { return types.Struct[fuPlain]() },
			func() []fuPlain { return []fuPlain{fuPlain{"x", 1}} }),
	}
}

// ---- JSON Schema in both directions, coercion ------------------------------------------------------------------

func jsonSchemaEntries() []fuEntry {
	docs := []string{
		`{"type":"string","minLength":2,"maxLength":6,"pattern":"^fu[0-9]+$"}`,
		`{"type":"integer","minimum":3,"maximum":9,"multipleOf":3}`,
		`{"type":"object","properties":{"a":{"type":"string","format":"email"},"b":{"type":"number","exclusiveMinimum":0}},"required":["a"]}`,
		`{"type":"array","items":{"type":"string","format":"uuid"},"minItems":1,"maxItems":3}`,
		`{"anyOf":[{"type":"string","format":"ipv4"},{"type":"boolean"}]}`,
		`{"type":"string","enum":["fu-a","fu-b"]}`,
		`{"type":"object","properties":{"when":{"type":"string","format":"date-time"},"mac":{"type":"string","pattern":"^([0-9a-f]{2}-){5}[0-9a-f]{2}$"}},"additionalProperties":false}`,
		`{"allOf":[{"type":"string","minLength":1},{"type":"string","maxLength":4}]}`,
	}
	var out []fuEntry
	for i, d := range docs {
		d := d
		out = append(out, fuEntry{fmt.Sprintf("FromJSONSchema#%d", i), func() string {
			var res string
			if p := hx.Safely(func() {
				var sch lib.Schema
				if err := sch.UnmarshalJSON([]byte(d)); err != nil {
					res = "UNMARSHAL:" + err.Error()
					return
				}
				z, err := gjs.FromJSONSchema(&sch)
				if err != nil {
					res = "ERR"
					return
				}
				res = renderSchema(z)
			}); p != "" {
				return "PANIC"
			}
			return res
		}})
	}
	mk := []struct {
		name string
		f    func() any
	}{
		{"ToJSONSchema(Object+formats)", func() any {
			return types.Object(core.ObjectSchema{"e": types.Email(), "u": types.UUID(), "m": types.MACWithDelimiter("."), "d": types.IsoDateTime(),
				"n": types.Int().Min(1).Max(9), "o": types.String().Optional()})
		}},
		{"ToJSONSchema(Union/Intersection)", func() any {
			return types.Union([]any{types.String().Min(2), types.Intersection(types.Int().Gte(0), types.Int().Lte(5))})
		}},
		{"ToJSONSchema(Lazy)", func() any { return types.LazyAny(func() any { return types.Slice[string](types.String().Min(1)) }) }},
		{"ToJSONSchema(Record/Map/Tuple)", func() any {
			return types.Object(core.ObjectSchema{"r": types.Record(types.String(), types.Bool()), "t": types.Tuple(types.String(), types.Int())})
		}},
		{"coerce(all)", func() any {
			return types.Object(core.ObjectSchema{"b": coerce.Bool(), "s": coerce.String(), "n": coerce.Number(), "i": coerce.Int64(),
				"t": coerce.Time(), "g": coerce.BigInt(), "sb": coerce.StringBool()})
		}},
	}
	for _, m := range mk {
		m := m
		// each goroutine builds its own schema graph; the library state they share is what is behind the constructors
		out = append(out, fuEntry{m.name, func() string {
			var s any
			if p := hx.Safely(func() { s = m.f() }); p != "" {
				return "PANIC-build"
			}
			return renderSchema(s)
		}})
	}
	// one graph built before the barrier and converted / parsed by all goroutines at once (shared schemas, first use)
	for _, m := range mk {
		m := m
		var once sync.Once
		var shared any
		out = append(out, fuEntry{"shared:" + m.name, func() string {
			once.Do(func() { _ = hx.Safely(func() { shared = m.f() }) })
			return renderSchema(shared)
		}})
	}
	return out
}

func constructorEntries() []fuEntry {
	var out []fuEntry
	for _, c := range constructors {
		c := c
		out = append(out, fuEntry{c.fn, func() string {
			var v any
			if p := hx.Safely(func() { v = c.call(3, "fu") }); p != "" {
				return "PANIC-build"
			}
			return renderSchema(v)
		}})
	}
	return out
}

// rangeReenter: a Range callback that derives a schema from the one it is handed.  Every chaining method reads the
// global registry and Describe/Meta write it; Range runs its callback inside the registry's read lock, so the write
// lock requested by the callback's own goroutine can never be granted.
func rangeReenter() {
	done := make(chan struct{})
	go func() {
		s := types.String().Min(2)
		core.GlobalRegistry.Add(s, core.GlobalMeta{Title: "range-reenter"})
		n := 0
		core.GlobalRegistry.Range(func(z core.ZodSchema, m core.GlobalMeta) bool {
			if str, ok := z.(*types.ZodString[string]); ok {
				_ = str.Describe("seen by Range")
				n++
			}
			return true
		})
		close(done)
	}()
	select {
	case <-done:
		fmt.Println("RESULT mismatches=0")
	case <-time.After(4 * time.Second):
		fmt.Println("RESULT deadlock: GlobalRegistry.Range(func(z, m) { z.(*ZodString[string]).Describe(\"…\") }) did not return within 4 s " +
			"(the callback's Describe → GlobalRegistry.Add waits for the write lock while its own goroutine holds the read lock)")
		buf := make([]byte, 1<<16)
		os.Stderr.Write(buf[:runtime.Stack(buf, true)])
	}
}

func firstUseScenarios() []scenario {
	return []scenario{
		{name: "range-reenter", special: rangeReenter},
		{name: "first-use:from-struct", procs: 3, firstUse: fromStructEntries},
		{name: "first-use:json-schema", procs: 2, firstUse: jsonSchemaEntries},
		{name: "first-use:constructors", procs: 1, firstUse: constructorEntries},
	}
}

// runAlone prints what every entry gives when nothing else runs (a cold process of its own).
func runAlone(sc scenario) {
	w := bufio.NewWriter(os.Stdout)
	defer w.Flush()
	for i, e := range sc.firstUse() {
		fmt.Fprintf(w, "ALONE\t%d\t%s\n", i, strings.ReplaceAll(e.op(), "\n", " "))
	}
}

func runFirstUse(sc scenario, g int, self string, args []string) int {
	// the run-alone results come from another cold process
	cmd := exec.Command(self, append([]string{"-scenario", sc.name, "-alone"}, args...)...)
	cmd.Env = append(os.Environ(), "GORACE=halt_on_error=0 exitcode=0")
	outb, err := cmd.Output()
	if err != nil {
		fmt.Fprintln(os.Stderr, "alone run failed:", err)
		return 1
	}
	alone := map[int]string{}
	for _, ln := range strings.Split(string(outb), "\n") {
		f := strings.SplitN(ln, "\t", 3)
		if len(f) == 3 && f[0] == "ALONE" {
			var i int
			fmt.Sscan(f[1], &i)
			alone[i] = f[2]
		}
	}
	mismatches := 0
	var mu sync.Mutex
	for i, e := range sc.firstUse() {
		var ready atomic.Int32
		var wg sync.WaitGroup
		for w := 0; w < g; w++ {
			wg.Add(1)
			go func() {
				defer wg.Done()
				ready.Add(1)
				for ready.Load() < int32(g) {
					runtime.Gosched()
				}
				got := strings.ReplaceAll(e.op(), "\n", " ")
				if got != alone[i] {
					mu.Lock()
					mismatches++
					if mismatches <= 3 {
						fmt.Fprintf(os.Stderr, "MISMATCH entry=%s\n  concurrent first use: %.300s\n  run alone:            %.300s\n", e.name, got, alone[i])
					}
					mu.Unlock()
				}
			}()
		}
		wg.Wait()
	}
	return mismatches
}
