/-
  Line handler for C05: `c05 CFG NODE V TABLE FAULT` (FAULT = `-` or `K (N seg…)×K`: the K planted locations)
    → "<model>\t<spec>"
  model = ok | err <path set> r=<0|1> p=<0|1> c=<0|1>   (paths of the issues the model of the code reports;
          r: every path resolves in the input or reaches the parent of a missing key;
          p: every path is a planted location, a prefix of one, or inside a planted value (1 when nothing was planted);
          c: every planted location has a reported path at it, above it or inside it)
  The model runs over what the container sees of its members (`c.env`), the ideal paths over their own answers (`c.own`).
  spec  = ok | err <ideal path set>             (complete paths of the offending locations)
-/
import Gozod.Model.Containers
import Gozod.Model.ContainersSpec
import Gozod.Drv.ContParse
namespace Gozod.Drv.C05
open Gozod.Cont Gozod.Drv.ContParse

def b01 (b : Bool) : String := if b then "1" else "0"

/-- the issue is at the fault, above it, or inside the value planted there. -/
def isPrefix : List Seg → List Seg → Bool
  | [], _ => true
  | _ :: _, [] => true
  | a :: as, b :: bs => a == b && isPrefix as bs

def fault : List String → Option (Option (List (List Seg)))
  | ["-"] => some none
  | ts => match counted (counted seg) ts with
    | some (ps, []) => some (some ps)
    | _ => none

def handle (ts : List String) : String :=
  match parseCase ts with
  | none => "bad-op"
  | some c =>
    match fault c.rest with
    | none => "bad-op"
    | some f =>
      let r := runOw c.cfg c.env c.node c.input
      let s := Spec.accepts c.own c.written c.input
      let m := match r with
        | .ok => "ok"
        | .err is =>
          let ps := is.map Issue.path
          let res := ps.all (resolvesOrParent c.input)
          let pre := match f with
            | none => true
            | some locs => ps.all (fun p => locs.any (isPrefix p))
          let cov := match f with
            | none => true
            | some locs => locs.all (fun l => ps.any (fun p => isPrefix p l))
          s!"err {pathSet ps} r={b01 res} p={b01 pre} c={b01 cov}"
      let sp := if s then "ok" else s!"err {pathSet (Spec.paths c.own c.written c.input)}"
      s!"{m}\t{sp}"

end Gozod.Drv.C05
