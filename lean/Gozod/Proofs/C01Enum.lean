/-
  C01 — Enum / Literal: membership as the code computes it (Go `==` on interface values, `GoEq.enumAccepts`,
  the definition the driver executes) holds exactly when the input is one of the listed values (`GoEq.OneOf`, the
  documented meaning written independently), and the driver's spec oracle (`GoEq.specOneOf`) decides that meaning.
-/
import Gozod.Model.GoEq
namespace Gozod.C01
open Gozod Gozod.GoEq

theorem floatEq_iff (x y : F) : floatEq x y = true ↔ sameNumber x y := by
  cases x <;> cases y <;> simp [floatEq, F.cmp, sameNumber]

theorem sameNumberB_iff (x y : F) : sameNumberB x y = true ↔ sameNumber x y := by
  cases x <;> cases y <;> simp [sameNumberB, sameNumber]

/-- Go's `==` on two interface values is "same Go type and same value". -/
theorem goEq_iff (a b : GoVal) : goEq a b = true ↔ SameValue a b := by
  cases a <;> cases b <;> simp [goEq, SameValue, floatEq_iff]

theorem sameValueB_iff (a b : GoVal) : sameValueB a b = true ↔ SameValue a b := by
  cases a <;> cases b <;> simp [sameValueB, SameValue, sameNumberB_iff]

/-- **C01 (Enum / Literal).** The schema's membership test accepts exactly the inputs that are one of the listed
    values — same dynamic Go type and same value; a NaN is no value (never accepted, even when listed), +0 and −0 are
    the same number, a value of a named type is not a value of its underlying type. -/
theorem c01_enum_iff (members : List GoVal) (x : GoVal) : enumAccepts members x = true ↔ OneOf members x := by
  simp only [enumAccepts, List.any_eq_true, OneOf, goEq_iff]

/-- The driver's spec oracle decides the documented meaning. -/
theorem c01_enum_spec_iff (members : List GoVal) (x : GoVal) : specOneOf members x = true ↔ OneOf members x := by
  induction members with
  | nil => simp [specOneOf, OneOf]
  | cons m ms ih =>
    simp only [specOneOf, Bool.or_eq_true, sameValueB_iff, ih, OneOf, List.mem_cons]
    constructor
    · rintro (h | ⟨m', hm, h⟩)
      · exact ⟨m, Or.inl rfl, h⟩
      · exact ⟨m', Or.inr hm, h⟩
    · rintro ⟨m', hm | hm, h⟩
      · subst hm; exact Or.inl h
      · exact Or.inr ⟨m', hm, h⟩

/-- Model and spec oracle agree on every member list and input (so a disagreement in the run is the implementation's). -/
theorem c01_enum_model_eq_spec (members : List GoVal) (x : GoVal) : enumAccepts members x = specOneOf members x := by
  rw [Bool.eq_iff_iff, c01_enum_iff, c01_enum_spec_iff]

/-- A NaN input is never accepted, whatever is listed. -/
theorem c01_enum_nan (members : List GoVal) (t : String) : enumAccepts members (.float t .nan) = false := by
  rw [Bool.eq_false_iff]; intro h
  obtain ⟨m, _, hs⟩ := (c01_enum_iff members _).mp h
  cases m <;> simp [SameValue, sameNumber] at hs

/-- A value of another dynamic type is never accepted (`int64(1)` against `Enum(1)`, `MyString("a")` against `Enum("a")`). -/
theorem c01_enum_other_type (members : List GoVal) (x : GoVal) (h : ∀ m ∈ members, m.ty ≠ x.ty) :
    enumAccepts members x = false := by
  rw [Bool.eq_false_iff]; intro ha
  obtain ⟨m, hm, hs⟩ := (c01_enum_iff members x).mp ha
  apply h m hm
  cases m <;> cases x <;> simp [SameValue] at hs <;> simp [GoVal.ty, hs.1]

example : enumAccepts [.int "int" 1, .int "int" 2] (.int "int64" 1) = false := by decide
example : enumAccepts [.float "float64" (.fin 0 3)] (.float "float64" (.fin (-0) 7)) = true ∧
    enumAccepts [.float "float64" (.fin 5 1)] (.float "float64" (.fin 10 2)) = true := by decide  -- +0 listed, −0 given; 2.5 = 10/4
example : enumAccepts [.str "string" [97]] (.str "main.myStr" [97]) = false := by decide
example : OneOf [.int "int" 1] (.int "int" 1) := ⟨_, List.mem_cons_self .., rfl, rfl⟩

end Gozod.C01
