/-
  Transcription of what gozodgen emits for ONE field (`cmd/gozodgen/writer.go`:
  `generateFieldSchemaCode`, `generateValidatorChain`, `baseConstructor`, `basicTypeConstructor`,
  `generateTypedValue`, `isStringType`, `isPointerType`), on top of the transcription of the generator's
  own tag parser (`GenSplit`) and of its literal formatting (`GenChain`).

  Round 4: the emitted expression is built as a STRUCTURE first (`Chain` = constructor expression +
  method calls with classified arguments — what the typing judgement of `GenTyped` reads) and rendered to
  text second;  field types are type expressions (`Ty`: the 16 basic names, `time.Time`, named struct types,
  pointers, slices, maps, nested arbitrarily), and `baseConstructor` is transcribed as it is written: over
  the TEXT of the type name (`getTypeNameFromAST`), including its `strings.LastIndex(typeName, "]")`.

      emitField t sn tag  =  the schema expression written for  `F <t> \`gozod:"<tag>"\``  in `type <sn> struct`

  Strings are lists of code points; `none` = outside the modelled fragment (gozodgen refuses the tag,
  `strconv.Quote` of a rune whose quoting is not modelled, a JSON `default=` on a slice / map field).
-/
import Gozod.Model.GenChain
import Gozod.Model.GenSplit
namespace Gozod.GenEmit
open Gozod.TagParser Gozod.GenSplit

def asc (s : String) : Str := s.toList.map Char.toNat

/-- the keys of `basicTypes` / `basicTypeConstructors` -/
inductive Basic
  | string | int | int8 | int16 | int32 | int64 | uint | uint8 | uint16 | uint32 | uint64
  | float32 | float64 | bool | complex64 | complex128
  deriving DecidableEq, Repr

def Basic.all : List Basic :=
  [.string, .int, .int8, .int16, .int32, .int64, .uint, .uint8, .uint16, .uint32, .uint64,
   .float32, .float64, .bool, .complex64, .complex128]

/-- the Go spelling of the type -/
def Basic.name : Basic → String
  | .string => "string" | .int => "int" | .int8 => "int8" | .int16 => "int16" | .int32 => "int32" | .int64 => "int64"
  | .uint => "uint" | .uint8 => "uint8" | .uint16 => "uint16" | .uint32 => "uint32" | .uint64 => "uint64"
  | .float32 => "float32" | .float64 => "float64" | .bool => "bool" | .complex64 => "complex64" | .complex128 => "complex128"

/-- `basicTypeConstructors[name]` without the `gozod.` prefix and the `()` -/
def Basic.ctorName : Basic → String
  | .string => "String" | .int => "Int" | .int8 => "Int8" | .int16 => "Int16" | .int32 => "Int32" | .int64 => "Int64"
  | .uint => "Uint" | .uint8 => "Uint8" | .uint16 => "Uint16" | .uint32 => "Uint32" | .uint64 => "Uint64"
  | .float32 => "Float32" | .float64 => "Float64" | .bool => "Bool" | .complex64 => "Complex64" | .complex128 => "Complex128"

def Basic.ofName? (s : Str) : Option Basic := Basic.all.find? fun b => asc b.name = s

/-- field type expressions: what `getTypeNameFromAST` prints and `typesToReflectType` classifies -/
inductive Ty
  | basic (b : Basic)
  | time                      -- `time.Time`
  | named (n : Str)           -- an identifier that is not a basic name: a struct type of the package
  | ptr (t : Ty) | slice (t : Ty) | map (k v : Ty)
  deriving DecidableEq, Repr

/-- `getTypeNameFromAST` -/
def Ty.typeName : Ty → Str
  | .basic b => asc b.name
  | .time => asc "time.Time"
  | .named n => n
  | .ptr t => 0x2A :: t.typeName
  | .slice t => asc "[]" ++ t.typeName
  | .map k v => asc "map[" ++ k.typeName ++ [0x5D] ++ v.typeName

/-- `reflect.Kind` of `typesToReflectType(t)`, as far as the writer looks at it
    (a named struct type becomes `any`: Interface; `time.Time` the marker struct) -/
inductive RKind | basic (b : Basic) | pointer | slice | map | other
  deriving DecidableEq, Repr

def Ty.kind : Ty → RKind
  | .basic b => .basic b | .ptr _ => .pointer | .slice _ => .slice | .map _ _ => .map | _ => .other

/-- `isStringType` -/
def Ty.isString : Ty → Bool
  | .basic .string => true | .ptr (.basic .string) => true | _ => false
/-- `isPointerType` -/
def Ty.isPtr : Ty → Bool
  | .ptr _ => true | _ => false

/-! ### the structure of an emitted expression -/

/-- an argument as gozodgen writes it -/
inductive Arg
  | raw (text : Str)          -- the parameter of the tag, verbatim (`fmt.Sprintf(".Min(%s)", p)`)
  | quoted (lit : Str)        -- `strconv.Quote(p)`: the text of a Go string literal
  | regexp (lit : Str)        -- `regexp.MustCompile("<escaped>")`
  deriving DecidableEq, Repr

structure Call where
  name : String
  args : List Arg
  deriving DecidableEq, Repr

/-- constructor expressions of `baseConstructor` and of the UUID / Enum special cases -/
inductive CExpr
  | prim (b : Basic)                 -- gozod.String() …
  | any | time                       -- gozod.Any(), gozod.Time()
  | fromStruct (tyText : Str)        -- gozod.FromStruct[<text>]()
  | lazyStruct (n : Str)             -- gozod.Lazy(func() gozod.ZodType[any] { return gozod.FromStruct[<n>]() })
  | slice (e : CExpr) | record (e : CExpr)
  | uuid | enum (vals : List Str)    -- vals: the quoted literals
  deriving Repr

structure Chain where
  ctor : CExpr
  calls : List Call
  deriving Repr

def joinSep (sep : Str) : List Str → Str
  | [] => []
  | [x] => x
  | x :: xs => x ++ sep ++ joinSep sep xs

def Arg.render : Arg → Str
  | .raw t => t
  | .quoted l => l
  | .regexp l => asc "regexp.MustCompile(" ++ l ++ [0x29]

def Call.render (c : Call) : Str := [0x2E] ++ asc c.name ++ [0x28] ++ joinSep (asc ", ") (c.args.map Arg.render) ++ [0x29]

def CExpr.render : CExpr → Str
  | .prim b => asc ("gozod." ++ b.ctorName ++ "()")
  | .any => asc "gozod.Any()" | .time => asc "gozod.Time()"
  | .fromStruct t => asc "gozod.FromStruct[" ++ t ++ asc "]()"
  | .lazyStruct n => asc "gozod.Lazy(func() gozod.ZodType[any] { return gozod.FromStruct[" ++ n ++ asc "]() })"
  | .slice e => asc "gozod.Slice(" ++ e.render ++ [0x29]
  | .record e => asc "gozod.Record(" ++ e.render ++ [0x29]
  | .uuid => asc "gozod.UUID()"
  | .enum vals => asc "gozod.Enum(" ++ joinSep (asc ", ") vals ++ [0x29]

def Chain.render (c : Chain) : Str := c.ctor.render ++ (c.calls.map Call.render).flatten

/-! ### `baseConstructor(typeName, structName)` — over the text of the type name -/

def cutPrefix (p s : Str) : Option Str := if p.isPrefixOf s then some (s.drop p.length) else none

/-- `strings.LastIndex(s, "]")` -/
def lastIndexRB : Str → Option Nat
  | [] => none
  | c :: rest =>
    match lastIndexRB rest with
    | some i => some (i + 1)
    | none => if c = 0x5D then some 0 else none

/-- `basicTypeConstructor` -/
def basicCtor (name : Str) : CExpr :=
  match Basic.ofName? name with | some b => .prim b | none => .any

def trimStar (s : Str) : Str := (cutPrefix [0x2A] s).getD s

/-- `baseConstructor`; the fuel is the length of the type name (every recursive call is on a proper suffix) -/
def baseCtorF (sn : Str) : Nat → Str → CExpr
  | 0, _ => .any
  | f + 1, tn =>
    match cutPrefix [0x2A] tn with
    | some base =>
      if (Basic.ofName? base).isSome then basicCtor base
      else if sn ≠ [] ∧ base = sn then .lazyStruct base
      else .fromStruct base
    | none =>
    match cutPrefix (asc "[]") tn with
    | some elem =>
      let clean := trimStar elem
      if sn ≠ [] ∧ clean = sn then .slice (.lazyStruct clean) else .slice (baseCtorF sn f elem)
    | none =>
    if (asc "map[").isPrefixOf tn then
      match lastIndexRB tn with
      | some idx =>
        if idx < tn.length - 1 then
          let val := tn.drop (idx + 1)
          let clean := trimStar val
          if sn ≠ [] ∧ clean = sn then .record (.lazyStruct clean) else .record (baseCtorF sn f val)
        else .record .any
      | none => .record .any
    else if (Basic.ofName? tn).isSome then basicCtor tn
    else if tn = asc "time.Time" then .time
    else if sn ≠ [] ∧ tn = sn then .lazyStruct tn
    else if tn ≠ asc "unknown" then .fromStruct tn
    else .any

def baseCtor (t : Ty) (sn : Str) : CExpr := baseCtorF sn (t.typeName.length + 1) t.typeName

/-! ### `generateValidatorChain(rule, fieldType)` -/

def startsWithBr (s : Str) : Bool := s.head? = some cLBracket || s.head? = some cLBrace
def endsWith (c : Nat) (s : Str) : Bool := s.getLast? = some c

/-- `generateTypedValue(method, value, fieldType)`: `strconv.Quote` for kind String, the value verbatim for the
    other basic kinds and for `any`/struct kinds; slices and maps: verbatim unless the (trimmed) value is bracketed —
    then the JSON path of `generateSliceValue` / `generateMapValue`, which is not modelled (`none`);
    pointers: the element type -/
def typedArg (value : Str) : Ty → Option Arg
  | .basic .string => (GenChain.emitDefaultFixed value).map Arg.quoted
  | .ptr t => typedArg value t
  | .slice _ =>
    let v := trimSpace value
    if v.head? = some cLBracket ∧ endsWith 0x5D v then none else some (.raw v)
  | .map _ _ =>
    let v := trimSpace value
    if v.head? = some cLBrace ∧ endsWith 0x7D v then none else some (.raw v)
  | _ => some (.raw value)

def call1 (m : String) (ps : List Str) : Option (List Call) :=
  match ps with
  | p :: _ => some [⟨m, [.raw p]⟩]
  | [] => some []

/-- `generateValidatorChain(rule, fieldType)`: zero or one call -/
def chainOf (r : Rule) (t : Ty) : Option (List Call) :=
  let ps := r.params.getD []
  let n := r.name
  if n = asc "min" then call1 "Min" ps else if n = asc "max" then call1 "Max" ps
  else if n = asc "gt" then call1 "Gt" ps else if n = asc "gte" then call1 "Gte" ps
  else if n = asc "lt" then call1 "Lt" ps else if n = asc "lte" then call1 "Lte" ps
  else if n = asc "refine" then call1 "Refine" ps else if n = asc "check" then call1 "Check" ps
  else if n = asc "email" then some [⟨"Email", []⟩] else if n = asc "url" then some [⟨"URL", []⟩]
  else if n = asc "ipv4" then some [⟨"IPv4", []⟩] else if n = asc "ipv6" then some [⟨"IPv6", []⟩]
  else if n = asc "trim" then some [⟨"Trim", []⟩] else if n = asc "lowercase" then some [⟨"ToLowerCase", []⟩]
  else if n = asc "uppercase" then some [⟨"ToUpperCase", []⟩] else if n = asc "nilable" then some [⟨"Nilable", []⟩]
  else if n = asc "regex" then
    match ps with
    | p :: _ => some [⟨"Regex", [.regexp (GenChain.emitRegex p)]⟩]
    | [] => some []
  else if n = asc "default" ∨ n = asc "prefault" then
    match ps with
    | p :: rest =>
      let value := if !rest.isEmpty && !startsWithBr p then joinSep [0x20] ps else p
      (typedArg value t).map fun a => [⟨if n = asc "default" then "Default" else "Prefault", [a]⟩]
    | [] => some []
  else some []   -- required, uuid, enum, time, unknown names: nothing

def allSome : List (Option Str) → Option (List Str)
  | [] => some []
  | none :: _ => none
  | some x :: xs => (allSome xs).map (x :: ·)

def chainAll (rs : List Rule) (t : Ty) : Option (List Call) :=
  rs.foldl (fun acc r => match acc, chainOf r t with | some a, some c => some (a ++ c) | _, _ => none) (some [])

def hasName (rs : List Rule) (n : Str) : Bool := rs.any (·.name = n)

def optionalCall (b : Bool) : List Call := if b then [⟨"Optional", []⟩] else []

/-- `generateFieldSchemaCode`, as a structure -/
def emitChain (t : Ty) (sn : Str) (rs : List Rule) : Option Chain :=
  let required := hasName rs (asc "required")
  if hasName rs (asc "uuid") ∧ t.isString then
    (chainAll (rs.filter (·.name ≠ asc "uuid")) t).map fun c => ⟨.uuid, c ++ optionalCall (!required && !t.isPtr)⟩
  else
    match (if t.isString then rs.find? (·.name = asc "enum") else none) with
    | some e =>
      -- strconv.Quote(param) (fix 6be4d1c); `none` when a member holds a rune whose quoting is not modelled
      match allSome ((e.params.getD []).map GenChain.emitDefaultFixed) with
      | none => none
      | some vals =>
        (chainAll (rs.filter (·.name ≠ asc "enum")) t).map fun c => ⟨.enum vals, c ++ optionalCall (!required && !t.isPtr)⟩
    | none =>
      (chainAll rs t).map fun c => ⟨baseCtor t sn, c ++ optionalCall (t.isPtr || !required)⟩

/-- the text of the emitted expression -/
def emitRules (t : Ty) (sn : Str) (rs : List Rule) : Option Str := (emitChain t sn rs).map Chain.render

def emitField (t : Ty) (sn : Str) (tag : Str) : Option Str :=
  match genParseTag tag with
  | .ok rs => emitRules t sn rs
  | .error _ => none

/-! ### `generateImports` -/

/-- import paths gozodgen writes for a struct with these fields, beside `github.com/kaptinlin/gozod`
    (the `time` import is keyed on `field.Type.String()` containing "time.Time", which the marker type
    `main.timeType` never does: it is never written) -/
def importsOf (fields : List (List Rule)) : List String :=
  let has (ns : List String) := fields.any fun rs => rs.any fun r => ns.any fun n => r.name = asc n
  (if has ["trim", "lowercase", "uppercase"] then ["strings"] else []) ++
  (if has ["regex"] then ["regexp"] else []) ++
  (if has ["url"] then ["net/url"] else []) ++
  (if has ["ipv4", "ipv6"] then ["net"] else []) ++
  (if has ["refine", "check"] then ["github.com/kaptinlin/gozod/core"] else [])

end Gozod.GenEmit
