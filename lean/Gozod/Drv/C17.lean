/-
  Line handler for C17 (coercion preserves the value or fails).

    H <helper> <tgt> SRC | ORACLE          helper ∈ toInt64 toInteger toFloat64 toFloat toBool toString toBigInt to
    S <tgt> <ptr 0|1> <n> (<op> <bkind> <bval>)^n SRC | ORACLE   coercing schema AND plain schema with a chain of n checks:
         lt|lte|gt|gte i64|f64|big <bound>   mul i64|f64|big <divisor>   minlen|maxlen n <len>   prefix h <hex>   refine - -
         observation "<coercing schema> ~ <plain schema on coerce.To[T](input) (on the input itself when it has the type)>":
         model = `CoerceSchema.parseValue` ~ `CoerceSchema.plainOnCoerced` / `parsePlain` (the two sides of `C17S.c17_schema_eq`)

    tgt  ∈ i8 … uint | f32 | f64 | bool | str | big
    SRC  := <intkind> <dec> | f32 <bits> <fmthex> | f64 <bits> <fmthex> | bool 0|1 | big <dec> | nil | other
          | c128|c64 <re bits> <im bits> <math.Sqrt(re*re+im*im) bits>
          | x <go type>      a numeric value of a Go type no switch names (uintptr, named types): model source `other`
          | str <hex|-> <blank 0|1> <normhex|-> <ParseInt dec|E> <ParseFloat64 bits|E> <ParseFloat32 bits|E> <SetString10 dec|E> <0x prefix 0|1> <SetString16 dec|E>
    ORACLE := <den> <d64> <d32> <srt> <bden>
       den  = Q<num>/<den> | nan | +inf | -inf | none   exact denotation (harness's own grammar; used for strings)
       d64/d32 = F<a>/<k> | +inf | -inf | nan | E        math/big's nearest float64/float32 of den
       srt  = 1|0|-   does the FormatFloat text denote (math/big) a value that rounds back to the source
       bden = t|f|E   the documented truthy table, for string sources

  Output: "<model>\t<spec>\t<flags>"; observations are `ok <canon>` | `err`.
-/
import Gozod.Model.Coerce
import Gozod.Model.CoerceSchema
namespace Gozod.Drv.C17
open Gozod Gozod.Coerce Gozod.CoerceSchema

def hexVal (c : Char) : Option Nat :=
  if '0' ≤ c ∧ c ≤ '9' then some (c.toNat - '0'.toNat)
  else if 'a' ≤ c ∧ c ≤ 'f' then some (c.toNat - 'a'.toNat + 10)
  else none

def unhexL : List Char → Option (List Nat)
  | [] => some []
  | a :: b :: rest => do
    let x ← hexVal a
    let y ← hexVal b
    let r ← unhexL rest
    pure ((x * 16 + y) :: r)
  | _ => none

def unhex (s : String) : Option (List Nat) := if s == "-" then some [] else unhexL s.toList

def hexDigit (n : Nat) : Char := if n < 10 then Char.ofNat (n + 48) else Char.ofNat (n - 10 + 97)
def hex (bs : List Nat) : String :=
  if bs.isEmpty then "-" else String.ofList (bs.flatMap (fun b => [hexDigit (b / 16), hexDigit (b % 16)]))

def bytesToString (bs : List Nat) : String := String.ofList (bs.map Char.ofNat)

def optInt (s : String) : Option (Option Int) := if s == "E" then some none else s.toInt?.map some
def optF (s : String) : Option (Option F) := if s == "E" then some none else s.toNat?.map (fun b => some (F.ofBits b))

/-- Parse `F<a>/<k>`, `nan`, `+inf`, `-inf`. -/
def parseShownF (s : String) : Option F :=
  if s == "nan" then some .nan else if s == "+inf" then some .pinf else if s == "-inf" then some .ninf
  else if s.startsWith "F" then
    match ((s.drop 1).toString).splitOn "/" with
    | [a, k] => do let a ← a.toInt?; let k ← k.toNat?; pure (.fin a k)
    | _ => none
  else none

/-- Exact denotation of a source on the extended rationals. -/
inductive Den where
  | none | nan | pinf | ninf | rat (n : Int) (d : Nat)
  deriving Repr, Inhabited

def parseDen (s : String) : Option Den :=
  if s == "none" then some .none else if s == "nan" then some .nan
  else if s == "+inf" then some .pinf else if s == "-inf" then some .ninf
  else if s.startsWith "Q" then
    match ((s.drop 1).toString).splitOn "/" with
    | [n, d] => do let n ← n.toInt?; let d ← d.toNat?; if d = 0 then Option.none else pure (.rat n d)
    | _ => Option.none
  else Option.none

structure Case where
  src : Src
  fmt : List Nat := []       -- FormatFloat text of a float source
  strDen : Den := .none      -- for string sources
  d64 : Option F := none
  d32 : Option F := none
  srt : String := "-"
  bden : Option Bool := none

def ofF (x : F) : Den :=
  match x with
  | .nan => .nan | .pinf => .pinf | .ninf => .ninf
  | .fin a k => .rat a (2 ^ k)

/-- Independent reading of what a source denotes (written against the Go value, not the model). -/
def Case.den (c : Case) : Den :=
  match c.src with
  | .int _ v => .rat v 1
  | .big v => .rat v 1
  | .f32 x => ofF x
  | .f64 x => ofF x
  | .bool b => .rat (if b then 1 else 0) 1
  | .str _ => c.strDen
  | .cplx re im _ => (match im with
    | .fin 0 _ => ofF re          -- a complex number with zero imaginary part denotes its real part
    | _ => .none)
  | .nilptr => .none
  | .other => c.strDen            -- a value of a Go type the code has no case for (`x <type>`:
                                  -- uintptr, named numeric types): the harness says what it holds

def parseSrc : List String → Option (Src × List Nat × List String)
  | "f32" :: b :: f :: rest => do let b ← b.toNat?; let f ← unhex f; pure (.f32 (F.ofBits b), f, rest)
  | "f64" :: b :: f :: rest => do let b ← b.toNat?; let f ← unhex f; pure (.f64 (F.ofBits b), f, rest)
  | "c128" :: re :: im :: mg :: rest => do
    let re ← re.toNat?; let im ← im.toNat?; let mg ← mg.toNat?
    pure (.cplx (F.ofBits re) (F.ofBits im) (F.ofBits mg), [], rest)
  | "c64" :: re :: im :: mg :: rest => do
    let re ← re.toNat?; let im ← im.toNat?; let mg ← mg.toNat?
    pure (.cplx (F.ofBits re) (F.ofBits im) (F.ofBits mg), [], rest)
  | "bool" :: b :: rest => if b == "1" then some (.bool true, [], rest) else if b == "0" then some (.bool false, [], rest) else none
  | "big" :: v :: rest => do let v ← v.toInt?; pure (.big v, [], rest)
  | "nil" :: rest => some (.nilptr, [], rest)
  | "other" :: rest => some (.other, [], rest)
  | "x" :: _ :: rest => some (.other, [], rest)
  | "str" :: h :: bl :: nm :: pi :: pf :: pf32 :: pb :: hx :: pb16 :: rest => do
    let bytes ← unhex h
    let nm ← unhex nm
    let pi ← optInt pi
    let pf ← optF pf
    let pf32 ← optF pf32
    let pb ← optInt pb
    let pb16 ← optInt pb16
    -- TrimSpace / ParseInt / SetString / the 0x test are computed here (Model/ParseInt.lean); the
    -- values the harness shipped for them (bl, pi, pb, hx, pb16) are not used by the model any
    -- more — they are compared with the Lean functions on the `P` lines.
    let _ := (bl, pi, pb, hx, pb16)
    -- ToLower(TrimSpace(s)) is computed for ASCII text; for other text the shipped value is used
    let t := ParseInt.trimSpace bytes
    let nm := if ParseInt.isASCII t then ParseInt.lowerASCII t else nm
    pure (.str (StrInfo.ofText bytes (bytesToString nm) pf pf32), [], rest)
  | k :: v :: rest => do
    let t ← IntTy.ofString? k
    let v ← v.toInt?
    if t.inRange v then pure (.int t v, [], rest) else none
  | _ => none

def parseCase (ts : List String) : Option Case := do
  let (src, fmt, rest) ← parseSrc ts
  match rest with
  | ["|", den, d64, d32, srt, bden] =>
    let den ← parseDen den
    let f (s : String) : Option (Option F) := if s == "E" then some none else (parseShownF s).map some
    let d64 ← f d64
    let d32 ← f d32
    let bden := if bden == "t" then some true else if bden == "f" then some false else none
    pure { src := src, fmt := fmt, strDen := den, d64 := d64, d32 := d32, srt := srt, bden := bden }
  | _ => none

def parseTgt (s : String) : Option Tgt :=
  match s with
  | "f32" => some .f32 | "f64" => some .f64 | "bool" => some .bool | "str" => some .str | "big" => some .big
  | k => (IntTy.ofString? k).map Tgt.int

def showVal : Val → String
  | .int v => s!"i{v}"
  | .flt x => showF x
  | .bool b => if b then "true" else "false"
  | .str bs => "s" ++ hex bs

def showR : R Val → String
  | .ok v => "ok " ++ showVal v
  | .error _ => "err"

/-! ### the specification oracle -/

/-- The integer a denotation is, if it is one. -/
def Den.int? : Den → Option Int
  | .rat n d => if n % (d : Int) = 0 then some (n / (d : Int)) else Option.none
  | _ => Option.none

/-- What a correct coercion of the case to `t` yields: `some v` = the one value that preserves
    the source (correctly rounded for float targets), `none` = must be an error. -/
def specVal (t : Tgt) (c : Case) : Option Val :=
  match t with
  | .int ty => match c.den.int? with
    | some n => if ty.inRange n then some (.int n) else none
    | none => none
  | .big => c.den.int?.map Val.int
  | .f64 => match c.den with
    | .pinf => some (.flt .pinf) | .ninf => some (.flt .ninf)
    | .rat _ _ => match c.d64 with
      | some (.fin a k) => some (.flt (.fin a k))
      | _ => none                      -- a finite source that rounds to ±Inf must fail
    | _ => none
  | .f32 => match c.den with
    | .pinf => some (.flt .pinf) | .ninf => some (.flt .ninf)
    | .rat _ _ => match c.d32 with
      | some (.fin a k) => some (.flt (.fin a k))
      | _ => none
    | _ => none
  | .bool => match c.src with
    | .bool b => some (.bool b)
    | .str _ => c.bden.map Val.bool
    | _ => match c.den with
      | .rat n _ => some (.bool (n != 0))
      | .pinf | .ninf => some (.bool true)
      | _ => none
  | .str => match c.src with
    | .str s => some (.str s.bytes)
    | .bool b => some (.str (strBytes (if b then "true" else "false")))
    | .int _ v => some (.str (decBytes v))
    | .big v => some (.str (decBytes v))
    | .f32 _ => if c.srt == "1" then some (.str c.fmt) else some (.str (strBytes "<text that does not denote the source>"))
    | .f64 _ => if c.srt == "1" then some (.str c.fmt) else some (.str (strBytes "<text that does not denote the source>"))
    | _ => none

def showSpec : Option Val → String
  | some v => "ok " ++ showVal v
  | none => "err"

/-- Informational flags: R = float target, value changed by rounding (strict reading);
    B = bool target from a number other than 0/1; Z = blank string read as zero/false. -/
def flags (t : Tgt) (c : Case) : String :=
  let r := match t, c.den with
    | .f64, .rat n d => (match c.d64 with
        | some (.fin a k) => if a * (d : Int) == n * 2 ^ k then "" else "R"
        | _ => "")
    | .f32, .rat n d => (match c.d32 with
        | some (.fin a k) => if a * (d : Int) == n * 2 ^ k then "" else "R"
        | _ => "")
    | _, _ => ""
  let b := match t, c.src, c.den with
    | .bool, .str _, _ => ""
    | .bool, .bool _, _ => ""
    | .bool, _, .rat n d => if n == 0 || n == (d : Int) then "" else "B"
    | .bool, _, .pinf => "B" | .bool, _, .ninf => "B"
    | _, _, _ => ""
  let z := match c.src with
    | .str s => if s.blank then "Z" else ""
    | _ => ""
  let f := r ++ b ++ z
  if f == "" then "-" else f

def runHelper (h : String) (t : Tgt) (c : Case) : Option (R Val) :=
  let f32 : F → List Nat := fun _ => c.fmt
  let f64 : F → List Nat := fun _ => c.fmt
  match h, t with
  | "toInt64", .int .i64 => some (Val.int <$> toInt64 c.src)
  | "toInteger", .int ty => some (Val.int <$> toInteger ty c.src)
  | "toFloat64", .f64 => some (Val.flt <$> toFloat64 c.src)
  | "toFloat", .f64 => some (Val.flt <$> toFloatF64 c.src)
  | "toFloat", .f32 => some (Val.flt <$> toFloat32 c.src)
  | "toBool", .bool => some (Val.bool <$> toBool c.src)
  | "toString", .str => some (Val.str <$> toStr f32 f64 c.src)
  | "toBigInt", .big => some (Val.int <$> toBigInt c.src)
  | "to", t => some (to f32 f64 t c.src)
  | _, _ => none

def parseBound (kind val : String) : Option Num :=
  if kind == "f64" then val.toNat?.map (fun b => Num.f (F.ofBits b))
  else do
    let t ← IntTy.ofString? kind
    let v ← val.toInt?
    if t.inRange v then some (Num.ofInt t v) else none

def parseCP (op kind val : String) : Option CP :=
  match op with
  | "minlen" => val.toNat?.map CP.minLen
  | "maxlen" => val.toNat?.map CP.maxLen
  | "prefix" => (unhex val).map CP.hasPrefix
  | "refine" => some .refine
  | "mul" =>
    if kind == "big" then val.toInt?.map CP.mulBig
    else (parseBound kind val).map CP.mul
  | _ =>
    if kind == "big" then do let o ← CmpOp.ofString? op; let b ← val.toInt?; pure (.cmpBig o b)
    else do let o ← CmpOp.ofString? op; let b ← parseBound kind val; pure (.cmp o b)

def parseCPs : Nat → List String → Option (List CP × List String)
  | 0, rest => some ([], rest)
  | n + 1, op :: k :: v :: rest => do
    let c ← parseCP op k v
    let (cs, rest) ← parseCPs n rest
    pure (c :: cs, rest)
  | _, _ => none

/-- What a correct schema answers: the value a correct coercion yields (the input itself when it has the
    type), provided every check holds in its DOCUMENTED meaning (`CoerceSchema.specHolds`; the float ε-rule
    has none: there the code's rule is the oracle, as in C16's `fmul` lines). -/
def specSchema (t : Tgt) (ks : List CP) (c : Case) : Option Val :=
  let v? := match exact t c.src with
    | some v => some v
    | none => specVal t c
  match v? with
  | some v => if ks.all (fun k => (specHolds t k v).getD (holds t k v)) then some v else none
  | none => none

/-- X = a BigInt bound where the comparison through float64 (the code before /repo 4945548,
    `Coerce.bigCmpViaFloat`) differs from the comparison of the integers: how often the run reaches the
    region that distinguishes the two. E = a check without exact specification (float MultipleOf). -/
def chainFlags (t : Tgt) (ks : List CP) (c : Case) : String :=
  let x := ks.any (fun k => match t, k, c.den.int? with
    | .big, .cmpBig op b, some n => bigCmpViaFloat op n b != op.holdsInt n b
    | _, _, _ => false)
  let e := match (match exact t c.src with | some v => some v | none => specVal t c) with
    | some v => ks.any (fun k => (specHolds t k v).isNone)
    | none => false
  (if x then "X" else "") ++ (if e then "E" else "")

def outToR : Prim.Out Val → R Val
  | .okVal v => .ok v
  | _ => .error .check

/-- A float source, if the source is one. -/
def floatSrc : Src → Option F
  | .f32 x => some x
  | .f64 x => some x
  | _ => none

/-- float → string is compared by the value the text denotes (the harness restates the
    implementation's text as `d<value>`): the model's text is `strconv.FormatFloat(x,'g',-1,bits)`
    (parameter), which denotes the source iff it round-trips (`srt`, parameter). -/
def showModelStr (t : Tgt) (c : Case) (r : R Val) : String :=
  match t, floatSrc c.src, r with
  | .str, some x, .ok (.str _) => if c.srt == "1" then "ok d" ++ showF x else "ok s" ++ hex (strBytes "<text that does not denote the source>")
  | _, _, r => showR r

/-- …and the specification: a correct coercion's text denotes exactly the source. -/
def showSpecStr (t : Tgt) (c : Case) (v : Option Val) : String :=
  match t, floatSrc c.src, v with
  | .str, some x, some _ => "ok d" ++ showF x
  | _, _, v => showSpec v

/-! ### text primitives (`P` / `F` lines): Lean's TrimSpace / ParseInt / ParseUint / SetString /
     FormatInt against the real ones -/

def showOptInt : Option Int → String
  | some v => toString v
  | none => "E"

/-- `P <hex>`: trimmed text, ToLower of it (ASCII text only), ParseInt at 8/16/32/64 bits, ParseUint at 8/16/32/64 bits,
    SetString base 10, the 0x-prefix test, SetString(trim[2:], 16). -/
def textObs (bytes : List Nat) : String :=
  let t := ParseInt.trimSpace bytes
  let pi := [8, 16, 32, 64].map (fun w => showOptInt (ParseInt.parseInt t w))
  let pu := [8, 16, 32, 64].map (fun w => showOptInt ((ParseInt.parseUint t w).map Int.ofNat))
  let hp := ParseInt.hasHexPrefix t
  let b16 := if hp then showOptInt (ParseInt.parseBig (t.drop 2) 16) else "-"
  let nm := if ParseInt.isASCII t then "n" ++ hex (ParseInt.lowerASCII t) else "n*"
  "p " ++ hex t ++ " " ++ nm ++ " " ++ " ".intercalate pi ++ " " ++ " ".intercalate pu ++ " " ++
    showOptInt (ParseInt.parseBig t 10) ++ " " ++ (if hp then "1" else "0") ++ " " ++ b16

/-- `F <dec>`: FormatInt (when an int64), FormatUint (when a uint64), big.Int.String. -/
def fmtObs (v : Int) : String :=
  let fi := if -(2 ^ 63) ≤ v ∧ v < 2 ^ 63 then hex (ParseInt.formatInt v) else "-"
  let fu := if 0 ≤ v ∧ v < 2 ^ 64 then hex (ParseInt.formatNat v.toNat) else "-"
  "f " ++ fi ++ " " ++ fu ++ " " ++ hex (ParseInt.formatInt v)

def handle : List String → String
  | ["P", h] =>
    match unhex h with
    | some bs => s!"{textObs bs}\t-\t-"
    | none => "bad-op"
  | ["F", v] =>
    match v.toInt? with
    | some v => s!"{fmtObs v}\t-\t-"
    | none => "bad-op"
  | "H" :: h :: tg :: rest =>
    match parseTgt tg, parseCase rest with
    | some t, some c =>
      match runHelper h t c with
      | some r => s!"{showModelStr t c r}\t{showSpecStr t c (specVal t c)}\t{flags t c}"
      | none => "bad-op"
    | _, _ => "bad-op"
  | "S" :: tg :: pt :: n :: rest =>
    match parseTgt tg, n.toNat? with
    | some t, some n =>
      match parseCPs n rest with
      | some (ks, rest) =>
        match parseCase rest with
        | some c =>
          let ptr := pt == "1"
          let fm : F → List Nat := fun _ => c.fmt
          let sc : Schema := { tgt := t, checks := ks, coerce := true }
          -- left: the coercing schema (`parsePrimitiveValue` with `internals.Coerce`);
          -- right: the PLAIN schema (C01's `Prim.parse`) on `coerce.To[T](input)` — on the input itself when it has the type
          let left := parseValue fm fm sc ptr c.src
          let right := match exact t c.src with
            | some _ => parsePlain sc.plain ptr c.src
            | none => plainOnCoerced fm fm sc c.src
          let sp := showSpecStr t c (specSchema t ks c)
          let fl := flags t c
          let cf := chainFlags t ks c
          let fl := if cf == "" then fl else (if fl == "-" then cf else fl ++ cf)
          s!"{showModelStr t c (outToR left)} ~ {showModelStr t c (outToR right)}\t{sp} ~ {sp}\t{fl}"
        | none => "bad-op"
      | none => "bad-op"
    | _, _ => "bad-op"
  | _ => "bad-op"

end Gozod.Drv.C17
