"""C08 — schemas are immutable values: deriving a schema never changes an existing one."""
import os, re, shutil, time
from . import common as C

MANIFEST = dict(
   technique="Lean 4 proof over a store model of the reference-typed schema state (Checks array with Go append semantics, Bag/Values/Shape maps, registry entry, any number of type-local reference slots, object Shape/PartialExceptions/RequiredKeys contents, member holders and option/item/entry list contents of unions, intersections, enums, containers, transform/pipe wrappers, default/prefault value references) + a translator (go/ast abstract interpreter over types/*.go, core/transform.go, typed by go/types: go list -export + gc importer + types.Check from source) that regenerates on every run the table of ALL chaining methods (route, appended checks, origin of every type-local reference field, receiver writes) over which the coverage theorem is re-proved by decide +kernel + history correspondence: every exported chaining method of every schema type is called by reflection and the model and the table row must predict what the call did",
   text="WHAT THE MAIN THEOREMS CONCLUDE: equality of STORE OBSERVATIONS (obs: kind, flags, check-list contents, Bag/Values/Shape contents, registry entry, default value) — not yet 'same verdict on every input / same JSON Schema'. That clause is derived by a behaviour theorem for three families: objects (c08o_behaviour: objParse, objDoc), schemas holding other schemas or value lists (c08h_behaviour / c08h_hist_behaviour: hAccept, document structure) and primitives with checks (c08p_step / c08p_hist / c08p_hist_all: the Parse of a type-correct non-nil input IS C10's runChecksOn — Model/Checks.lean, tied to the code by C10 — over the schema's check list, which is an observed cell, so an unchanged list gives the same verdict, value and callback log on EVERY input, for every callback environment and every decoding of check ids). For every other kind (Struct, DiscriminatedUnion, Map, Set, Array, Lazy, Function, File; nil inputs of primitives, which C03 derives from the flags; the JSON Schema of non-object, non-holder schemas) the clause rests on the NAMED ASSUMPTION ObsDetermines (Proofs/C08Prims.lean): Parse and ToJSONSchema are functions of obs — c08_behaviour_of_bridge is its one-line consequence; the assumption is tied by the run only (31 probes, IsOptional/IsNilable and ToJSONSchema of every live schema re-taken after every call, on the implementation side). c08_step / c08_hist / c08_hist_all (and c08x_* for the extended op classes refilter/access) prove that along every history of chaining calls (any receivers, sibling fan-outs, any append growth rule) no operation of an op class the code has writes a location that existed before the call, so every live schema keeps its observation and every result is a new schema; c08_full_holds is the full statement over those classes. table_all_covered (decide +kernel over Gen/MethodOps.lean, regenerated from the source) proves that EVERY exported chaining method of every schema type is built by a covered route (Clone + withInternals/newObjectInternals, struct copy, constructor, accessor), writes nothing rooted at its receiver and calls nothing on shared check objects; denote_ok / c08_table_step / c08_table_hist_all lift the frame theorems to every history made of rows of the table; c08n_step covers any number of type-local reference slots for the slot actions the rows list (slots_of_covered). c08o_step / c08o_behaviour / c08o_hist prove for object schemas with Shape/PartialExceptions/UnknownKeys/Catchall CONTENTS that Extend/SafeExtend/Merge/Pick/Omit/Partial/Required/Strict/Strip/Passthrough/WithCatchall leave every live schema's content, verdict on every input (objParse, transcribing validateObject) and JSON-Schema object part (objDoc) unchanged; extend_content … catchall_content / requiredKeys_content / required_is_required state what the result contains (RequiredKeys since /repo 75cf747). c08h_step / c08h_behaviour / c08h_hist / c08h_hist_behaviour prove the same for schemas that hold other schemas or value lists (Or/And results holding the receiver, Transform/Pipe wrappers, enum Extract/Exclude, tuple WithRest, slice/tuple/record size checks, Default/Prefault storing the caller's value): every live composite keeps its member holders and list CONTENTS, hence — its members evaluated recursively from their own observations through the identity table of the live schemas, to every nesting depth, for every oracle of the plain members (hAccept_congr: a verdict only consults the table below the composite's own identity) — the same verdict on every input and the same document structure; or_content … prefault_content state what each result holds. Legacy witnesses: today_partial_mutates_receiver / c08_today_false (Clone before 97c97c3), metaSelf_violates / metaSelf_row_violates (Meta() before 6ba76b8).",
   note="Round 4c (audit A M9/LOW): the bridge from observation equality to behaviour is stated (text) and named (ObsDetermines); primitives with checks got their behaviour theorem (c08p_*); the driver computes the verdict of accessor steps (classes access / alias: applyXOp .access, then the changed set from the observations) instead of printing the constant 1:. No open finding: the 28 meta-returns-receiver classes were one defect, fixed in /repo 6ba76b8. The store model is a hand-written abstraction (observation = contents reachable from the schema; Parse/ToJSONSchema of non-object types are taken to be functions of it), tied to /repo by reflective snapshots (slice headers, map identities, contents) and behavioural fingerprints (31 probes, IsOptional/IsNilable, ToJSONSchema) after every call of ~1400 type×method pairs; the method table is produced by a translator that is typed by go/types but follows only package types and core.ZodTypeInternals (exported constructors are opaque; the holder-content histories tie what they build), validated per call against the op class, the number of appended checks and the per-field sharing the run shows; append capacities and 'result starts with a registry entry' are taken from the run as parameters; plain member schemas are oracles of objParse/hAccept (composite members are evaluated from their own observations); nil inputs, optional tuple items and result values (intersection merging of pointer-typed results) are outside hAccept; Struct/DiscriminatedUnion/Map/Set/Array contents are covered at identity level (c08n_step) and by the implementation-side comparison only; sync.Once-guarded cache fills (ZodLazy.innerType) are classed memo and not counted as changes. Trusted: Lean kernel, axioms propext/Classical.choice/Quot.sound, the Go harness, translator and comparer.",
   design="DESIGN.md §3.4, §5 C08; notes/C08.md")

MODULES = ["Gozod.Proofs.C08", "Gozod.Proofs.C08Methods", "Gozod.Proofs.C08Objects", "Gozod.Proofs.C08Holders", "Gozod.Proofs.C08Prims"]
THEOREMS = [
    "Gozod.C08.c08_step", "Gozod.C08.c08_hist", "Gozod.C08.c08_hist_all", "Gozod.C08.c08_fresh",
    "Gozod.C08.applyOp_spec", "Gozod.C08.clone_spec", "Gozod.C08.appendAll_spec",
    "Gozod.Store.obs_frame", "Gozod.Store.wfs_frame",
    "Gozod.C08.today_partial_mutates_receiver", "Gozod.C08.c08_today_false",
    "Gozod.C08.metaSelf_violates", "Gozod.C08.metaSelf_changes_receiver",
    "Gozod.C08.spare_capacity_siblings_clobber", "Gozod.C08.inv_base",
    "Gozod.C08.obsL_frame", "Gozod.C08.wfl_frame", "Gozod.C08.applyLOp_spec", "Gozod.C08.c08_local_step",
    "Gozod.C08.exceptions_in_place_mutates_receiver",
    # round 4: the regenerated method table (Gen/MethodOps.lean) and the extended op classes
    "Gozod.C08.table_classified", "Gozod.C08.table_nonvacuous", "Gozod.C08.tcall_inhabited", "Gozod.C08.denote_ok",
    "Gozod.C08.applyRefilter_spec", "Gozod.C08.applyXOp_spec", "Gozod.C08.c08x_step", "Gozod.C08.c08x_hist", "Gozod.C08.c08x_hist_all",
    "Gozod.C08.c08_table_step", "Gozod.C08.c08_table_hist_all", "Gozod.C08.metaSelf_row_violates", "Gozod.C08.metaSelf_rows_shape",
    "Gozod.C08.obsN_frame", "Gozod.C08.applySlots_spec", "Gozod.C08.c08n_step", "Gozod.C08.slots_of_covered",
    "Gozod.C08.table_all_covered", "Gozod.C08.c08_full_holds",
    # object content (Shape / PartialExceptions / UnknownKeys / Catchall as contents)
    "Gozod.C08.obsO_frame", "Gozod.C08.objConstruct_spec", "Gozod.C08.objDerive_spec", "Gozod.C08.applyObjOp_spec",
    "Gozod.C08.c08o_step", "Gozod.C08.c08o_behaviour", "Gozod.C08.c08o_hist",
    "Gozod.C08.extend_content", "Gozod.C08.pick_content", "Gozod.C08.omit_content", "Gozod.C08.partialKeys_content",
    "Gozod.C08.requiredKeys_content", "Gozod.C08.requiredAll_content", "Gozod.C08.required_is_required",
    "Gozod.C08.mode_content", "Gozod.C08.catchall_content",
    "Gozod.C08.partial_makes_optional", "Gozod.C08.partial_keeps_required",
    # round 4b: schemas that hold other schemas or value lists (union / xor / intersection / enum / containers / transform / pipe / default values)
    "Gozod.C08.obsH_frame", "Gozod.C08.applyHOp_spec", "Gozod.C08.c08h_step", "Gozod.C08.world_step", "Gozod.C08.hAccept_congr",
    "Gozod.C08.c08h_behaviour", "Gozod.C08.c08h_hist", "Gozod.C08.c08h_hist_behaviour",
    "Gozod.C08.or_content", "Gozod.C08.and_content", "Gozod.C08.transform_content", "Gozod.C08.pipe_content",
    "Gozod.C08.extract_content", "Gozod.C08.exclude_content", "Gozod.C08.withRest_content", "Gozod.C08.default_content",
    "Gozod.C08.prefault_content", "Gozod.C08.enum_verdict", "Gozod.C08.union_verdict", "Gozod.C08.inter_verdict", "Gozod.C08.invH_base",
    # round 4c: primitives with checks — the verdict is C10's runChecksOn over the observed check list; the bridge for the other kinds, named
    "Gozod.C08.checkList_of_obs", "Gozod.C08.primRun_of_obs", "Gozod.C08.c08p_step", "Gozod.C08.c08p_hist", "Gozod.C08.c08p_hist_all",
    "Gozod.C08.c08_behaviour_of_bridge", "Gozod.C08.primRun_obsDetermines",
]


def parts(line):
    """'V:a;b S:x;y' -> ('a;b', 'x;y')"""
    v, _, s = line.partition(" S:")
    return v[2:] if v.startswith("V:") else v, s


def steps_of(op):
    toks = C.op_body(op).split(" | ")
    return toks[0].split(" "), [t.split(" ") for t in toks[1:]]


def key(op, impl, M, S):
    head, steps = steps_of(op)
    iv = impl.split(" ")[0].split(";")
    if iv and iv[0].startswith("V:"):
        iv[0] = iv[0][2:]
    if len(head) > 1 and head[1] in ("OBJ", "HOLD"):
        # object- / holder-content histories: steps are <recv> <op> <arg>
        who = "ZodObject" if head[1] == "OBJ" else "holder"
        for k, st in enumerate(steps):
            if k < len(iv) and iv[k] not in ("1:", "e:", "a:"):
                what = "returns-receiver" if iv[k].startswith("0") else "changes-live-schema"
                return "%s:%s.%s" % (what, who, st[1])
        return "tie:object-content" if head[1] == "OBJ" else "tie:holder-content"
    first_meta, first_other = None, None
    for k, st in enumerate(steps):
        if k >= len(iv) or iv[k] == "1:":
            continue
        cls, meth = st[1], st[8]
        name, _, typ = meth.partition("@")
        if cls == "metaself":
            first_meta = first_meta or "meta-returns-receiver:" + typ
        elif first_other is None:
            what = "returns-receiver" if iv[k].startswith("0") else "changes-live-schema"
            first_other = "%s:%s.%s" % (what, typ, name)
    return first_other or first_meta or "tie:" + head[1]


def describe(op):
    if steps_of(op)[0][1:2] == ["HOLD"]:
        return ("holder-content history: plain members P:<leaf>=<accepts token 1..6 = 'v','long',7,'a','b','c'> (L0 String, L1 Int, L2 String.Min(3)), base B:<kind>:<members>; "
                "steps <receiver index> <derivation> <argument> (L<i> a plain member, S<j> the j-th schema of the history); see harness/cmd/c08/holdhist.go")
    if steps_of(op)[0][1:2] == ["OBJ"]:
        return ("object-content history: members M:<id>=<optional><accepts 'v'> (0 String, 1 String.Optional, 2 Int, 3 String.Min(1)), base Object B:<key>=<member>; "
                "steps <receiver index> <derivation> <argument> (keys k1..k4 = 1..4); see harness/cmd/c08/objhist.go")
    return ("history over base %s (constructor in harness/storex Bases()); steps after '#': <receiver index>.<Method>/<argument variant>; "
            "live index 0 = base, every call's result joins the live list" % steps_of(op)[0][1])


def rewrite(data):
    """Separate the property verdict (fresh / changed) from the sharing structure (the model tie)."""
    ops, impl, model, stats = data
    impl2, model2 = [], []
    for i in range(len(ops)):
        iv, is_ = parts(impl[i])
        if "\t" not in model[i]:
            impl2.append(iv + " S:" + is_); model2.append(model[i] + "\t-"); continue
        m, s = model[i].split("\t", 1)
        mv, ms = parts(m)
        sv, _ = parts(s)
        if is_ == ms:
            impl2.append(iv); model2.append(mv + "\t" + sv)
        else:
            impl2.append(iv + " S:" + is_); model2.append(mv + " S:" + ms + "\t" + sv + " S:" + is_)
    return ops, impl2, model2, stats


GEN_DIR = os.path.join(C.LEAN, "Gozod", "Gen")


def translate(res):
    """harness/opsgen: go/ast over types/*.go + core/transform.go of the working tree -> Gen/MethodOps.lean."""
    ok, out = C.build_harness("C08")
    if not ok:
        return False, "harness does not build against the library:\n" + out[-3000:]
    tmp = os.path.join(C.BUILD, "run", "C08-gen-%d" % os.getpid()); os.makedirs(tmp, exist_ok=True)
    with C.Lock("c08gen"):
        rc, out = C.run([C.harness_bin("C08"), "-out", tmp, "-gen", GEN_DIR, "-repo", C.REPO], env=C.goenv(), timeout=600)
    shutil.rmtree(tmp, ignore_errors=True)
    if rc != 0:
        return False, out[-3000:]
    if "changed: true" in out:
        res.notes.append("Gen/MethodOps.lean changed and was rewritten")
    m = re.search(r"rows: (\d+)", out)
    res.coverage["method_table_rows"] = int(m.group(1)) if m else None
    return True, ""


def driver_query(word):
    """one-word queries of driver_c08 about the regenerated table (c08bad / c08exceptions)."""
    import subprocess
    try:
        p = subprocess.run([C.driver_bin("C08")], input=word + "\n", capture_output=True, text=True, timeout=120)
    except Exception as e:
        return None
    line = p.stdout.strip().split("\t")[0]
    if line.startswith("bad:"):
        line = line[4:]
    return [x for x in line.split(",") if x]


class Phase:
    """wall and CPU (self + children, i.e. without waiting for the shared lake / go locks) seconds of one phase"""
    def __init__(self, res, name):
        self.res, self.name = res, name
    def __enter__(self):
        self.t, self.c = time.time(), sum(os.times()[:4])
    def __exit__(self, *a):
        d = self.res.coverage.setdefault("phase_seconds", {})
        d[self.name] = {"wall": round(time.time() - self.t, 1), "cpu": round(sum(os.times()[:4]) - self.c, 1)}


def run(res):
    with Phase(res, "translate"):
        okT, detT = translate(res)
    if not okT:
        C.tie_broken(res, "translator C08 (types/*.go -> Gen/MethodOps.lean)", detT)
        return res.finish()
    with Phase(res, "prove"):
        ok, detail = C.prove(res, MODULES, THEOREMS)
    extra = []
    if not ok:
        C.tie_broken(res, "proof Gozod.Proofs.C08 / C08Methods", detail)
        # aim the history search: which rows of the regenerated table does `table_classified` reject?
        okd, _ = C.lake_build(["driver_c08"])
        bad = driver_query("c08 bad") if okd else None
        if bad:
            res.notes.append("rows of Gen/MethodOps.lean rejected by table_classified (histories aimed at them): " + ", ".join(bad))
            res.coverage["table_rows_rejected"] = bad
            extra = ["-focus", ",".join(bad)]
    else:
        ex = driver_query("c08 exceptions") or []
        res.coverage["table_exception_rows"] = ex
    with Phase(res, "correspond"):
        data, err = C.correspond(res, "C08", extra_args=extra)
    if data is None:
        C.tie_broken(res, "correspondence C08/store-histories", err)
        return res.finish()
    C.decide(res, "C08", rewrite(data), key, "C08/store-histories", describe=describe)
    st = data[3]
    res.coverage["type_methods_enumerated"] = st.get("type_methods")
    res.coverage["base_schemas"] = st.get("bases")
    res.coverage["object_content_histories"] = st.get("object_content_histories")
    res.coverage["holder_content_histories"] = st.get("holder_content_histories")
    res.coverage["rule"] = ("for each of the base schemas (every schema type) and each exported method whose result can be a schema (reflection), "
        "two argument variants: history A = method on the fresh base, sibling from the same base, random method, method on the result; "
        "history B = 2-4 random chaining calls, the method on a random live schema, 2 more (thorough: 8 more); history C = 17-long check chains "
        "crossing capacities 1,2,4,8,16 with a sibling at each boundary; history D = ordered pairs of methods (m1 on the base, a sibling, m2 on the result). After every call all live schemas are re-snapshotted and re-fingerprinted, "
        "and the content of their type-local reference fields (Shape, PartialExceptions, option/item lists; member schemas by identity) is compared with what it was before the call. "
        "history O = object-content histories (Extend/Merge/Pick/Omit/Partial/Required/modes/catchall over a pool of member schemas: content, 32 verdicts and document per live schema); "
        "history H = holder-content histories (9 base kinds over 3 plain members and the history's own schemas as members: Or/And/Transform/Pipe/Extract/Exclude/Min/Max/Length/WithRest/Default/Prefault/modifiers/accessors: members held, list contents, 18 verdicts and document structure per live schema). "
        "distinct = distinct abstract histories (op lines).")
    res.assumptions += [
        "ObsDetermines (Proofs/C08Prims.lean), the bridge from the theorems' conclusion to the property's clause: a schema's Parse verdicts/results and its JSON Schema are functions of the contents the store model observes. PROVED for objects (c08o_behaviour), holders (c08h_behaviour) and primitives with checks on type-correct non-nil inputs (c08p_*: C10's runChecksOn over the observed check list); ASSUMED for Struct, DiscriminatedUnion, Map, Set, Array, Lazy, Function, File, for nil inputs of primitives (C03: a function of flags/default, which obs holds) and for the JSON Schema of non-object, non-holder schemas — there validated by the run only (fingerprints staying equal whenever the snapshot content does)",
        "the op class the run reports per call (derive/copymeta/bagwrite/rebuild/wrap/refilter/access) comes from behaviour and a small name set; it must be admitted by the method's row of the table regenerated from the source (a mismatch is a broken tie)",
        "the translator harness/opsgen (typed by go/types) treats exported constructors and calls into other packages as opaque; plain member schemas are oracles of the object and holder models",
        "a composite schema only holds schemas that existed when it was built (hAccept looks members up below the composite's own identity; ZodLazy cycles are outside the holder model)",
        "Go append growth is supplied by the run (the theorems hold for every growth function)",
    ]
    return res.finish()
