/-
  C11 — JSON equality and Go's comparison of decoded values (used by Proofs/C11.lean).
  * `deepEqual` (reflect.DeepEqual on encoding/json values) is `jsonEq` (Draft 2020-12 §4.2.2);
  * `literalEqual` (types/literal.go after e48d4b1) never panics and is `jsonEq`; the legacy `==` panics on two
    values of the same composite kind;
  * `jsonEq` is reflexive and symmetric on values whose objects have unique keys.
-/
import Gozod.Model.FromJson
namespace Gozod.C11
open Gozod.Jsc

/-! ### `reflect.DeepEqual` on decoded values is JSON equality -/

mutual
theorem deepEqual_eq : (a b : Json) → deepEqual a b = jsonEq a b
  | .null, b => by cases b <;> simp [deepEqual, jsonEq]
  | .bool _, b => by cases b <;> simp [deepEqual, jsonEq]
  | .num _, b => by cases b <;> simp [deepEqual, jsonEq]
  | .str _, b => by cases b <;> simp [deepEqual, jsonEq]
  | .arr xs, b => by cases b <;> simp [deepEqual, jsonEq, deepEqualL_eq xs]
  | .obj fs, b => by cases b <;> simp [deepEqual, jsonEq, deepFields_eq fs]
theorem deepEqualL_eq : (xs ys : JsonList) → deepEqualL xs ys = jsonEqL xs ys
  | .nil, ys => by cases ys <;> simp [deepEqualL, jsonEqL]
  | .cons x xs, ys => by cases ys <;> simp [deepEqualL, jsonEqL, deepEqual_eq x, deepEqualL_eq xs]
theorem deepFields_eq : (fs gs : JsonFields) → deepFields fs gs = fieldsIn fs gs
  | .nil, _ => by simp [deepFields, fieldsIn]
  | .cons k v fs, gs => by
    simp only [deepFields, fieldsIn, deepFields_eq fs gs]
    cases gs.find k <;> simp [deepEqual_eq v]
end

/-- `==` on two comparable values is JSON equality. -/
theorem ifaceEq_comparable (a b : Json) (h : a.goComparable = true ∨ b.goComparable = true) :
    ifaceEq a b = some (jsonEq a b) := by
  cases a <;> cases b <;> simp_all [ifaceEq, jsonEq, Json.goComparable]

/-- `literalEqual` (a literal member against an input): never a panic, and the verdict is JSON equality. -/
theorem literalEqual_eq (a b : Json) : literalEqual a b = some (jsonEq a b) := by
  cases a <;> cases b <;> simp [literalEqual, ifaceEq, jsonEq, Json.isNull, Json.goComparable, deepEqual_eq]

/-- the comparison before e48d4b1 panics exactly on two values of the same composite kind. -/
theorem ifaceEq_panics (a b : Json) :
    ifaceEq a b = none ↔ ((∃ xs ys, a = .arr xs ∧ b = .arr ys) ∨ (∃ fs gs, a = .obj fs ∧ b = .obj gs)) := by
  cases a <;> cases b <;> simp [ifaceEq]

/-! ### `jsonEq` is an equality: reflexive and symmetric on values whose objects have unique keys -/

theorem keys_toList : (fs : JsonFields) → fs.keys = fs.toList.map (·.1)
  | .nil => rfl
  | .cons k v fs => by simp [JsonFields.keys, JsonFields.toList, keys_toList fs]

theorem size_keys : (fs : JsonFields) → fs.size = fs.keys.length
  | .nil => rfl
  | .cons k v fs => by simp [JsonFields.keys, JsonFields.size, size_keys fs]

theorem mem_of_find (k : Str) (v : Json) : (fs : JsonFields) → fs.find k = some v → (k, v) ∈ fs.toList
  | .nil, h => by simp [JsonFields.find] at h
  | .cons k' v' fs, h => by
    simp only [JsonFields.find] at h
    by_cases e : k' = k
    · simp [e] at h; subst e; subst h; simp [JsonFields.toList]
    · simp [e] at h; simp [JsonFields.toList, mem_of_find k v fs h]

theorem find_of_mem (k : Str) (v : Json) :
    (fs : JsonFields) → uniqList fs.keys = true → (k, v) ∈ fs.toList → fs.find k = some v
  | .nil, _, h => by simp [JsonFields.toList] at h
  | .cons k' v' fs, hu, h => by
    simp only [JsonFields.keys, uniqList, Bool.and_eq_true, Bool.not_eq_true'] at hu
    simp only [JsonFields.toList, List.mem_cons, Prod.mk.injEq] at h
    rcases h with ⟨rfl, rfl⟩ | h
    · simp [JsonFields.find]
    · have hk : k ∈ fs.keys := by rw [keys_toList]; exact List.mem_map.2 ⟨(k, v), h, rfl⟩
      have hne : k' ≠ k := by
        intro e; subst e
        have := hu.1
        simp at this
        exact this hk
      simp [JsonFields.find, hne, find_of_mem k v fs hu.2 h]

theorem find_of_key (k : Str) : (fs : JsonFields) → k ∈ fs.keys → ∃ v, fs.find k = some v
  | .nil, h => by simp [JsonFields.keys] at h
  | .cons k' v' fs, h => by
    by_cases e : k' = k
    · exact ⟨v', by simp [JsonFields.find, e]⟩
    · simp only [JsonFields.keys, List.mem_cons] at h
      rcases h with h | h
      · exact absurd h.symm e
      · obtain ⟨v, hv⟩ := find_of_key k fs h
        exact ⟨v, by simp [JsonFields.find, e, hv]⟩

theorem fieldsIn_iff (gs : JsonFields) : (fs : JsonFields) →
    (fieldsIn fs gs = true ↔ ∀ k v, (k, v) ∈ fs.toList → ∃ w, gs.find k = some w ∧ jsonEq v w = true)
  | .nil => by simp [fieldsIn, JsonFields.toList]
  | .cons k v fs => by
    simp only [fieldsIn, Bool.and_eq_true, fieldsIn_iff gs fs, JsonFields.toList, List.mem_cons, Prod.mk.injEq]
    constructor
    · rintro ⟨h1, h2⟩ k' v' (⟨rfl, rfl⟩ | h)
      · cases hf : gs.find k' with
        | none => simp [hf] at h1
        | some w => exact ⟨w, rfl, by simpa [hf] using h1⟩
      · exact h2 k' v' h
    · intro h
      refine ⟨?_, fun k' v' h' => h k' v' (Or.inr h')⟩
      obtain ⟨w, hw, he⟩ := h k v (Or.inl ⟨rfl, rfl⟩)
      simp [hw, he]

/-- pigeonhole on key lists: a duplicate-free list contained in a list of the same length contains it. -/
theorem subset_of_uniq : (l1 l2 : List Str) → uniqList l1 = true → (∀ k, k ∈ l1 → k ∈ l2) →
    l1.length = l2.length → ∀ k, k ∈ l2 → k ∈ l1
  | [], l2, _, _, hl, k, hk => by
    have : l2 = [] := List.length_eq_zero_iff.1 hl.symm
    subst this; simp at hk
  | a :: t, l2, hu, hs, hl, k, hk => by
    simp only [uniqList, Bool.and_eq_true, Bool.not_eq_true'] at hu
    have hat : a ∉ t := by
      have := hu.1
      simpa using this
    have ha2 : a ∈ l2 := hs a (by simp)
    by_cases e : k = a
    · simp [e]
    · have hke : k ∈ l2.erase a := (List.mem_erase_of_ne e).2 hk
      have hl' : t.length = (l2.erase a).length := by
        rw [List.length_erase_of_mem ha2]; simp at hl; omega
      have hs' : ∀ x, x ∈ t → x ∈ l2.erase a := by
        intro x hx
        have hxa : x ≠ a := by intro e'; subst e'; exact hat hx
        exact (List.mem_erase_of_ne hxa).2 (hs x (by simp [hx]))
      exact List.mem_cons_of_mem _ (subset_of_uniq t (l2.erase a) hu.2 hs' hl' k hke)

theorem uniqKeysF_mem (k : Str) (v : Json) : (fs : JsonFields) → uniqKeysF fs = true → (k, v) ∈ fs.toList → uniqKeys v = true
  | .nil, _, h => by simp [JsonFields.toList] at h
  | .cons k' v' fs, hu, h => by
    simp only [uniqKeysF, Bool.and_eq_true] at hu
    simp only [JsonFields.toList, List.mem_cons, Prod.mk.injEq] at h
    rcases h with ⟨rfl, rfl⟩ | h
    · exact hu.1
    · exact uniqKeysF_mem k v fs hu.2 h

/-- symmetry of the object clause, given symmetry on the values of the first object. -/
theorem fieldsIn_symm (fs gs : JsonFields) (hfu : uniqList fs.keys = true) (hgu : uniqList gs.keys = true)
    (hgk : uniqKeysF gs = true) (hsz : fs.size = gs.size) (h : fieldsIn fs gs = true)
    (ih : ∀ k v, (k, v) ∈ fs.toList → ∀ w, uniqKeys w = true → jsonEq v w = true → jsonEq w v = true) :
    fieldsIn gs fs = true := by
  rw [fieldsIn_iff] at h ⊢
  intro k w hkw
  have hsub : ∀ k, k ∈ fs.keys → k ∈ gs.keys := by
    intro k hk
    obtain ⟨v, hv⟩ := find_of_key k fs hk
    obtain ⟨w, hw, _⟩ := h k v (mem_of_find k v fs hv)
    have := mem_of_find k w gs hw
    rw [keys_toList]; exact List.mem_map.2 ⟨(k, w), this, rfl⟩
  have hk : k ∈ fs.keys :=
    subset_of_uniq fs.keys gs.keys hfu hsub (by rw [← size_keys, ← size_keys]; exact hsz) k
      (by rw [keys_toList]; exact List.mem_map.2 ⟨(k, w), hkw, rfl⟩)
  obtain ⟨v, hv⟩ := find_of_key k fs hk
  have hm := mem_of_find k v fs hv
  obtain ⟨w', hw', he⟩ := h k v hm
  have : w' = w := by
    have := find_of_mem k w gs hgu hkw
    rw [this] at hw'; exact (Option.some.inj hw').symm
  subst this
  exact ⟨v, hv, ih k v hm w' (uniqKeysF_mem k w' gs hgk hkw) he⟩

mutual
theorem jsonEq_symm_imp : (a b : Json) → uniqKeys a = true → uniqKeys b = true → jsonEq a b = true → jsonEq b a = true
  | .null, b, _, _, h => by cases b <;> simp_all [jsonEq]
  | .bool _, b, _, _, h => by cases b <;> simp_all [jsonEq]
  | .num _, b, _, _, h => by cases b <;> simp_all [jsonEq]
  | .str _, b, _, _, h => by cases b <;> simp_all [jsonEq]
  | .arr xs, b, ha, hb, h => by
    cases b <;> simp [jsonEq] at h
    rename_i ys
    simp only [uniqKeys] at ha hb
    simpa [jsonEq] using jsonEqL_symm_imp xs ys ha hb h
  | .obj fs, b, ha, hb, h => by
    cases b <;> simp [jsonEq] at h
    rename_i gs
    simp only [uniqKeys, Bool.and_eq_true] at ha hb
    have hsz : fs.size = gs.size := h.1
    simp only [jsonEq, Bool.and_eq_true, beq_iff_eq]
    exact ⟨hsz.symm, fieldsIn_symm fs gs ha.1 hb.1 hb.2 hsz h.2 (fun k v hm w hw he => jsonEqF_symm_imp fs ha.2 k v hm w hw he)⟩
theorem jsonEqL_symm_imp : (xs ys : JsonList) → uniqKeysL xs = true → uniqKeysL ys = true → jsonEqL xs ys = true →
    jsonEqL ys xs = true
  | .nil, ys, _, _, h => by cases ys <;> simp_all [jsonEqL]
  | .cons x xs, ys, ha, hb, h => by
    cases ys <;> simp [jsonEqL] at h
    rename_i y ys
    simp only [uniqKeysL, Bool.and_eq_true] at ha hb
    simp [jsonEqL, jsonEq_symm_imp x y ha.1 hb.1 h.1, jsonEqL_symm_imp xs ys ha.2 hb.2 h.2]
theorem jsonEqF_symm_imp : (fs : JsonFields) → uniqKeysF fs = true → ∀ k v, (k, v) ∈ fs.toList →
    ∀ w, uniqKeys w = true → jsonEq v w = true → jsonEq w v = true
  | .nil, _, _, _, hm, _, _, _ => by simp [JsonFields.toList] at hm
  | .cons k' v' fs, hu, k, v, hm, w, hw, he => by
    simp only [uniqKeysF, Bool.and_eq_true] at hu
    simp only [JsonFields.toList, List.mem_cons, Prod.mk.injEq] at hm
    rcases hm with ⟨_, rfl⟩ | hm
    · exact jsonEq_symm_imp v w hu.1 hw he
    · exact jsonEqF_symm_imp fs hu.2 k v hm w hw he
end

/-- JSON equality is symmetric (objects have unique keys). -/
theorem jsonEq_symm (a b : Json) (ha : uniqKeys a = true) (hb : uniqKeys b = true) : jsonEq a b = jsonEq b a := by
  cases h1 : jsonEq a b with
  | true => exact (jsonEq_symm_imp a b ha hb h1).symm
  | false =>
    cases h2 : jsonEq b a with
    | false => rfl
    | true => rw [jsonEq_symm_imp b a hb ha h2] at h1; exact absurd h1 (by simp)

mutual
/-- JSON equality is reflexive (objects have unique keys). -/
theorem jsonEq_refl : (a : Json) → uniqKeys a = true → jsonEq a a = true
  | .null, _ | .bool _, _ | .num _, _ | .str _, _ => by simp [jsonEq]
  | .arr xs, h => by simp only [uniqKeys] at h; simpa [jsonEq] using jsonEqL_refl xs h
  | .obj fs, h => by
    simp only [uniqKeys, Bool.and_eq_true] at h
    simp only [jsonEq, beq_self_eq_true, Bool.true_and]
    rw [fieldsIn_iff]
    intro k v hm
    exact ⟨v, find_of_mem k v fs h.1 hm, jsonEqF_refl fs h.2 k v hm⟩
theorem jsonEqL_refl : (xs : JsonList) → uniqKeysL xs = true → jsonEqL xs xs = true
  | .nil, _ => by simp [jsonEqL]
  | .cons x xs, h => by
    simp only [uniqKeysL, Bool.and_eq_true] at h
    simp [jsonEqL, jsonEq_refl x h.1, jsonEqL_refl xs h.2]
theorem jsonEqF_refl : (fs : JsonFields) → uniqKeysF fs = true → ∀ k v, (k, v) ∈ fs.toList → jsonEq v v = true
  | .nil, _, _, _, hm => by simp [JsonFields.toList] at hm
  | .cons k' v' fs, hu, k, v, hm => by
    simp only [uniqKeysF, Bool.and_eq_true] at hu
    simp only [JsonFields.toList, List.mem_cons, Prod.mk.injEq] at hm
    rcases hm with ⟨_, rfl⟩ | hm
    · exact jsonEq_refl v hu.1
    · exact jsonEqF_refl fs hu.2 k v hm
end

/-- the unique-keys hypothesis is needed: an association list with a repeated key is not a JSON object, and `jsonEq`
    (which looks keys up) is not symmetric on such terms. -/
example : jsonEq (.obj (.cons [97] (.num 4) (.cons [97] (.num 8) .nil))) (.obj (.cons [97] (.num 4) (.cons [98] .null .nil))) = false
    ∧ jsonEq (.obj (.cons [97] (.num 4) (.cons [97] (.num 4) .nil))) (.obj (.cons [97] (.num 4) (.cons [98] .null .nil))) = true
    ∧ jsonEq (.obj (.cons [97] (.num 4) (.cons [98] .null .nil))) (.obj (.cons [97] (.num 4) (.cons [97] (.num 4) .nil))) = false := by
  decide

end Gozod.C11
