/-
  Access sets with their synchronisation (C14).  The rows are regenerated from the library sources by
  harness/cmd/c14x into Gozod/Gen/LockSets.lean; this file holds the vocabulary and the race-freedom predicate.
-/
namespace Gozod.LockSet

inductive Sync
  | none
  | mutexR (m : String)     -- inside RLock … RUnlock of m
  | mutexW (m : String)     -- inside Lock … Unlock of m
  | atomic                  -- a method of a sync/atomic value
  | once (o : String)       -- inside, or after, o.Do — o names WHICH sync.Once (pkg.Struct.field / pkg.var)
deriving DecidableEq, Repr

structure Access where
  fn : String
  loc : String
  write : Bool
  sync : Sync
deriving DecidableEq, Repr

def mutexOf : Sync → Option String
  | .mutexR m => some m
  | .mutexW m => some m
  | _ => none

/-- a write under a read lock is not protected -/
def wellLocked (a : Access) : Bool :=
  match a.sync with
  | .mutexR _ => !a.write
  | _ => true

/-- both inside / after the Do of the SAME sync.Once (two different Onces order nothing) -/
def sameOnce : Sync → Sync → Bool
  | .once o, .once o' => o == o'
  | _, _ => false

/-- two accesses to one location do not race: both reads, or both atomic, or both ordered by the same
    sync.Once, or both inside critical sections of the same mutex (writers in W mode) -/
def ok (a b : Access) : Bool :=
  (!a.write && !b.write) ||
  (a.sync == .atomic && b.sync == .atomic) ||
  sameOnce a.sync b.sync ||
  (match mutexOf a.sync, mutexOf b.sync with
   | some m, some n => m == n && wellLocked a && wellLocked b
   | _, _ => false)

def raceFree (t : List Access) : Bool :=
  t.all (fun a => t.all (fun b => a.loc != b.loc || ok a b))

/-- locations with an unsynchronised conflict today (open known findings): none since the lazy cache became an
    atomic.Pointer written inside once.Do -/
def knownRacy : List String := []

/-- the cells of the table that falsify `raceFree`: pairs of accesses to one location that are not `ok`
    (each unordered pair once), as `(loc, fn₁, fn₂)` -/
def conflicts (t : List Access) : List (String × String × String) :=
  (t.flatMap (fun a => (t.filter (fun b => a.loc == b.loc && !ok a b && a.fn ≤ b.fn)).map (fun b => (a.loc, a.fn, b.fn)))).eraseDups

def without (locs : List String) (t : List Access) : List Access := t.filter (fun a => !locs.contains a.loc)
def only (loc : String) (t : List Access) : List Access := t.filter (fun a => a.loc == loc)

end Gozod.LockSet
