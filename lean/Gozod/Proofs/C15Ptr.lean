/-
  C15 — Parse through a caller's pointer (`Gozod.Graph.parsePtrS`, the model of validatePointer after /repo e584c0e).

    own_ptr_input_unchanged   Parse through a pointer — any schema of the `own` language, accepted or refused — writes nothing
                              that existed: the caller's variable, the pointee's graph and every schema-held cell hold what
                              they held (the first clause of the property, for pointers)
    own_ptr_same_pointer      when the validated value is the value the pointer refers to, the caller's own pointer comes back
    own_ptr_own_pointer       otherwise (the schema built a new value) the answer is a pointer allocated by this call whose
                              pointee is the validated value
    legacy_ptr_pointee_replaced   witness for the code before e584c0e (`*ptr = v`): an object schema in strip mode, a map with
                              an unknown key passed by pointer: the caller's variable refers to another map afterwards
-/
import Gozod.Proofs.C15Own

namespace Gozod.C15
open Gozod.Graph

/-- **own_ptr_input_unchanged**: without an overwrite, Parse through a caller's pointer only allocates. -/
theorem own_ptr_input_unchanged (s : GSchema) (σ : GStore) (p : Loc) (n : Nat) (hn : n ≤ σ.next) (ho : OwnedS n σ.heap s) :
    GExt σ.next σ (parsePtrS false s σ p).1 := by
  unfold parsePtrS
  split
  · next v _ =>
    have e := own_parse_ext s σ v n hn ho
    split
    · exact e
    · simp only [Bool.false_eq_true, ↓reduceIte]
      split
      · exact e
      · exact e.trans (galloc_ext _ _ _ e.1)
  · exact GExt.refl _ _

/-- **own_ptr_same_pointer**: the validated value is the pointee itself → the caller's pointer is the answer. -/
theorem own_ptr_same_pointer (s : GSchema) (σ : GStore) (p : Loc) (v w : GVal) (hp : readG σ.heap p = [(0, v)])
    (hw : (parseS s σ v).2 = some w) (hsame : sameV gdepth w v = true) :
    (parsePtrS false s σ p).2 = some (.ref p) := by
  unfold parsePtrS
  rw [hp]
  simp only [hw, hsame, Bool.false_eq_true, ↓reduceIte]

/-- **own_ptr_own_pointer**: the schema built a new value → a pointer allocated by this call, holding that value. -/
theorem own_ptr_own_pointer (s : GSchema) (σ : GStore) (p : Loc) (v w : GVal) (hp : readG σ.heap p = [(0, v)])
    (hw : (parseS s σ v).2 = some w) (hdiff : sameV gdepth w v = false) :
    (parsePtrS false s σ p).2 = some (.ref (parseS s σ v).1.next) ∧
    readG (parsePtrS false s σ p).1.heap (parseS s σ v).1.next = [(0, w)] := by
  unfold parsePtrS
  rw [hp]
  simp only [hw, hdiff, Bool.false_eq_true, ↓reduceIte]
  exact ⟨rfl, by simp [galloc, readG, gupd]⟩

/-- cell 1 = the caller's map `{9: 7, 10: 7}` (key 10 unknown to the schema), cell 2 = the caller's variable holding it -/
def σp : GStore :=
  { heap := gupd (gupd (fun _ => none) 1 [(9, .scalar 7), (10, .scalar 7)]) 2 [(0, .ref 1)], next := 3 }

/-- **Witness (the code before e584c0e)**: `Object({9: any}).Parse(&m)` stored the stripped result map through the pointer:
    the caller's variable (cell 2) refers to another map afterwards; the fixed code leaves it alone and answers with a
    pointer of its own. -/
theorem legacy_ptr_pointee_replaced :
    let s := GSchema.obj .strip [9] (fun _ => .any)
    reach gdepth (parsePtrS true s σp 2).1.heap (.ref 2) ≠ reach gdepth σp.heap (.ref 2) ∧
    ser gdepth (parsePtrS true s σp 2).1.heap (.ref 2) ≠ ser gdepth σp.heap (.ref 2) ∧
    reach gdepth (parsePtrS false s σp 2).1.heap (.ref 2) = reach gdepth σp.heap (.ref 2) ∧
    ser gdepth (parsePtrS false s σp 2).1.heap (.ref 2) = ser gdepth σp.heap (.ref 2) ∧
    isRef (parsePtrS false s σp 2).2 4 = true ∧ isRef (parsePtrS true s σp 2).2 2 = true := by decide

/-- a slice schema hands back the caller's slice itself: the caller's pointer comes back (hypotheses of `own_ptr_same_pointer`) -/
example :
    let σ : GStore := { heap := gupd (gupd (fun _ => none) 1 [(0, .scalar 7)]) 2 [(0, .ref 1)], next := 3 }
    isRef (parsePtrS false (.slice .any) σ 2).2 2 = true := by decide

end Gozod.C15
