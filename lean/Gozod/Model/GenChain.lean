/-
  C13 — what gozodgen emits, as data, and how it is read.

  * `GenCell`: one struct of the matrix — status of the generated file (parsed by go/parser, type-checked
    by `go build`), and the constructor + method chain of its field's schema expression as parsed from
    the emitted source (regenerated: `Gozod.Gen.genTable`).
  * `denote`: the verdict of that chain on a probe under the primitive-schema semantics (C01 reading:
    `Min/Max` = bound on value / byte length, `Email/URL/UUID/Regex` = format, `Optional/Nilable` = nil
    accepted).  Validated against the compiled generated code on every probe by the harness.
  * the generator's literal formatting of string parameters (`generateTypedValue` for `default=` /
    `prefault=` on string fields: `fmt.Sprintf(".%s(\"%s\")", method, value)`; `regex=`: two
    `strings.ReplaceAll`) and a reader for Go interpreted string literals.
-/
import Gozod.Model.Tags
namespace Gozod.GenChain
open Gozod.Tags

inductive Status | ok | noparse | notypecheck
  deriving DecidableEq, Repr

inductive Call
  | min (n : Int) | max (n : Int) | gt (n : Int) | gte (n : Int) | lt (n : Int) | lte (n : Int)
  | email | url | regex | optional | nilable
  | length (n : Nat) | positive | negative | nonnegative | nonpositive    -- round 4b: the writer with pending/C13-dropped-rules
  | other (name : String)
  deriving DecidableEq, Repr

inductive Ctor
  | prim            -- gozod.String() / Int8() / … / Bool(): the primitive constructor of the field's base type
  | uuid            -- gozod.UUID()
  | url             -- gozod.URL()  (round 4b: the writer with pending/C13-url-constructor)
  | fromStruct      -- gozod.FromStruct[T]() for a named struct T
  | other (src : String)
  deriving DecidableEq, Repr

structure GenCell where
  fty : FTy
  rules : List TRule
  status : Status
  ctor : Ctor
  chain : List Call
  deriving Repr

/-- the tag rules a chain enforces -/
def Call.rule? : Call → Option TRule
  | .min n => some (.min n) | .max n => some (.max n)
  | .gt n => some (.gt n) | .gte n => some (.gte n) | .lt n => some (.lt n) | .lte n => some (.lte n)
  | .email => some .email | .url => some .url | .regex => some .regex
  | .length n => some (.length n)
  | .positive => some .positive | .negative => some .negative | .nonnegative => some .nonnegative | .nonpositive => some .nonpositive
  | _ => none

def chainRules (ctor : Ctor) (chain : List Call) : List TRule :=
  (match ctor with | .uuid => [.uuid] | .url => [.url] | _ => []) ++ chain.filterMap Call.rule?

def acceptsNil (chain : List Call) : Bool :=
  chain.any fun c => match c with | .optional | .nilable => true | _ => false

/-- verdict of the generated schema expression on a probe -/
def denote (c : GenCell) (p : Probe) : Bool :=
  match p with
  | .nil => acceptsNil c.chain
  | .inner ok => ok || (match c.fty.base with | .structT => false | _ => true)
  | _ => (chainRules c.ctor c.chain).all (Spec.ruleHolds · p)

/-! ### literal formatting -/
abbrev Str := List Nat

def cDQ : Nat := 0x22
def cBS : Nat := 0x5C
def cNL : Nat := 0x0A

/-- `fmt.Sprintf("\"%s\"", value)` — the argument text of `.Default("…")` for a string field -/
def emitDefault (p : Str) : Str := [cDQ] ++ p ++ [cDQ]

/-- `strings.ReplaceAll(s, "\\", "\\\\")` -/
def replBackslash : Str → Str
  | [] => []
  | c :: rest => if c = cBS then cBS :: cBS :: replBackslash rest else c :: replBackslash rest
/-- `strings.ReplaceAll(s, "\"", "\\\"")` -/
def replQuote : Str → Str
  | [] => []
  | c :: rest => if c = cDQ then cBS :: cDQ :: replQuote rest else c :: replQuote rest

/-- the argument text of `regexp.MustCompile("…")` for `regex=` -/
def emitRegex (p : Str) : Str := [cDQ] ++ replQuote (replBackslash p) ++ [cDQ]

/-- `strconv.Quote` rune by rune, for the runes whose quoting is modelled: `"` `\`, the seven
    control characters with a letter escape, printable ASCII.  `none`: not modelled (other control
    characters and non-ASCII runes: `\x`, `\u` escapes or the rune itself, by `strconv.IsPrint`). -/
def quoteRune (c : Nat) : Option Str :=
  if c = cDQ then some [cBS, cDQ] else if c = cBS then some [cBS, cBS]
  else if c = 0x07 then some [cBS, 0x61] else if c = 0x08 then some [cBS, 0x62]
  else if c = 0x0C then some [cBS, 0x66] else if c = 0x0A then some [cBS, 0x6E]
  else if c = 0x0D then some [cBS, 0x72] else if c = 0x09 then some [cBS, 0x74]
  else if c = 0x0B then some [cBS, 0x76]
  else if 0x20 ≤ c ∧ c < 0x7F then some [c] else none

def quoteBody : Str → Option Str
  | [] => some []
  | c :: rest =>
    match quoteRune c, quoteBody rest with
    | some a, some b => some (a ++ b)
    | _, _ => none

/-- the argument text of `.Default(…)` after 8c56087: `strconv.Quote(value)` -/
def emitDefaultFixed (p : Str) : Option Str := (quoteBody p).map fun b => [cDQ] ++ b ++ [cDQ]

/-- value of a one-character escape of a Go interpreted string literal (`\'` is not allowed in
    strings; numeric escapes `\x \u \U \ooo` are not modelled: `none`) -/
def escapeValue (d : Nat) : Option Nat :=
  if d = cBS then some cBS else if d = cDQ then some cDQ
  else if d = 0x6E then some 0x0A else if d = 0x74 then some 0x09 else if d = 0x72 then some 0x0D
  else if d = 0x61 then some 0x07 else if d = 0x62 then some 0x08 else if d = 0x66 then some 0x0C
  else if d = 0x76 then some 0x0B else none

/-- after the opening quote: the literal must end exactly at the last rune -/
def goStringTail : Str → Option Str
  | [] => none
  | [c] => if c = cDQ then some [] else none
  | c :: d :: rest =>
    if c = cDQ then none                -- the literal ends early; the rest is not part of it
    else if c = cNL then none
    else if c = cBS then
      match escapeValue d with
      | none => none
      | some e => (goStringTail rest).map (e :: ·)
    else (goStringTail (d :: rest)).map (c :: ·)

/-- the value of `s` read as ONE Go interpreted string literal (`none`: it is not one) -/
def goStringLit : Str → Option Str
  | [] => none
  | c :: tl => if c = cDQ then goStringTail tl else none

/-! ### token syntax of the harness (`ctor;Call:arg;Call`) -/
def Call.ofString? (s : String) : Call :=
  match s.splitOn ":" with
  | ["Min", n] => (n.toInt?.map Call.min).getD (.other s)
  | ["Max", n] => (n.toInt?.map Call.max).getD (.other s)
  | ["Gt", n] => (n.toInt?.map Call.gt).getD (.other s)
  | ["Gte", n] => (n.toInt?.map Call.gte).getD (.other s)
  | ["Lt", n] => (n.toInt?.map Call.lt).getD (.other s)
  | ["Lte", n] => (n.toInt?.map Call.lte).getD (.other s)
  | ["Length", n] => (n.toNat?.map Call.length).getD (.other s)
  | ["Positive"] => .positive | ["Negative"] => .negative | ["NonNegative"] => .nonnegative | ["NonPositive"] => .nonpositive
  | ["Email"] => .email | ["URL"] => .url
  | ["Optional"] => .optional | ["Nilable"] => .nilable
  | "Regex" :: _ => .regex
  | _ => .other s

def primCtors : List String :=
  ["gozod.String()", "gozod.Int()", "gozod.Int8()", "gozod.Int16()", "gozod.Int32()", "gozod.Int64()",
   "gozod.Uint()", "gozod.Uint8()", "gozod.Uint16()", "gozod.Uint32()", "gozod.Uint64()",
   "gozod.Float32()", "gozod.Float64()", "gozod.Bool()"]

def Ctor.ofString? (s : String) : Ctor :=
  if primCtors.contains s then .prim
  else if s == "gozod.UUID()" then .uuid
  else if s == "gozod.URL()" then .url
  else if s == "gozod.FromStruct[Inner]()" || s == "gozod.FromStruct[InnerT]()" then .fromStruct
  else .other s

end Gozod.GenChain
