/-
  C06 — witnesses: the known-finding region of the rule matrix is exact (it is EMPTY since the seven repairs
  of the rule-application code landed: the three matrix witnesses below hold vacuously and the full statements
  are theorems of `Proofs/C06.lean`), and the full statement about type graphs is false.  Kept apart from `Gozod.Proofs.C06`: if the library is repaired these
  theorems stop checking ("finding no longer reproduces"), which is reported in the evidence and is
  not a violation.
-/
import Gozod.Proofs.C06
import Gozod.Proofs.C06G
namespace Gozod.C06W
open Gozod.Tags Gozod.Gen Gozod.C06

def singlesW (b : Block) : Bool :=
  b.singles.all fun s => !knownSingle s.1 b.fty || s.2 != expected [s.1] b.probes
def pairsW (b : Block) : Bool :=
  b.pairs.all fun p => !knownPair p.1 p.2.1 b.fty || knownSingle p.1 b.fty || knownSingle p.2.1 b.fty ||
     (p.2.2.1 != expected [p.1, p.2.1] b.probes || p.2.2.2 != expected [p.2.1, p.1] b.probes)
def orderW (b : Block) : Bool :=
  b.pairs.all fun p => !knownOrder p.1 p.2.1 b.fty || p.2.2.1 != p.2.2.2

/-- every excluded single-rule cell really misbehaves on some probe -/
theorem c06_no_silent_noop_witnesses :
    ∀ b ∈ tagTable, ∀ s ∈ b.singles, knownSingle s.1 b.fty = true → s.2 ≠ expected [s.1] b.probes := by
  have h : tagTable.all singlesW = true := by decide +kernel
  intro b hb s hs hk
  have := List.all_eq_true.mp (List.all_eq_true.mp h b hb) s hs
  simpa [hk] using this

/-- every excluded pair whose two single-rule cells are fine really misbehaves in some order -/
theorem c06_pairs_witnesses :
    ∀ b ∈ tagTable, ∀ p ∈ b.pairs, knownPair p.1 p.2.1 b.fty = true → knownSingle p.1 b.fty = false →
      knownSingle p.2.1 b.fty = false →
      ¬ (p.2.2.1 = expected [p.1, p.2.1] b.probes ∧ p.2.2.2 = expected [p.2.1, p.1] b.probes) := by
  have h : tagTable.all pairsW = true := by decide +kernel
  intro b hb p hp hk h1 h2
  have := List.all_eq_true.mp (List.all_eq_true.mp h b hb) p hp
  simp [hk, h1, h2] at this
  intro ⟨e1, e2⟩
  rcases this with h | h
  · exact h e1
  · exact h e2

/-- every excluded pair really is order dependent -/
theorem c06_order_witnesses :
    ∀ b ∈ tagTable, ∀ p ∈ b.pairs, knownOrder p.1 p.2.1 b.fty = true → p.2.2.1 ≠ p.2.2.2 := by
  have h : tagTable.all orderW = true := by decide +kernel
  intro b hb p hp hk
  have := List.all_eq_true.mp (List.all_eq_true.mp h b hb) p hp
  simpa [hk] using this

/-! ### type graphs -/
open Gozod.Tags.Graph in
/-- the table of type graphs holds a probe under a recursive edge that is accepted although invalid, and a nil
    slice that is rejected although not `required` -/
theorem c06_graph_table_witnesses :
    (graphTable.any fun r => !rankedB r.env && r.probes.any fun p => p.2 == .acc && !Spec.vStruct r.env 0 p.1) = true ∧
    (graphTable.any fun r => rankedB r.env && r.probes.any fun p => p.2 == .rej && Spec.vStruct r.env 0 p.1) = true := by
  decide +kernel

open Gozod.Tags.Graph in
theorem c06_graph_table_full_false : ¬ c06_graph_table_full := by
  intro h
  have hb : graphTable.all (fun r => r.probes.all fun p => p.2 == Obs.ofBool (Spec.vStruct r.env 0 p.1)) = true :=
    List.all_eq_true.mpr fun r hr => List.all_eq_true.mpr fun p hp => by simpa using (h r hr).2 p hp
  revert hb
  decide +kernel

end Gozod.C06W
