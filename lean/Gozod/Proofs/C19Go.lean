/-
  C19 — "for EVERY ZodError": Go-level errors (Model/IssuesGo.lean).

  A Go path is `[]any`; the library itself files map keys and set elements of any comparable type
  there, users build paths freely, and a `*ZodError` can be nil.

  * Refinement: on every Go-level error the formatters as they stand (since c65f4c0 / 6ff3a13 / e8b2b50) compute what the
    position-level model (Model/Issues.lean) computes on the positions the elements denote
    (`flattenGo_eq`, `formatGo_eq`, `treeifyGo_eq`), so every theorem of Proofs/C19.lean lifts:
    `c19_go_flatten_count`, `c19_go_tree_count`, `c19_go_tree_place`, `c19_go_format_count`,
    `c19_go_nonempty`, `c19_go_never_panics` — FULL statements, for all element types and nil.
  * The code before those commits (`treeInsertOld`, `segDotOld`, `Cfg.head`): it PANICKED exactly
    when a path holds a negative int (`treeInsertOld_none_iff`), ignores elements of other types
    (`treeInsertOld_eq_dropOther`), and agrees with the fixed code on plain paths (string /
    non-negative int: `treeInsertOld_plain`, `c19_old_tree_partial`).  Witnesses: `old_tree_panics_negative`,
    `old_tree_misfiles_other`, `old_dotpath_other_conflates`, `old_nil_panics`.
  * `treeifyCfg_fixed` / `treeifyCfg_head`: the driver's `Cfg`-indexed definition is the fixed,
    resp. the HEAD transcription at the two ends.
-/
import Gozod.Model.IssuesGo
import Gozod.Model.IssuesGoSpec
import Gozod.Proofs.C19Dot
namespace Gozod.C19
open Gozod.Issues

/-! ## `%v` of an element is the rendering of the position it denotes -/

theorem El.render_pos (e : El) : (El.pos e).render = e.render := by
  cases e with
  | str s => rfl
  | int z => cases z <;> rfl
  | other r => rfl

theorem map_render_pos (p : List El) : (p.map El.pos).map Seg.render = p.map El.render := by
  induction p with
  | nil => rfl
  | cons e r ih => simp [El.render_pos, ih]

theorem norm_path (i : IssueGo) : i.norm.path = i.path.map El.pos := by
  cases i; simp [IssueGo.norm, Issue.path, IssueGo.path]

theorem norm_msg (i : IssueGo) : i.norm.msg = i.msg := by
  cases i; simp [IssueGo.norm, Issue.msg, IssueGo.msg]

theorem normList_length (is : List IssueGo) : (normList is).length = is.length := by
  induction is with
  | nil => rfl
  | cons i r ih => simp [normList, ih]

theorem normList_eq_map (is : List IssueGo) : normList is = is.map IssueGo.norm := by
  induction is with
  | nil => rfl
  | cons i r ih => simp [normList, ih]

/-! ## FlattenError -/

theorem flattenStepGo_eq (f : Flat) (i : IssueGo) : flattenStepGo f i = flattenStep f i.norm := by
  unfold flattenStepGo flattenStep
  rw [norm_path, norm_msg]
  cases i.path with
  | nil => rfl
  | cons e r => simp [El.render_pos]

theorem foldl_flattenGo (is : List IssueGo) (f : Flat) :
    is.foldl flattenStepGo f = (normList is).foldl flattenStep f := by
  induction is generalizing f with
  | nil => rfl
  | cons i r ih => simp [normList, List.foldl, flattenStepGo_eq, ih]

/-- FlattenError on a Go-level error = the position-level model on the positions -/
theorem flattenGo_eq (is : List IssueGo) : flattenGo is = flatten (normList is) :=
  foldl_flattenGo is _

/-- **Flatten loses nothing, whatever the path elements are** -/
theorem c19_go_flatten_count (is : List IssueGo) : (flattenGo is).count = is.length := by
  rw [flattenGo_eq, c19_flatten_count, normList_length]

/-! ## FormatError -/

theorem anyNonEmptyGo_eq (es : List (List IssueGo)) : anyNonEmptyGo es = anyNonEmpty (normBranches es) := by
  induction es with
  | nil => rfl
  | cons b r ih =>
    cases b with
    | nil => simpa [anyNonEmptyGo, normBranches, normList, anyNonEmpty] using ih
    | cons i is => simp [anyNonEmptyGo, normBranches, normList, anyNonEmpty]

theorem render_append (pre path : List El) :
    (pre.map El.pos ++ path.map El.pos).map Seg.render = (pre ++ path).map El.render := by
  rw [← List.map_append, map_render_pos]

mutual
theorem fmtIssueGo_eq : ∀ (i : IssueGo) (pre : List El) (t : Fmt),
    fmtIssueGo pre i t = fmtIssue (pre.map El.pos) i.norm t
  | .mk code path msg errors issues, pre, t => by
    have hr := render_append pre path
    have hp : (pre ++ path).map El.pos = pre.map El.pos ++ path.map El.pos := List.map_append
    cases code
    case invalidUnion =>
      cases hne : anyNonEmptyGo errors
      · have hne' := hne; rw [anyNonEmptyGo_eq] at hne'
        simp [fmtIssueGo, fmtIssue, IssueGo.norm, hne, hne', hr]
      · have hne' := hne; rw [anyNonEmptyGo_eq] at hne'
        simp [fmtIssueGo, fmtIssue, IssueGo.norm, hne, hne', fmtBranchesGo_eq errors (pre ++ path) t, hp]
    case invalidKey =>
      cases issues with
      | nil => simp [fmtIssueGo, fmtIssue, IssueGo.norm, normList, hr]
      | cons i r =>
        have := fmtIssuesGo_eq (i :: r) (pre ++ path) t
        simp only [normList] at this
        simp [fmtIssueGo, fmtIssue, IssueGo.norm, normList, this, hp]
    case invalidElement =>
      cases issues with
      | nil => simp [fmtIssueGo, fmtIssue, IssueGo.norm, normList, hr]
      | cons i r =>
        have := fmtIssuesGo_eq (i :: r) (pre ++ path) t
        simp only [normList] at this
        simp [fmtIssueGo, fmtIssue, IssueGo.norm, normList, this, hp]
    all_goals simp [fmtIssueGo, fmtIssue, IssueGo.norm, hr]
theorem fmtIssuesGo_eq : ∀ (is : List IssueGo) (pre : List El) (t : Fmt),
    fmtIssuesGo pre is t = fmtIssues (pre.map El.pos) (normList is) t
  | [], pre, t => by simp [fmtIssuesGo, fmtIssues, normList]
  | i :: r, pre, t => by
    simp [fmtIssuesGo, fmtIssues, normList, fmtIssueGo_eq i pre t, fmtIssuesGo_eq r pre]
theorem fmtBranchesGo_eq : ∀ (bs : List (List IssueGo)) (pre : List El) (t : Fmt),
    fmtBranchesGo pre bs t = fmtBranches (pre.map El.pos) (normBranches bs) t
  | [], pre, t => by simp [fmtBranchesGo, fmtBranches, normBranches]
  | b :: r, pre, t => by
    simp [fmtBranchesGo, fmtBranches, normBranches, fmtIssuesGo_eq b pre t, fmtBranchesGo_eq r pre]
end

/-- FormatError on a Go-level error = the position-level model on the positions -/
theorem formatGo_eq (is : List IssueGo) : formatGo is = formatError (normList is) := by
  exact fmtIssuesGo_eq is [] Fmt.empty

/-- **FormatError loses nothing, whatever the path elements are**: one message per leaf -/
theorem c19_go_format_count (is : List IssueGo) : (formatGo is).count = leafCountIssues (normList is) := by
  rw [formatGo_eq, c19_format_count]

/-! ## TreeifyError as it stands (since c65f4c0) -/

theorem treeInsertGo_eq (p : List El) (m : String) (t : Tree) :
    treeInsertGo p m t = t.insert (p.map El.pos) m := by
  induction p generalizing t with
  | nil => simp [treeInsertGo, Tree.insert]
  | cons e r ih =>
    have hf : treeInsertGo r m = Tree.insert (r.map El.pos) m := funext ih
    cases t with
    | node es ps ts =>
      cases e with
      | str k => simp [treeInsertGo, Tree.insert, El.pos, hf]
      | int z => cases z <;> simp [treeInsertGo, Tree.insert, El.pos, hf]
      | other s => simp [treeInsertGo, Tree.insert, El.pos, hf]

theorem foldl_treeifyGo (is : List IssueGo) (t : Tree) :
    is.foldl (fun t i => treeInsertGo i.path i.msg t) t
      = (normList is).foldl (fun t i => t.insert i.path i.msg) t := by
  induction is generalizing t with
  | nil => rfl
  | cons i r ih =>
    simp only [normList, List.foldl]
    rw [ih, treeInsertGo_eq, norm_path, norm_msg]

/-- TreeifyError (fixed) on a Go-level error = the position-level model on the positions -/
theorem treeifyGo_eq (is : List IssueGo) : treeifyGo is = treeify (normList is) :=
  foldl_treeifyGo is _

/-- **Treeify loses nothing, whatever the path elements are** -/
theorem c19_go_tree_count (is : List IssueGo) : (treeifyGo is).count = is.length := by
  rw [treeifyGo_eq, c19_tree_count, normList_length]

/-- **… and files every message at the position its path denotes**: the node at position `p` holds
    exactly the messages of the issues whose elements denote `p`, in order -/
theorem c19_go_tree_place (p : List Seg) (is : List IssueGo) :
    (treeifyGo is).at p = (is.filter (fun i => i.path.map El.pos == p)).map IssueGo.msg := by
  rw [treeifyGo_eq, c19_tree_place, normList_eq_map]
  induction is with
  | nil => rfl
  | cons i r ih =>
    simp only [List.map_cons, List.filter_cons, norm_path]
    cases i.path.map El.pos == p <;> simp [ih, norm_msg]

example : (treeifyGo [.mk .custom [.int (-1)] "m1" [] [], .mk .custom [.str "a", .other "1.5"] "m2" [] [],
    .mk .custom [.str "a"] "m3" [] []]).at [.key "a", .key "1.5"] = ["m2"] := by decide

/-! ## TreeifyError before c65f4c0 -/

theorem updPropM_some (k : String) (f : Tree → Option Tree) (g : Tree → Tree) (h : ∀ t, f t = some (g t))
    (ps : List (String × Tree)) : updPropM k f ps = some (updProp k g ps) := by
  induction ps with
  | nil => simp [updPropM, updProp, h]
  | cons hd r ih =>
    obtain ⟨k', t⟩ := hd
    by_cases hk : k' = k
    · simp [updPropM, updProp, hk, h]
    · simp [updPropM, updProp, hk, ih]

theorem updItemM_some (f : Tree → Option Tree) (g : Tree → Tree) (h : ∀ t, f t = some (g t))
    (n : Nat) (ts : List Tree) : updItemM f n ts = some (updItem g n ts) := by
  induction n generalizing ts with
  | zero => cases ts <;> simp [updItemM, updItem, h]
  | succ n ih => cases ts <;> simp [updItemM, updItem, ih]

theorem updPropM_none (k : String) (f : Tree → Option Tree) (h : ∀ t, f t = none)
    (ps : List (String × Tree)) : updPropM k f ps = none := by
  induction ps with
  | nil => simp [updPropM, h]
  | cons hd r ih =>
    obtain ⟨k', t⟩ := hd
    by_cases hk : k' = k
    · simp [updPropM, hk, h]
    · simp [updPropM, hk, ih]

theorem updItemM_none (f : Tree → Option Tree) (h : ∀ t, f t = none)
    (n : Nat) (ts : List Tree) : updItemM f n ts = none := by
  induction n generalizing ts with
  | zero => cases ts <;> simp [updItemM, h]
  | succ n ih => cases ts <;> simp [updItemM, ih]

/-- a path without negative ints: the old code walked it as the current code walks the path with the
    elements of other types REMOVED (they are ignored: the message lands on the enclosing node) -/
theorem treeInsertOld_eq_dropOther (p : List El) (hp : p.any El.isNeg = false) (m : String) (t : Tree) :
    treeInsertOld p m t = some (treeInsertGo (dropOther p) m t) := by
  induction p generalizing t with
  | nil => simp [treeInsertOld, treeInsertGo, dropOther]
  | cons e r ih =>
    simp only [List.any_cons, Bool.or_eq_false_iff] at hp
    have ih' := fun t => ih hp.2 t
    cases e with
    | str k =>
      cases t with
      | node es ps ts => simp [treeInsertOld, treeInsertGo, dropOther, updPropM_some k _ _ ih']
    | int z =>
      cases z with
      | ofNat n =>
        cases t with
        | node es ps ts => simp [treeInsertOld, treeInsertGo, dropOther, updItemM_some _ _ ih']
      | negSucc n => simp [El.isNeg] at hp
    | other s =>
      cases t with
      | node es ps ts => simp [treeInsertOld, dropOther, ih']

theorem dropOther_plain (p : List El) (hp : p.all El.plain = true) : dropOther p = p := by
  induction p with
  | nil => rfl
  | cons e r ih =>
    simp only [List.all_cons, Bool.and_eq_true] at hp
    cases e with
    | str k => simp [dropOther, ih hp.2]
    | int z => simp [dropOther, ih hp.2]
    | other s => simp [El.plain] at hp

theorem plain_no_neg (p : List El) (hp : p.all El.plain = true) : p.any El.isNeg = false := by
  induction p with
  | nil => rfl
  | cons e r ih =>
    simp only [List.all_cons, Bool.and_eq_true] at hp
    simp only [List.any_cons, Bool.or_eq_false_iff]
    refine ⟨?_, ih hp.2⟩
    cases e with
    | str k => rfl
    | int z => cases z <;> simp_all [El.plain, El.isNeg]
    | other s => rfl

/-- on plain paths (strings and non-negative ints) the old code IS the current code -/
theorem treeInsertOld_plain (p : List El) (hp : p.all El.plain = true) (m : String) (t : Tree) :
    treeInsertOld p m t = some (treeInsertGo p m t) := by
  rw [treeInsertOld_eq_dropOther p (plain_no_neg p hp), dropOther_plain p hp]

/-- **TreeifyError before c65f4c0 panicked exactly when a path holds a negative int** -/
theorem treeInsertOld_none_iff (p : List El) (m : String) (t : Tree) :
    treeInsertOld p m t = none ↔ p.any El.isNeg = true := by
  constructor
  · intro h
    cases hn : p.any El.isNeg
    · rw [treeInsertOld_eq_dropOther p hn] at h; simp at h
    · rfl
  · intro h
    induction p generalizing t with
    | nil => simp at h
    | cons e r ih =>
      cases e with
      | str k =>
        have hr : r.any El.isNeg = true := by simpa [El.isNeg] using h
        cases t with
        | node es ps ts => simp [treeInsertOld, updPropM_none k _ (fun t => ih t hr)]
      | int z =>
        cases z with
        | ofNat n =>
          have hr : r.any El.isNeg = true := by simpa [El.isNeg] using h
          cases t with
          | node es ps ts => simp [treeInsertOld, updItemM_none _ (fun t => ih t hr)]
        | negSucc n => simp [treeInsertOld]
      | other s =>
        have hr : r.any El.isNeg = true := by simpa [El.isNeg] using h
        simp [treeInsertOld, ih t hr]

/-- the region of the partial theorem: every top-level path is plain -/
def plainErr (is : List IssueGo) : Bool := is.all (fun i => i.path.all El.plain)

theorem treeifyOldFrom_plain (is : List IssueGo) (h : plainErr is = true) (t : Tree) :
    treeifyOldFrom is t = some (is.foldl (fun t i => treeInsertGo i.path i.msg t) t) := by
  induction is generalizing t with
  | nil => rfl
  | cons i r ih =>
    simp only [plainErr, List.all_cons, Bool.and_eq_true] at h
    simp [treeifyOldFrom, treeInsertOld_plain i.path h.1, ih (by simpa [plainErr] using h.2)]

/-- **TreeifyError before c65f4c0, PARTIAL**: on errors whose paths hold strings and non-negative
    ints only it does not panic, carries one message per issue and files it at its position -/
theorem c19_old_tree_partial (is : List IssueGo) (h : plainErr is = true) :
    ∃ t, treeifyOld is = some t ∧ t.count = is.length ∧
      ∀ p, t.at p = (is.filter (fun i => i.path.map El.pos == p)).map IssueGo.msg := by
  refine ⟨treeifyGo is, ?_, c19_go_tree_count is, fun p => c19_go_tree_place p is⟩
  simp [treeifyOld, treeifyOldFrom_plain is h, treeifyGo]

example : plainErr [.mk .custom [.str "a", .int 3, .str "0"] "m" [] []] = true := by decide

/-- the full statement, for the code before c65f4c0 (false: `c19_old_tree_full_false`) -/
def c19_old_tree_full : Prop :=
  ∀ is : List IssueGo, ∃ t, treeifyOld is = some t ∧ t.count = is.length ∧
    ∀ p, t.at p = (is.filter (fun i => i.path.map El.pos == p)).map IssueGo.msg

/-- witness 1: `Map(Int(), String()).Parse(map[any]any{-1: 5})` → path `[-1]` → TreeifyError panics -/
theorem old_tree_panics_negative : treeifyOld [.mk .invalidType [.int (-1)] "m1" [] []] = none := by decide

/-- witness 2: `Map(Float64(), String()).Parse(map[any]any{1.5: 5})` → path `[1.5]` → the message is
    filed at the ROOT, the position of the empty path -/
theorem old_tree_misfiles_other :
    (treeifyOld [.mk .invalidType [.other "1.5"] "m1" [] []]).map (fun t => (t.at [], t.at [.key "1.5"]))
      = some (["m1"], []) := by decide

theorem c19_old_tree_full_false : ¬ c19_old_tree_full := by
  intro h
  obtain ⟨t, ht, _⟩ := h [.mk .invalidType [.int (-1)] "m1" [] []]
  rw [old_tree_panics_negative] at ht
  exact absurd ht (by simp)

/-! ### the `Cfg`-indexed definition the driver runs -/

theorem negAsKey_dnorm_pos (p : List El) : (negAsKey (p.map El.dnorm)).map El.pos = p.map El.pos := by
  induction p with
  | nil => rfl
  | cons e r ih =>
    cases e with
    | str k => simp [El.dnorm, negAsKey, El.pos, ih]
    | int z => cases z <;> simp [El.dnorm, negAsKey, El.pos, ih]
    | other s => simp [El.dnorm, negAsKey, El.pos, ih]

theorem negAsKey_dnorm_plain (p : List El) : (negAsKey (p.map El.dnorm)).all El.plain = true := by
  induction p with
  | nil => rfl
  | cons e r ih =>
    cases e with
    | str k => simp [El.dnorm, negAsKey, El.plain, ih]
    | int z => cases z <;> simp [El.dnorm, negAsKey, El.plain, ih]
    | other s => simp [El.dnorm, negAsKey, El.plain, ih]

theorem treeInsertOld_fixed (p : List El) (m : String) (t : Tree) :
    treeInsertOld (treePathFor Cfg.fixed p) m t = some (treeInsertGo p m t) := by
  simp only [treePathFor, Cfg.fixed, if_true]
  rw [treeInsertOld_plain _ (negAsKey_dnorm_plain p), treeInsertGo_eq, treeInsertGo_eq, negAsKey_dnorm_pos]

theorem treeifyCfgFrom_fixed (is : List IssueGo) (t : Tree) :
    treeifyCfgFrom Cfg.fixed is t = some (is.foldl (fun t i => treeInsertGo i.path i.msg t) t) := by
  induction is generalizing t with
  | nil => rfl
  | cons i r ih => simp [treeifyCfgFrom, treeInsertOld_fixed, ih]

/-- with all fixes in, the driver's TreeifyError is the transcription of the fixed code -/
theorem treeifyCfg_fixed (is : List IssueGo) : treeifyCfg Cfg.fixed is = some (treeifyGo is) :=
  treeifyCfgFrom_fixed is _

theorem treeifyCfgFrom_head (is : List IssueGo) (t : Tree) :
    treeifyCfgFrom Cfg.head is t = treeifyOldFrom is t := by
  induction is generalizing t with
  | nil => rfl
  | cons i r ih =>
    have : treeifyCfgFrom ⟨false, false, false, false⟩ r = treeifyOldFrom r := funext ih
    simp [treeifyCfgFrom, treeifyOldFrom, treePathFor, Cfg.head, this]

/-- with no fix in, it is the transcription of the code before the three commits -/
theorem treeifyCfg_head (is : List IssueGo) : treeifyCfg Cfg.head is = treeifyOld is :=
  treeifyCfgFrom_head is _

/-! ## nil errors, no panic, non-empty reports -/

/-- **no formatter panics, on any error — nil included** -/
theorem c19_go_never_panics (e : Err) :
    (reportsCfg Cfg.fixed e).flat.isSome ∧ (reportsCfg Cfg.fixed e).tree.isSome ∧
    (reportsCfg Cfg.fixed e).fmt.isSome ∧ (reportsCfg Cfg.fixed e).pretty.isSome := by
  cases e with
  | none => simp [reportsCfg, Cfg.fixed]
  | some is => simp [reportsCfg, treeifyCfg_fixed]

/-- … and the reports are the fixed transcriptions; a nil error reports like an error without issues -/
theorem reportsCfg_fixed (e : Err) :
    reportsCfg Cfg.fixed e =
      ⟨some (flattenGo (Spec.issuesOf e)), some (treeifyGo (Spec.issuesOf e)),
       some (formatGo (Spec.issuesOf e)), some (prettifyGo (Spec.issuesOf e))⟩ := by
  cases e with
  | none => simp [reportsCfg, Cfg.fixed, Spec.issuesOf]
  | some is =>
    have := treeifyCfg_fixed is
    simp only [Cfg.fixed] at this
    simp [reportsCfg, this, Spec.issuesOf, prettifyCfg, Cfg.fixed]

/-- witness: before e8b2b50 the four entry points dereferenced a nil `*ZodError` -/
theorem old_nil_panics : (reportsCfg Cfg.head none).flat = none ∧ (reportsCfg Cfg.head none).tree = none ∧
    (reportsCfg Cfg.head none).fmt = none ∧ (reportsCfg Cfg.head none).pretty = none := by
  simp [reportsCfg, Cfg.head]

theorem prettifyWith_ne_empty_segs (dot : List El → String) (is : List IssueGo) (h : is ≠ []) :
    prettifyWith dot is = "; ".intercalate (is.map (prettySegWith dot)) := by
  cases is with
  | nil => exact absurd rfl h
  | cons i r => rfl

/-- the segment of an issue is empty only for a root issue with an empty message -/
theorem prettySegGo_eq_empty_iff (i : IssueGo) :
    prettySegWith dotPathGo i = "" ↔ i.path = [] ∧ i.msg = "" := by
  unfold prettySegWith
  cases hp : i.path with
  | nil => simp
  | cons s p =>
    simp only [reduceCtorEq, false_and, iff_false]
    intro h
    have := congrArg String.toList h
    simp at this

/-- **the exact region in which PrettifyError's report is the empty string — for every element type**:
    one issue, filed at the root, whose message (what the mapper / formatter returned for it) is empty -/
theorem c19_go_prettify_empty_iff (is : List IssueGo) :
    prettifyGo is = "" ↔ ∃ i, is = [i] ∧ i.path = [] ∧ i.msg = "" := by
  unfold prettifyGo prettifyWith
  rw [semi_intercalate_eq_empty_iff]
  cases is with
  | nil => simp
  | cons i r =>
    cases r with
    | nil => simp [prettySegGo_eq_empty_iff]
    | cons j r => simp

/-- **a non-empty error never formats to an empty report — for every element type**: Flatten, Treeify
    and FormatError for every error; PrettifyError (the definition the driver runs) when no message is
    the empty string (hypothesis; without it: `c19_go_prettify_nonempty_full_false`) -/
theorem c19_go_nonempty (is : List IssueGo) (h : is ≠ []) :
    0 < (flattenGo is).count ∧ 0 < (treeifyGo is).count ∧ 0 < (formatGo is).count ∧
    ((∀ i ∈ is, i.msg ≠ "") → prettifyGo is ≠ "") := by
  have hl : 0 < is.length := by cases is with | nil => exact absurd rfl h | cons _ _ => simp
  have hn : normList is ≠ [] := by
    cases is with
    | nil => exact absurd rfl h
    | cons i r => simp [normList]
  refine ⟨by rw [c19_go_flatten_count]; exact hl, by rw [c19_go_tree_count]; exact hl, ?_, ?_⟩
  · rw [formatGo_eq]
    exact (c19_nonempty (normList is) hn).2.2.2
  · intro hm he
    obtain ⟨j, hj, _, hmsg⟩ := (c19_go_prettify_empty_iff _).mp he
    exact hm j (by rw [hj]; simp) hmsg

example : (∀ i ∈ [IssueGo.mk .tooBig [.str "a", .int (-1), .other "1.5"] "m1" [] [], .mk .custom [] "m2" [] []], i.msg ≠ "") := by
  intro i hi; simp at hi; rcases hi with rfl | rfl <;> decide

def c19_go_prettify_nonempty_full : Prop := ∀ is : List IssueGo, is ≠ [] → prettifyGo is ≠ ""

/-- witness (the run re-derives it on the real code, entry-point variant `blank-formatter`) -/
theorem c19_go_prettify_nonempty_full_false : ¬ c19_go_prettify_nonempty_full := by
  intro h
  exact h [.mk .custom [] "" [] []] (by simp) (by decide)

/-! ## wrapper issues nested to any depth (union inside union inside element …) -/

/-- every issue — a leaf, or a wrapper whatever is nested in it, to any depth — is accounted for by
    at least one message of FormatError (`leafCount` is defined by recursion over the whole issue tree;
    `c19_format_count` says the report carries exactly `leafCountIssues` messages) -/
theorem leafCount_pos (i : Issue) : 0 < leafCount i := by
  rw [← leavesIssue_length i []]
  exact List.length_pos_iff.mpr (leavesIssue_ne_nil [] i)

theorem length_le_leafCountIssues (is : List Issue) : is.length ≤ leafCountIssues is := by
  induction is with
  | nil => simp [leafCountIssues]
  | cons i r ih =>
    have := leafCount_pos i
    simp only [List.length_cons, leafCountIssues]
    omega

/-- **FormatError never carries fewer messages than there are issues**, however the wrapper issues
    are nested; exactly one per issue when no wrapper has nested issues -/
theorem c19_format_accounts_every_issue (is : List Issue) : is.length ≤ (formatError is).count := by
  rw [c19_format_count]; exact length_le_leafCountIssues is

/-- union inside union inside element: the two leaves, filed at element ++ union ++ leaf path -/
example :
    let e : List Issue := [.mk .invalidElement [.idx 0] "e" [] [.mk .invalidUnion [.key "u"] "u1"
      [[.mk .invalidUnion [] "u2" [[.mk .tooBig [.key "x"] "l1" [] []], [.mk .tooSmall [.key "y"] "l2" [] []]] []], []] []]]
    (formatError e).count = 2 ∧ (formatError e).at ["0", "u", "x"] = ["l1"] ∧ (formatError e).at ["0", "u", "y"] = ["l2"]
      ∧ (treeify e).count = 1 ∧ (flatten e).count = 1 := by decide

end Gozod.C19
