/-
  C01 — the string checks of the model mean what the documentation says: `Str.holds p b = true ↔ Str.Spec p b`
  for every check (`holds_iff_spec`), and the acceptance theorem restated with the documented meaning
  (`c01_str_accept_iff_spec`). The spec is a readable proposition (∃ prefix / suffix / split, ∀ byte); the model is
  tied to it by theorem, the implementation to both by the run (the driver's spec column is `Str.specHolds`, which
  decides the same meanings through the derivative matcher, not through `Str.holds`).
-/
import Gozod.Model.StrSpec
import Gozod.Model.StrU
import Gozod.Proofs.C01
namespace Gozod.C01
open Gozod Gozod.Str

theorem isInfix_iff (p : Bytes) : ∀ b : Bytes, Str.isInfix p b = true ↔ ∃ s t, b = s ++ p ++ t := by
  intro b
  induction b with
  | nil =>
    simp only [Str.isInfix, List.isEmpty_iff]
    constructor
    · intro h; subst h; exact ⟨[], [], rfl⟩
    · rintro ⟨s, t, h⟩
      have := congrArg List.length h
      simp at this
      exact List.eq_nil_of_length_eq_zero (by omega)
  | cons c cs ih =>
    simp only [Str.isInfix, Bool.or_eq_true, ih, List.isPrefixOf_iff_prefix]
    constructor
    · rintro (⟨t, ht⟩ | ⟨s, t, h⟩)
      · exact ⟨[], t, by simpa using ht.symm⟩
      · exact ⟨c :: s, t, by simp [h]⟩
    · rintro ⟨s, t, h⟩
      cases s with
      | nil => left; exact ⟨t, by simpa using h.symm⟩
      | cons a s =>
        right
        simp only [List.cons_append, List.cons.injEq] at h
        exact ⟨s, t, h.2⟩

theorem isPrefixOf_iff (p b : Bytes) : p.isPrefixOf b = true ↔ ∃ t, b = p ++ t := by
  rw [List.isPrefixOf_iff_prefix]
  constructor
  · rintro ⟨t, h⟩; exact ⟨t, h.symm⟩
  · rintro ⟨t, h⟩; exact ⟨t, h.symm⟩

theorem isSuffixOf_iff (p b : Bytes) : p.isSuffixOf b = true ↔ ∃ s, b = s ++ p := by
  rw [List.isSuffixOf_iff_suffix]
  constructor
  · rintro ⟨t, h⟩; exact ⟨t, h.symm⟩
  · rintro ⟨t, h⟩; exact ⟨t, h.symm⟩

/-- **Every string check of the model holds exactly when its documented meaning does.** -/
theorem holds_iff_spec (p : SPred) (b : Bytes) : Str.holds p b = true ↔ Spec p b := by
  cases p with
  | minLen n => simp [Str.holds, Spec]
  | maxLen n => simp [Str.holds, Spec]
  | lenEq n => simp [Str.holds, Spec]
  | startsWith q => simp only [Str.holds, Spec]; exact isPrefixOf_iff q b
  | endsWith q => simp only [Str.holds, Spec]; exact isSuffixOf_iff q b
  | includes q => simp only [Str.holds, Spec]; exact isInfix_iff q b
  | lowercase =>
    simp only [Str.holds, Spec, List.all_eq_true, Bool.not_eq_true', Bool.and_eq_false_iff, decide_eq_false_iff_not]
    constructor
    · intro h c hc hh; rcases h c hc with h1 | h1 <;> omega
    · intro h c hc; have := h c hc; omega
  | uppercase =>
    simp only [Str.holds, Spec, List.all_eq_true, Bool.not_eq_true', Bool.and_eq_false_iff, decide_eq_false_iff_not]
    constructor
    · intro h c hc hh; rcases h c hc with h1 | h1 <;> omega
    · intro h c hc; have := h c hc; omega
  | regex k => simp [Str.holds, Spec]
  | relit mode lit =>
    simp only [Str.holds, Spec]
    match mode with
    | 0 => exact isInfix_iff lit b
    | 1 => exact isPrefixOf_iff lit b
    | 2 => exact isSuffixOf_iff lit b
    | _ + 3 => simp
  | custom k => simp [Str.holds, Spec]

/-- A check of the chain fails in the model exactly when it fails under the documented meaning — with Go's
    Unicode-aware overwrites (`StrU.env`) as with the ASCII ones (`Str.env`): both interpret predicates by `Str.holds`. -/
theorem checkFails_iff_spec (c : Check SPred SOw) (x : Bytes) : checkFails StrU.env c x = true ↔ SpecFails c x := by
  cases c with
  | overwrite o => simp [checkFails, SpecFails]
  | pred p a w =>
    cases w with
    | none =>
      simp only [checkFails, SpecFails, Bool.not_eq_true', ← holds_iff_spec]
      show Str.holds p x = false ↔ _
      simp
    | some w =>
      simp only [checkFails, SpecFails, Bool.and_eq_true, Bool.not_eq_true', ← holds_iff_spec]
      show Str.holds w x = true ∧ Str.holds p x = false ↔ _
      simp

/-- **C01 for string schemas, in documented terms.** `Parse` of a non-nil input succeeds iff the input is a string or
    a pointer to one and NO attached check fails, under its documented meaning, on the value produced by the overwrites
    (Go's TrimSpace / ToLower / ToUpper, custom) attached before it. -/
theorem c01_str_accept_iff_spec (i : Prim.Internals SPred SOw Bytes) (x : Prim.Input Bytes)
    (hx : x ≠ .nil ∧ x ≠ .nilPtr) :
    (∃ r, Prim.parse StrU.env i x = .okVal r) ↔
      ∃ v, payload x = some v ∧
        ∀ k c, i.checks[k]? = some c → ¬ SpecFails c (seenAt StrU.env i.checks k v) := by
  rw [c01_accept_iff StrU.env i x hx]
  constructor
  · rintro ⟨v, hv, h⟩
    refine ⟨v, hv, ?_⟩
    intro k c hc hf
    have hk : k < i.checks.length := by
      rcases Nat.lt_or_ge k i.checks.length with h' | h'
      · exact h'
      · rw [List.getElem?_eq_none h'] at hc; cases hc
    have := h k hk
    simp only [failsAt, hc] at this
    rw [(checkFails_iff_spec c _).mpr hf] at this
    cases this
  · rintro ⟨v, hv, h⟩
    refine ⟨v, hv, ?_⟩
    intro k hk
    simp only [failsAt, List.getElem?_eq_getElem hk]
    cases hcf : checkFails StrU.env i.checks[k] (seenAt StrU.env i.checks k v) with
    | false => rfl
    | true => exact absurd ((checkFails_iff_spec _ _).mp hcf) (h k _ (List.getElem?_eq_getElem hk))

example : Spec (.startsWith [97]) [97, 98] := ⟨[98], rfl⟩
example : ¬ Spec .lowercase [97, 66] := fun h => h 66 (by simp) (by omega)
example : Str.specHolds (.includes [98]) [97, 98, 99] = true ∧ Str.specHolds (.regex 2) [97, 10, 122] = false := by decide +kernel

end Gozod.C01
