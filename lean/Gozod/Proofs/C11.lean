/-
  C11 — FromJSONSchema yields a schema equivalent to the JSON Schema it was given.
  Model: Gozod/Model/FromJson.lean (fromJS = jsonschema/from.go; J1 = the structured fragment).
-/
import Gozod.Proofs.C07
import Gozod.Model.FromJson
import Gozod.Proofs.C11Json
import Gozod.Gen.KeywordTable
namespace Gozod.C11
open Gozod.Jsc Gozod.C07

/- every theorem below holds for an arbitrary set `fx` of applied library patches (Model/FromJson.lean `Fx`) -/
variable {fx : Fx}

/-! ### `fromJS` on canonical documents computes `fromJ1` -/

theorem collect_ofList (T : Str → Bool) (st : Bool) (l : List Kw) (p : Parts) :
    collect fx T st (KwList.ofList l) p = l.foldl (fun p k => addKw fx T st k p) p := by
  induction l generalizing p with
  | nil => rfl
  | cons k ks ih => simp [KwList.ofList, collect, ih]

theorem fromJS_node (T : Str → Bool) (st : Bool) (l : List Kw) :
    fromJS fx T st (.node (KwList.ofList l)) = assemble fx T st (l.foldl (fun p k => addKw fx T st k p) {}) := by
  simp [fromJS, collect_ofList]

def okList (fx : Fx) : J1List → List R
  | .nil => []
  | .cons d ds => .ok (fromJ1 fx d) :: okList fx ds

def sList (fx : Fx) : J1List → List S
  | .nil => []
  | .cons d ds => fromJ1 fx d :: sList fx ds

def okProps (fx : Fx) : J1Props → List (Str × R)
  | .nil => []
  | .cons k d r => (k, .ok (fromJ1 fx d)) :: okProps fx r

def sProps (fx : Fx) : J1Props → List (Str × S)
  | .nil => []
  | .cons k d r => (k, fromJ1 fx d) :: sProps fx r

theorem seqR_okList : (ds : J1List) → seqR (okList fx ds) = .ok (sList fx ds)
  | .nil => rfl
  | .cons d ds => by simp [okList, sList, seqR, seqR_okList ds]

theorem slistOf_sList : (ds : J1List) → slistOf (sList fx ds) = fromJ1L fx ds
  | .nil => rfl
  | .cons d ds => by simp [sList, slistOf, fromJ1L, slistOf_sList ds]

theorem shapeOf_sProps : (ps : J1Props) → shapeOf (sProps fx ps) = fromJ1P fx ps
  | .nil => rfl
  | .cons k d r => by simp [sProps, shapeOf, fromJ1P, shapeOf_sProps r]

theorem sProps_keys : (ps : J1Props) → (sProps fx ps).map (·.1) = ps.keys
  | .nil => rfl
  | .cons k d r => by simp [sProps, J1Props.keys, sProps_keys r]

theorem convProps_ok (se : Bool) (req : List Str) : (ps : J1Props) → (∀ k ∈ ps.keys, req.contains k = true) →
    convProps se req (okProps fx ps) = .ok (sProps fx ps)
  | .nil, _ => rfl
  | .cons k d r, h => by
    have hk : req.contains k = true := h k (by simp [J1Props.keys])
    have ih := convProps_ok se req r (fun k' hk' => h k' (by simp [J1Props.keys, hk']))
    have hk' : k ∈ req := by simpa using hk
    simp [okProps, sProps, convProps, ih, hk']

theorem addRequired_self (v : S) (ps : J1Props) : addRequired v ps.keys (sProps fx ps) = sProps fx ps := by
  unfold addRequired
  have : (ps.keys.filter (fun k => !((sProps fx ps).map (·.1)).contains k)) = [] := by
    rw [sProps_keys]
    simp [List.filter_eq_nil_iff]
  rw [this]; simp [List.eraseDups]

theorem okList_ne (ds : J1List) (h : 0 < ds.length) : ∃ r rs, okList fx ds = r :: rs := by
  cases ds with
  | nil => simp [J1List.length] at h
  | cons d ds => exact ⟨_, _, rfl⟩

theorem okProps_ne (ps : J1Props) (h : ps.keys.isEmpty = false) : ∃ kv kvs, okProps fx ps = kv :: kvs := by
  cases ps with
  | nil => simp [J1Props.keys] at h
  | cons k d r => exact ⟨_, _, rfl⟩

theorem goodM_goodL : (ds : J1List) → goodM fx ds = true → goodL fx ds = true
  | .nil, _ => rfl
  | .cons d ds, h => by
    simp only [goodM, Bool.and_eq_true] at h
    simp [goodL, h.1.1, goodM_goodL ds h.2]

theorem allStrs_map (vs : List Str) : allStrs (vs.map Prim.str) = some vs := by
  induction vs with
  | nil => rfl
  | cons v vs ih => simp [allStrs, ih]

theorem seqR_lits (ps : List Prim) (h : ps.contains .null = false) :
    seqR (ps.map litOf) = .ok (ps.map (fun p => S.lit [p])) := by
  induction ps with
  | nil => rfl
  | cons p ps ih =>
    simp only [List.contains_cons, Bool.or_eq_false_iff] at h
    have ih' := ih h.2
    cases p <;> simp_all [seqR, litOf]

theorem slistOf_lits (ps : List Prim) : slistOf (ps.map (fun p => S.lit [p])) = litsOf ps := by
  induction ps with
  | nil => rfl
  | cons p ps ih => simp [slistOf, litsOf, ih]

/-- a member that does not admit nil rejects `null`. -/
theorem null_rejected : (d : J1) → good fx d = true → (fromJ1 fx d).acceptsNull = false → accepts (fromJ1 fx d) .null = false
  | .ref d, h, hn => by
    simp only [good] at h; simp only [fromJ1] at hn ⊢; exact null_rejected d h hn
  | .const p, _, hn => by cases p <;> simp_all [fromJ1, accepts, S.acceptsNull, Json.isPrim]
  | .enumP ps, h, _ => by
    simp only [good, Bool.and_eq_true, Bool.not_eq_true'] at h
    simp [fromJ1, accepts, Json.isNull]
  | .obj _ c, _, _ => by cases c <;> simp [fromJ1, accepts]
  | .str _ _ _, _, _ | .num _ _ _ _ _, _, _ | .bool, _, _ | .fls, _, _ | .arr _ _ _, _, _ | .tup _, _, _ | .objC _ _, _, _
  | .rcd _, _, _ | .enumS _, _, _ | .anyOf _, _, _ | .oneOf _, _, _ | .allOf2 _ _, _, _ | .fmt _ _, _, _ => by
    simp [fromJ1, accepts, Json.isNull]
  | .null, _, hn | .any, _, hn | .tru, _, hn => by simp [fromJ1, S.acceptsNull] at hn

theorem members_null1 : (ds : J1List) → goodM fx ds = true →
    anyAccepts (fromJ1L fx ds) .null = false ∧ countAccepts (fromJ1L fx ds) .null = 0
  | .nil, _ => by simp [fromJ1L, anyAccepts, countAccepts]
  | .cons d ds, h => by
    simp only [goodM, Bool.and_eq_true, Bool.not_eq_true'] at h
    have h0 := null_rejected d h.1.1 h.1.2
    have ih := members_null1 ds h.2
    simp [fromJ1L, anyAccepts, countAccepts, h0, ih.1, ih.2]


/-! #### the nil tests of the patched converters (`admitsNil` = `ParseAny(nil)` succeeds) never fire on the fragment -/

theorem sList_noNil : (ds : J1List) → goodM fx ds = true → (sList fx ds).any admitsNil = false
  | .nil, _ => rfl
  | .cons d ds, h => by
    simp only [goodM, Bool.and_eq_true, Bool.not_eq_true'] at h
    simp [sList, admitsNil, null_rejected d h.1.1 h.1.2, sList_noNil ds h.2]

theorem sList_countNil : (ds : J1List) → goodM fx ds = true → (sList fx ds).countP admitsNil = 0
  | .nil, _ => rfl
  | .cons d ds, h => by
    simp only [goodM, Bool.and_eq_true, Bool.not_eq_true'] at h
    simp [sList, admitsNil, null_rejected d h.1.1 h.1.2, sList_countNil ds h.2]

theorem lits_noNil (ps : List Prim) (h : ps.contains .null = false) :
    (ps.map (fun p => S.lit [p])).any admitsNil = false := by
  induction ps with
  | nil => rfl
  | cons p ps ih =>
    cases p <;> simp_all [admitsNil, accepts, Json.isPrim]

theorem nilIf_false (s : S) : nilIf false s = s := rfl

theorem sList_length : (ds : J1List) → (sList fx ds).length = ds.length
  | .nil => rfl
  | .cons d ds => by simp [sList, J1List.length, sList_length ds]

theorem tupRest_closed (n : Nat) : tupRest fx (some n) n = .none := by
  simp [tupRest]

mutual
/-- T1: on a `good` document of the fragment, `fromJS` (strict or not, whatever the strict-mode
    table) returns `fromJ1`. -/
theorem conv (T : Str → Bool) (st : Bool) : (d : J1) → good fx d = true → fromJS fx T st d.doc = .ok (fromJ1 fx d)
  | .str mn mx pat, _ => by
    cases mn <;> cases mx <;> cases pat <;>
      simp [J1.doc, fromJS_node, optKw, addKw, assemble, convByType, convOneType, convString, strCks, fromJ1, optL]
  | .num mn mx emn emx mul, _ => by
    cases mn <;> cases mx <;> cases emn <;> cases emx <;> cases mul <;>
      simp [J1.doc, fromJS_node, optKw, addKw, assemble, convByType, convOneType, convNumber, fromJ1, optL]
  | .bool, _ => by simp [J1.doc, fromJS_node, addKw, assemble, convByType, convOneType, fromJ1]
  | .null, _ => by simp [J1.doc, fromJS_node, addKw, assemble, convByType, convOneType, fromJ1]
  | .any, _ => by simp [J1.doc, fromJS, collect, assemble, convByType, fromJ1]
  | .tru, _ => by simp [J1.doc, fromJS, fromJ1]
  | .fls, _ => by simp [J1.doc, fromJS, fromJ1]
  | .arr it mn mx, h => by
    simp only [good] at h
    have ih := conv T st it h
    cases mn <;> cases mx <;>
      simp [J1.doc, fromJS_node, optKw, addKw, assemble, convByType, convOneType, convArray, fromJ1, optL, ih]
  | .tup items, h => by
    simp only [good, Bool.and_eq_true, decide_eq_true_eq] at h
    have ih := convL T st items h.1
    obtain ⟨r, rs, hne⟩ := okList_ne (fx := fx) items h.2
    have hs := seqR_okList (fx := fx) items
    simp only [J1.doc, fromJS_node, List.foldl_cons, List.foldl_nil, addKw, assemble, convByType, convOneType, convArray, ih]
    rw [hne] at hs ⊢
    simp [hs, slistOf_sList, fromJ1, sList_length, tupRest_closed]
  | .obj props closed, h => by
    simp only [good, Bool.and_eq_true, Bool.not_eq_true'] at h
    have ih := convP T st props h.1
    obtain ⟨kv, kvs, hne⟩ := okProps_ne (fx := fx) props h.2
    have hc := convProps_ok (fx := fx) (fx.strictProp && st) props.keys props (fun k hk => by simpa using hk)
    cases closed <;>
      simp only [J1.doc, fromJS_node, List.foldl_cons, List.foldl_nil, List.append_nil, List.cons_append, List.nil_append,
        if_true, Bool.false_eq_true, if_false, addKw, assemble, convByType, convOneType, convObject, ih] <;>
      rw [hne] at hc ⊢ <;>
      simp [hc, objOf, addRequired_self, shapeOf_sProps, fromJ1, fromJS, boolOf]
  | .objC props ca, h => by
    simp only [good, Bool.and_eq_true, Bool.not_eq_true'] at h
    obtain ⟨⟨⟨hp, hk⟩, hca⟩, hnb⟩ := h
    have ih := convP T st props hp
    have ihc := conv T st ca hca
    obtain ⟨kv, kvs, hne⟩ := okProps_ne (fx := fx) props hk
    have hc := convProps_ok (fx := fx) (fx.strictProp && st) props.keys props (fun k hk => by simpa using hk)
    have hb : boolOf ca.doc = none := by
      cases ca <;> simp_all [isBoolDoc, J1.doc, boolOf]
    simp only [J1.doc, fromJS_node, List.foldl_cons, List.foldl_nil, addKw, assemble, convByType, convOneType, convObject,
      ih, ihc, hb]
    rw [hne] at hc ⊢
    simp [hc, objOf, addRequired_self, shapeOf_sProps, fromJ1]
  | .rcd v, h => by
    simp only [good] at h
    simp [J1.doc, fromJS_node, addKw, assemble, convByType, convOneType, convObject, conv T st v h, fromJ1]
  | .const p, _ => by
    cases p <;> simp [J1.doc, fromJS_node, addKw, assemble, litOf, fromJ1]
  | .enumS vs, h => by
    simp only [good, Bool.not_eq_true', List.isEmpty_eq_false_iff] at h
    obtain ⟨v, vs', rfl⟩ := List.exists_cons_of_ne_nil h
    have := allStrs_map (v :: vs')
    simp only [List.map_cons] at this
    simp [J1.doc, fromJS_node, addKw, assemble, this, fromJ1]
  | .enumP ps, h => by
    simp only [good, Bool.and_eq_true, Bool.not_eq_true', List.isEmpty_eq_false_iff, Option.isNone_iff_eq_none] at h
    obtain ⟨⟨hne, hstr⟩, hnull⟩ := h
    obtain ⟨v, vs', rfl⟩ := List.exists_cons_of_ne_nil hne
    have hl := seqR_lits (v :: vs') hnull
    simp only [List.map_cons] at hl
    have hn := lits_noNil (v :: vs') hnull
    simp only [List.map_cons] at hn
    simp [J1.doc, fromJS_node, addKw, assemble, hstr, hl, fromJ1, ← slistOf_lits, slistOf, unionOf, hn, nilIf]
  | .anyOf ms, h => by
    simp only [good, Bool.and_eq_true, decide_eq_true_eq] at h
    have ih := convL T st ms (goodM_goodL ms h.1)
    have hs := seqR_okList (fx := fx) ms
    match ms, h, ih, hs with
    | .cons a (.cons b rest), hh, ih, hs =>
      simp only [okList] at hs ih
      have hn := sList_noNil (fx := fx) _ hh.1
      simp only [sList] at hn
      simp [J1.doc, fromJS_node, addKw, assemble, ih, hs, sList, slistOf, slistOf_sList, fromJ1, fromJ1L, unionOf, hn, nilIf]
    | .cons a .nil, h, _, _ => simp [J1List.length] at h
    | .nil, h, _, _ => simp [J1List.length] at h
  | .oneOf ms, h => by
    simp only [good, Bool.and_eq_true, decide_eq_true_eq] at h
    have ih := convL T st ms (goodM_goodL ms h.1)
    have hs := seqR_okList (fx := fx) ms
    match ms, h, ih, hs with
    | .cons a (.cons b rest), hh, ih, hs =>
      simp only [okList] at hs ih
      have hn := sList_countNil (fx := fx) _ hh.1
      simp only [sList] at hn
      simp [J1.doc, fromJS_node, addKw, assemble, ih, hs, sList, slistOf, slistOf_sList, fromJ1, fromJ1L, xorOf, hn, nilIf]
    | .cons a .nil, h, _, _ => simp [J1List.length] at h
    | .nil, h, _, _ => simp [J1List.length] at h
  | .allOf2 a b, h => by
    simp only [good, Bool.and_eq_true] at h
    have hna := null_rejected a h.1.1.1.1.1 (by simpa using h.1.1.1.2)
    simp [J1.doc, fromJS_node, addKw, assemble, fromList, conv T st a h.1.1.1.1.1, conv T st b h.1.1.1.1.2, seqR, chainAnd,
      fromJ1, andOf, nilIf, admitsNil, hna]
  | .ref d, h => by
    simp only [good] at h
    simp [J1.doc, fromJS_node, addKw, assemble, conv T st d h, fromJ1]
  | .fmt name gd, h => by
    simp only [good, Bool.and_eq_true] at h
    have hk : name ∈ knownFormats := by simpa using h.1
    simp [J1.doc, fromJS_node, addKw, assemble, convByType, convOneType, convString, strCks, optL, hk, fromJ1]

theorem convL (T : Str → Bool) (st : Bool) : (ds : J1List) → goodL fx ds = true → fromList fx T st (docList ds) = okList fx ds
  | .nil, _ => rfl
  | .cons d ds, h => by
    simp only [goodL, Bool.and_eq_true] at h
    simp [docList, fromList, okList, conv T st d h.1, convL T st ds h.2]

theorem convP (T : Str → Bool) (st : Bool) : (ps : J1Props) → goodP fx ps = true → fromProps fx T st (docProps ps) = okProps fx ps
  | .nil, _ => rfl
  | .cons k d r, h => by
    simp only [goodP, Bool.and_eq_true] at h
    simp [docProps, fromProps, okProps, conv T st d h.1, convP T st r h.2]
end

/-! ### the produced schema accepts exactly the valid instances -/

theorem patCk_holds (p : Pat) (s : Str) : (patCk p).holds s = p.holds s := by
  cases p <;> rfl

theorem fromJ1_notOpt : (d : J1) → (fromJ1 fx d).isOpt = false
  | .ref d => by simpa [fromJ1] using fromJ1_notOpt d
  | .const p => by cases p <;> simp [fromJ1, S.isOpt]
  | .obj _ c => by cases c <;> simp [fromJ1, S.isOpt]
  | .str _ _ _ | .num _ _ _ _ _ | .bool | .null | .any | .tru | .fls | .arr _ _ _ | .tup _ | .objC _ _ | .rcd _
  | .enumS _ | .enumP _ | .anyOf _ | .oneOf _ | .allOf2 _ _ | .fmt _ _ => by simp [fromJ1, S.isOpt]

theorem reqCount_fromJ1L : (ds : J1List) → reqCount (fromJ1L fx ds) = ds.length
  | .nil => rfl
  | .cons d ds => by
    have ih := reqCount_fromJ1L ds
    simp only [fromJ1L, reqCount, ih, fromJ1_notOpt d, J1List.length]
    split <;> simp_all

theorem fromJ1L_length : (ds : J1List) → (fromJ1L fx ds).length = ds.length
  | .nil => rfl
  | .cons d ds => by simp [fromJ1L, SList.length, J1List.length, fromJ1L_length ds]

theorem docList_length : (ds : J1List) → (docList ds).length = ds.length
  | .nil => rfl
  | .cons d ds => by simp [docList, JSList.length, J1List.length, docList_length ds]

theorem docProps_keys : (ps : J1Props) → (docProps ps).keys = ps.keys
  | .nil => rfl
  | .cons k d r => by simp [docProps, JSProps.keys, J1Props.keys, docProps_keys r]

theorem fromJ1P_keys : (ps : J1Props) → (fromJ1P fx ps).keys = ps.keys
  | .nil => rfl
  | .cons k d r => by simp [fromJ1P, Shape.keys, J1Props.keys, fromJ1P_keys r]

theorem anyAccepts_lits (ps : List Prim) (x : Json) : anyAccepts (litsOf ps) x = ps.any (fun p => x.isPrim p) := by
  induction ps with
  | nil => rfl
  | cons p ps ih => simp [litsOf, anyAccepts, accepts, ih]

theorem any_isPrim_strs (vs : List Str) (x : Json) :
    (vs.map Prim.str).any (fun p => x.isPrim p) = (match x with | .str s => vs.contains s | _ => false) := by
  cases x with
  | str s =>
    induction vs with
    | nil => simp
    | cons v vs ih =>
      simp only [List.map_cons, List.any_cons, List.contains_cons]
      rw [ih]; simp [Json.isPrim]
  | _ => induction vs with
    | nil => simp
    | cons v vs ih => simp_all [Json.isPrim]

theorem sholds_min (n : Nat) (s : Str) : (StrCk.min n).holds s = decide (n ≤ byteLen s) := rfl
theorem sholds_max (n : Nat) (s : Str) : (StrCk.max n).holds s = decide (byteLen s ≤ n) := rfl
theorem patCk_noTrim (p : Pat) : noTrim [patCk p] = true := by cases p <;> rfl
theorem noTrim_append (a b : List StrCk) : noTrim (a ++ b) = (noTrim a && noTrim b) := by simp [noTrim]

mutual
/-- T2 (on the schema `fromJ1` that T1 says `fromJS` returns). -/
theorem equivJ : (d : J1) → (x : Json) → good fx d = true → instOK x = true → jsValid d.doc x = accepts (fromJ1 fx d) x
  | .str mn mx pat, x, _, hx => by
    cases x with
    | str s =>
      have hb := byteLen_ascii s (by simpa [instOK] using hx)
      have hnt : noTrim (optL mn StrCk.min ++ optL mx StrCk.max ++ optL pat patCk) = true := by
        have h1 : noTrim (optL mn StrCk.min) = true := by cases mn <;> rfl
        have h2 : noTrim (optL mx StrCk.max) = true := by cases mx <;> rfl
        have h3 : noTrim (optL pat patCk) = true := by
          cases pat with
          | none => rfl
          | some p => exact patCk_noTrim p
        simp only [noTrim_append, h1, h2, h3, Bool.and_self]
      simp only [fromJ1, accepts, runStr_noTrim _ s hnt]
      cases mn <;> cases mx <;> cases pat <;>
        simp only [J1.doc, optKw, optL, List.append_nil, List.nil_append, List.cons_append, jsValid_node, List.all_cons,
          List.all_nil, kwValid, typeOk, sholds_min, sholds_max, patCk_holds, hb, Bool.true_and, Bool.and_true] <;>
        (split <;> simp_all)
    | _ => cases mn <;> cases mx <;> cases pat <;> simp [J1.doc, optKw, jsValid_node, kwValid, typeOk, fromJ1, accepts]
  | .num mn mx emn emx mul, x, _, _ => by
    cases x <;> cases mn <;> cases mx <;> cases emn <;> cases emx <;> cases mul <;>
      simp [J1.doc, optKw, jsValid_node, kwValid, typeOk, fromJ1, optL, accepts, NumCk.holds, Bool.and_assoc]
  | .bool, x, _, _ => by cases x <;> simp [J1.doc, jsValid_node, kwValid, typeOk, fromJ1, accepts]
  | .null, x, _, _ => by cases x <;> simp [J1.doc, jsValid_node, kwValid, typeOk, fromJ1, accepts, Json.isNull]
  | .any, x, _, _ => by simp [J1.doc, jsValid, kwsValid, fromJ1, accepts]
  | .tru, x, _, _ => by simp [J1.doc, jsValid, fromJ1, accepts]
  | .fls, x, _, _ => by simp [J1.doc, jsValid, fromJ1, accepts]
  | .arr it mn mx, x, h, hx => by
    simp only [good] at h
    cases x with
    | arr xs =>
      have hxs : instListOK xs = true := by simpa [instOK] using hx
      have ih := all_congr_list _ _ (fun v hv => equivJ it v h hv) xs hxs
      cases mn <;> cases mx <;> simp only [J1.doc, optKw, List.append_nil, List.cons_append, List.nil_append] <;>
        rw [jsValid_node] <;>
        simp [kwValid, typeOk, fromJ1, accepts, optL, szOk, SzCk.holds,
          KwList.ofList, KwList.nPrefix, JsonList.drop, ih, Bool.and_comm, Bool.and_assoc, Bool.and_left_comm]
    | _ => cases mn <;> cases mx <;> simp [J1.doc, optKw, jsValid_node, kwValid, typeOk, fromJ1, accepts]
  | .tup items, x, h, hx => by
    simp only [good, Bool.and_eq_true, decide_eq_true_eq] at h
    cases x with
    | arr xs =>
      have hxs : instListOK xs = true := by simpa [instOK] using hx
      have ih := equivItems items xs h.1 hxs
      simp only [J1.doc]
      rw [jsValid_node]
      simp only [List.all_cons, List.all_nil, kwValid, typeOk, ih, fromJ1, accepts, reqCount_fromJ1L, fromJ1L_length,
        restAccepts, szOk_nil, Bool.and_true, Bool.true_and]
      rw [Bool.eq_iff_iff]; simp; constructor
      · rintro ⟨h1, h2, h3⟩; exact ⟨⟨h2, h3⟩, h1⟩
      · rintro ⟨⟨h1, h2⟩, h3⟩; exact ⟨h3, h1, h2⟩
    | _ => simp [J1.doc, jsValid_node, kwValid, typeOk, fromJ1, accepts]
  | .obj props closed, x, h, hx => by
    simp only [good, Bool.and_eq_true] at h
    cases x with
    | obj fs =>
      have hfs : instFieldsOK fs = true := by simpa [instOK] using hx
      have ih := equivProps props fs h.1 hfs
      cases closed
      · simp only [J1.doc, Bool.false_eq_true, if_false, List.append_nil]
        rw [jsValid_node]
        simp only [List.all_cons, List.all_nil, kwValid, typeOk, Bool.true_and, Bool.and_true, fromJ1, accepts, szOk_nil]
        rw [← ih]; cases hfo : fx.openObj <;> simp [openMode, hfo, catchAccepts]
      · simp only [J1.doc, if_true, List.cons_append, List.nil_append]
        rw [jsValid_node]
        simp only [List.all_cons, List.all_nil, kwValid, typeOk, Bool.true_and, Bool.and_true, fromJ1, accepts, szOk_nil,
          jsValid, Bool.or_false, KwList.ofList, KwList.propKeys, docProps_keys, fromJ1P_keys]
        rw [← ih]; simp [Bool.and_assoc]
    | _ => cases closed <;> simp [J1.doc, jsValid_node, kwValid, typeOk, fromJ1, accepts]
  | .objC props ca, x, h, hx => by
    simp only [good, Bool.and_eq_true] at h
    cases x with
    | obj fs =>
      have hfs : instFieldsOK fs = true := by simpa [instOK] using hx
      have ih := equivProps props fs h.1.1.1 hfs
      have ihc := all_congr_fields
        (fun k v => props.keys.contains k || jsValid ca.doc v) (fun k v => props.keys.contains k || accepts (fromJ1 fx ca) v)
        (fun k v _ hv => by simp only [equivJ ca v h.1.2 hv]) fs hfs
      simp only [J1.doc]
      rw [jsValid_node]
      simp only [List.all_cons, List.all_nil, kwValid, typeOk, Bool.true_and, Bool.and_true, fromJ1, accepts, szOk_nil,
        KwList.ofList, KwList.propKeys, docProps_keys, fromJ1P_keys, catchAccepts, ihc]
      rw [← ih, Bool.and_assoc]
    | _ => simp [J1.doc, jsValid_node, kwValid, typeOk, fromJ1, accepts]
  | .rcd v, x, h, hx => by
    simp only [good] at h
    cases x with
    | obj fs =>
      have hfs : instFieldsOK fs = true := by simpa [instOK] using hx
      have ihv := all_congr_fields
        (fun k w => ([] : List Str).contains k || jsValid v.doc w) (fun _ w => accepts (fromJ1 fx v) w)
        (fun k w _ hw => by simp [equivJ v w h hw]) fs hfs
      simp only [J1.doc]
      rw [jsValid_node]
      simp only [List.all_cons, List.all_nil, kwValid, typeOk, Bool.true_and, Bool.and_true, fromJ1, accepts, szOk_nil,
        KwList.ofList, KwList.propKeys, ihv, runStr, Option.isSome_some, fields_all_true]
    | _ => simp [J1.doc, jsValid_node, kwValid, typeOk, fromJ1, accepts]
  | .const p, x, _, _ => by
    cases p <;> cases x <;> simp [J1.doc, jsValid_node, kwValid, fromJ1, accepts, Json.isPrim, Json.isNull]
  | .enumS vs, x, _, _ => by
    simp only [J1.doc, jsValid_node, List.all_cons, List.all_nil, kwValid, Bool.and_true, any_isPrim_strs, fromJ1]
    cases x <;> simp [accepts]
  | .enumP ps, x, h, _ => by
    simp only [good, Bool.and_eq_true, Bool.not_eq_true'] at h
    simp only [J1.doc, jsValid_node, List.all_cons, List.all_nil, kwValid, Bool.and_true, fromJ1, accepts, anyAccepts_lits]
    cases hn : x.isNull
    · simp
    · have := (isNull_iff x).1 hn; subst this
      have hnull : ps.contains Prim.null = false := h.2
      have : ps.any (fun p => Json.isPrim .null p) = false := by
        simp only [List.any_eq_false]
        intro p hp
        cases p <;> simp [Json.isPrim]
        simp_all
      simp [this]
  | .anyOf ms, x, h, hx => by
    simp only [good, Bool.and_eq_true] at h
    have hnull := members_null1 ms h.1
    simp only [J1.doc, jsValid_node, List.all_cons, List.all_nil, kwValid, Bool.and_true, fromJ1, accepts,
      equivAny ms x h.1 hx]
    cases hn : x.isNull
    · simp
    · have := (isNull_iff x).1 hn; subst this
      simp [hnull.1]
  | .oneOf ms, x, h, hx => by
    simp only [good, Bool.and_eq_true] at h
    have hnull := members_null1 ms h.1
    simp only [J1.doc, jsValid_node, List.all_cons, List.all_nil, kwValid, Bool.and_true, fromJ1, accepts,
      equivCount ms x h.1 hx]
    cases hn : x.isNull
    · simp
    · have := (isNull_iff x).1 hn; subst this
      simp [hnull.2]
  | .allOf2 a b, x, h, hx => by
    simp only [good, Bool.and_eq_true, Bool.not_eq_true'] at h
    obtain ⟨⟨⟨⟨⟨ha, hb⟩, hna⟩, _⟩, _⟩, _⟩ := h
    simp only [J1.doc, jsValid_node, List.all_cons, List.all_nil, kwValid, Bool.and_true, allValid, fromJ1, accepts,
      equivJ a x ha hx, equivJ b x hb hx]
    cases hn : x.isNull
    · simp
    · have := (isNull_iff x).1 hn; subst this
      simp [null_rejected a ha hna]
  | .ref d, x, h, hx => by
    simp only [good] at h
    simp [J1.doc, jsValid_node, kwValid, fromJ1, equivJ d x h hx]
  | .fmt name gd, x, h, _ => by
    simp only [good, Bool.and_eq_true] at h
    have hk : name ∈ knownFormats := by simpa using h.1
    cases x <;> simp [J1.doc, jsValid_node, kwValid, typeOk, fromJ1, accepts, hk]

theorem equivItems : (ds : J1List) → (xs : JsonList) → goodL fx ds = true → instListOK xs = true →
    prefixValid (docList ds) xs = itemsAccept (fromJ1L fx ds) xs
  | .nil, _, _, _ => by simp [docList, fromJ1L, prefixValid, itemsAccept]
  | .cons d ds, .nil, _, _ => by simp [docList, fromJ1L, prefixValid, itemsAccept]
  | .cons d ds, .cons x xs, h, hx => by
    simp only [goodL, Bool.and_eq_true] at h
    simp only [instListOK, Bool.and_eq_true] at hx
    simp [docList, fromJ1L, prefixValid, itemsAccept, equivJ d x h.1 hx.1, equivItems ds xs h.2 hx.2]

theorem equivAny : (ds : J1List) → (x : Json) → goodM fx ds = true → instOK x = true →
    anyValid (docList ds) x = anyAccepts (fromJ1L fx ds) x
  | .nil, _, _, _ => by simp [docList, fromJ1L, anyValid, anyAccepts]
  | .cons d ds, x, h, hx => by
    simp only [goodM, Bool.and_eq_true] at h
    simp [docList, fromJ1L, anyValid, anyAccepts, equivJ d x h.1.1 hx, equivAny ds x h.2 hx]

theorem equivCount : (ds : J1List) → (x : Json) → goodM fx ds = true → instOK x = true →
    countValid (docList ds) x = countAccepts (fromJ1L fx ds) x
  | .nil, _, _, _ => by simp [docList, fromJ1L, countValid, countAccepts]
  | .cons d ds, x, h, hx => by
    simp only [goodM, Bool.and_eq_true] at h
    simp [docList, fromJ1L, countValid, countAccepts, equivJ d x h.1.1 hx, equivCount ds x h.2 hx]

theorem equivProps : (ps : J1Props) → (fs : JsonFields) → goodP fx ps = true → instFieldsOK fs = true →
    (propsValid (docProps ps) fs && ps.keys.all (fun k => fs.hasKey k)) = shapeAccepts false (fromJ1P fx ps) fs
  | .nil, _, _, _ => by simp [docProps, fromJ1P, propsValid, shapeAccepts, J1Props.keys]
  | .cons k d r, fs, h, hfs => by
    simp only [goodP, Bool.and_eq_true] at h
    have ih := equivProps r fs h.2 hfs
    simp only [docProps, fromJ1P, propsValid, shapeAccepts, J1Props.keys, List.all_cons, Bool.false_or, fromJ1_notOpt d]
    rw [← ih]
    cases hf : fs.find k with
    | none => simp [hf, JsonFields.hasKey]
    | some v =>
      have he := equivJ d v h.1 (find_instOK k v fs hfs hf)
      simp [hf, he, JsonFields.hasKey]
      cases accepts (fromJ1 fx d) v <;> cases propsValid (docProps r) fs <;> simp
end

/-! ### plain decoding changes nothing on the fragment (it has no integer schema) -/

theorem plainify_lits : (ps : List Prim) → plainifyL (litsOf ps) = litsOf ps
  | [] => rfl
  | p :: ps => by simp [litsOf, plainifyL, plainify, plainify_lits ps]

mutual
theorem plainJ : (d : J1) → plainify (fromJ1 fx d) = fromJ1 fx d
  | .str _ _ _ | .num _ _ _ _ _ | .bool | .null | .any | .tru | .fls | .enumS _ | .fmt _ _ => by simp [fromJ1, plainify]
  | .arr it _ _ => by simp [fromJ1, plainify, plainJ it]
  | .tup items => by simp [fromJ1, plainify, plainifyO, plainJL items]
  | .obj props c => by simp [fromJ1, plainify, plainifyO, plainJP props]
  | .objC props ca => by simp [fromJ1, plainify, plainifyO, plainJP props, plainJ ca]
  | .rcd v => by simp [fromJ1, plainify, plainJ v]
  | .const p => by cases p <;> simp [fromJ1, plainify]
  | .enumP ps => by simp [fromJ1, plainify, plainify_lits]
  | .anyOf ms => by simp [fromJ1, plainify, plainJL ms]
  | .oneOf ms => by simp [fromJ1, plainify, plainJL ms]
  | .allOf2 a b => by simp [fromJ1, plainify, plainJ a, plainJ b]
  | .ref d => by simpa [fromJ1] using plainJ d
theorem plainJL : (ds : J1List) → plainifyL (fromJ1L fx ds) = fromJ1L fx ds
  | .nil => rfl
  | .cons d ds => by simp [fromJ1L, plainifyL, plainJ d, plainJL ds]
theorem plainJP : (ps : J1Props) → plainifySh (fromJ1P fx ps) = fromJ1P fx ps
  | .nil => rfl
  | .cons k d r => by simp [fromJ1P, plainifySh, plainJ d, plainJP r]
end

/-! ## the property -/

/-- C11 at full strength, for the documents of `J1` and every conversion outcome: whatever
    `fromJS` returns accepts exactly the valid instances. FALSE on the pinned code beyond `good`
    (and for documents outside `J1`): witnesses below. -/
def c11_full : Prop :=
  ∀ (T : Str → Bool) (j : JS) (x : Json), ∃ s, fromJS cur T false j = .ok s ∧ jsValid j x = acceptsDecoded s x

/-- on the `good` fragment FromJSONSchema (strict or not) returns a schema that accepts, after
    plain JSON decoding, exactly the instances valid against the document. -/
theorem c11_equiv_fx (T : Str → Bool) (st : Bool) (d : J1) (x : Json) (h : good fx d = true) (hx : instOK x = true) :
    ∃ s, fromJS fx T st d.doc = .ok s ∧ jsValid d.doc x = acceptsDecoded s x :=
  ⟨fromJ1 fx d, conv T st d h, by rw [acceptsDecoded, plainJ d]; exact equivJ d x h hx⟩

/-- **the property-level statement, for the tree the driver runs (`cur` = /repo HEAD, pinned by hand)**: corollary of
    the ∀-`fx` version above.  The legacy variants survive in the `witness_…` theorems only. -/
theorem c11_equiv_partial (T : Str → Bool) (st : Bool) (d : J1) (x : Json) (h : good cur d = true) (hx : instOK x = true) :
    ∃ s, fromJS cur T st d.doc = .ok s ∧ jsValid d.doc x = acceptsDecoded s x :=
  c11_equiv_fx T st d x h hx

example : good cur (.obj (.cons [97] (.arr (.anyOf (.cons (.str (some 1) (some 3) (some (.pre [97]))) (.cons (.num (some 0) none (some 0) none (some 2)) .nil)))
    (some 1) none) (.cons [98] (.enumP [.str [120], .num 4]) .nil)) true) = true := by decide

/-! ### const / enum by JSON equality (members of every JSON kind)

The members are `Json` values and validity is `jsonEq` (Draft 2020-12 §4.2.2), stated independently of `Json.isPrim`.
`fromEnumJ` / `fromConstJ` are the converter on such members; on primitive members they ARE `fromJS` (`fromEnumJ_prims`,
`fromConstJ_prim`). -/

theorem jsonEq_ofPrim (x : Json) (p : Prim) : jsonEq x (.ofPrim p) = x.isPrim p := by
  cases x <;> cases p <;> simp [jsonEq, Json.ofPrim, Json.isPrim]

/-- a string member equals string instances only — never the value its text spells — and vice versa. -/
theorem jsonEq_str_left (s : Str) (v : Json) : jsonEq (.str s) v = true → v = .str s := by
  cases v <;> simp [jsonEq]
  intro h; exact h.symm

theorem jsonEq_str_right (x : Json) (s : Str) : jsonEq x (.str s) = true → x = .str s := by
  cases x <;> simp [jsonEq]

theorem jsonEq_refl_scalar (v : Json) (h : v.toPrim?.isSome = true) : jsonEq v v = true := by
  cases v <;> simp_all [jsonEq, Json.toPrim?]

/-- object members are compared as key → value maps, arrays in order, numbers by value (1 = 1.0 = `num 4`). -/
example : jsonEq (.obj (.cons [97] (.num 4) (.cons [98] (.arr (.cons .null .nil)) .nil)))
                 (.obj (.cons [98] (.arr (.cons .null .nil)) (.cons [97] (.num 4) .nil))) = true := by decide
example : jsonEq (.arr (.cons (.num 4) (.cons (.num 8) .nil))) (.arr (.cons (.num 8) (.cons (.num 4) .nil))) = false := by decide
example : jsonEq (.str [49]) (.num 4) = false ∧ jsonEq (.num 4) (.str [49]) = false
    ∧ jsonEq (.str [91, 49, 93]) (.arr (.cons (.num 4) .nil)) = false := by decide

theorem toPrim_ofPrim (p : Prim) : (Json.ofPrim p).toPrim? = some p := by cases p <;> rfl

theorem ofPrim_of_toPrim (v : Json) (p : Prim) (h : v.toPrim? = some p) : v = .ofPrim p := by
  cases v <;> simp [Json.toPrim?] at h <;> subst h <;> rfl

theorem allStrsJ_ofPrim (ps : List Prim) : allStrsJ (ps.map Json.ofPrim) = allStrs ps := by
  induction ps with
  | nil => rfl
  | cons p ps ih => cases p <;> simp [allStrsJ, allStrs, Json.ofPrim, ih]

theorem allStrs_some (ps : List Prim) (strs : List Str) (h : allStrs ps = some strs) : ps = strs.map Prim.str := by
  induction ps generalizing strs with
  | nil => simp [allStrs] at h; subst h; rfl
  | cons p ps ih =>
    cases p <;> simp [allStrs] at h
    obtain ⟨r, hr, rfl⟩ := h
    simp [ih r hr]

theorem allStrsJ_some (vs : List Json) (strs : List Str) (h : allStrsJ vs = some strs) : vs = strs.map Json.str := by
  induction vs generalizing strs with
  | nil => simp [allStrsJ] at h; subst h; rfl
  | cons v vs ih =>
    cases v <;> simp [allStrsJ] at h
    obtain ⟨r, hr, rfl⟩ := h
    simp [ih r hr]

/-! #### the two views of a const / enum document: `CE` (members are decoded Go values) and `fromJS` (primitive members) -/

/-- the `S` term of the literal schema of a primitive member is `litOf`'s. -/
theorem toS_literalSchemaJ_ofPrim (p : Prim) : litOf p = .ok s → (literalSchemaJ (.ofPrim p)).toS? = some s := by
  cases p <;> simp [litOf, literalSchemaJ, Json.ofPrim, LitZ.toS?, Json.toPrim?] <;> intro h <;> exact h

theorem litOf_ok (p : Prim) : ∃ s, litOf p = .ok s := by cases p <;> simp [litOf]

theorem litsToS_prims : (ps : List Prim) →
    ∃ ss, seqR (ps.map litOf) = .ok ss ∧ litsToS? ((ps.map Json.ofPrim).map literalSchemaJ) = some ss
  | [] => ⟨[], rfl, rfl⟩
  | p :: ps => by
    obtain ⟨ss, h1, h2⟩ := litsToS_prims ps
    obtain ⟨s, hs⟩ := litOf_ok p
    refine ⟨s :: ss, ?_, ?_⟩
    · simp only [List.map_cons, seqR, hs, h1]
    · simp only [List.map_cons, litsToS?, toS_literalSchemaJ_ofPrim p hs, h2]

/-- on primitive members `fromEnumJ` is `fromJS` on the document `{"enum": ps}`. -/
theorem fromEnumJ_prims (T : Str → Bool) (st : Bool) (ps : List Prim) (h : ps ≠ []) (hfx : fx.nullUnion = false) :
    ∃ s, (fromEnumJ (ps.map Json.ofPrim)).toS? = some s ∧ fromJS fx T st (.node (.ofList [.enum ps])) = .ok s := by
  obtain ⟨v, vs, rfl⟩ := List.exists_cons_of_ne_nil h
  have h1 := allStrsJ_ofPrim (v :: vs)
  obtain ⟨ss, h2, h3⟩ := litsToS_prims (v :: vs)
  simp only [List.map_cons] at h1 h2 h3
  simp only [List.map_cons, fromEnumJ, h1, fromJS_node, List.foldl_cons, List.foldl_nil, addKw, assemble]
  cases allStrs (v :: vs) with
  | some strs => exact ⟨.enum strs, by simp [CE.toS?]⟩
  | none => exact ⟨.union (slistOf ss), by simp only [CE.toS?, h3, Option.map_some], by simp [h2, unionOf, hfx, nilIf]⟩

theorem fromConstJ_prim (T : Str → Bool) (st : Bool) (p : Prim) :
    ∃ s, (fromConstJ (.ofPrim p)).toS? = some s ∧ fromJS fx T st (.node (.ofList [.const p])) = .ok s := by
  obtain ⟨s, hs⟩ := litOf_ok p
  exact ⟨s, by simp [fromConstJ, CE.toS?, toS_literalSchemaJ_ofPrim p hs], by simp [fromJS_node, addKw, assemble, hs]⟩

/-- on primitive members validity by `jsonEq` is `jsValid` of the document. -/
theorem enumValidJ_prims (ps : List Prim) (x : Json) :
    enumValidJ (ps.map Json.ofPrim) x = jsValid (.node (.ofList [.enum ps])) x := by
  simp [enumValidJ, jsValid_node, kwValid, List.any_map, Function.comp_def, jsonEq_ofPrim]

theorem constValidJ_prim (p : Prim) (x : Json) :
    constValidJ (.ofPrim p) x = jsValid (.node (.ofList [.const p])) x := by
  simp [constValidJ, jsValid_node, kwValid, jsonEq_ofPrim]

/-! #### what the produced schema does: every member of every JSON kind -/

/-- `Contains` on a one-value literal. -/
theorem containsBy_single (v x : Json) : containsBy literalEqual [v] x = some (jsonEq v x) := by
  simp only [containsBy, literalEqual_eq]
  cases jsonEq v x <;> rfl

/-- the literal schema of ANY member (scalar, null, array, object) never panics and accepts exactly the instances
    JSON-equal to the member. -/
theorem parse_literalSchemaJ (v x : Json) : (literalSchemaJ v).parseBy literalEqual x = some (jsonEq v x) := by
  cases v <;> cases x <;> simp [literalSchemaJ, LitZ.parseBy, Json.isNull, containsBy_single, jsonEq]

theorem unionParse_members (vs : List Json) (x : Json) :
    unionParseBy literalEqual (vs.map literalSchemaJ) x = some (vs.any (fun v => jsonEq v x)) := by
  induction vs with
  | nil => rfl
  | cons v vs ih =>
    simp only [List.map_cons, unionParseBy, parse_literalSchemaJ, List.any_cons]
    cases jsonEq v x <;> simp [ih]

theorem any_jsonEq_strs (strs : List Str) (x : Json) :
    (strs.map Json.str).any (fun v => jsonEq v x) = (match x with | .str s => strs.contains s | _ => false) := by
  induction strs with
  | nil => cases x <;> simp
  | cons s strs ih =>
    simp only [List.map_cons, List.any_cons, ih]
    cases x <;> simp [jsonEq]
    rename_i a
    by_cases e : a = s
    · subst e; simp
    · simp [e, Ne.symm e]

theorem null_not_member (vs : List Json) (h : vs.any (fun v => v.isNull) = false) :
    vs.any (fun v => jsonEq v .null) = false := by
  induction vs with
  | nil => rfl
  | cons v vs ih =>
    simp only [List.any_cons, Bool.or_eq_false_iff] at h ⊢
    exact ⟨by cases v <;> simp_all [jsonEq, Json.isNull], ih h.2⟩

/-- the one class of const / enum cases FromJSONSchema still gets wrong: a null instance against an enum that lists
    null and is not all strings — the enum becomes a Union, whose nil path precedes the members (finding nullable-union). -/
def nullCase (vs : List Json) (x : Json) : Bool := x.isNull && vs.any (fun v => v.isNull)

/-- members are compared with the instance by JSON equality, member first (the orientation of `literalEqual`). -/
theorem parse_fromEnumJ (vs : List Json) (x : Json) (hne : vs ≠ []) (hn : nullCase vs x = false) :
    (fromEnumJ vs).parse x = some (vs.any (fun v => jsonEq v x)) := by
  obtain ⟨v, vs', rfl⟩ := List.exists_cons_of_ne_nil hne
  simp only [fromEnumJ, CE.parse]
  cases hs : allStrsJ (v :: vs') with
  | some strs =>
    simp only [CE.parseBy]
    rw [allStrsJ_some _ strs hs, any_jsonEq_strs]
    cases x <;> rfl
  | none =>
    simp only [CE.parseBy]
    cases hx : x.isNull with
    | false => simpa using unionParse_members (v :: vs') x
    | true =>
      have e := (isNull_iff x).1 hx
      subst e
      simp only [nullCase, Json.isNull, Bool.true_and] at hn
      simp [null_not_member _ hn]

theorem any_symm (vs : List Json) (x : Json) (hv : ∀ v ∈ vs, uniqKeys v = true) (hx : uniqKeys x = true) :
    vs.any (fun v => jsonEq v x) = vs.any (fun v => jsonEq x v) := by
  induction vs with
  | nil => rfl
  | cons v vs ih =>
    simp only [List.any_cons]
    rw [jsonEq_symm v x (hv v (by simp)) hx, ih (fun w hw => hv w (by simp [hw]))]

/-- **C11 for enum documents, members and instances of every JSON kind** (arrays and objects included, any mixture,
    repeats, strings spelling other members): FromJSONSchema returns a schema whose ParseAny does not panic and accepts
    exactly the instances JSON-equal to a member — outside the nullable-union class. -/
theorem c11_enum_partial (vs : List Json) (x : Json) (hne : vs ≠ []) (hn : nullCase vs x = false)
    (hv : ∀ v ∈ vs, uniqKeys v = true) (hx : uniqKeys x = true) :
    (fromEnumJ vs).parse x = some (enumValidJ vs x) := by
  rw [parse_fromEnumJ vs x hne hn, enumValidJ, any_symm vs x hv hx]

example : nullCase [.arr (.cons (.num 4) .nil), .str [91, 49, 93], .null, .obj .nil] (.arr (.cons (.num 4) .nil)) = false := by decide

/-- full strength over all members and instances: FALSE on the code as it stands, in the nullable-union class only. -/
def c11_members_full : Prop :=
  ∀ (vs : List Json) (x : Json), vs ≠ [] → (∀ v ∈ vs, uniqKeys v = true) → uniqKeys x = true →
    (fromEnumJ vs).parse x = some (enumValidJ vs x)

/-- in the excluded class the produced schema always rejects, although the instance is valid. -/
theorem c11_enum_null_rejected (vs : List Json) (h : nullCase vs .null = true) (hs : (allStrsJ vs).isNone = true) :
    (fromEnumJ vs).parse .null = some false ∧ enumValidJ vs .null = true := by
  refine ⟨?_, ?_⟩
  · cases vs with
    | nil => simp [nullCase] at h
    | cons v vs' =>
      cases hs' : allStrsJ (v :: vs') with
      | some _ => simp [hs'] at hs
      | none => simp [fromEnumJ, hs', CE.parse, CE.parseBy, Json.isNull]
  · simp only [nullCase, Json.isNull, Bool.true_and] at h
    rw [enumValidJ, List.any_eq_true] at *
    obtain ⟨v, hv, hn⟩ := h
    exact ⟨v, hv, by rw [(isNull_iff v).1 hn]; rfl⟩

theorem allStrsJ_none_of_null (vs : List Json) (h : vs.any (fun v => v.isNull) = true) : (allStrsJ vs).isNone = true := by
  induction vs with
  | nil => simp at h
  | cons v vs ih =>
    cases v with
    | str s =>
      have h' : vs.any (fun v => v.isNull) = true := by simpa [Json.isNull] using h
      have := ih h'
      cases hs : allStrsJ vs with
      | none => simp [allStrsJ, hs]
      | some r => simp [hs] at this
    | _ => simp [allStrsJ]

theorem witness_null_member :
    (fromEnumJ [.null, .num 4]).parse .null = some false ∧ enumValidJ [.null, .num 4] .null = true
    ∧ (fromEnumJ [.null]).parse .null = some false ∧ enumValidJ [.null] .null = true := by decide

theorem c11_members_full_false : ¬ c11_members_full := by
  intro h
  have := h [.null, .num 4] .null (by simp) (by decide) (by decide)
  exact absurd this (by decide)

/-- WITH C11-nullable-union the excluded class is gone: on the patched tree `convertEnum`'s result accepts exactly the
    instances JSON-equal to a member — members and instances of every JSON kind, null included (full strength). -/
theorem c11_enum_fixed (hfx : fx.nullUnion = true) (vs : List Json) (x : Json) (hne : vs ≠ [])
    (hv : ∀ v ∈ vs, uniqKeys v = true) (hx : uniqKeys x = true) :
    parseEnumFx fx vs x = some (enumValidJ vs x) := by
  cases hn : nullCase vs x with
  | false =>
    have hc : (enumNilable fx vs && x.isNull) = false := by
      cases hxn : x.isNull with
      | false => simp
      | true =>
        have : vs.any (fun v => v.isNull) = false := by simpa [nullCase, hxn] using hn
        simp [enumNilable, this]
    simp only [parseEnumFx, hc, Bool.false_eq_true, if_false]
    exact c11_enum_partial vs x hne hn hv hx
  | true =>
    have hxn : x.isNull = true := by
      simp only [nullCase, Bool.and_eq_true] at hn; exact hn.1
    have hany : vs.any (fun v => v.isNull) = true := by
      simp only [nullCase, Bool.and_eq_true] at hn; exact hn.2
    have hx' : x = .null := (isNull_iff x).1 hxn
    subst hx'
    have hs := allStrsJ_none_of_null vs hany
    have hval := (c11_enum_null_rejected vs hn hs).2
    have hc : (enumNilable fx vs && Json.null.isNull) = true := by
      rw [enumNilable, hfx, hs, hany]; rfl
    simp only [parseEnumFx, hc, if_true, hval]

/-- **C11 for enum documents on the tree the driver runs, FULL strength** (8dd0167 landed: `cur.nullUnion = true`):
    members and instances of every JSON kind, null included — no `nullCase` hypothesis.  `c11_enum_partial`,
    `c11_enum_null_rejected`, `witness_null_member`, `c11_members_full_false` are statements about `CE.parse`, the schema
    WITHOUT the Nilable wrapper, i.e. the legacy tree. -/
theorem c11_enum (vs : List Json) (x : Json) (hne : vs ≠ []) (hv : ∀ v ∈ vs, uniqKeys v = true) (hx : uniqKeys x = true) :
    parseEnumFx cur vs x = some (enumValidJ vs x) :=
  c11_enum_fixed (fx := cur) rfl vs x hne hv hx

example : parseEnumFx cur [.null, .num 4, .arr (.cons .null .nil)] .null = some true := by decide

/-- without the patch `parseEnumFx` is `CE.parse` (the legacy code). -/
theorem parseEnumFx_legacy (hfx : fx.nullUnion = false) (vs : List Json) (x : Json) :
    parseEnumFx fx vs x = (fromEnumJ vs).parse x := by
  simp [parseEnumFx, enumNilable, hfx]

example : parseEnumFx { cur with nullUnion := true } [.null, .num 4] .null = some true
    ∧ parseEnumFx { cur with nullUnion := false } [.null, .num 4] .null = some false := by decide

/-- every member of an enum document is accepted — no other member shadows it (what seeded/C11b breaks); a null
    member is the exception (nullable-union). -/
theorem c11_enum_members_accepted (vs : List Json) (m : Json) (hm : m ∈ vs) (hnn : m.isNull = false)
    (hu : uniqKeys m = true) : (fromEnumJ vs).parse m = some true := by
  have hne : vs ≠ [] := by intro e; subst e; simp at hm
  rw [parse_fromEnumJ vs m hne (by simp [nullCase, hnn])]
  congr 1
  exact List.any_eq_true.2 ⟨m, hm, jsonEq_refl m hu⟩

/-- **C11 for const documents at full strength**: any value (null, scalar, array, object), any instance. -/
theorem c11_const (v x : Json) (hv : uniqKeys v = true) (hx : uniqKeys x = true) :
    (fromConstJ v).parse x = some (constValidJ v x) := by
  rw [constValidJ, ← jsonEq_symm v x hv hx]
  simp only [fromConstJ, CE.parse, CE.parseBy, parse_literalSchemaJ]

/-- scalar instances need no hypothesis on the members (array / object members never equal a scalar). -/
theorem jsonEq_symm_scalar (v x : Json) (hx : x.toPrim?.isSome = true) : jsonEq v x = jsonEq x v := by
  cases x <;> simp [Json.toPrim?] at hx <;> cases v <;> simp [jsonEq] <;> exact BEq.comm

def scalarCase (vs : List Json) (x : Json) : Bool :=
  !vs.isEmpty && x.toPrim?.isSome && !nullCase vs x

theorem c11_enum_scalar_instance (vs : List Json) (x : Json) (h : scalarCase vs x = true) :
    (fromEnumJ vs).parse x = some (enumValidJ vs x) := by
  simp only [scalarCase, Bool.and_eq_true, Bool.not_eq_true', List.isEmpty_eq_false_iff] at h
  rw [parse_fromEnumJ vs x h.1.1 h.2, enumValidJ]
  congr 1
  have hx := h.1.2
  clear h
  induction vs with
  | nil => rfl
  | cons v vs ih => simp only [List.any_cons, jsonEq_symm_scalar v x hx, ih]

example : scalarCase [.arr (.cons (.num 4) .nil), .str [91, 49, 93], .null, .obj .nil] (.str [91, 49, 93]) = true := by decide

/-- where the `S` view exists (all members scalars) the two Parse verdicts coincide: `acceptsDecoded` of C07's schema
    model is what `CE.parse` computes. -/
theorem accepts_lit_prim (p : Prim) (x : Json) (hp : p ≠ .null) : accepts (.lit [p]) x = jsonEq (.ofPrim p) x := by
  cases p <;> cases x <;> simp_all [accepts, Json.isPrim, jsonEq, Json.ofPrim] <;> exact BEq.comm

theorem parse_toS_lit (l : LitZ) (s : S) (x : Json) (h : l.toS? = some s) (hl : ∀ v, l = .lit v → v.isNull = false) :
    l.parseBy literalEqual x = some (acceptsDecoded s x) := by
  cases l with
  | nil => simp [LitZ.toS?] at h; subst h; simp [LitZ.parseBy, acceptsDecoded, plainify, accepts]
  | lit v =>
    have hv := hl v rfl
    simp only [LitZ.toS?, Option.map_eq_some_iff] at h
    obtain ⟨p, hp, rfl⟩ := h
    have e := ofPrim_of_toPrim v p hp
    subst e
    have hpn : p ≠ .null := by intro e; subst e; simp [Json.ofPrim, Json.isNull] at hv
    have := parse_literalSchemaJ (.ofPrim p) x
    have hls : literalSchemaJ (.ofPrim p) = .lit (.ofPrim p) := by cases p <;> simp_all [literalSchemaJ, Json.ofPrim]
    rw [hls] at this
    simp [this, acceptsDecoded, plainify, accepts_lit_prim p x hpn]

theorem literalSchemaJ_lit (v w : Json) (h : literalSchemaJ v = .lit w) : w.isNull = false := by
  cases v <;> simp [literalSchemaJ] at h <;> subst h <;> rfl

theorem unionParse_toS (x : Json) : (ls : List LitZ) → (ss : List S) → litsToS? ls = some ss →
    (∀ l ∈ ls, ∀ v, l = .lit v → v.isNull = false) →
    unionParseBy literalEqual ls x = some (anyAccepts (plainifyL (slistOf ss)) x)
  | [], ss, h, _ => by simp [litsToS?] at h; subst h; rfl
  | l :: ls, ss, h, hl => by
    simp only [litsToS?] at h
    cases h1 : l.toS? with
    | none => simp [h1] at h
    | some s =>
      cases h2 : litsToS? ls with
      | none => simp [h1, h2] at h
      | some ss' =>
        simp [h1, h2] at h
        subst h
        have ih := unionParse_toS x ls ss' h2 (fun l' hl' => hl l' (by simp [hl']))
        have hp := parse_toS_lit l s x h1 (hl l (by simp))
        simp only [unionParseBy, hp, ih, slistOf, plainifyL, anyAccepts, acceptsDecoded]
        cases accepts (plainify s) x <;> simp

/-- the two views agree wherever both exist: the verdict `CE.parse` computes for an enum document is the verdict of
    C07's schema model on the `S` term `fromJS` returns for it. -/
theorem parse_toS_enum (vs : List Json) (s : S) (x : Json) (h : (fromEnumJ vs).toS? = some s) :
    (fromEnumJ vs).parse x = some (acceptsDecoded s x) := by
  cases vs with
  | nil => simp [fromEnumJ, CE.toS?] at h; subst h; simp [fromEnumJ, CE.parse, CE.parseBy, acceptsDecoded, plainify, accepts]
  | cons v vs' =>
    simp only [fromEnumJ, CE.parse] at h ⊢
    cases hs : allStrsJ (v :: vs') with
    | some strs =>
      simp only [hs, CE.toS?, Option.some.injEq] at h
      subst h
      cases x <;> simp [CE.parseBy, acceptsDecoded, plainify, accepts]
    | none =>
      simp only [hs, CE.toS?, Option.map_eq_some_iff] at h
      obtain ⟨ss, hss, rfl⟩ := h
      have := unionParse_toS x _ ss hss (by
        intro l hl w hw
        obtain ⟨u, _, hu⟩ := List.mem_map.1 hl
        exact literalSchemaJ_lit u w (hu.trans hw))
      simp only [CE.parseBy, this, acceptsDecoded, plainify, accepts]
      cases x.isNull <;> simp

theorem parse_toS_const (v : Json) (s : S) (x : Json) (h : (fromConstJ v).toS? = some s) :
    (fromConstJ v).parse x = some (acceptsDecoded s x) := by
  simp only [fromConstJ, CE.toS?] at h
  exact parse_toS_lit _ s x h (fun w hw => literalSchemaJ_lit v w hw)

/-! #### the code before e48d4b1 (`Contains` compared with `==`): kept as a statement about `legacyParse` -/

/-- the legacy comparison panicked on an instance of the same composite kind as a member, valid instances included. -/
theorem legacy_composite_member_panics :
    (fromEnumJ [.arr (.cons (.num 4) .nil), .str [120]]).legacyParse (.arr (.cons (.num 4) .nil)) = none
    ∧ (fromEnumJ [.arr (.cons (.num 4) .nil), .str [120]]).legacyParse (.arr .nil) = none
    ∧ (fromEnumJ [.arr (.cons (.num 4) .nil), .str [120]]).legacyParse (.str [120]) = some true
    ∧ (fromConstJ (.obj (.cons [97] (.num 4) .nil))).legacyParse (.obj (.cons [97] (.num 4) .nil)) = none
    ∧ (fromEnumJ [.arr (.cons (.num 4) .nil), .str [120]]).parse (.arr (.cons (.num 4) .nil)) = some true
    ∧ (fromEnumJ [.arr (.cons (.num 4) .nil), .str [120]]).parse (.arr .nil) = some false
    ∧ (fromConstJ (.obj (.cons [97] (.num 4) .nil))).parse (.obj (.cons [97] (.num 4) .nil)) = some true := by decide

/-- the code as it stands never panics on a const / enum schema. -/
theorem c11_members_no_panic (vs : List Json) (x : Json) : ∃ b, (fromEnumJ vs).parse x = some b := by
  cases vs with
  | nil => exact ⟨true, rfl⟩
  | cons v vs' =>
    simp only [fromEnumJ, CE.parse]
    cases allStrsJ (v :: vs') with
    | some strs => exact ⟨_, rfl⟩
    | none =>
      simp only [CE.parseBy]
      cases x.isNull with
      | true => exact ⟨false, rfl⟩
      | false => exact ⟨_, unionParse_members (v :: vs') x⟩

/-! #### round trip of const / enum documents with members of every JSON kind -/

theorem litTypeOK_of_eq (v x : Json) (h : jsonEq x v = true) : litTypeOK v x = true := by
  cases v <;> cases x <;> simp_all [jsonEq, litTypeOK]

/-- a member that is not an array comes back as a document that validates exactly the instances equal to it. -/
theorem rtLitValid_nonarray (v x : Json) (hv : v.isArr = false) : rtLitValid v x = jsonEq x v := by
  have key : (litTypeOK v x && (jsonEq x v || false)) = jsonEq x v := by
    cases h : jsonEq x v with
    | true => simp [litTypeOK_of_eq v x h]
    | false => simp
  cases v <;> simp [Json.isArr] at hv <;> simpa [rtLitValid] using key

theorem rtValid_literalSchemaJ (v x : Json) (hv : v.isArr = false) : (literalSchemaJ v).rtValid x = jsonEq x v := by
  cases v with
  | null => cases x <;> simp [literalSchemaJ, LitZ.rtValid, Json.isNull, jsonEq]
  | arr xs => simp [Json.isArr] at hv
  | _ => simp only [literalSchemaJ, LitZ.rtValid]; exact rtLitValid_nonarray _ x hv

theorem any_jsonEq_strs' (strs : List Str) (x : Json) :
    (strs.map Json.str).any (fun v => jsonEq x v) = (match x with | .str s => strs.contains s | _ => false) := by
  induction strs with
  | nil => cases x <;> simp
  | cons s strs ih =>
    simp only [List.map_cons, List.any_cons, ih]
    cases x <;> simp [jsonEq]
    rename_i a
    by_cases e : a = s <;> simp [e]

/-- **round trip for enum documents without an array member** (scalars, null, objects, any mixture): ToJSONSchema of the
    produced schema validates exactly the instances of the original — the null member included, which Parse gets wrong. -/
theorem c11_roundtrip_enum (vs : List Json) (x : Json) (hne : vs ≠ []) (hv : vs.any (fun v => v.isArr) = false) :
    (fromEnumJ vs).rtValid x = enumValidJ vs x := by
  obtain ⟨v, vs', rfl⟩ := List.exists_cons_of_ne_nil hne
  simp only [fromEnumJ]
  cases hs : allStrsJ (v :: vs') with
  | some strs =>
    simp only [CE.rtValid, enumValidJ]
    rw [allStrsJ_some _ strs hs, any_jsonEq_strs']
    cases x <;> rfl
  | none =>
    simp only [CE.rtValid, enumValidJ, List.any_map]
    have : ∀ l : List Json, l.any (fun v => v.isArr) = false →
        l.any ((fun l => l.rtValid x) ∘ literalSchemaJ) = l.any (fun v => jsonEq x v) := by
      intro l hl
      induction l with
      | nil => rfl
      | cons w l ih =>
        simp only [List.any_cons, Bool.or_eq_false_iff] at hl
        simp only [List.any_cons, Function.comp, rtValid_literalSchemaJ w x hl.1]
        rw [← ih hl.2]
    exact this _ hv

theorem c11_roundtrip_const (v x : Json) (hv : v.isArr = false) : (fromConstJ v).rtValid x = constValidJ v x := by
  simp only [fromConstJ, CE.rtValid, constValidJ, rtValid_literalSchemaJ v x hv]

example : [Json.obj (.cons [97] (.num 4) .nil), .null, .str [120], .num 6].any (fun v => v.isArr) = false := by decide

/-- full strength: FALSE — an array member is flattened by to.go's `convertLiteral` (finding array-literal-flattened). -/
def c11_roundtrip_members_full : Prop := ∀ (v x : Json), (fromConstJ v).rtValid x = constValidJ v x

/-- `{const:[1]}` accepts `[1]` (since e48d4b1) but comes back as `{const:1,type:number}`, which rejects `[1]` and
    accepts `1`; `{const:[1,"a"]}` comes back as `{enum:[1,"a"],type:number}`; `{const:[]}` as `{}`. -/
theorem witness_roundtrip_array_const :
    (fromConstJ (.arr (.cons (.num 4) .nil))).parse (.arr (.cons (.num 4) .nil)) = some true
    ∧ constValidJ (.arr (.cons (.num 4) .nil)) (.arr (.cons (.num 4) .nil)) = true
    ∧ (fromConstJ (.arr (.cons (.num 4) .nil))).rtValid (.arr (.cons (.num 4) .nil)) = false
    ∧ (fromConstJ (.arr (.cons (.num 4) .nil))).rtValid (.num 4) = true
    ∧ constValidJ (.arr (.cons (.num 4) .nil)) (.num 4) = false
    ∧ (fromConstJ (.arr (.cons (.num 4) (.cons (.str [97]) .nil)))).rtValid (.str [97]) = false
    ∧ (fromConstJ (.arr .nil)).rtValid (.str [120]) = true := by decide

theorem c11_roundtrip_members_full_false : ¬ c11_roundtrip_members_full := by
  intro h
  have := h (.arr (.cons (.num 4) .nil)) (.num 4)
  exact absurd this (by decide)

/-! ### round trip: ToJSONSchema (FromJSONSchema doc) validates the same instances -/

mutual
/-- the part of `good` whose produced schema lies in C07's value-preserving representable fragment
    (closed objects only: an open object comes back with `additionalProperties: false`; no formats:
    ToJSONSchema of the dedicated format schemas is outside C07's model). -/
def rt (fx : Fx) : J1 → Bool
  | .arr it _ _ => rt fx it
  | .tup items => rtL fx items
  | .obj props closed => (closed || fx.openObj) && rtP fx props    -- legacy: an open object came back closed (strip)
  | .objC props ca => rtP fx props && rt fx ca
  | .rcd v => rt fx v
  | .anyOf ms => rtL fx ms
  | .oneOf ms => rtL fx ms
  | .allOf2 a b => rt fx a && rt fx b
  | .ref d => rt fx d
  | .fmt _ _ => false            -- format documents: Proofs/C11Format.lean (`c11_format_roundtrip_*`)
  | _ => true
def rtL (fx : Fx) : J1List → Bool
  | .nil => true
  | .cons d ds => rt fx d && rtL fx ds
def rtP (fx : Fx) : J1Props → Bool
  | .nil => true
  | .cons _ d r => rt fx d && rtP fx r
end

theorem reprMembers_lits : (ps : List Prim) → ps.contains .null = false → reprMembers (litsOf ps) = true
  | [], _ => rfl
  | p :: ps, h => by
    simp only [List.contains_cons, Bool.or_eq_false_iff] at h
    have ih := reprMembers_lits ps h.2
    cases p <;> simp_all [litsOf, reprMembers, reprP, S.acceptsNull, litHomog, Prim.sameKind]

theorem litsOf_length (ps : List Prim) : (litsOf ps).length = ps.length := by
  induction ps with
  | nil => rfl
  | cons p ps ih => simp [litsOf, SList.length, ih]

mutual
theorem reprJ : (d : J1) → (top : Bool) → good fx d = true → rt fx d = true → reprP top (fromJ1 fx d) = true
  | .str mn mx pat, _, _, _ => by
    cases pat with
    | none => cases mn <;> cases mx <;> simp [fromJ1, reprP, optL, strLenOK, strLenOK.lenFree, noTrim]
    | some p =>
      cases p <;> cases mn <;> cases mx <;> simp [fromJ1, reprP, optL, patCk, strLenOK, strLenOK.lenFree, noTrim]
  | .num mn mx emn emx mul, _, h, _ => by
    cases mn <;> cases mx <;> cases emn <;> cases emx <;> cases mul <;>
      simp_all [good, fromJ1, reprP, optL, numFoldOK, NumBag.stepOK, NumBag.step]
  | .bool, _, _, _ | .null, _, _, _ | .any, _, _, _ | .tru, _, _, _ | .fls, _, _, _ => by simp [fromJ1, reprP]
  | .arr it mn mx, _, h, hr => by
    simp only [good] at h; simp only [rt] at hr
    cases mn <;> cases mx <;> simp [fromJ1, reprP, optL, szSimple, reprJ it false h hr]
  | .tup items, _, h, hr => by
    simp only [good, Bool.and_eq_true] at h; simp only [rt] at hr
    simp [fromJ1, reprP, reprCa, reprJL items h.1 hr]
  | .obj props closed, _, h, hr => by
    simp only [good, Bool.and_eq_true] at h; simp only [rt, Bool.and_eq_true] at hr
    cases closed with
    | true => simp [fromJ1, reprP, Mode.isStrip, Mode.isStrict, SOpt.isSome, szSimple, reprCa, reprJP props h.1 hr.2]
    | false =>
      have ho : fx.openObj = true := by simpa using hr.1
      simp [fromJ1, reprP, openMode, ho, Mode.isStrip, Mode.isStrict, SOpt.isSome, szSimple, reprCa, reprJP props h.1 hr.2]
  | .objC props ca, _, h, hr => by
    simp only [good, Bool.and_eq_true] at h; simp only [rt, Bool.and_eq_true] at hr
    simp [fromJ1, reprP, Mode.isStrip, Mode.isStrict, szSimple, reprCa, reprJP props h.1.1.1 hr.1, reprJ ca false h.1.2 hr.2]
  | .rcd v, _, h, hr => by
    simp only [good] at h; simp only [rt] at hr
    simp [fromJ1, reprP, S.isStrSchema, strLenOK, noTrim, szSimple, reprJ v false h hr]
  | .const p, _, _, _ => by cases p <;> simp [fromJ1, reprP, litHomog, Prim.sameKind]
  | .enumS vs, _, h, _ => by simpa [good, fromJ1, reprP] using h
  | .enumP ps, _, h, _ => by
    simp only [good, Bool.and_eq_true, Bool.not_eq_true', List.isEmpty_eq_false_iff] at h
    have hl : ((litsOf ps).length == 0) = false := by
      rw [litsOf_length]; cases ps <;> simp_all
    simp [fromJ1, reprP, hl, reprMembers_lits ps h.2]
  | .anyOf ms, _, h, hr => by
    simp only [good, Bool.and_eq_true, decide_eq_true_eq] at h; simp only [rt] at hr
    have hl : ((fromJ1L fx ms).length == 0) = false := by rw [fromJ1L_length]; simp; omega
    simp [fromJ1, reprP, hl, reprJM ms h.1 hr]
  | .oneOf ms, _, h, hr => by
    simp only [good, Bool.and_eq_true, decide_eq_true_eq] at h; simp only [rt] at hr
    have hl : ((fromJ1L fx ms).length == 0) = false := by rw [fromJ1L_length]; simp; omega
    simp [fromJ1, reprP, hl, reprJM ms h.1 hr]
  | .allOf2 a b, _, h, hr => by
    simp only [good, Bool.and_eq_true, Bool.not_eq_true'] at h; simp only [rt, Bool.and_eq_true] at hr
    obtain ⟨⟨⟨⟨⟨ha, hb⟩, hna⟩, hnb⟩, hsa⟩, hsb⟩ := h
    simp [fromJ1, reprP, hna, hnb, hsa, hsb, reprJ a false ha hr.1, reprJ b false hb hr.2]
  | .ref d, top, h, hr => by
    simp only [good] at h; simp only [rt] at hr
    simpa [fromJ1] using reprJ d top h hr
  | .fmt _ _, _, _, hr => by simp [rt] at hr

theorem reprJL : (ds : J1List) → goodL fx ds = true → rtL fx ds = true → reprList (fromJ1L fx ds) = true
  | .nil, _, _ => rfl
  | .cons d ds, h, hr => by
    simp only [goodL, Bool.and_eq_true] at h; simp only [rtL, Bool.and_eq_true] at hr
    simp [fromJ1L, reprList, reprJ d false h.1 hr.1, reprJL ds h.2 hr.2]

theorem reprJM : (ds : J1List) → goodM fx ds = true → rtL fx ds = true → reprMembers (fromJ1L fx ds) = true
  | .nil, _, _ => rfl
  | .cons d ds, h, hr => by
    simp only [goodM, Bool.and_eq_true, Bool.not_eq_true'] at h; simp only [rtL, Bool.and_eq_true] at hr
    simp [fromJ1L, reprMembers, h.1.2, reprJ d false h.1.1 hr.1, reprJM ds h.2 hr.2]

theorem reprJP : (ps : J1Props) → goodP fx ps = true → rtP fx ps = true → reprShape (fromJ1P fx ps) = true
  | .nil, _, _ => rfl
  | .cons k d r, h, hr => by
    simp only [goodP, Bool.and_eq_true] at h; simp only [rtP, Bool.and_eq_true] at hr
    simp [fromJ1P, reprShape, reprJ d false h.1 hr.1, reprJP r h.2 hr.2]
end

/-- round trip (corollary of C07's `eqv` and `equivJ`): the document ToJSONSchema emits for the
    schema FromJSONSchema produced validates exactly the instances of the original document. -/
theorem c11_roundtrip_fx (T : Str → Bool) (st : Bool) (d : J1) (x : Json) (h : good fx d = true) (hr : rt fx d = true)
    (hx : instOK x = true) :
    ∃ s, fromJS fx T st d.doc = .ok s ∧ jsValid (toDoc s) x = jsValid d.doc x :=
  ⟨fromJ1 fx d, conv T st d h, by
    rw [toDoc, eqv (fromJ1 fx d) true false false x (reprJ d true h hr) hx, equivJ d x h hx]⟩

/-- the round trip for the tree the driver runs (`cur`); since 5ed05fc (open objects are passthrough) `rt cur` covers
    OPEN objects too — the class roundtrip:open-object-closed is gone (`witness_roundtrip_open_object` is about the
    legacy flag). -/
theorem c11_roundtrip (T : Str → Bool) (st : Bool) (d : J1) (x : Json) (h : good cur d = true) (hr : rt cur d = true)
    (hx : instOK x = true) :
    ∃ s, fromJS cur T st d.doc = .ok s ∧ jsValid (toDoc s) x = jsValid d.doc x :=
  c11_roundtrip_fx T st d x h hr hx

/-- the excluded region shrank: an open object is in `rt cur`, and was not in `rt` of the legacy tree. -/
example : rt cur (.obj (.cons [97] (.str none none none) .nil) false) = true
    ∧ rt { cur with openObj := false } (.obj (.cons [97] (.str none none none) .nil) false) = false := by decide

example : (good cur (.obj (.cons [97] (.tup (.cons .bool (.cons (.str none (some 2) none) .nil))) .nil) true)
    && rt cur (.obj (.cons [97] (.tup (.cons .bool (.cons (.str none (some 2) none) .nil))) .nil) true)) = true := by decide

/-! ### strict mode -/

/-- if a schema object (without `$ref`) carries a keyword the strict-mode table rejects, the
    strict conversion fails with `unsupported`. -/
theorem c11_strict_rejects_fx (T : Str → Bool) (kws : KwList) (n : Str)
    (href : (collect fx T true kws {}).ref = none) (hn : n ∈ (collect fx T true kws {}).others) (hT : T n = true) :
    ∃ kw, fromJS fx T true (.node kws) = .error (.unsupported kw) := by
  have hsome : ((collect fx T true kws {}).others.find? T).isSome = true := by
    rw [List.find?_isSome]; exact ⟨n, hn, hT⟩
  obtain ⟨kw, hkw⟩ := Option.isSome_iff_exists.1 hsome
  exact ⟨kw, by simp [fromJS, assemble, href, hkw]⟩

/-- the same for the tree the driver runs.  NOTE (AUDIT-B M7): this is about the node that CARRIES the keyword; whether
    an error below the root reaches the caller is `c11_strict_property_*` below. -/
theorem c11_strict_rejects (T : Str → Bool) (kws : KwList) (n : Str)
    (href : (collect cur T true kws {}).ref = none) (hn : n ∈ (collect cur T true kws {}).others) (hT : T n = true) :
    ∃ kw, fromJS cur T true (.node kws) = .error (.unsupported kw) :=
  c11_strict_rejects_fx T kws n href hn hT

/-! #### an unsupported keyword inside a PROPERTY (AUDIT-B M7)

from.go `convertObject` `continue`s on a property whose conversion returned an error, in strict mode too: the keyword was
reached, recognised as unsupported — and the property silently dropped.  /repo 1871965 (proposed by this check as
pending/C11-strict-property-error) returns the error in strict mode (`Fx.strictProp`, true in `cur`). -/

/-- with the patch, an unsupported-keyword error of ANY property reaches `convProps`' caller (no panic before it). -/
theorem convProps_strict (req : List Str) (kw : Str) : (l : List (Str × R)) → (k : Str) → (k, .error (.unsupported kw)) ∈ l →
    ∃ e, convProps true req l = .error e
  | [], _, h => by simp at h
  | (k', r) :: rest, k, h => by
    match r with
    | .error .panic => exact ⟨_, rfl⟩
    | .error (.unsupported kw') => exact ⟨.unsupported kw', by simp [convProps]⟩
    | .ok s =>
      have h' : (k, Except.error (E.unsupported kw)) ∈ rest := by
        simp only [List.mem_cons] at h
        rcases h with h | h
        · cases h
        · exact h
      obtain ⟨e, he⟩ := convProps_strict req kw rest k h'
      exact ⟨e, by simp [convProps, he]⟩

/-- … so the strict conversion of `{type: object, properties: ps, …}` FAILS when the strict conversion of one of its
    properties fails (patched tree; any further keywords of the object). -/
theorem c11_strict_property_fixed (hfx : fx.strictProp = true) (p : Parts) (k kw : Str)
    (kv : Str × R) (kvs : List (Str × R)) (hp : p.properties = some (kv :: kvs))
    (hk : (k, .error (.unsupported kw)) ∈ kv :: kvs) :
    ∃ e, convObject fx (fx.strictProp && true) p = .error e := by
  obtain ⟨e, he⟩ := convProps_strict p.required kw (kv :: kvs) k hk
  exact ⟨e, by simp [convObject, hp, hfx, he]⟩

/-- the LEGACY code (before /repo 1871965): `{type:object, properties:{a:{not:{}}}}` with StrictMode returns ok and the
    schema has NO property `a`; so does `additionalProperties:{not:{}}` next to properties (the catch-all is dropped).
    With the patch (`cur`) both are errors.  (fixed finding strict:property-error-dropped) -/
def okShapeKeys : R → Option (List Str × Bool)
  | .ok (.obj _ ca _ _ sh) => some (sh.keys, ca.isSome)
  | _ => none
def isUnsupported : R → Bool
  | .error (.unsupported _) => true
  | _ => false

/-- the same on the tree the driver runs. -/
theorem c11_strict_property (p : Parts) (k kw : Str) (kv : Str × R) (kvs : List (Str × R))
    (hp : p.properties = some (kv :: kvs)) (hk : (k, .error (.unsupported kw)) ∈ kv :: kvs) :
    ∃ e, convObject cur (cur.strictProp && true) p = .error e :=
  c11_strict_property_fixed (fx := cur) rfl p k kw kv kvs hp hk

theorem witness_strict_property_dropped :
    -- ok, no property `a`
    okShapeKeys (fromJS { cur with strictProp := false } (fun n => n == "not".toList.map Char.toNat) true
        (.node (.ofList [.type .object, .properties (.cons [97] (.node (.ofList [.not (.node .nil)])) .nil)])))
      = some ([], false)
    -- ok, property `a`, NO catch-all
    ∧ okShapeKeys (fromJS { cur with strictProp := false } (fun n => n == "not".toList.map Char.toNat) true
        (.node (.ofList [.type .object, .properties (.cons [97] (.node (.ofList [.type .string])) .nil), .required [[97]],
                         .additionalProperties (.node (.ofList [.not (.node .nil)]))])))
      = some ([[97]], false)
    ∧ isUnsupported (fromJS { cur with strictProp := true } (fun n => n == "not".toList.map Char.toNat) true
        (.node (.ofList [.type .object, .properties (.cons [97] (.node (.ofList [.not (.node .nil)])) .nil)]))) = true
    ∧ isUnsupported (fromJS { cur with strictProp := true } (fun n => n == "not".toList.map Char.toNat) true
        (.node (.ofList [.type .object, .properties (.cons [97] (.node (.ofList [.type .string])) .nil), .required [[97]],
                         .additionalProperties (.node (.ofList [.not (.node .nil)]))]))) = true := by decide

/-- the strict-mode table as the predicate `fromJS` is run with. -/
def tableRejects (n : Str) : Bool :=
  Gen.keywordTable.any (fun r => r.kw.toList.map Char.toNat == n && r.strictRejects)

/-- full: every keyword not documented as supported is rejected in strict mode. -/
def c11_strict_full : Prop := ∀ r ∈ Gen.keywordTable, r.documented = false → r.strictRejects = true

def strictHonest (r : KwRow) : Bool := r.documented || r.strictRejects

/-- known finding (class g): the keywords strict mode silently accepts today. -/
def silentKeywords : List String :=
  ["contentEncoding", "contentMediaType"]

/-- exactly these rows of the regenerated table break the full statement … -/
theorem c11_strict_silent : (Gen.keywordTable.filter (fun r => !strictHonest r)).map (·.kw) = silentKeywords := by
  decide

/-- … so it is false on the pinned code (witness: `contentEncoding`). -/
theorem c11_strict_full_false : ¬ c11_strict_full := by
  intro h
  have := h ⟨"contentEncoding", false, false⟩ (by decide) rfl
  revert this; decide

/-- e.g. `propertyNames`, which the regenerated table says is rejected: strict conversion of
    `{"type":"string","propertyNames":{}}` fails. -/
example : ∃ kw, fromJS cur tableRejects true
    (.node (.ofList [.type .string, .other ("propertyNames".toList.map Char.toNat)])) = .error (.unsupported kw) :=
  c11_strict_rejects tableRejects _ ("propertyNames".toList.map Char.toNat) (by decide) (by decide) (by decide)

/-! ### witnesses: outside `good` (and outside `J1`) the full statement fails -/

/-- `instOK` is needed (AUDIT-B LOW): on a NON-ASCII string `String().Min/Max` count bytes where JSON Schema counts code
    points — `{type:string, maxLength:1}` is valid for "é" and the produced schema rejects it (finding non-ascii-string).
    (The other half of `instOK`, |q| < 2^53, has no witness in this model: `Json.num` is an exact rational, the bound only
    records that the Go side holds float64 values.) -/
theorem witness_instOK_needed :
    good cur (.str none (some 1) none) = true ∧ instOK (.str [233]) = false
    ∧ jsValid (J1.doc (.str none (some 1) none)) (.str [233]) = true
    ∧ acceptsDecoded (fromJ1 cur (.str none (some 1) none)) (.str [233]) = false := by decide


def noRej : Str → Bool := fun _ => false
def st (s : String) : Str := s.toList.map Char.toNat

/-- what the produced schema says about `x` (none = conversion failed). -/
def verdict (fx : Fx) (j : JS) (x : Json) : Option Bool :=
  match fromJS fx noRej false j with
  | .ok s => some (acceptsDecoded s x)
  | .error _ => none

def rtVerdict (fx : Fx) (j : JS) (x : Json) : Option Bool :=
  match fromJS fx noRej false j with
  | .ok s => some (jsValid (toDoc s) x)
  | .error _ => none

def nd (l : List Kw) : JS := .node (.ofList l)

/-- the verdict when integral numbers are handed over as Go `int` (no plain decoding). -/
def verdictInt (fx : Fx) (j : JS) (x : Json) : Option Bool :=
  match fromJS fx noRej false j with
  | .ok s => some (accepts s x)
  | .error _ => none

/-! NOTE (AUDIT-B LOW): the `fixed_…` statements below are TESTS — single `decide`d instances showing the witness document
    judged correctly with the flag on; the general statements are `c11_equiv_partial` / `c11_roundtrip` / `c11_enum` for `cur`.

    Each finding class is witnessed on the tree WITHOUT its patch (`{ cur with <flag> := false }`); where a patch is
    pending (pending/C11-<slug>.diff) the `fixed_…` theorem shows the same document judged correctly WITH it.  Both are
    independent of the value of the flag in `cur`, so landing a patch flips one line of Model/FromJson.lean and nothing here. -/

theorem witness_integer_rejects_numbers :
    verdict cur (nd [.type .integer]) (.num 4) = some false ∧ jsValid (nd [.type .integer]) (.num 4) = true
    ∧ verdict Fx.all (nd [.type .integer]) (.num 4) = some false := by decide

theorem witness_nullable_union :
    verdict { cur with nullUnion := false } (nd [.types [.string, .null]]) .null = some false
    ∧ jsValid (nd [.types [.string, .null]]) .null = true
    ∧ verdict { cur with nullUnion := false } (nd [.anyOf (.cons (nd [.type .string]) (.cons (nd [.type .null]) .nil))]) .null
        = some false := by decide

theorem fixed_nullable_union :
    verdict { cur with nullUnion := true } (nd [.types [.string, .null]]) .null = some true
    ∧ verdict { cur with nullUnion := true } (nd [.anyOf (.cons (nd [.type .string]) (.cons (nd [.type .null]) .nil))]) .null
        = some true
    ∧ verdict { cur with nullUnion := true } (nd [.oneOf (.cons (nd [.type .null]) (.cons (nd [.type .number]) .nil))]) .null
        = some true
    -- exactly one member must admit null: `{}` and `{type: null}` both do
    ∧ verdict { cur with nullUnion := true } (nd [.oneOf (.cons (nd [.type .null]) (.cons (nd []) .nil))]) .null = some false
    ∧ jsValid (nd [.oneOf (.cons (nd [.type .null]) (.cons (nd []) .nil))]) .null = false
    ∧ verdict { cur with nullUnion := true } (nd [.enum [.str [97], .num 4, .null]]) .null = some true := by decide

/-- an Intersection rejects nil before its sides are asked: an allOf whose members all admit null rejects null. -/
theorem witness_nullable_intersection :
    verdict { cur with nullAnd := false } (nd [.allOf (.cons (nd [.type .null]) (.cons (nd []) .nil))]) .null = some false
    ∧ jsValid (nd [.allOf (.cons (nd [.type .null]) (.cons (nd []) .nil))]) .null = true := by decide

theorem fixed_nullable_intersection :
    verdict { cur with nullAnd := true } (nd [.allOf (.cons (nd [.type .null]) (.cons (nd []) .nil))]) .null = some true
    ∧ verdict { cur with nullAnd := true } (nd [.allOf (.cons (nd [.type .null]) (.cons (nd [.type .string]) .nil))]) .null
        = some false := by decide

theorem witness_sibling_keywords_dropped :
    verdict cur (nd [.const (.str [98]), .type .number]) (.str [98]) = some true
    ∧ jsValid (nd [.const (.str [98]), .type .number]) (.str [98]) = false
    ∧ verdict cur (nd [.type .string, .allOf (.cons (nd [.minLength 2]) .nil)]) (.num 4) = some true
    ∧ verdict cur (nd [.ref (nd [.type .string]), .minLength 3]) (.str [109]) = some true
    ∧ verdict Fx.all (nd [.const (.str [98]), .type .number]) (.str [98]) = some true := by decide

theorem witness_keywords_without_type :
    verdict cur (nd [.minLength 2]) (.str [109]) = some true ∧ jsValid (nd [.minLength 2]) (.str [109]) = false
    ∧ verdict Fx.all (nd [.minLength 2]) (.str [109]) = some true := by decide

theorem witness_format_siblings_dropped :
    verdict { cur with fmtSib := false } (nd [.type .string, .minLength 30, .format (st "email") [st "a@b.co"]]) (.str (st "a@b.co"))
        = some true
    ∧ jsValid (nd [.type .string, .minLength 30, .format (st "email") [st "a@b.co"]]) (.str (st "a@b.co")) = false := by
  decide

theorem fixed_format_siblings :
    verdict { cur with fmtSib := true } (nd [.type .string, .minLength 30, .format (st "email") [st "a@b.co"]]) (.str (st "a@b.co"))
        = some false
    ∧ verdict { cur with fmtSib := true } (nd [.type .string, .minLength 3, .format (st "email") [st "a@b.co"]]) (.str (st "a@b.co"))
        = some true := by
  decide

theorem witness_tuple_items_all_required :
    verdict cur (nd [.type .array, .prefixItems (.cons (nd [.type .string]) .nil)]) (.arr .nil) = some false
    ∧ jsValid (nd [.type .array, .prefixItems (.cons (nd [.type .string]) .nil)]) (.arr .nil) = true
    ∧ verdict Fx.all (nd [.type .array, .prefixItems (.cons (nd [.type .string]) .nil)]) (.arr .nil) = some false := by decide

/-- the tail of an open tuple (prefixItems without items): rejected without the patch, accepted with it. -/
theorem witness_tuple_tail_rejected :
    verdict { cur with tupOpen := false } (nd [.type .array, .prefixItems (.cons (nd [.type .string]) .nil)])
        (.arr (.cons (.str [97]) (.cons (.num 4) .nil))) = some false
    ∧ jsValid (nd [.type .array, .prefixItems (.cons (nd [.type .string]) .nil)]) (.arr (.cons (.str [97]) (.cons (.num 4) .nil))) = true := by
  decide

theorem fixed_tuple_open :
    verdict { cur with tupOpen := true } (nd [.type .array, .prefixItems (.cons (nd [.type .string]) .nil)])
        (.arr (.cons (.str [97]) (.cons (.num 4) .nil))) = some true
    -- a tuple closed by maxItems = number of prefixItems stays closed
    ∧ verdict { cur with tupOpen := true } (nd [.type .array, .prefixItems (.cons (nd [.type .string]) .nil), .minItems 1, .maxItems 1])
        (.arr (.cons (.str [97]) (.cons (.num 4) .nil))) = some false := by
  decide

theorem witness_optional_property_accepts_null :
    verdict cur (nd [.type .object, .properties (.cons [97] (nd [.type .string]) .nil)]) (.obj (.cons [97] .null .nil)) = some true
    ∧ jsValid (nd [.type .object, .properties (.cons [97] (nd [.type .string]) .nil)]) (.obj (.cons [97] .null .nil)) = false
    ∧ verdict Fx.all (nd [.type .object, .properties (.cons [97] (nd [.type .string]) .nil)]) (.obj (.cons [97] .null .nil))
        = some true := by
  decide

theorem witness_required_on_record_path :
    verdict { cur with reqAddl := false } (nd [.type .object, .required [[97]], .additionalProperties (.bool true)]) (.obj .nil)
        = some true
    ∧ jsValid (nd [.type .object, .required [[97]], .additionalProperties (.bool true)]) (.obj .nil) = false := by decide

theorem fixed_required_additional :
    verdict { cur with reqAddl := true } (nd [.type .object, .required [[97]], .additionalProperties (.bool true)]) (.obj .nil)
        = some false
    -- a required name outside `properties` is judged by additionalProperties
    ∧ verdict { cur with reqAddl := true }
        (nd [.type .object, .properties (.cons [97] (nd []) .nil), .required [[97], [113]],
             .additionalProperties (nd [.type .number, .minimum 20])])
        (.obj (.cons [97] (.num 4) (.cons [113] (.num 4) .nil))) = some false
    ∧ verdict { cur with reqAddl := false }
        (nd [.type .object, .properties (.cons [97] (nd []) .nil), .required [[97], [113]],
             .additionalProperties (nd [.type .number, .minimum 20])])
        (.obj (.cons [97] (.num 4) (.cons [113] (.num 4) .nil))) = some true := by decide

theorem witness_roundtrip_open_object :
    rtVerdict { cur with openObj := false } (nd [.type .object]) (.obj (.cons [122] (.num 4) .nil)) = some false
    ∧ jsValid (nd [.type .object]) (.obj (.cons [122] (.num 4) .nil)) = true := by decide

theorem fixed_open_object :
    rtVerdict { cur with openObj := true } (nd [.type .object]) (.obj (.cons [122] (.num 4) .nil)) = some true
    ∧ rtVerdict { cur with openObj := true } (nd [.type .object, .properties (.cons [97] (nd [.type .string]) .nil), .required [[97]]])
        (.obj (.cons [97] (.str [120]) (.cons [122] (.num 4) .nil))) = some true := by decide

/-- `{type: integer, minimum: 1.5}` on the Go int 1 (integer-directed verdict): accepted without the patch. -/
theorem witness_integer_bound_truncated :
    verdictInt { cur with intBounds := false } (nd [.type .integer, .minimum 6]) (.num 4) = some true
    ∧ jsValid (nd [.type .integer, .minimum 6]) (.num 4) = false
    ∧ verdictInt { cur with intBounds := false } (nd [.type .integer, .multipleOf 2]) (.num 4) = some false
    ∧ jsValid (nd [.type .integer, .multipleOf 2]) (.num 4) = true := by decide

theorem fixed_integer_bounds :
    verdictInt { cur with intBounds := true } (nd [.type .integer, .minimum 6]) (.num 4) = some false
    ∧ verdictInt { cur with intBounds := true } (nd [.type .integer, .minimum 6]) (.num 8) = some true
    ∧ verdictInt { cur with intBounds := true } (nd [.type .integer, .exclusiveMinimum (-6), .exclusiveMaximum 6]) (.num (-4)) = some true
    ∧ verdictInt { cur with intBounds := true } (nd [.type .integer, .exclusiveMinimum (-6), .exclusiveMaximum 6]) (.num (-8)) = some false
    ∧ verdictInt { cur with intBounds := true } (nd [.type .integer, .multipleOf 2]) (.num 4) = some true
    ∧ verdictInt { cur with intBounds := true } (nd [.type .integer, .multipleOf 6]) (.num 8) = some false
    ∧ verdictInt { cur with intBounds := true } (nd [.type .integer, .multipleOf 6]) (.num 12) = some true := by decide

/-- strict mode does not see an unsupported keyword inside a sibling the dispatch ignores. -/
theorem witness_strict_unreached :
    (match fromJS cur (fun n => n == st "propertyNames") true
      (nd [.allOf (.cons (nd [.type .string]) .nil), .items (nd [.other (st "propertyNames")])]) with
     | .ok _ => true
     | .error _ => false) = true := by decide

theorem c11_full_false : ¬ c11_full := by
  intro h
  obtain ⟨s, hs, he⟩ := h noRej (nd [.type .integer]) (.num 4)
  have hv := witness_integer_rejects_numbers
  simp only [verdict, hs] at hv
  have h1 := hv.1
  have h2 := hv.2.1
  simp_all

end Gozod.C11
